(** * AxiLayoutProofs: all-layout theorems about Models/AxiLayout.v (property C20). *)
From Coq Require Import ZArith List Bool Lia Permutation Sorted.
From Cohdl Require Import Models.AxiSpec Models.AxiLayout.
Import ListNotations.
Local Open Scope Z_scope.

(** ** induction over layout trees (nested through the member list) *)
Section NodeInd.
  Variable P : node -> Prop.
  Hypothesis HL : forall wc k, P (Leaf wc k).
  Hypothesis HF : forall wc ms, Forall (fun m => P (snd m)) ms -> P (File wc ms).
  Hypothesis HA : forall stop step e, P e -> P (Arr stop step e).
  Fixpoint node_ind' (n : node) : P n :=
    match n with
    | Leaf wc k => HL wc k
    | File wc ms =>
        HF wc ms ((fix go (l : list (Z * node)) : Forall (fun m => P (snd m)) l :=
                     match l with
                     | [] => Forall_nil _
                     | m :: r => Forall_cons m (node_ind' (snd m)) (go r)
                     end) ms)
    | Arr stop step e => HA stop step e (node_ind' e)
    end.
End NodeInd.

(** ** sorting *)
Section SortFacts.
  Context {A : Type} (key : A -> Z).

  Lemma insert_by_perm x l : Permutation (insert_by key x l) (x :: l).
  Proof.
    induction l as [|y r IH]; cbn; [apply Permutation_refl|].
    destruct (key x <? key y); [apply Permutation_refl|].
    eapply Permutation_trans; [apply perm_skip; exact IH|apply perm_swap].
  Qed.

  Lemma isort_by_perm l : Permutation (isort_by key l) l.
  Proof.
    induction l as [|x r IH]; cbn; [apply perm_nil|].
    eapply Permutation_trans; [apply insert_by_perm|apply perm_skip; exact IH].
  Qed.

  Lemma isort_by_in l x : In x (isort_by key l) <-> In x l.
  Proof.
    split; apply Permutation_in; [apply isort_by_perm|apply Permutation_sym, isort_by_perm].
  Qed.

  Definition key_sorted (l : list A) : Prop := StronglySorted (fun a b => key a <= key b) l.

  Lemma insert_by_sorted x l : key_sorted l -> key_sorted (insert_by key x l).
  Proof.
    induction l as [|y r IH]; intros H; cbn.
    - constructor; constructor.
    - inversion H as [|? ? Hr Hy]; subst.
      destruct (key x <? key y) eqn:E.
      + apply Z.ltb_lt in E. constructor; [exact H|].
        constructor; [lia|]. eapply Forall_impl; [|exact Hy]. cbn. intros; lia.
      + apply Z.ltb_ge in E. constructor; [apply IH; exact Hr|].
        eapply Permutation_Forall; [apply Permutation_sym, insert_by_perm|].
        constructor; [exact E|exact Hy].
  Qed.

  Lemma isort_by_sorted l : key_sorted (isort_by key l).
  Proof. induction l as [|x r IH]; cbn; [constructor|apply insert_by_sorted; exact IH]. Qed.

  (** a strictly increasing list is left as it is *)
  Fixpoint strict_inc (l : list A) : Prop :=
    match l with
    | a :: r => match r with b :: _ => key a < key b /\ strict_inc r | [] => True end
    | [] => True
    end.

  Lemma isort_by_id l : strict_inc l -> isort_by key l = l.
  Proof.
    induction l as [|x r IH]; intros H; [reflexivity|].
    cbn [isort_by]. destruct r as [|y r']; [reflexivity|].
    destruct H as [H1 H2]. rewrite (IH H2). cbn.
    apply Z.ltb_lt in H1. rewrite H1. reflexivity.
  Qed.
End SortFacts.

(** ** the neighbour check implies pairwise separation *)

Definition sep (a b : obj) : Prop := wo a < wo b /\ wo a + o_wc a <= wo b.

Lemma flat_ok_cons a r : flat_ok (a :: r) = true -> Forall (sep a) r /\ flat_ok r = true.
Proof.
  revert a; induction r as [|b r IH]; intros a H; [split; [constructor|reflexivity]|].
  cbn [flat_ok] in H. apply andb_prop in H as [H H3]. apply andb_prop in H as [H1 H2].
  apply Z.ltb_lt in H1. apply Z.leb_le in H2.
  split; [|exact H3]. constructor; [split; assumption|].
  destruct (IH b H3) as [Hb _]. eapply Forall_impl; [|exact Hb].
  intros c [Hc1 Hc2]. split; lia.
Qed.

Lemma flat_ok_pairs l : flat_ok l = true -> ForallOrdPairs sep l.
Proof.
  induction l as [|a r IH]; intros H; [constructor|].
  destruct (flat_ok_cons a r H) as [H1 H2]. constructor; [exact H1|apply IH; exact H2].
Qed.

Lemma flat_ok_strict l : flat_ok l = true -> strict_inc wo l.
Proof.
  induction l as [|a r IH]; intros H; [exact I|].
  destruct r as [|b r']; [exact I|].
  cbn [flat_ok] in H. apply andb_prop in H as [H H3]. apply andb_prop in H as [H1 _].
  apply Z.ltb_lt in H1. split; [exact H1|apply IH; exact H3].
Qed.

(** ** _contains_addr_: both branches are the range test *)

Definition in_ext (o : obj) (a : Z) : Prop := o_off o <= a < o_off o + o_wc o * stride.

Lemma is_pow2_pos z : is_pow2 z = true -> 0 < z.
Proof. unfold is_pow2. intros H. apply andb_prop in H as [H _]. apply Z.ltb_lt in H. exact H. Qed.

Lemma contains_spec o a : contains o a = true <-> in_ext o a.
Proof.
  unfold contains, in_ext. set (uc := o_wc o * stride).
  destruct (is_pow2 uc && (o_off o mod uc =? 0)) eqn:E.
  - apply andb_prop in E as [E1 E2]. apply is_pow2_pos in E1. apply Z.eqb_eq in E2.
    rewrite Z.eqb_eq.
    pose proof (Z.div_mod (o_off o) uc ltac:(lia)) as D. rewrite E2, Z.add_0_r in D.
    pose proof (Z.div_mod a uc ltac:(lia)) as Da.
    pose proof (Z.mod_pos_bound a uc E1) as Ba.
    split.
    + intros H. rewrite <- H in D. lia.
    + intros H. symmetry. apply (Z.div_unique a uc (o_off o / uc) (a - o_off o)); lia.
  - rewrite andb_true_iff, Z.leb_le, Z.ltb_lt. reflexivity.
Qed.

(** a one-word register at an aligned offset: the two low address bits are ignored *)
Lemma contains_register o a : o_wc o = 1 -> o_off o mod stride = 0 ->
  (contains o a = true <-> stride * (a / stride) = o_off o).
Proof.
  intros Hw Ha. rewrite contains_spec. unfold in_ext, stride in *. rewrite Hw.
  pose proof (Z.div_mod a 4 ltac:(lia)). pose proof (Z.mod_pos_bound a 4 ltac:(lia)).
  pose proof (Z.div_mod (o_off o) 4 ltac:(lia)). lia.
Qed.

(** ** first_hit *)

Lemma first_hit_none l a k : first_hit l a k = None <-> (forall o, In o l -> contains o a = false).
Proof.
  revert k; induction l as [|o r IH]; intros k; cbn.
  - split; [intros _ o []|reflexivity].
  - destruct (contains o a) eqn:E.
    + split; [discriminate|]. intros H. rewrite (H o (or_introl eq_refl)) in E. discriminate.
    + rewrite IH. split.
      * intros H o' [<-|Ho']; [exact E|apply H; exact Ho'].
      * intros H o' Ho'. apply H. right. exact Ho'.
Qed.

Lemma first_hit_some l a k j : first_hit l a k = Some j ->
  exists i o, j = (k + i)%nat /\ nth_error l i = Some o /\ contains o a = true
              /\ (forall i' o', (i' < i)%nat -> nth_error l i' = Some o' -> contains o' a = false).
Proof.
  revert k; induction l as [|o r IH]; intros k H; cbn in H; [discriminate|].
  destruct (contains o a) eqn:E.
  - injection H as <-. exists O, o. repeat split; [lia|exact E|]. intros i' o' Hi. lia.
  - apply IH in H as (i & o1 & -> & Hn & Hc & Hb).
    exists (S i), o1. repeat split; [lia|exact Hn|exact Hc|].
    intros [|i'] o' Hi Hn'; cbn in Hn'; [injection Hn' as <-; exact E|].
    eapply Hb; [|exact Hn']. lia.
Qed.

(** pairwise separated, word-aligned objects: at most one contains an address *)
Definition aligned (l : list obj) : Prop := Forall (fun o => o_off o mod stride = 0) l.

Lemma wo_exact o : o_off o mod stride = 0 -> o_off o = stride * wo o.
Proof. intros H. unfold wo. pose proof (Z.div_mod (o_off o) stride ltac:(unfold stride; lia)). lia. Qed.

Lemma sep_disjoint x y a : o_off x mod stride = 0 -> o_off y mod stride = 0 -> sep x y -> in_ext x a -> in_ext y a -> False.
Proof.
  intros Hx Hy [_ H2] [_ H4] [H5 _].
  rewrite (wo_exact x Hx) in *. rewrite (wo_exact y Hy) in *. unfold stride in *. lia.
Qed.

Lemma pairs_unique l a i j x y : ForallOrdPairs sep l -> aligned l ->
  nth_error l i = Some x -> nth_error l j = Some y -> in_ext x a -> in_ext y a -> i = j.
Proof.
  intros HP HA. revert i j. induction HP as [|z r Hz HP IH]; intros i j Hi Hj Hx Hy.
  - destruct i; discriminate.
  - inversion HA as [|? ? Az Ar]; subst.
    assert (T : forall n w, nth_error r n = Some w -> in_ext z a -> in_ext w a -> False).
    { intros n w Hn Hza Hwa. apply nth_error_In in Hn.
      rewrite Forall_forall in Hz, Ar. eapply (sep_disjoint z w a); eauto. }
    destruct i as [|i], j as [|j]; cbn in Hi, Hj.
    + reflexivity.
    + injection Hi as <-. exfalso. eapply T; eauto.
    + injection Hj as <-. exfalso. eapply T; eauto.
    + f_equal. eapply IH; eauto.
Qed.

Theorem first_hit_iff l a k : flat_ok l = true -> aligned l ->
  (first_hit l a O = Some k <-> exists o, nth_error l k = Some o /\ in_ext o a).
Proof.
  intros Hok Hal. split.
  - intros H. apply first_hit_some in H as (i & o & -> & Hn & Hc & _).
    exists o. split; [exact Hn|apply contains_spec; exact Hc].
  - intros (o & Hn & Hin).
    destruct (first_hit l a O) as [j|] eqn:E.
    + apply first_hit_some in E as (i & o1 & -> & Hn1 & Hc1 & _). cbn.
      apply contains_spec in Hc1. f_equal.
      eapply (pairs_unique l a i k o1 o); eauto. apply flat_ok_pairs; exact Hok.
    + exfalso. rewrite first_hit_none in E. apply nth_error_In in Hn.
      specialize (E o Hn). apply contains_spec in Hin. congruence.
Qed.

(** ** nesting composes *)

Definition shift (d : Z) (o : obj) : obj := mkObj (o_off o + d) (o_wc o) (o_kind o).

Lemma flat_map_ext_in' {A B} (f g : A -> list B) l : Forall (fun x => f x = g x) l -> flat_map f l = flat_map g l.
Proof. induction 1 as [|x r Hx _ IH]; cbn; [reflexivity|rewrite Hx, IH; reflexivity]. Qed.

Lemma map_flat_map {A B C} (h : B -> C) (f : A -> list B) l : map h (flat_map f l) = flat_map (fun x => map h (f x)) l.
Proof. induction l as [|x r IH]; cbn; [reflexivity|rewrite map_app, IH; reflexivity]. Qed.

(** relocating a subtree by [d] relocates every register in it by [d] *)
Theorem flat_shift n : forall base d, flat (base + d) n = map (shift d) (flat base n).
Proof.
  induction n as [wc k|wc ms IH|stop step e IH] using node_ind'; intros base d; cbn [flat].
  - cbn. reflexivity.
  - rewrite map_flat_map. apply flat_map_ext_in'.
    eapply Forall_impl; [|exact IH]. cbn. intros m Hm.
    replace (base + d + fst m) with (base + fst m + d) by lia. apply Hm.
  - rewrite map_flat_map. apply flat_map_ext_in'. apply Forall_forall. intros k _.
    replace (base + d + k) with (base + k + d) by lia. apply IH.
Qed.

Corollary flat_base n base : flat base n = map (shift base) (flat 0 n).
Proof. rewrite <- (flat_shift n 0 base). reflexivity. Qed.

(** a register file placed at [off]: every member's registers move by [off] (regfiles in regfiles, arrays in regfiles) *)
Corollary flat_member wc ms base :
  flat base (File wc ms) = flat_map (fun m => map (shift (fst m)) (flat base (snd m))) ms.
Proof. cbn [flat]. apply flat_map_ext_in'. apply Forall_forall. intros m _. apply flat_shift. Qed.

Corollary flat_array stop step e base :
  flat base (Arr stop step e) = flat_map (fun k => map (shift k) (flat base e)) (arange stop step).
Proof. cbn [flat]. apply flat_map_ext_in'. apply Forall_forall. intros m _. apply flat_shift. Qed.

Lemma arange_in stop step k : In k (arange stop step) <-> exists i, (i < acount stop step)%nat /\ k = Z.of_nat i * step.
Proof.
  unfold arange. rewrite in_map_iff. split.
  - intros (i & <- & Hi). apply in_seq in Hi. exists i. split; [lia|reflexivity].
  - intros (i & Hi & ->). exists i. split; [reflexivity|apply in_seq; lia].
Qed.

(** (i) the absolute offset of a register is the sum of the offsets along its path: every path that resolves to a
    register yields an entry of the flattened map at base + (sum of member offsets and index * step) ... *)
Theorem resolve_sound n : forall p base z wc k, resolve n p = Some (z, wc, k) -> In (mkObj (base + z) wc k) (flat base n).
Proof.
  induction n as [wc0 k0|wc0 ms IH|stop step e IH] using node_ind'; intros p base z wc k H.
  - destruct p; cbn in H; [|discriminate]. injection H as <- <- <-. cbn. left. f_equal. lia.
  - destruct p as [|i q]; cbn [resolve] in H; [discriminate|].
    destruct (nth_error ms i) as [m|] eqn:Em; [|discriminate].
    destruct (resolve (snd m) q) as [[[z1 wc1] k1]|] eqn:Er; [|discriminate].
    injection H as <- <- <-.
    cbn [flat]. apply in_flat_map. exists m. split; [eapply nth_error_In; exact Em|].
    rewrite Forall_forall in IH. specialize (IH m (nth_error_In _ _ Em) q (base + fst m) z1 wc1 k1 Er).
    replace (base + (fst m + z1)) with (base + fst m + z1) by lia. exact IH.
  - destruct p as [|i q]; cbn [resolve] in H; [discriminate|].
    destruct (i <? acount stop step)%nat eqn:Ei; [|discriminate]. apply Nat.ltb_lt in Ei.
    destruct (resolve e q) as [[[z1 wc1] k1]|] eqn:Er; [|discriminate].
    injection H as <- <- <-.
    cbn [flat]. apply in_flat_map. exists (Z.of_nat i * step). split; [apply arange_in; exists i; split; [exact Ei|reflexivity]|].
    specialize (IH q (base + Z.of_nat i * step) z1 wc1 k1 Er).
    replace (base + (Z.of_nat i * step + z1)) with (base + Z.of_nat i * step + z1) by lia. exact IH.
Qed.

(** ... and every entry of the flattened map is reached by such a path *)
Theorem resolve_complete n : forall base o, In o (flat base n) ->
  exists p, resolve n p = Some (o_off o - base, o_wc o, o_kind o).
Proof.
  induction n as [wc0 k0|wc0 ms IH|stop step e IH] using node_ind'; intros base o H.
  - cbn in H. destruct H as [<-|[]]. exists []. cbn. f_equal. f_equal. f_equal. lia.
  - cbn [flat] in H. apply in_flat_map in H as (m & Hm & Ho).
    rewrite Forall_forall in IH. destruct (IH m Hm _ _ Ho) as (q & Hq).
    destruct (In_nth_error _ _ Hm) as (i & Hi).
    exists (i :: q). cbn [resolve]. rewrite Hi, Hq. f_equal. f_equal. f_equal. lia.
  - cbn [flat] in H. apply in_flat_map in H as (k & Hk & Ho).
    apply arange_in in Hk as (i & Hi & ->).
    destruct (IH _ _ Ho) as (q & Hq).
    exists (i :: q). cbn [resolve]. apply Nat.ltb_lt in Hi. rewrite Hi, Hq. f_equal. f_equal. f_equal. lia.
Qed.

(** ** what [local_ok] gives: every flattened register is word aligned *)
Lemma local_ok_aligned n : forall base, local_ok n = true -> base mod stride = 0 -> aligned (flat base n).
Proof.
  unfold aligned.
  induction n as [wc0 k0|wc0 ms IH|stop step e IH] using node_ind'; intros base H Hb.
  - cbn. constructor; [exact Hb|constructor].
  - cbn [local_ok] in H. apply andb_prop in H as [_ H]. rewrite forallb_forall in H.
    cbn [flat]. apply Forall_forall. intros o Ho. apply in_flat_map in Ho as (m & Hm & Ho).
    rewrite Forall_forall in IH. specialize (H m Hm).
    apply andb_prop in H as [H H4]. apply andb_prop in H as [H _]. apply andb_prop in H as [H1 _].
    apply Z.eqb_eq in H1.
    specialize (IH m Hm (base + fst m) H4). rewrite Forall_forall in IH. apply IH; [|exact Ho].
    unfold stride in *. rewrite Z.add_mod, Hb, H1 by lia. reflexivity.
  - cbn [local_ok] in H. apply andb_prop in H as [H H4]. apply andb_prop in H as [_ H3].
    rewrite forallb_forall in H3.
    cbn [flat]. apply Forall_forall. intros o Ho. apply in_flat_map in Ho as (k & Hk & Ho).
    specialize (H3 k Hk). apply Z.eqb_eq in H3.
    specialize (IH (base + k) H4). rewrite Forall_forall in IH. apply IH; [|exact Ho].
    unfold stride in *. rewrite Z.add_mod, Hb, H3 by lia. reflexivity.
Qed.

Lemma accepted_inv root : accepted root = true -> local_ok root = true /\ flat_ok (regs root) = true /\ aligned (regs root).
Proof.
  intros H. destruct root as [| wc ms |]; try discriminate. unfold accepted in H.
  apply andb_prop in H as [H1 H2]. split; [exact H1|split; [exact H2|]].
  unfold regs, aligned. eapply Permutation_Forall; [apply Permutation_sym, isort_by_perm|].
  apply (local_ok_aligned _ 0 H1). reflexivity.
Qed.

(** ** (ii) no two registers of an accepted map share an address *)
Theorem accepted_disjoint root a i j x y : accepted root = true ->
  nth_error (regs root) i = Some x -> nth_error (regs root) j = Some y -> in_ext x a -> in_ext y a -> i = j.
Proof.
  intros H. destruct (accepted_inv root H) as (_ & H2 & H3).
  apply pairs_unique; [apply flat_ok_pairs; exact H2|exact H3].
Qed.

Lemma strict_inc_nodup {A} (key : A -> Z) l : strict_inc key l -> NoDup (map key l).
Proof.
  intros H. assert (G : StronglySorted (fun a b => a < b) (map key l)).
  { induction l as [|a r IH]; cbn; [constructor|].
    assert (Hr : strict_inc key r) by (destruct r; [exact I|apply H]).
    specialize (IH Hr). constructor; [exact IH|].
    destruct r as [|b r']; [constructor|]. destruct H as [H1 _].
    cbn in *. inversion IH as [|? ? _ Hb]; subst. constructor; [exact H1|].
    eapply Forall_impl; [|exact Hb]. cbn. intros; lia. }
  clear H. induction G as [|x r _ IH Hx]; constructor; [|exact IH].
  intros Hin. rewrite Forall_forall in Hx. specialize (Hx x Hin). lia.
Qed.

Theorem accepted_offsets_nodup root : accepted root = true -> NoDup (offsets_of root).
Proof.
  intros H. destruct (accepted_inv root H) as (_ & H2 & H3).
  apply flat_ok_strict, (strict_inc_nodup wo) in H2.
  unfold offsets_of. revert H2 H3. unfold aligned. generalize (regs root) as l.
  induction l as [|a r IH]; cbn; intros HN HA; [constructor|].
  inversion HN as [|? ? Hn HN']; subst. inversion HA as [|? ? Ha HA']; subst.
  constructor; [|apply IH; assumption].
  intros Hin. apply Hn. apply in_map_iff in Hin as (b & Hb & Hin). apply in_map_iff. exists b. split; [|exact Hin].
  unfold wo. rewrite Hb. reflexivity.
Qed.

(** the registers of the sorted list are exactly the registers of the traversal *)
Lemma regs_in root o : In o (regs root) <-> In o (flat 0 root).
Proof. apply isort_by_in. Qed.

(** ** (iii) decode *)
Theorem decode_some_iff root a k : accepted root = true ->
  (decode root a = Some k <-> exists o, nth_error (regs root) k = Some o /\ in_ext o a).
Proof.
  intros H. destruct (accepted_inv root H) as (_ & H2 & H3). apply first_hit_iff; assumption.
Qed.

Theorem decode_none_iff root a : decode root a = None <-> (forall o, In o (regs root) -> ~ in_ext o a).
Proof.
  unfold decode. rewrite first_hit_none. split; intros H o Ho.
  - intros Hc. apply contains_spec in Hc. rewrite (H o Ho) in Hc. discriminate.
  - destruct (contains o a) eqn:E; [|reflexivity]. apply contains_spec in E. exfalso. exact (H o Ho E).
Qed.

(** for one-word registers: the address with its two low bits dropped is the absolute offset *)
Theorem decode_register_iff root a k : accepted root = true -> Forall (fun o => o_wc o = 1) (regs root) ->
  (decode root a = Some k <-> nth_error (offsets_of root) k = Some (stride * (a / stride))).
Proof.
  intros H H1. destruct (accepted_inv root H) as (_ & _ & H3).
  rewrite (decode_some_iff root a k H). unfold offsets_of. rewrite nth_error_map.
  rewrite Forall_forall in H1. unfold aligned in H3. rewrite Forall_forall in H3. split.
  - intros (o & Hn & Hin). rewrite Hn. cbn [option_map]. f_equal.
    pose proof (nth_error_In _ _ Hn) as Ho.
    apply contains_spec, (contains_register o a (H1 o Ho) (H3 o Ho)) in Hin. symmetry. exact Hin.
  - destruct (nth_error (regs root) k) as [o|] eqn:Hn; cbn [option_map]; [|discriminate].
    intros E. injection E as E. exists o. split; [reflexivity|].
    pose proof (nth_error_In _ _ Hn) as Ho.
    apply contains_spec, (contains_register o a (H1 o Ho) (H3 o Ho)). symmetry. exact E.
Qed.

(** the decode of the explored monitor (AxiSpec.reg_at over the offsets) is this decode *)
Lemma reg_at_first_hit l a s : Forall (fun o => o_wc o = 1) l -> aligned l ->
  reg_at (map o_off l) a s = first_hit l a s.
Proof.
  revert s; induction l as [|o r IH]; intros s H1 H2; cbn; [reflexivity|].
  inversion H1 as [|? ? Ho H1']; subst. inversion H2 as [|? ? Ao H2']; subst.
  rewrite (IH (S s) H1' H2').
  destruct (contains o a) eqn:E.
  - apply (contains_register o a Ho Ao) in E.
    replace (a / 4 =? o_off o / 4) with true; [reflexivity|].
    symmetry. apply Z.eqb_eq. unfold stride in *. rewrite <- E.
    rewrite Z.mul_comm, Z.div_mul by lia. reflexivity.
  - destruct (a / 4 =? o_off o / 4) eqn:E2; [|reflexivity].
    apply Z.eqb_eq in E2. exfalso.
    assert (C : contains o a = true); [|congruence].
    apply (contains_register o a Ho Ao). unfold stride in *. rewrite E2.
    pose proof (Z.div_mod (o_off o) 4 ltac:(lia)). lia.
Qed.

Theorem monitor_decode_agrees root a : accepted root = true -> Forall (fun o => o_wc o = 1) (regs root) ->
  reg_at (offsets_of root) a O = decode root a.
Proof.
  intros H H1. destruct (accepted_inv root H) as (_ & _ & H3). apply reg_at_first_hit; assumption.
Qed.

(** ** (iv) write mask and field layout *)

Definition in_range (f : field) (i : Z) : bool := (f_off f <=? i) && (i <? f_off f + f_width f).

Definition field_wf (f : field) : Prop := 0 <= f_off f /\ 1 <= f_width f /\ f_off f + f_width f <= 32.

Lemma fmask_spec f i : 0 <= f_off f -> 0 <= f_width f -> 0 <= i -> Z.testbit (fmask f) i = in_range f i.
Proof.
  intros Ho Hw Hi. unfold fmask, in_range. rewrite Z.shiftl_spec by exact Hi.
  rewrite Z.testbit_ones by exact Hw.
  destruct (f_off f <=? i) eqn:E1; destruct (0 <=? i - f_off f) eqn:E2;
    destruct (i - f_off f <? f_width f) eqn:E3; destruct (i <? f_off f + f_width f) eqn:E4; try reflexivity;
    repeat match goal with
           | H : (_ <=? _) = true |- _ => apply Z.leb_le in H
           | H : (_ <=? _) = false |- _ => apply Z.leb_gt in H
           | H : (_ <? _) = true |- _ => apply Z.ltb_lt in H
           | H : (_ <? _) = false |- _ => apply Z.ltb_ge in H
           end; lia.
Qed.

Lemma field_bits_spec f x i : 0 <= f_off f -> 0 <= f_width f -> 0 <= i ->
  Z.testbit (field_bits f x) i = in_range f i && Z.testbit x i.
Proof.
  intros Ho Hw Hi. unfold field_bits.
  replace (Z.land (Z.shiftr x (f_off f)) (Z.ones (f_width f))) with (Z.land (Z.ones (f_width f)) (Z.shiftr x (f_off f))) by apply Z.land_comm.
  rewrite Z.shiftl_land. rewrite Z.land_spec. fold (fmask f). rewrite (fmask_spec f i Ho Hw Hi).
  unfold in_range. destruct (f_off f <=? i) eqn:E1; [|reflexivity]. apply Z.leb_le in E1.
  rewrite Z.shiftl_spec by exact Hi. rewrite Z.shiftr_spec by lia.
  replace (i - f_off f + f_off f) with i by lia. reflexivity.
Qed.

Lemma fold_lor_spec {A} (g : A -> Z) l i :
  Z.testbit (fold_right (fun f acc => Z.lor (g f) acc) 0 l) i = existsb (fun f => Z.testbit (g f) i) l.
Proof. induction l as [|f r IH]; cbn; [apply Z.bits_0|rewrite Z.lor_spec, IH; reflexivity]. Qed.

Lemma existsb_perm {A} (p : A -> bool) l l' : Permutation l l' -> existsb p l = existsb p l'.
Proof.
  induction 1 as [|x l l' _ IH|x y l|l l' l'' _ IH1 _ IH2]; cbn.
  - reflexivity.
  - rewrite IH. reflexivity.
  - destruct (p x), (p y); reflexivity.
  - congruence.
Qed.

Lemma existsb_ext_in {A} (p q : A -> bool) l : (forall x, In x l -> p x = q x) -> existsb p l = existsb q l.
Proof.
  induction l as [|x r IH]; intros H; cbn; [reflexivity|].
  rewrite (H x (or_introl eq_refl)), IH; [reflexivity|]. intros y Hy. apply H. right. exact Hy.
Qed.

(** what Register.__init_subclass__ enforces: every field is inside the word and two fields never overlap *)
Lemma layout_ok_inv offset fs : Forall (fun f => 1 <= f_width f) fs -> layout_ok offset fs = true ->
  Forall (fun f => offset <= f_off f /\ f_off f + f_width f <= 32) fs
  /\ ForallOrdPairs (fun f g => f_off f + f_width f <= f_off g) fs.
Proof.
  revert offset; induction fs as [|f r IH]; intros offset Hw H; [split; constructor|].
  inversion Hw as [|? ? Hf Hw']; subst.
  cbn [layout_ok] in H. apply andb_prop in H as [H H3]. apply andb_prop in H as [H1 H2].
  apply Z.leb_le in H1. apply Z.leb_le in H2.
  destruct (IH _ Hw' H3) as [G1 G2]. split.
  - constructor; [lia|]. eapply Forall_impl; [|exact G1]. cbn. intros; lia.
  - constructor; [|exact G2]. eapply Forall_impl; [|exact G1]. cbn. intros; lia.
Qed.

Lemma fields_ok_inv fs : fields_ok fs = true ->
  Forall field_wf (sorted_fields fs) /\ ForallOrdPairs (fun f g => f_off f + f_width f <= f_off g) (sorted_fields fs).
Proof.
  unfold fields_ok. intros H. apply andb_prop in H as [H1 H2].
  assert (Hw : Forall (fun f => 1 <= f_width f) (sorted_fields fs)).
  { eapply Permutation_Forall; [apply Permutation_sym, isort_by_perm|].
    apply Forall_forall. intros f Hf. rewrite forallb_forall in H1. specialize (H1 f Hf). apply Z.leb_le in H1. exact H1. }
  destruct (layout_ok_inv 0 _ Hw H2) as [G1 G2]. split; [|exact G2].
  rewrite Forall_forall in *. intros f Hf. specialize (G1 f Hf). specialize (Hw f Hf). unfold field_wf. lia.
Qed.

Theorem fields_ok_wf fs f : fields_ok fs = true -> In f fs -> field_wf f.
Proof.
  intros H Hf. destruct (fields_ok_inv fs H) as [G _]. rewrite Forall_forall in G. apply G.
  apply isort_by_in. exact Hf.
Qed.

(** at most one field of the list covers bit [i] *)
Fixpoint amo (i : Z) (l : list field) : Prop :=
  match l with
  | [] => True
  | f :: r => (in_range f i = true -> forallb (fun g => negb (in_range g i)) r = true) /\ amo i r
  end.

Lemma pairs_amo i l : ForallOrdPairs (fun f g => f_off f + f_width f <= f_off g) l -> amo i l.
Proof.
  induction 1 as [|f r Hf _ IH]; cbn; [exact I|]. split; [|exact IH].
  intros Hr. apply forallb_forall. intros g Hg. rewrite Forall_forall in Hf. specialize (Hf g Hg).
  unfold in_range in *. apply andb_prop in Hr as [_ Hr]. apply Z.ltb_lt in Hr.
  destruct (f_off g <=? i) eqn:E; [|reflexivity]. apply Z.leb_le in E. lia.
Qed.

Lemma filter_perm {A} (p : A -> bool) l l' : Permutation l l' -> Permutation (filter p l) (filter p l').
Proof.
  induction 1 as [|x l l' _ IH|x y l|l l' l'' _ IH1 _ IH2]; cbn.
  - constructor.
  - destruct (p x); [apply perm_skip|]; exact IH.
  - destruct (p x), (p y); try apply Permutation_refl. apply perm_swap.
  - eapply Permutation_trans; eassumption.
Qed.

(** fields of one register are disjoint: no bit belongs to two fields *)
Theorem fields_disjoint fs i : fields_ok fs = true -> (length (filter (fun f => in_range f i) fs) <= 1)%nat.
Proof.
  intros H. destruct (fields_ok_inv fs H) as [_ G]. apply (pairs_amo i) in G.
  assert (E : length (filter (fun f => in_range f i) fs) = length (filter (fun f => in_range f i) (sorted_fields fs))).
  { apply Permutation_length, filter_perm, Permutation_sym, isort_by_perm. }
  rewrite E. clear E. revert G. generalize (sorted_fields fs) as l.
  induction l as [|f r IH]; intros G; cbn; [lia|]. destruct G as [G1 G2].
  destruct (in_range f i) eqn:Ef; [|apply IH; exact G2].
  specialize (G1 eq_refl). cbn.
  replace (filter (fun f0 => in_range f0 i) r) with (@nil field); [cbn; lia|].
  symmetry. clear IH G2. induction r as [|g r IHr]; [reflexivity|]. cbn in *.
  apply andb_prop in G1 as [Hg Hr]. destruct (in_range g i); [discriminate|]. apply IHr. exact Hr.
Qed.

(** the write mask is exactly the union of the bit ranges of the software-writable (Mem..) fields *)
Theorem wmask_spec fs i : (forall f, In f fs -> 0 <= f_off f /\ 0 <= f_width f) -> 0 <= i ->
  Z.testbit (wmask (RRegister fs)) i = existsb (fun f => is_mem (f_kind f) && in_range f i) fs.
Proof.
  intros H Hi. cbn [wmask]. induction fs as [|f r IH]; cbn; [apply Z.bits_0|].
  assert (Hr : forall g, In g r -> 0 <= f_off g /\ 0 <= f_width g) by (intros g Hg; apply H; right; exact Hg).
  destruct (H f (or_introl eq_refl)) as [Ho Hw].
  destruct (is_mem (f_kind f)); cbn; [|apply IH; exact Hr].
  rewrite Z.lor_spec, (fmask_spec f i Ho Hw Hi), (IH Hr). reflexivity.
Qed.

Theorem rmask_spec fs i : (forall f, In f fs -> 0 <= f_off f /\ 0 <= f_width f) -> 0 <= i ->
  Z.testbit (rmask (RRegister fs)) i = existsb (fun f => in_range f i) fs.
Proof.
  intros H Hi. cbn [rmask]. rewrite fold_lor_spec. apply existsb_ext_in. intros f Hf.
  destruct (H f Hf). apply fmask_spec; assumption.
Qed.

Lemma amo_write i l (tm to : bool) : amo i l ->
  existsb (fun f => in_range f i && (if is_mem (f_kind f) then tm else to)) l
  = if existsb (fun f => is_mem (f_kind f) && in_range f i) l then tm else existsb (fun f => in_range f i) l && to.
Proof.
  induction l as [|f r IH]; intros H; cbn; [reflexivity|]. destruct H as [H1 H2].
  destruct (in_range f i) eqn:Ef.
  - specialize (H1 eq_refl).
    assert (N : forall q : field -> bool, existsb (fun g => q g && in_range g i) r = false /\ existsb (fun g => in_range g i && q g) r = false).
    { intros q. clear IH H2. induction r as [|g r IHr]; [split; reflexivity|]. cbn in *.
      apply andb_prop in H1 as [Hg Hr]. destruct (in_range g i); [discriminate|]. rewrite andb_false_r. cbn. apply IHr. exact Hr. }
    destruct (N (fun g => is_mem (f_kind g))) as [N1 _].
    destruct (N (fun g => if is_mem (f_kind g) then tm else to)) as [_ N2].
    rewrite N1, N2. cbn. destruct (is_mem (f_kind f)); cbn; [rewrite orb_false_r; reflexivity|].
    rewrite orb_false_r. reflexivity.
  - cbn. rewrite andb_false_r. cbn. apply IH. exact H2.
Qed.

(** the register after a write, bit by bit: a bit of a software-writable field takes the merged value, a bit of
    another field keeps its value, a padding bit reads zero *)
Theorem reg_write_spec fs old merged i : fields_ok fs = true -> 0 <= i ->
  Z.testbit (reg_write (RRegister fs) old merged) i
  = if Z.testbit (wmask (RRegister fs)) i then Z.testbit merged i
    else Z.testbit (rmask (RRegister fs)) i && Z.testbit old i.
Proof.
  intros H Hi.
  assert (W : forall f, In f fs -> 0 <= f_off f /\ 0 <= f_width f).
  { intros f Hf. destruct (fields_ok_wf fs f H Hf) as (? & ? & ?). lia. }
  rewrite (wmask_spec fs i W Hi), (rmask_spec fs i W Hi).
  rewrite (existsb_perm _ _ _ (Permutation_sym (isort_by_perm f_off fs))).
  rewrite (existsb_perm (fun f => in_range f i) _ _ (Permutation_sym (isort_by_perm f_off fs))).
  fold (sorted_fields fs). destruct (fields_ok_inv fs H) as [G1 G2].
  cbn [reg_write]. rewrite fold_lor_spec.
  rewrite <- (amo_write i (sorted_fields fs) (Z.testbit merged i) (Z.testbit old i) (pairs_amo i _ G2)).
  apply existsb_ext_in. intros f Hf. rewrite Forall_forall in G1. destruct (G1 f Hf) as (Ho & Hw & _).
  rewrite field_bits_spec by lia. destruct (is_mem (f_kind f)); reflexivity.
Qed.

(** ** (v) byte strobes *)
Lemma merged_word_bit old data strb i : 0 <= i < 32 ->
  Z.testbit (merged_word old data strb) i = if Z.testbit strb (i / 8) then Z.testbit data i else Z.testbit old i.
Proof.
  intros Hi. unfold merged_word, apply_mask. rewrite Z.lor_spec, Z.ldiff_spec, Z.land_spec, (byte_mask_bit _ _ Hi).
  destruct (Z.testbit strb (i / 8)), (Z.testbit old i), (Z.testbit data i); reflexivity.
Qed.

Lemma merged_word_bit_out old data strb i : i < 0 \/ 32 <= i -> Z.testbit (merged_word old data strb) i = Z.testbit old i.
Proof.
  intros Hi. unfold merged_word, apply_mask. rewrite Z.lor_spec, Z.ldiff_spec, Z.land_spec, (byte_mask_bit_out _ _ Hi).
  cbn. rewrite andb_false_r, orb_false_r, andb_true_r. reflexivity.
Qed.

Lemma merged_word_is_strobe_merge old data strb : merged_word old data strb = strobe_merge old data strb.
Proof.
  apply Z.bits_inj'. intros i Hi. destruct (Z_lt_dec i 32) as [L|L].
  - rewrite merged_word_bit, strobe_merge_bit by lia. reflexivity.
  - rewrite merged_word_bit_out, strobe_merge_bit_out by lia. reflexivity.
Qed.

Lemma existsb_false {A} (p : A -> bool) l : (forall x, In x l -> p x = false) -> existsb p l = false.
Proof.
  induction l as [|x r IH]; intros H; cbn; [reflexivity|].
  rewrite (H x (or_introl eq_refl)), IH; [reflexivity|]. intros y Hy. apply H. right. exact Hy.
Qed.

Lemma wmask_other_bits k i : kind_ok k = true -> 32 <= i -> Z.testbit (wmask k) i = false /\ Z.testbit (rmask k) i = false.
Proof.
  intros H Hi. destruct k as [| |fs|]; cbn [wmask rmask].
  - split; [apply Z.bits_0|change all32 with (Z.ones 32); apply Z.ones_spec_high; lia].
  - split; change all32 with (Z.ones 32); apply Z.ones_spec_high; lia.
  - cbn in H.
    assert (W : forall f, In f fs -> 0 <= f_off f /\ 0 <= f_width f).
    { intros f Hf. destruct (fields_ok_wf fs f H Hf) as (? & ? & ?). lia. }
    assert (N : forall f, In f fs -> in_range f i = false).
    { intros f Hf. destruct (fields_ok_wf fs f H Hf) as (? & ? & ?). unfold in_range.
      destruct (i <? f_off f + f_width f) eqn:E; [apply Z.ltb_lt in E; lia|apply andb_false_r]. }
    fold (wmask (RRegister fs)). fold (rmask (RRegister fs)).
    rewrite wmask_spec, rmask_spec by (try exact W; lia).
    split; apply existsb_false; intros f Hf; rewrite (N f Hf); [apply andb_false_r|reflexivity].
  - split; [apply Z.bits_0|change all32 with (Z.ones 32); apply Z.ones_spec_high; lia].
Qed.

(** a bus write changes exactly the strobed bytes inside the write mask, to the written data;
    every other bit of a field keeps its value (padding reads zero) *)
Theorem bus_write_spec k old data strb i : kind_ok k = true -> 0 <= i < 32 ->
  Z.testbit (bus_write k old data strb) i
  = if Z.testbit strb (i / 8) && Z.testbit (wmask k) i then Z.testbit data i
    else Z.testbit (rmask k) i && Z.testbit old i.
Proof.
  intros H Hi. unfold bus_write. destruct k as [| |fs|].
  - cbn [reg_write wmask rmask]. rewrite Z.bits_0, andb_false_r, all32_bit by exact Hi. reflexivity.
  - cbn [reg_write wmask rmask]. rewrite merged_word_bit, !all32_bit, andb_true_r by exact Hi. reflexivity.
  - rewrite reg_write_spec by (try exact H; lia). rewrite merged_word_bit by exact Hi.
    destruct (Z.testbit (wmask (RRegister fs)) i) eqn:E.
    + rewrite andb_true_r. destruct (Z.testbit strb (i / 8)); [reflexivity|].
      (* a writable bit is a field bit *)
      assert (R : Z.testbit (rmask (RRegister fs)) i = true); [|rewrite R; reflexivity].
      assert (W : forall f, In f fs -> 0 <= f_off f /\ 0 <= f_width f).
      { intros f Hf. destruct (fields_ok_wf fs f H Hf) as (? & ? & ?). lia. }
      rewrite wmask_spec in E by (try exact W; lia). rewrite rmask_spec by (try exact W; lia).
      apply existsb_exists in E as (f & Hf & Ef). apply existsb_exists. exists f. split; [exact Hf|].
      apply andb_prop in Ef as [_ Ef]. exact Ef.
    + rewrite andb_false_r. reflexivity.
  - cbn [reg_write wmask rmask]. rewrite Z.bits_0, andb_false_r, all32_bit by exact Hi. reflexivity.
Qed.

(** ** the all-layout write is the reference write of the explored monitor *)

(** [old] has no bit outside the fields of the register (padding reads zero) *)
Definition no_padding (k : rkind) (old : Z) : Prop := Z.land old (rmask k) = old.

Theorem bus_write_is_merge_masked k old data strb : kind_ok k = true -> no_padding k old ->
  bus_write k old data strb = merge_masked old data strb (wmask k).
Proof.
  intros H Hp. apply Z.bits_inj'. intros i Hi.
  assert (P : Z.testbit old i = Z.testbit (rmask k) i && Z.testbit old i).
  { unfold no_padding in Hp. rewrite <- Hp at 1. rewrite Z.land_spec. apply andb_comm. }
  destruct (Z_lt_dec i 32) as [L|L].
  - rewrite bus_write_spec, merge_masked_bit by (try exact H; lia). rewrite <- P. reflexivity.
  - rewrite merge_masked_bit_out by lia.
    destruct (wmask_other_bits k i H ltac:(lia)) as [W R].
    unfold bus_write. destruct k as [| |fs|].
    + reflexivity.
    + cbn [reg_write]. apply merged_word_bit_out. lia.
    + rewrite reg_write_spec by (try exact H; lia). rewrite W, R, P, R. reflexivity.
    + reflexivity.
Qed.

Lemma first_hit_lt l a s k : first_hit l a s = Some k -> (k - s < length l)%nat /\ (s <= k)%nat.
Proof.
  intros H. apply first_hit_some in H as (i & o & -> & Hn & _).
  split; [|lia]. replace (s + i - s)%nat with i by lia. apply nth_error_Some. congruence.
Qed.

Theorem map_write_is_ref_write root st a data strb :
  accepted root = true -> Forall (fun o => o_wc o = 1) (regs root) ->
  Forall (fun o => kind_ok (o_kind o) = true) (regs root) ->
  (forall k o, nth_error (regs root) k = Some o -> no_padding (o_kind o) (nth k st 0)) ->
  map_write root st a data strb = ref_write (offsets_of root) (wmasks_of root) st a data strb.
Proof.
  intros H H1 Hk Hp. unfold map_write, ref_write. rewrite (monitor_decode_agrees root a H H1).
  destruct (decode root a) as [k|] eqn:E; [|reflexivity].
  unfold decode in E. pose proof (first_hit_lt _ _ _ _ E) as [L _]. rewrite Nat.sub_0_r in L.
  f_equal. unfold wmasks_of.
  rewrite (nth_indep (map _ _) all32 (wmask (o_kind (mkObj 0 0 RWord)))) by (rewrite map_length; exact L).
  rewrite (map_nth (fun o => wmask (o_kind o))).
  destruct (nth_error (regs root) k) as [o|] eqn:En; [|apply nth_error_None in En; lia].
  rewrite (nth_error_nth _ _ _ En).
  apply bus_write_is_merge_masked.
  - rewrite Forall_forall in Hk. apply Hk. eapply nth_error_In; exact En.
  - apply Hp. exact En.
Qed.
