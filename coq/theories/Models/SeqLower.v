(** * SeqLower: a Gallina model of how CoHDL renders the body of a clocked sequential
    context to VHDL statements (C03, all-programs theorem).

    Anchors in the current /repo tree:
    - cohdl/std/_context.py:501-512  [std.sequential(std.Clock(clk))] wraps the body as
        [sensitivity.list(clk); if trigger: if step_cond(): reset_pushed(); fn()]
      which the backend prints as  [process(clk) begin if rising_edge(clk) then ... end if; end process]
    - cohdl/_core/_ir/_repr.py:1586-1622 (class SequentialContext: `pushed` collected at 1586-1591, the replacement at 1615-1622)  [reset_pushed()] is replaced by one
      [SignalAssignment(sig, sig.default())] per signal that the context accesses with PUSH;
    - output ports that are read or driven from a process are buffered
      ([signal buffer_q0 ... ; q0 <= buffer_q0;], emitted "CONCURRENT BLOCK (buffer assignment)");
    - [<<=] and [^=] are printed as signal assignments, [@=] as a variable assignment,
      if/elif/else as nested [if .. then .. else .. end if] (never elsif);
    - operators are printed as the numeric_std / std_logic_1164 operators [+ - and or xor not = /= <],
      a comparison yields a VHDL boolean ([cohdl_bool_to_std_logic] when stored in a Bit,
      [x = '1'] when a Bit is used as condition), an if-expression is printed as
      [case c is when true => temp := a; when others => temp := b; end case;] with BOTH
      operands evaluated before the case (eager).

    The backend introduces a process variable for almost every sub-expression; this model keeps
    expressions nested and introduces a temporary only where VHDL-93 has no expression form
    (the if-expression).  The tie to the real compiler is behavioural (harness/c03_lower.py:
    emitted design against [lower_design], all input sequences, kernel checked per case).

    Differences from the emitted text that do not change behaviour: constants used as operands
    of an arithmetic or relational operator are printed as integer literals (the backend prints
    [unsigned'("11")] for [Unsigned[2](3)] and [3] for the Python int 3: numeric_std gives the
    same result for both as long as the value fits, which the typing predicate demands). *)
From Coq Require Import ZArith NArith PArith List Bool Lia.
From Cohdl Require Import Base.Bits Vhdl.Value Vhdl.NumStd Vhdl.Syntax Vhdl.Sem Equiv.RefTS Models.SeqRef.
Import ListNotations.
Local Open Scope Z_scope.

(** types of expressions as the backend sees them *)
Inductive ety := EBit | EBool | EU (w : N) | EV (w : N) | EInt | EBad.

Definition ety_eqb (a b : ety) : bool :=
  match a, b with
  | EBit, EBit | EBool, EBool | EInt, EInt | EBad, EBad => true
  | EU w, EU w' | EV w, EV w' => (w =? w')%N
  | _, _ => false
  end.

Definition of_sty (t : sty) : ety := match t with SBit => EBit | SUns w => EU w | SSlv w => EV w end.

(** the VHDL value that represents the reference integer [z] at type [t] *)
Definition ence (t : ety) (z : Z) : value :=
  match t with
  | EBit => VL (negb (z =? 0))
  | EBool => VB (negb (z =? 0))
  | EU w => VV KUns w z
  | EV w => VV KSlv w z
  | EInt | EBad => VI z
  end.
Definition encs (t : sty) (z : Z) : value := ence (of_sty t) z.

Definition zokb (t : ety) (z : Z) : bool :=
  match t with
  | EBit | EBool => (z =? 0) || (z =? 1)
  | EU w | EV w => (0 <=? z) && (z <? pow2 w)
  | EInt => nat_ok z
  | EBad => false
  end.

Definition ty_of_ety (t : ety) : ty :=
  match t with
  | EBit => TLogic | EBool => TBool | EU w => TVec KUns w | EV w => TVec KSlv w | EInt | EBad => TInt
  end.

(** identifiers: position [vp j] = j+1 *)
Definition vp (j : nat) : positive := Pos.of_succ_nat j.

Definition dflt_decl : sdecl := {| s_ty := SBit; s_push := false; s_def := 0 |}.

Definition bop (e : exp) : binop :=
  match e with
  | XAdd _ _ _ => OAdd | XSub _ _ _ => OSub | XAnd _ _ => OAnd | XOr _ _ => OOr | XXor _ _ => OXor
  | XEq _ _ => OEq | XNe _ _ => ONe | _ => OLt
  end.

Definition is_cond (t : ety) : bool := match t with EBit | EBool => true | _ => false end.
Definition storable (t : ety) : bool := match t with EBit | EBool | EU _ | EV _ => true | _ => false end.

Definition constfits (t : ety) (z : Z) : bool :=
  match t with
  | EBit | EU _ | EV _ => zokb t z && nat_ok z
  | _ => false
  end.

(** implicit conversions the front end applies when a value is stored in an object of another type
    ([.unsigned] / [.bitvector] views are invisible in the untyped reference) *)
Definition coercible (f t : ety) : bool :=
  ety_eqb f t ||
  match f, t with
  | EBool, EBit => true
  | EV w, EU w' | EU w, EV w' => (w =? w')%N
  | _, _ => false
  end.

Definition coerce (f t : ety) (x : expr) : expr :=
  match f, t with
  | EBool, EBit => EF1 FBoolToSl x          (* cohdl_bool_to_std_logic(x) *)
  | EV _, EU _ => EF1 FConvUns x            (* unsigned(x) *)
  | EU _, EV _ => EF1 FConvSlv x            (* std_logic_vector(x) *)
  | _, _ => x
  end.

(** a Bit used as a condition is printed as [x = '1'] *)
Definition as_cond (t : ety) (x : expr) : expr :=
  match t with EBit => EBin OEq x (ELit (VL true)) | _ => x end.

Section Lower.
  Variable its : list sty.       (* types of the input ports *)
  Variable ds : list sdecl.      (* the observable signals (output ports) *)
  Variable vts : list sty.       (* types of the user variables *)
  Variable pu : list nat.        (* the signals the body accesses with [^=] *)

  Definition ni := length its.
  Definition ns := length ds.
  Definition nv := length vts.
  Definition pushedb (k : nat) : bool := existsb (Nat.eqb k) pu.

  Definition clkp : positive := vp 0.
  Definition ipos (k : nat) : positive := vp (1 + k).
  Definition opos (k : nat) : positive := vp (1 + ni + k).
  Definition bpos (k : nat) : positive := vp (1 + ni + ns + k).   (* buffer_<port> *)

  Definition ity (k : nat) : ety := of_sty (nth k its SBit).
  Definition sgty (k : nat) : ety := of_sty (s_ty (nth k ds dflt_decl)).
  Definition vty (k : nat) : ety := of_sty (nth k vts SBit).

  Definition arith_ty (w : N) (a b : ety) : ety :=
    match a, b with
    | EU wa, EU wb => if (wa =? w)%N && (wb =? w)%N then EU w else EBad
    | EU wa, EInt | EInt, EU wa => if (wa =? w)%N then EU w else EBad
    | _, _ => EBad
    end.
  Definition logic_ty (a b : ety) : ety :=
    match a, b with EBit, EBit => EBit | _, _ => EBad end.
  Definition cmp_ty (eqop : bool) (a b : ety) : ety :=
    match a, b with
    | EU _, EU _ | EU _, EInt | EInt, EU _ => EBool
    | EBit, EBit => if eqop then EBool else EBad
    | _, _ => EBad
    end.

  Definition fits (tyof : exp -> ety) (t : ety) (e : exp) : bool :=
    match e with XConst z => constfits t z | _ => ety_eqb (tyof e) t end.

  Fixpoint tyof (e : exp) : ety :=
    match e with
    | XIn k => if (k <? ni)%nat then ity k else EBad
    | XSig k => if (k <? ns)%nat then sgty k else EBad
    | XVar k => if (k <? nv)%nat then vty k else EBad
    | XConst z => if nat_ok z then EInt else EBad
    | XAdd w a b | XSub w a b => arith_ty w (tyof a) (tyof b)
    | XAnd a b | XOr a b | XXor a b => logic_ty (tyof a) (tyof b)
    | XNot w a =>
        match tyof a with
        | EBit => if (w =? 1)%N then EBit else EBad
        | EU w' => if (w =? w')%N then EU w' else EBad
        | EV w' => if (w =? w')%N then EV w' else EBad
        | _ => EBad
        end
    | XEq a b | XNe a b => cmp_ty true (tyof a) (tyof b)
    | XLt a b => cmp_ty false (tyof a) (tyof b)
    | XIte c a b =>
        let t := match a with XConst _ => tyof b | _ => tyof a end in
        if is_cond (tyof c) && storable t && fits tyof t a && fits tyof t b then t else EBad
    | _ => EBad
    end.

  (** the temporaries a rendering allocates, in allocation order, with their types *)
  Fixpoint tmps_e (e : exp) : list ety :=
    match e with
    | XAdd _ a b | XSub _ a b | XAnd a b | XOr a b | XXor a b | XEq a b | XNe a b | XLt a b => tmps_e a ++ tmps_e b
    | XNot _ a => tmps_e a
    | XIte c a b => tmps_e c ++ tmps_e a ++ tmps_e b ++ [tyof e]
    | _ => []
    end.
  Definition ntmps (e : exp) : nat := length (tmps_e e).

  Definition at_ty (t : ety) (e : exp) (x : expr) : expr :=
    match e with XConst z => ELit (ence t z) | _ => coerce (tyof e) t x end.

  Definition fits_c (t : ety) (e : exp) : bool :=
    match e with XConst z => constfits t z | _ => coercible (tyof e) t end.

  (** [lower_exp n e] = (statements to run first, the VHDL expression); temporaries are the process
      variables [vp (nv + n)], [vp (nv + n + 1)], ... *)
  Fixpoint lower_exp (n : nat) (e : exp) : stmt * expr :=
    match e with
    | XIn k => (SNull, ESig (ipos k))
    | XSig k => (SNull, ESig (bpos k))
    | XVar k => (SNull, EVar (vp k))
    | XConst z => (SNull, ELit (VI z))
    | XAdd _ a b | XSub _ a b | XAnd a b | XOr a b | XXor a b | XEq a b | XNe a b | XLt a b =>
        let ra := lower_exp n a in
        let rb := lower_exp (n + ntmps a) b in
        (SSeq (fst ra) (fst rb), EBin (bop e) (snd ra) (snd rb))
    | XNot _ a => let ra := lower_exp n a in (fst ra, EUn UNot (snd ra))
    | XIte c a b =>
        let rc := lower_exp n c in
        let ra := lower_exp (n + ntmps c) a in
        let rb := lower_exp (n + ntmps c + ntmps a) b in
        let t := vp (nv + (n + ntmps c + ntmps a + ntmps b)) in
        let ty := tyof e in
        (SSeq (fst rc) (SSeq (fst ra) (SSeq (fst rb)
           (SCase (as_cond (tyof c) (snd rc))
              (ACons [VB true] (SVar t [] (at_ty ty a (snd ra)))
                 (ANil (Some (SVar t [] (at_ty ty b (snd rb))))))))),
         EVar t)
    | _ => (SNull, ELit (VI 0))
    end.

  Fixpoint tmps_s (s : stm) : list ety :=
    match s with
    | RSkip => []
    | RAssign _ e => tmps_e e
    | RSeq a b => tmps_s a ++ tmps_s b
    | RIf c t e => tmps_e c ++ tmps_s t ++ tmps_s e
    end.
  Definition ntmps_s (s : stm) : nat := length (tmps_s s).

  Definition at_ty_c (t : ety) (e : exp) (x : expr) : expr :=
    match e with XConst z => ELit (ence t z) | _ => coerce (tyof e) t x end.

  Fixpoint lower_stm (n : nat) (s : stm) : stmt :=
    match s with
    | RSkip => SNull
    | RAssign t e =>
        let r := lower_exp n e in
        match t with
        | TSig k | TPush k => SSeq (fst r) (SSig (bpos k) [] (at_ty_c (sgty k) e (snd r)))
        | TVar k => SSeq (fst r) (SVar (vp k) [] (at_ty_c (vty k) e (snd r)))
        | _ => SNull
        end
    | RSeq a b => SSeq (lower_stm n a) (lower_stm (n + ntmps_s a) b)
    | RIf c t e =>
        let r := lower_exp n c in
        SSeq (fst r) (SIf (as_cond (tyof c) (snd r))
                          (lower_stm (n + ntmps c) t)
                          (lower_stm (n + ntmps c + ntmps_s t) e))
    end.

  (** well-typedness of a body (the grammar of the all-programs theorem) *)
  Definition wt_e (e : exp) : bool := negb (ety_eqb (tyof e) EBad).

  Fixpoint wt_s (s : stm) : bool :=
    match s with
    | RSkip => true
    | RAssign t e =>
        wt_e e &&
        match t with
        | TSig k => (k <? ns)%nat && negb (pushedb k) && fits_c (sgty k) e
        | TPush k => (k <? ns)%nat && pushedb k && fits_c (sgty k) e
        | TVar k => (k <? nv)%nat && fits_c (vty k) e
        | _ => false
        end
    | RSeq a b => wt_s a && wt_s b
    | RIf c t e => wt_e c && is_cond (tyof c) && wt_s t && wt_s e
    end.

  (** [reset_pushed()]: one default assignment per pushed signal, at the top of the clocked branch *)
  Definition push_default (k : nat) : stmt :=
    SSig (bpos k) [] (ELit (ence (sgty k) (s_def (nth k ds dflt_decl)))).
  Definition defaults_of (ks : list nat) : stmt := fold_right (fun k acc => SSeq (push_default k) acc) SNull ks.
  Definition pushed_list : list nat := filter pushedb (seq 0 ns).

  Definition lower_body (body : stm) : stmt :=
    SIf (EEdge true clkp) (SSeq (defaults_of pushed_list) (lower_stm 0 body)) SNull.

  Definition lower_proc (body : stm) : conc := CProc 1%positive [clkp] (lower_body body).

  (** the whole design: clk, input ports, output ports, their buffers; user variables then temporaries *)
  Definition mk_sig (p : positive) (t : ety) (d : dir) (v : value) (h : bool) : sigdecl :=
    {| sd_id := p; sd_ty := ty_of_ety t; sd_dir := d; sd_init := v; sd_hasdef := h |}.
  Definition mk_var (p : positive) (t : ety) (v : value) (h : bool) : vardecl :=
    {| vd_id := p; vd_proc := 1%positive; vd_ty := ty_of_ety t; vd_init := v; vd_hasdef := h |}.

  Definition lower_design (sinit vinit : list Z) (body : stm) : design :=
    let idx_i := seq 0 ni in
    let idx_s := seq 0 ns in
    let idx_v := seq 0 nv in
    let tl := tmps_s body in
    {| d_sigs :=
         mk_sig clkp EBit DIn (VL false) false
         :: map (fun k => mk_sig (ipos k) (ity k) DIn (ence (ity k) 0) false) idx_i
         ++ map (fun k => mk_sig (opos k) (sgty k) DOut (ence (sgty k) 0) false) idx_s
         ++ map (fun k => mk_sig (bpos k) (sgty k) DLocal (ence (sgty k) (nth k sinit 0)) true) idx_s;
       d_vars :=
         map (fun k => mk_var (vp k) (vty k) (ence (vty k) (nth k vinit 0)) true) idx_v
         ++ map (fun i => mk_var (vp (nv + i)) (nth i tl EBad) (ence (nth i tl EBad) 0) false) (seq 0 (length tl));
       d_conc := map (fun k => CAssign (opos k) [] (ESig (bpos k))) idx_s ++ [lower_proc body];
       d_clk := Some clkp;
       d_inputs := map ipos idx_i;
       d_outputs := map opos idx_s |}.
End Lower.

(** the signals a body pushes *)
Fixpoint pushed_in (s : stm) : list nat :=
  match s with
  | RAssign (TPush k) _ => [k]
  | RSeq a b => pushed_in a ++ pushed_in b
  | RIf _ t e => pushed_in t ++ pushed_in e
  | _ => []
  end.

(** the grammar: well typed for the declarations, with [pu] = the pushed signals of the body itself *)
Definition in_grammar (its : list sty) (ds : list sdecl) (vts : list sty) (body : stm) : bool :=
  wt_s its ds vts (pushed_in body) body.

Definition lower (its : list sty) (ds : list sdecl) (vts : list sty) (sinit vinit : list Z) (body : stm) : design :=
  lower_design its ds vts (pushed_in body) sinit vinit body.
