(** * C07 - model of cohdl's usage check ("one driver per signal").

    Mirrors, as coded on the current tree,
      - [EntityTemplate.__init__] (cohdl/_core/_ir/_repr.py): [check_usage] with the
        [written_in] / [used_in] maps, the input-port rule, and the loop over the
        OUTPUT ports of instantiated entities (with its input-port rule);
      - [ConvertInstance.apply] / [IrGenerator.convert_sequential]
        (cohdl/_compiler/frontend/_generate_ir.py): variables are rejected in concurrent
        contexts and in always expressions, temporaries must be written before they are read
        (concurrent contexts l.1133-1148, sequential contexts [detect_uninitialized_temporaries],
        always expressions [find_temporaries]);
      - the late rule "variable assignment only possible in sequential contexts" (only reachable
        under the old discipline).

    A design is abstracted to the ordered access events of every context; an event is
    (root object, R | W | Push, kind of the object).  Two visiting disciplines:
      - [Current] (= [check], what /repo does since the fix commits 8d3d526, 615f499, f68d635):
        the always block of a sequential context is visited as a context of its own (it is
        emitted as separate concurrent statements), variables are rejected inside it, and an
        instance output connected to an input port is rejected;
      - [Old] (= [check_old], kept for the regression witnesses): a sequential context was
        visited TOGETHER with its hoisted [always] block under one [current_ctx], no variable
        rule for always expressions, no input-port rule in the instance loop.

    The SPEC ([drivers], [users], [no_input_written]) never depends on the discipline:
    a sequential body is one process, an always block is its own concurrent statement(s),
    a concurrent context is one block, every instance output is one driver. *)
From Coq Require Import ZArith NArith PArith List Bool Lia Arith.
Import ListNotations.

Inductive okind := KSignal | KPortIn | KPortOut | KVariable | KTemporary.
Inductive acc := AR | AW | AP.

Record event := { e_root : positive; e_acc : acc; e_kind : okind }.

Inductive ckind := Sequential | Concurrent.

(** [c_always = Some es]: the statements hoisted out of a sequential context by
    [cohdl.always]; events are listed in the order [visit_objects] reports them. *)
Record context := { c_kind : ckind; c_always : option (list event); c_body : list event }.

(** blocks: an entity instance (the actual roots connected to its OUTPUT ports, with the
    kind of the actual) or a nested block with its own contexts and sub-blocks *)
Inductive block :=
| BEntity (outs : list (positive * okind))
| BBlock (ctxs : list context) (subs : list block).

Record design := { d_ctxs : list context; d_subs : list block }.

(** [Block.all_contexts]: own contexts first, then those of the sub-blocks, depth first *)
Fixpoint block_contexts (b : block) : list context :=
  match b with
  | BEntity _ => []
  | BBlock cs subs => cs ++ flat_map block_contexts subs
  end.

(** [Block.all_blocks] filtered by [isinstance(block, Entity)] *)
Fixpoint block_insts (b : block) : list (list (positive * okind)) :=
  match b with
  | BEntity outs => [outs]
  | BBlock _ subs => flat_map block_insts subs
  end.

Definition all_contexts (D : design) : list context := D.(d_ctxs) ++ flat_map block_contexts D.(d_subs).

(** order in which the contexts are CONVERTED (ConvertPythonInstance: the sub-blocks of a level before its own
    contexts, recursively); it decides which rejection is reported first, not whether there is one *)
Fixpoint block_contexts_conv (b : block) : list context :=
  match b with
  | BEntity _ => []
  | BBlock cs subs => flat_map block_contexts_conv subs ++ cs
  end.
Definition conv_contexts (D : design) : list context := flat_map block_contexts_conv D.(d_subs) ++ D.(d_ctxs).
Definition all_insts (D : design) : list (list (positive * okind)) := flat_map block_insts D.(d_subs).

(** ** owners (identity of the context / instance that [written_in] / [used_in] remember) *)

Inductive owner := OCtx (n : nat) | OAlw (n : nat) | OInst (n : nat).

Definition owner_eqb (a b : owner) : bool :=
  match a, b with
  | OCtx x, OCtx y | OAlw x, OAlw y | OInst x, OInst y => Nat.eqb x y
  | _, _ => false
  end.

Lemma owner_eqb_ok a b : owner_eqb a b = true <-> a = b.
Proof.
  destruct a, b; simpl; try (split; [discriminate | intros H; discriminate H]);
    rewrite Nat.eqb_eq; split; intros H; try (inversion H); subst; reflexivity.
Qed.

Definition owner_eq_dec (a b : owner) : {a = b} + {a <> b}.
Proof. decide equality; apply Nat.eq_dec. Defined.

Inductive discipline := Old | Current.

Definition always_events (c : context) : list event :=
  match c.(c_always) with Some es => es | None => [] end.

Definition tag (o : owner) (es : list event) : list (owner * event) := map (pair o) es.

(** the sequence of (current_ctx, object access) pairs [check_usage] sees:
    [Sequential.visit_objects] reports the always expression first, then the body *)
Fixpoint visits (m : discipline) (n : nat) (cs : list context) : list (owner * event) :=
  match cs with
  | [] => []
  | c :: r =>
      (match m with
       | Old => tag (OCtx n) (always_events c ++ c.(c_body))
       | Current => tag (OAlw n) (always_events c) ++ tag (OCtx n) c.(c_body)
       end) ++ visits m (S n) r
  end.

(** ** verdicts *)

Inductive reason :=
| RInputWritten      (* writing to input port ... not allowed *)
| RMultiWrite        (* written in multiple contexts (contexts or instance outputs) *)
| RMultiUse          (* used in multiple contexts *)
| RVarInConc         (* variables cannot be used in concurrent contexts *)
| RVarAssign         (* variable assignment only possible in sequential contexts *)
| RTempRead.         (* temporary read before it was written / always expression inherits a temporary *)

Inductive verdict := Accept | Reject (r : reason).

Definition accepted (v : verdict) : bool := match v with Accept => true | Reject _ => false end.

Definition is_write (a : acc) : bool := match a with AR => false | AW | AP => true end.
Definition is_vt (k : okind) : bool := match k with KVariable | KTemporary => true | _ => false end.
Definition is_input (k : okind) : bool := match k with KPortIn => true | _ => false end.

(** ** the maps *)

Definition omap := list (positive * owner).

Fixpoint find (x : positive) (m : omap) : option owner :=
  match m with
  | [] => None
  | (y, o) :: r => if Pos.eqb x y then Some o else find x r
  end.

Record ustate := { written_in : omap; used_in : omap }.
Definition ustate0 : ustate := {| written_in := []; used_in := [] |}.

Inductive ures := UOk (st : ustate) | UErr (r : reason).

(** one call of [check_usage(obj, access)] with [current_ctx = o] *)
Definition step (st : ustate) (oe : owner * event) : ures :=
  let (o, e) := oe in
  let wres :=
    if is_write e.(e_acc) then
      if is_input e.(e_kind) then UErr RInputWritten
      else match find e.(e_root) st.(written_in) with
           | Some o' => if owner_eqb o' o then UOk st else UErr RMultiWrite
           | None => UOk {| written_in := (e.(e_root), o) :: st.(written_in); used_in := st.(used_in) |}
           end
    else UOk st in
  match wres with
  | UErr r => UErr r
  | UOk st1 =>
      if is_vt e.(e_kind) then
        match find e.(e_root) st1.(used_in) with
        | Some o' => if owner_eqb o' o then UOk st1 else UErr RMultiUse
        | None => UOk {| written_in := st1.(written_in); used_in := (e.(e_root), o) :: st1.(used_in) |}
        end
      else UOk st1
  end.

Fixpoint run (st : ustate) (l : list (owner * event)) : ures :=
  match l with
  | [] => UOk st
  | oe :: r => match step st oe with UErr e => UErr e | UOk st' => run st' r end
  end.

(** the loop over the OUTPUT ports of one instance / of all instances *)
Fixpoint inst_ports (m : discipline) (n : nat) (outs : list (positive * okind)) (w : omap) : reason + omap :=
  match outs with
  | [] => inr w
  | (root, k) :: r =>
      match m, is_input k with
      | Current, true => inl RInputWritten
      | _, _ =>
          match find root w with
          | Some _ => inl RMultiWrite
          | None => inst_ports m n r ((root, OInst n) :: w)
          end
      end
  end.

Fixpoint inst_loop (m : discipline) (n : nat) (insts : list (list (positive * okind))) (w : omap) : verdict :=
  match insts with
  | [] => Accept
  | outs :: r =>
      match inst_ports m n outs w with
      | inl e => Reject e
      | inr w' => inst_loop m (S n) r w'
      end
  end.

(** ** ConvertInstance (and the one frontend rule) per context *)

Definition mem (x : positive) (l : list positive) : bool := existsb (Pos.eqb x) l.

(** temporaries: a READ needs an earlier non-READ access in the same list *)
Fixpoint temps_ok (written : list positive) (es : list event) : bool :=
  match es with
  | [] => true
  | e :: r =>
      match e.(e_kind) with
      | KTemporary =>
          match e.(e_acc) with
          | AR => mem e.(e_root) written && temps_ok written r
          | _ => temps_ok (e.(e_root) :: written) r
          end
      | _ => temps_ok written r
      end
  end.

Definition is_var (k : okind) : bool := match k with KVariable => true | _ => false end.
Definition var_written (e : event) : bool := is_var e.(e_kind) && is_write e.(e_acc).

(** a variable is assigned inside an always expression ("variable assignment only possible in
    sequential contexts"; in a concurrent CONTEXT the ConvertInstance rule below fires instead) *)
Definition front_ctx (c : context) : option reason :=
  if existsb var_written (always_events c) then Some RVarAssign else None.

(** the single pass of a concurrent context ([check_variables_and_temporaries]): the first offending access, in
    visiting order, decides the message *)
Fixpoint conc_pass (written : list positive) (es : list event) : option reason :=
  match es with
  | [] => None
  | e :: r =>
      if is_var e.(e_kind) then Some RVarInConc
      else match e.(e_kind) with
           | KTemporary =>
               match e.(e_acc) with
               | AR => if mem e.(e_root) written then conc_pass written r else Some RTempRead
               | _ => conc_pass (e.(e_root) :: written) r
               end
           | _ => conc_pass written r
           end
  end.

(** ConvertInstance.apply on one context *)
Definition ci_ctx (m : discipline) (c : context) : option reason :=
  match c.(c_kind) with
  | Concurrent =>
      conc_pass [] c.(c_body)
  | Sequential =>
      (* convert_sequential: variables (current tree), then inherited temporaries, of the always
         expression; afterwards detect_uninitialized_temporaries on the body *)
      if match m with Current => existsb (fun e => is_var e.(e_kind)) (always_events c) | Old => false end
      then Some RVarInConc
      else if negb (temps_ok [] (always_events c)) then Some RTempRead
      else if temps_ok [] c.(c_body) then None else Some RTempRead
  end.

Fixpoint first_reason {A} (f : A -> option reason) (l : list A) : option reason :=
  match l with
  | [] => None
  | x :: r => match f x with Some e => Some e | None => first_reason f r end
  end.

(** ** the whole check *)

(** order of the stages as observed on the real compiler: ConvertInstance per context, then
    [check_usage] and the instance loop (EntityTemplate.__init__), and only afterwards the
    "variable assignment only possible in sequential contexts" rule *)
Definition check_with (m : discipline) (D : design) : verdict :=
  let cs := all_contexts D in
  match first_reason (ci_ctx m) (conv_contexts D) with
  | Some e => Reject e
  | None =>
      match run ustate0 (visits m 0 cs) with
      | UErr e => Reject e
      | UOk st =>
          match inst_loop m 0 (all_insts D) st.(written_in) with
          | Reject e => Reject e
          | Accept =>
              match first_reason front_ctx cs with
              | Some e => Reject e
              | None => Accept
              end
          end
      end
  end.

Definition reason_eqb (a b : reason) : bool :=
  match a, b with
  | RInputWritten, RInputWritten | RMultiWrite, RMultiWrite | RMultiUse, RMultiUse
  | RVarInConc, RVarInConc | RVarAssign, RVarAssign | RTempRead, RTempRead => true
  | _, _ => false
  end.

Definition check : design -> verdict := check_with Current.
Definition check_old : design -> verdict := check_with Old.

(** ** SPEC *)

(** the driving units of the emitted architecture, always with the always block apart *)
Definition units (D : design) : list (owner * event) := visits Current 0 (all_contexts D).

Definition writes_root (root : positive) (oe : owner * event) : bool :=
  is_write (snd oe).(e_acc) && Pos.eqb (snd oe).(e_root) root.

Definition uses_root (root : positive) (oe : owner * event) : bool :=
  is_vt (snd oe).(e_kind) && Pos.eqb (snd oe).(e_root) root.

Definition inst_outs (D : design) : list (positive * okind) := concat (all_insts D).

(** number of distinct drivers of [root] *)
Definition drivers (D : design) (root : positive) : nat :=
  length (nodup owner_eq_dec (map fst (filter (writes_root root) (units D))))
  + length (filter (fun rk => Pos.eqb (fst rk) root) (inst_outs D)).

(** number of distinct contexts using [root] as a variable / temporary *)
Definition users (D : design) (root : positive) : nat :=
  length (nodup owner_eq_dec (map fst (filter (uses_root root) (units D)))).

Definition is_var_or_temp (D : design) (root : positive) : Prop :=
  exists oe, In oe (units D) /\ uses_root root oe = true.

Definition no_input_written (D : design) : Prop :=
  (forall oe, In oe (units D) -> is_write (snd oe).(e_acc) = true -> is_input (snd oe).(e_kind) = false)
  /\ (forall rk, In rk (inst_outs D) -> is_input (snd rk) = false).

(** executable rendering of the spec (used by the harness on every generated placement) *)
Definition roots_of (D : design) : list positive :=
  map (fun oe => (snd oe).(e_root)) (units D) ++ map fst (inst_outs D).

Definition no_input_writtenb (D : design) : bool :=
  forallb (fun oe => negb (is_write (snd oe).(e_acc) && is_input (snd oe).(e_kind))) (units D)
  && forallb (fun rk => negb (is_input (snd rk))) (inst_outs D).

Definition conflict_freeb (D : design) : bool :=
  forallb (fun r => Nat.leb (drivers D r) 1 && Nat.leb (users D r) 1) (roots_of D)
  && no_input_writtenb D.

(** conditions of ConvertInstance that are not about conflicts between contexts; a
    conflict-free design that violates them is rejected for a different reason *)
Definition locally_ok (m : discipline) (D : design) : bool :=
  match first_reason (ci_ctx m) (conv_contexts D), first_reason front_ctx (all_contexts D) with
  | None, None => true
  | _, _ => false
  end.

(** ** the always-block witness:
    [with cohdl.always: o <<= a] followed by [o <<= b] in one sequential context *)
Definition witness : design :=
  {| d_ctxs := [ {| c_kind := Sequential;
                    c_always := Some [ {| e_root := 1; e_acc := AW; e_kind := KPortOut |};
                                       {| e_root := 2; e_acc := AR; e_kind := KPortIn |} ];
                    c_body := [ {| e_root := 1; e_acc := AW; e_kind := KPortOut |};
                                {| e_root := 3; e_acc := AR; e_kind := KPortIn |} ] |} ];
     d_subs := [] |}.

(** a variable read by the always block and written by the body *)
Definition witness_var : design :=
  {| d_ctxs := [ {| c_kind := Sequential;
                    c_always := Some [ {| e_root := 1; e_acc := AW; e_kind := KPortOut |};
                                       {| e_root := 2; e_acc := AR; e_kind := KVariable |} ];
                    c_body := [ {| e_root := 2; e_acc := AW; e_kind := KVariable |};
                                {| e_root := 3; e_acc := AR; e_kind := KPortIn |} ] |} ];
     d_subs := [] |}.

(** an instance output connected to an input port of the instantiating entity *)
Definition witness_inst : design :=
  {| d_ctxs := []; d_subs := [ BEntity [ (1%positive, KPortIn) ] ] |}.
