(** * OpsProofs: a value folded by the Python methods is the value the emitted VHDL computes
    (Models/Ops.v), for all widths and all values; exact guards where the coded methods depart. *)
From Coq Require Import ZArith NArith List Bool Lia.
From Cohdl Require Import Base.Bits Vhdl.Value Vhdl.NumStd Models.Ops.
Import ListNotations.
Local Open Scope Z_scope.

(** ** arithmetic helpers *)
Lemma sv_in w a : (0 < w)%N /\ - pow2 (w - 1) <= a < pow2 (w - 1) -> sval w (wrap w a) = a.
Proof. intros [H1 H2]. apply sval_wrap; assumption. Qed.

Lemma wrap_sval' w z : wrap w (sval w (wrap w z)) = wrap w z.
Proof. apply wrap_sval, wrap_range. Qed.

Lemma wrap_pow2_add w z : wrap w (z + pow2 w) = wrap w z.
Proof.
  unfold wrap. replace (z + pow2 w) with (z + 1 * pow2 w) by lia.
  apply Z.mod_add. pose proof (pow2_pos w); lia.
Qed.

Lemma wrap_mul_pow2 w z k : wrap w (z + k * pow2 w) = wrap w z.
Proof. unfold wrap. apply Z.mod_add. pose proof (pow2_pos w); lia. Qed.

Lemma wrap_self w : wrap w (pow2 w) = 0.
Proof. unfold wrap. apply Z.mod_same. pose proof (pow2_pos w); lia. Qed.

(* sval w y is congruent to y *)
Lemma wrap_sval_add w z n : wrap w (sval w (wrap w z) + n) = wrap w (z + n).
Proof. rewrite <- wrap_add_l, wrap_sval', wrap_add_l. reflexivity. Qed.

Lemma pow2_1 : pow2 1 = 2.
Proof. reflexivity. Qed.

Lemma wrap1_neg a : wrap 1 a = wrap 1 (- a).
Proof.
  replace a with (- a + a * pow2 1) at 1 by (rewrite pow2_1; lia).
  apply wrap_mul_pow2.
Qed.

Lemma s_neg_cong w a n : (0 < w)%N -> wrap w (s_neg w a + n) = wrap w (n - a).
Proof.
  intros Hw. unfold s_neg. destruct (N.eqb_spec w 1) as [->|H1].
  - replace (a + n) with (n - a + a * pow2 1) by (rewrite pow2_1; lia). apply wrap_mul_pow2.
  - rewrite wrap_sval_add. f_equal; lia.
Qed.

Lemma pow2_half w : (0 < w)%N -> pow2 w = 2 * pow2 (w - 1).
Proof. intros H. replace w with (N.succ (w - 1)) at 1 by lia. apply pow2_succ. Qed.

(* -x is exact unless x is the most negative value *)
Lemma s_neg_exact w a : (0 < w)%N -> - pow2 (w - 1) < a < pow2 (w - 1) -> s_neg w a = - a.
Proof.
  intros Hw Ha. unfold s_neg. destruct (N.eqb_spec w 1) as [->|H1].
  - change (pow2 (1 - 1)) with 1 in Ha. lia.
  - apply sval_wrap; [assumption|lia].
Qed.

Lemma u_neg_cong w a n : wrap w (u_neg w a + n) = wrap w (n - a).
Proof.
  unfold u_neg. rewrite wrap_add_l. replace (pow2 w - a + n) with (n - a + pow2 w) by lia. apply wrap_pow2_add.
Qed.

Lemma bz_to_v c : VB (negb (bz c =? 0)) = VB c.
Proof. destruct c; reflexivity. Qed.

Lemma rem_formula a b : b <> 0 -> a - b * Z.quot a b = Z.rem a b.
Proof. intros H. rewrite (Z.rem_eq a b H). reflexivity. Qed.

Ltac inv H := inversion H; subst; clear H.

(** unfolding sets *)
Ltac names :=
  cbn [py_bin py_add py_sub py_rsub py_mul py_truncdiv py_floordiv py_mod py_rem py_shl py_shr py_logic py_concat py_cmp
       u_add_int rt_bin to_v eval_binop arith compare concat logic fst snd wf bind slv eval_fn1 eval_fn2 shift_count
       is_eqop rep unrep vkind_eqb] in *.

(* case analysis on the guards of the run-time side *)
Ltac rt_guards Hr :=
  repeat match type of Hr with
         | (if ?c then _ else _) = Ok _ => let E := fresh "E" in destruct c eqn:E; [|try discriminate Hr]
         | (match ?c with Ok _ => _ | Err _ => _ end) = Ok _ => let E := fresh "E" in destruct c eqn:E; [|discriminate Hr]
         | Err _ = Ok _ => discriminate Hr
         end.

Ltac py_guards Hp :=
  repeat match type of Hp with
         | (if ?c then _ else _) = Value _ _ => let E := fresh "P" in destruct c eqn:E; try discriminate Hp
         | (match ?c with Some _ => _ | None => _ end) = Value _ _ => let E := fresh "P" in destruct c eqn:E; try discriminate Hp
         | (match ?c with Coded => _ | Fixed => _ end) = Value _ _ => destruct c; try discriminate Hp
         end.

Ltac some_guards :=
  repeat match goal with
         | H : (if ?c then Some _ else None) = Some _ |- _ => let E := fresh "S" in destruct c eqn:E; [|discriminate H]
         | H : match ?c with Some _ => _ | None => None end = Some _ |- _ =>
             let E := fresh "S" in destruct c eqn:E; [|discriminate H]
         | H : Some _ = Some _ |- _ => inv H
         end.

Lemma mkUv_val w z t v : mkUv w z = Value t v -> t = TU w /\ v = z /\ 0 <= z < pow2 w.
Proof. unfold mkUv. destruct (_ && _) eqn:E; [|discriminate]. intros H; inv H. repeat split; lia. Qed.

Lemma mkSv_val w z t v : mkSv w z = Value t v -> t = TS w /\ v = z.
Proof. unfold mkSv. destruct (_ && _) eqn:E; [|discriminate]. intros H; inv H. split; reflexivity. Qed.

Ltac use_mk Hp :=
  first [ apply mkUv_val in Hp; destruct Hp as (-> & -> & Hrange)
        | apply mkSv_val in Hp; destruct Hp as (-> & ->) ].

Ltac fin :=
  unfold mkU, mkS, to_v; rewrite ?sv_in by assumption; rewrite ?wrap_sval' ; f_equal;
  rewrite ?wrap_add_r, ?wrap_add_l, ?wrap_sub_r, ?wrap_sub_l; try reflexivity; try (f_equal; lia).

(** ** + *)
Theorem add_agrees a b t v x : wf a -> wf b -> py_add a b = Value t v -> rt_bin PAdd a b = Ok x -> x = to_v (t, v).
Proof.
  destruct a as [ta va], b as [tb vb]; destruct ta, tb; names; intros Ha Hb Hp Hr; try discriminate.
  all: try (unfold s_add_int in Hp); py_guards Hp; unfold mk_int in Hr; rt_guards Hr.
  all: inv Hp; inv Hr; fin.
Qed.

(** ** - : exact guard of the coded methods (the negation of the right operand is taken at ITS width) *)
Definition sub_guard (a b : operand) : bool :=
  match a, b with
  | (TU w, _), (TU w2, vb) => (w <=? w2)%N || (vb =? 0)
  | (TS w, _), (TS w2, vb) => (w <=? w2)%N || negb (vb =? - pow2 (w2 - 1))
  | _, _ => true
  end.

Lemma max_le w w2 : (w <= w2)%N -> N.max w w2 = w2.
Proof. lia. Qed.

Theorem sub_agrees_fixed a b t v x :
  wf a -> wf b -> py_sub Fixed a b = Value t v -> rt_bin PSub a b = Ok x -> x = to_v (t, v).
Proof.
  destruct a as [ta va], b as [tb vb]; destruct ta, tb; names; intros Ha Hb Hp Hr; try discriminate.
  all: try (unfold s_add_int in Hp); py_guards Hp; unfold mk_int in Hr; rt_guards Hr.
  all: inv Hp; inv Hr; unfold mkU, mkS, to_v; rewrite ?sv_in by assumption; rewrite ?wrap_sval'; f_equal.
  all: try reflexivity.
  all: try (rewrite u_neg_cong; reflexivity).
  all: try (rewrite s_neg_cong by tauto; reflexivity).
  all: try (rewrite wrap_add_r, Z.add_opp_r, wrap_sub_r; reflexivity).
  all: try (rewrite wrap_add_r, u_neg_cong; reflexivity).
  all: rewrite ?wrap_add_r, ?wrap_sub_r; f_equal; lia.
Qed.

Theorem sub_agrees_partial a b t v x :
  wf a -> wf b -> sub_guard a b = true ->
  py_sub Coded a b = Value t v -> rt_bin PSub a b = Ok x -> x = to_v (t, v).
Proof.
  destruct a as [ta va], b as [tb vb]; destruct ta, tb; intros Ha Hb G Hp Hr;
    try (apply (sub_agrees_fixed (_, va) (_, vb) t v x Ha Hb); [exact Hp|exact Hr]).
  - (* Unsigned - Unsigned *)
    names. inv Hp. inv Hr. unfold mkU, to_v. f_equal. cbn [sub_guard] in G.
    apply orb_true_iff in G. destruct G as [G|G].
    + apply N.leb_le in G. rewrite (max_le _ _ G). rewrite Z.add_comm, u_neg_cong. reflexivity.
    + apply Z.eqb_eq in G. subst vb. unfold u_neg. rewrite !Z.sub_0_r, wrap_self. f_equal; lia.
  - (* Signed - Signed *)
    names. inv Hp. inv Hr. unfold mkS, to_v. rewrite !sv_in by assumption. rewrite wrap_sval'. f_equal.
    cbn [sub_guard] in G. apply orb_true_iff in G. destruct G as [G|G].
    + apply N.leb_le in G. rewrite (max_le _ _ G). rewrite Z.add_comm. symmetry. apply s_neg_cong. tauto.
    + apply negb_true_iff, Z.eqb_neq in G. rewrite s_neg_exact by (try tauto; lia). f_equal; lia.
Qed.

Theorem sub_refuted : exists a b t v x,
  wf a /\ wf b /\ py_sub Coded a b = Value t v /\ rt_bin PSub a b = Ok x /\ x <> to_v (t, v).
Proof.
  exists (TU 4, 5), (TU 2, 1), (TU 4), 8, (VV KUns 4 4).
  repeat split; try (vm_compute; intuition congruence); try (vm_compute; lia).
Qed.

Theorem sub_signed_refuted : exists a b t v x,
  wf a /\ wf b /\ py_sub Coded a b = Value t v /\ rt_bin PSub a b = Ok x /\ x <> to_v (t, v).
Proof.
  exists (TS 4, 5), (TS 2, -2), (TS 4), 3, (VV KSgn 4 7).
  repeat split; try (vm_compute; intuition congruence); try (vm_compute; lia).
Qed.

(** ** * : numeric_std converts an integer factor to the width of the vector operand first *)
Definition mul_guard (mr m : mode) (a b : operand) : bool :=
  match a, b with
  | (TU w, _), ((TInt | TPy), n) => match m with Coded => int_fits_u w n | Fixed => true end
  | (TS w, _), ((TInt | TPy), n) => match m with Coded => int_fits_s w n | Fixed => true end
  | ((TInt | TPy), n), (TU w, vb) =>
      match mr, m with
      | Fixed, Fixed => true
      | Fixed, Coded => int_fits_u w n
      | Coded, Fixed => n =? vb
      | Coded, Coded => int_fits_u w n && (n =? vb)
      end
  | ((TInt | TPy), n), (TS w, _) => match m with Coded => int_fits_s w n | Fixed => true end
  | _, _ => true
  end.

Lemma fits_u w n : int_fits_u w n = true -> to_u w n = n.
Proof. unfold int_fits_u, to_u. intros H. apply wrap_small. lia. Qed.

Lemma fits_s w n : (0 < w)%N -> int_fits_s w n = true -> to_s w n = n.
Proof. unfold int_fits_s, to_s. intros Hw H. apply sval_wrap; [assumption|lia]. Qed.

Theorem mul_agrees_partial mr m a b t v x :
  wf a -> wf b -> mul_guard mr m a b = true ->
  py_mul mr m a b = Value t v -> rt_bin PMul a b = Ok x -> x = to_v (t, v).
Proof.
  destruct a as [ta va], b as [tb vb]; destruct ta, tb; names; intros Ha Hb G Hp Hr; try discriminate.
  all: cbn [mul_guard] in G; destruct mr, m; py_guards Hp; unfold mk_int in Hr; rt_guards Hr.
  all: try match type of G with (int_fits_u _ _ && (_ =? _)) = true => apply andb_true_iff in G; destruct G as [G G2] end.
  all: repeat match goal with H : (?n =? ?v) = true |- _ => apply Z.eqb_eq in H; subst end.
  all: try use_mk Hp; try (inv Hp); inv Hr; unfold mkU, mkS, to_v; rewrite ?sv_in by assumption.
  all: repeat match goal with
              | G : int_fits_u ?w ?n = true |- _ => rewrite (fits_u w n G); clear G
              | G : int_fits_s ?w ?n = true |- _ => rewrite (fits_s w n) by (tauto || assumption); clear G
              end.
  all: f_equal; try reflexivity; try (apply wrap_small; assumption).
  all: try (rewrite wrap_small by (rewrite Z.mul_comm; assumption); apply Z.mul_comm).
Qed.

Theorem mul_rmul_refuted : exists a b t v x,
  wf a /\ wf b /\ py_mul Coded Coded a b = Value t v /\ rt_bin PMul a b = Ok x /\ x <> to_v (t, v).
Proof.
  exists (TPy, 3), (TU 4, 2), (TU 8), 4, (VV KUns 8 6).
  repeat split; try (vm_compute; intuition congruence); try (vm_compute; lia).
Qed.

Theorem mul_int_width_refuted : exists a b t v x,
  wf a /\ wf b /\ py_bin current PMul a b = Value t v /\ rt_bin PMul a b = Ok x /\ x <> to_v (t, v).
Proof.
  exists (TU 4, 5), (TPy, 17), (TU 8), 85, (VV KUns 8 5).
  repeat split; try (vm_compute; intuition congruence); try (vm_compute; lia).
Qed.

(** ** truncdiv, //, %, rem: the model yields a value only where int(lhs / rhs) is exact ([Inexact] beyond) *)
Lemma u_pos w v : (0 < w)%N /\ 0 <= v < pow2 w -> 0 <= v.
Proof. tauto. Qed.

Theorem truncdiv_agrees_partial m a b t v x :
  wf a -> wf b -> py_truncdiv m a b = Value t v -> rt_bin PTruncDiv a b = Ok x -> x = to_v (t, v).
Proof.
  destruct a as [ta va], b as [tb vb]; destruct ta, tb; names; intros Ha Hb Hp Hr; try discriminate.
  all: unfold u_truncdiv, s_truncdiv, int_div, fdiv, mk_int in *; destruct m; py_guards Hp; some_guards; rt_guards Hr.
  all: try use_mk Hp; try (inv Hp); inv Hr; unfold mkU, mkS, to_v; rewrite ?sv_in by assumption.
  all: f_equal; try reflexivity; try (first [apply wrap_small | symmetry; apply wrap_small]; assumption).
Qed.

Theorem floordiv_agrees m a b t v x :
  wf a -> wf b -> py_floordiv m a b = Value t v -> rt_bin PFloorDiv a b = Ok x -> x = to_v (t, v).
Proof.
  destruct a as [ta va], b as [tb vb]; destruct ta, tb; names; intros Ha Hb Hp Hr; try discriminate.
  unfold u_truncdiv in Hp. py_guards Hp. rt_guards Hr. use_mk Hp. inv Hr.
  unfold mkU, to_v. f_equal. apply wrap_small. assumption.
Qed.

Theorem mod_agrees a b t v x :
  wf a -> wf b -> py_mod a b = Value t v -> rt_bin PMod a b = Ok x -> x = to_v (t, v).
Proof.
  destruct a as [ta va], b as [tb vb]; destruct ta, tb; names; intros Ha Hb Hp Hr; try discriminate.
  all: unfold u_mod, s_mod, mk_int in *; py_guards Hp; rt_guards Hr.
  all: try use_mk Hp; try (inv Hp); inv Hr; unfold mkU, mkS, to_v; rewrite ?sv_in by assumption.
  all: f_equal; try reflexivity; try (first [apply wrap_small | symmetry; apply wrap_small]; assumption).
Qed.

Lemma nat_ok_pos n : nat_ok n = true -> 0 <= n.
Proof. unfold nat_ok. lia. Qed.

Theorem rem_agrees_partial m a b t v x :
  wf a -> wf b -> py_rem m a b = Value t v -> rt_bin PRem a b = Ok x -> x = to_v (t, v).
Proof.
  destruct a as [ta va], b as [tb vb]; destruct ta, tb; names; intros Ha Hb Hp Hr; try discriminate.
  all: unfold u_rem, s_rem, frem, fdiv, mk_int in *; destruct m; py_guards Hp; some_guards; rt_guards Hr.
  all: repeat match goal with
              | H : (_ =? 0) = false |- _ => apply Z.eqb_neq in H
              | H : nat_ok _ = true |- _ => apply nat_ok_pos in H
              end.
  all: try use_mk Hp; try (inv Hp); inv Hr; unfold mkU, mkS, to_v; rewrite ?sv_in by assumption.
  all: rewrite ?rem_formula in * by assumption.
  all: f_equal; try reflexivity.
  all: try (rewrite Z.rem_mod_nonneg in * by lia; apply wrap_small; assumption).
Qed.

(** ** shifts *)
Lemma shr_range w v n : 0 <= v < pow2 w -> 0 <= n -> 0 <= shr_z w v n < pow2 w.
Proof.
  intros Hv Hn. unfold shr_z. pose proof (pow2_pos w).
  destruct (Z.leb_spec (Z.of_N w) n).
  - destruct (Z.ltb_spec v 0); lia.
  - assert (0 < 2 ^ n) by (apply Z.pow_pos_nonneg; lia).
    split; [apply Z.div_pos; lia|].
    apply Z.le_lt_trans with v; [|lia]. apply Z.div_le_upper_bound; nia.
Qed.

Lemma shl_cong w v n : wrap w (shl_z w (wrap w v) n) = wrap w (shl_z w v n).
Proof. unfold shl_z. destruct (_ <=? _); [reflexivity|]. apply wrap_mul_l. Qed.

Lemma shift_count_rt b n y :
  shift_count b = Some n ->
  (match to_v b with VI _ => Ok (to_v b) | _ => eval_fn1 FToInteger (to_v b) end) = Ok y -> y = VI n.
Proof.
  destruct b as [tb vb]; destruct tb; cbn [shift_count fst snd to_v eval_fn1]; intros H E; try discriminate; inv H.
  all: try congruence.
  destruct (n <=? int_max); congruence.
Qed.

Ltac shift_start :=
  match goal with
  | Hp : py_shl (?ta, ?va) ?b = Value _ _, Hr : rt_bin _ _ _ = Ok _ |- _ =>
      unfold py_shl in Hp; destruct ta; try discriminate Hp
  | Hp : py_shr (?ta, ?va) ?b = Value _ _, Hr : rt_bin _ _ _ = Ok _ |- _ =>
      unfold py_shr in Hp; destruct ta; try discriminate Hp
  end.

Theorem shl_agrees a b t v x : wf a -> wf b -> py_shl a b = Value t v -> rt_bin PShl a b = Ok x -> x = to_v (t, v).
Proof.
  destruct a as [ta va]; intros Ha Hb Hp Hr. shift_start.
  all: destruct (shift_count b) as [n'|] eqn:Sc; [|discriminate Hp]; destruct (n' <? 0); [discriminate Hp|]; inv Hp.
  all: cbn [rt_bin bind] in Hr; unfold bind in Hr;
    match type of Hr with (match ?c with Ok _ => _ | Err _ => _ end) = _ => destruct c eqn:E; [|discriminate Hr] end;
    apply (shift_count_rt _ _ _ Sc) in E; subst; cbn [to_v eval_fn2] in Hr; destruct (nat_ok n'); [|discriminate Hr]; inv Hr.
  all: unfold mkU, mkS, to_v, unrep; rewrite ?wrap_sval', ?shl_cong; f_equal; rewrite ?wrap_wrap; reflexivity.
Qed.

Theorem shr_agrees a b t v x : wf a -> wf b -> py_shr a b = Value t v -> rt_bin PShr a b = Ok x -> x = to_v (t, v).
Proof.
  destruct a as [ta va]; intros Ha Hb Hp Hr. shift_start.
  all: destruct (shift_count b) as [n'|] eqn:Sc; [|discriminate Hp]; destruct (Z.ltb_spec n' 0); [discriminate Hp|]; inv Hp.
  all: cbn [rt_bin bind] in Hr; unfold bind in Hr;
    match type of Hr with (match ?c with Ok _ => _ | Err _ => _ end) = _ => destruct c eqn:E; [|discriminate Hr] end;
    apply (shift_count_rt _ _ _ Sc) in E; subst; cbn [to_v eval_fn2] in Hr; destruct (nat_ok n'); [|discriminate Hr]; inv Hr.
  all: cbn [wf] in Ha; unfold mkU, mkS, to_v; rewrite ?sv_in by assumption; f_equal; try reflexivity.
  apply wrap_small, shr_range; [tauto|lia].
Qed.

(** ** comparisons *)
Lemma bit01 v : v = 0 \/ v = 1 -> forall P : Z -> Prop, P 0 -> P 1 -> P v.
Proof. intros [->| ->]; auto. Qed.

Theorem cmp_agrees op a b t v x :
  wf a -> wf b -> py_cmp op a b = Value t v -> eval_binop op (to_v a) (to_v b) = Ok x ->
  (match op with OEq | ONe | OLt | OLe | OGt | OGe => True | _ => False end) -> x = to_v (t, v).
Proof.
  intros Ha Hb Hp Hr Hop.
  assert (Hc : compare op (to_v a) (to_v b) = Ok x) by (destruct op; try contradiction; exact Hr).
  clear Hr Hop. revert Ha Hb Hp Hc.
  destruct a as [ta va], b as [tb vb]; destruct ta, tb; names; intros Ha Hb Hp Hr; try discriminate.
  all: py_guards Hp; rt_guards Hr; try (inv Hp; inv Hr; rewrite ?sv_in by assumption; rewrite bz_to_v; reflexivity).
  all: try (destruct op; discriminate).
  all: try (inv Hp; inv Hr; rewrite bz_to_v; destruct Ha as [-> | ->], Hb as [-> | ->]; destruct op; try discriminate;
            reflexivity).
  (* BitVector = BitVector of equal width *)
  inv Hp. inv Hr. rewrite bz_to_v. destruct op; try discriminate; reflexivity.
Qed.

(** ** @ *)
Theorem concat_agrees a b t v x :
  wf a -> wf b -> py_concat a b = Value t v -> rt_bin PConcat a b = Ok x -> x = to_v (t, v).
Proof.
  destruct a as [ta va], b as [tb vb]; destruct ta, tb; names; intros Ha Hb Hp Hr; try discriminate.
  all: inv Hp; inv Hr; unfold to_v; rewrite ?(N.add_comm 1); try reflexivity.
  all: try (destruct Ha as [-> | ->]; cbn; f_equal; lia).
  all: try (destruct Hb as [-> | ->]; cbn; f_equal; lia).
  all: try (destruct Ha as [-> | ->], Hb as [-> | ->]; reflexivity).
  all: f_equal; [destruct n as [|q]; [reflexivity|destruct q; reflexivity] | destruct Ha as [-> | ->];
      [replace (negb (0 =? 0)) with false by reflexivity | replace (negb (1 =? 0)) with true by reflexivity];
      cbv iota; lia].
Qed.

(** ** and / or / xor *)
Lemma log2_lt w a : 0 < Z.of_N w -> 0 <= a < pow2 w -> Z.log2 a < Z.of_N w.
Proof.
  intros Hw [H0 H1]. destruct (Z.eq_dec a 0) as [->|Hn]; [cbn; lia|].
  apply Z.log2_lt_pow2; [lia|exact H1].
Qed.

Lemma logic_range op w a b : 0 <= a < pow2 w -> 0 <= b < pow2 w -> 0 <= logic_z op a b < pow2 w.
Proof.
  intros Ha Hb. pose proof (pow2_pos w) as Hp.
  assert (H0 : 0 <= logic_z op a b).
  { unfold logic_z. destruct op; try (apply Z.lxor_nonneg; lia); [apply Z.land_nonneg; lia|apply Z.lor_nonneg; lia]. }
  split; [exact H0|].
  destruct (N.eq_dec w 0) as [->|Hw].
  - change (pow2 0) with 1 in *. assert (a = 0) by lia. assert (b = 0) by lia. subst. destruct op; cbn; lia.
  - destruct (Z.eq_dec (logic_z op a b) 0) as [->|Hn]; [lia|].
    apply Z.log2_lt_pow2; [lia|].
    assert (La := log2_lt w a ltac:(lia) Ha). assert (Lb := log2_lt w b ltac:(lia) Hb).
    assert (Hm : Z.log2 (logic_z op a b) <= Z.max (Z.log2 a) (Z.log2 b)).
    { unfold logic_z. destruct op;
        try (apply Z.log2_lxor; lia);
        [ etransitivity; [apply Z.log2_land; lia|lia] | rewrite Z.log2_lor by lia; lia ]. }
    lia.
Qed.

Theorem logic_agrees op a b t v x :
  wf a -> wf b -> py_logic op a b = Value t v -> logic op (to_v a) (to_v b) = Ok x -> x = to_v (t, v).
Proof.
  destruct a as [ta va], b as [tb vb]; destruct ta, tb; names; intros Ha Hb Hp Hr; try discriminate.
  all: cbn [oty_eqb] in Hp; py_guards Hp; rt_guards Hr; inv Hp; inv Hr; unfold to_v; try reflexivity.
  - destruct Ha as [-> | ->], Hb as [-> | ->]; destruct op; reflexivity.
  - apply N.eqb_eq in P; subst. f_equal. symmetry. apply wrap_sval. apply logic_range; apply wrap_range.
Qed.

(** ** unary minus, abs, invert *)
Theorem neg_agrees a t v x : wf a -> py_un MNeg a = Value t v -> rt_un MNeg a = Ok x -> x = to_v (t, v).
Proof.
  destruct a as [ta va]; destruct ta; cbn [py_un rt_un to_v eval_unop wf]; intros Ha Hp Hr; try discriminate.
  - inv Hp. inv Hr. unfold mkS, to_v. rewrite sv_in by assumption. f_equal.
    rewrite <- (Z.add_0_r (s_neg n va)). rewrite s_neg_cong by tauto. f_equal.
  - unfold mk_int in Hr. rt_guards Hr. inv Hp. inv Hr. reflexivity.
Qed.

Theorem abs_agrees a t v x : wf a -> py_un MAbs a = Value t v -> rt_un MAbs a = Ok x -> x = to_v (t, v).
Proof.
  destruct a as [ta va]; destruct ta; cbn [py_un rt_un to_v eval_unop wf]; intros Ha Hp Hr; try discriminate.
  inv Hp. inv Hr. unfold mkS, to_v. rewrite sv_in by assumption. f_equal.
  destruct (Z.leb_spec 0 va).
  - rewrite Z.abs_eq by assumption. reflexivity.
  - rewrite <- (Z.add_0_r (s_neg n va)). rewrite s_neg_cong by tauto. f_equal. lia.
Qed.

Theorem inv_agrees a t v x : wf a -> py_un MInv a = Value t v -> rt_un MInv a = Ok x -> x = to_v (t, v).
Proof.
  destruct a as [ta va]; destruct ta; cbn [py_un rt_un to_v eval_unop wf rep unrep]; intros Ha Hp Hr; try discriminate.
  all: inv Hp; inv Hr; unfold to_v; try reflexivity.
  - destruct Ha as [-> | ->]; reflexivity.
  - f_equal. symmetry. apply wrap_sval. pose proof (wrap_range n va). unfold ones. lia.
Qed.

(** ** views *)
Theorem view_agrees op a t v x :
  wf a -> (op = MAsU \/ op = MAsS \/ op = MAsBV) -> py_un op a = Value t v -> rt_un op a = Ok x -> x = to_v (t, v).
Proof.
  intros Ha [-> | [-> | ->]]; revert Ha;
    destruct a as [ta va]; destruct ta; cbn [py_un rt_un to_v eval_fn1 wf rep]; intros Ha Hp Hr; try discriminate.
  all: inv Hp; inv Hr; unfold to_v; try reflexivity.
  all: f_equal; symmetry; try (apply wrap_sval; tauto); apply wrap_sval'.
Qed.

(** ** the documented result type (for the operators whose result is a vector or an Integer) *)
Theorem type_as_documented c op a b t v :
  py_bin c op a b = Value t v ->
  match spec_ty op (fst a) (fst b) with
  | Some t' => t = t' \/ (t = TInt /\ t' = TPy) \/ (t = TPy /\ t' = TInt) \/ (op = PAnd \/ op = POr \/ op = PXor)
  | None => op = PAnd \/ op = POr \/ op = PXor \/ op = PEq \/ op = PNe
  end.
Proof.
  destruct a as [ta va], b as [tb vb]; destruct op.
  all: destruct ta, tb; cbn [py_bin py_add py_sub py_rsub py_mul py_truncdiv py_floordiv py_mod py_rem py_shl py_shr
                            py_logic py_concat py_cmp spec_ty fst snd shift_count u_add_int]; intros Hp; try discriminate.
  all: unfold s_add_int, u_truncdiv, s_truncdiv, u_rem, s_rem, u_mod, s_mod, int_div, frem, fdiv in Hp; py_guards Hp.
  all: try (first [ apply mkUv_val in Hp; destruct Hp as (-> & _) | apply mkSv_val in Hp; destruct Hp as (-> & _) ]).
  all: try (inv Hp).
  all: try (cbn [oty_eqb]; rewrite ?N.eqb_refl).
  all: try (left; reflexivity); try tauto.
  all: try (match goal with |- context [oty_eqb ?a ?b] => destruct (oty_eqb a b) end); tauto.
Qed.

(** ** totality: every operand-type combination the emitted operator is defined on is implemented by the fold
    (it may still reject by assertion, e.g. a result that does not fit; plain int (op) int is not cohdl code) *)
Definition arith_like (op : bop) : bool :=
  match op with PAdd | PSub | PMul | PTruncDiv | PMod | PRem | PShl | PShr | PConcat => true | _ => false end.
Definition cohdl_operands (a b : operand) : bool :=
  match fst a, fst b with
  | TPy, TPy | TBool, _ | _, TBool => false
  | TPy, TInt => false          (* int (op) Integer: Integer defines no reflected operators except + - & | ^ *)
  | _, _ => true
  end.

Ltac not_noimpl Hn :=
  cbv beta delta [mkUv mkSv s_add_int u_truncdiv s_truncdiv u_rem s_rem u_mod s_mod int_div frem fdiv] in Hn;
  repeat match type of Hn with
         | (if ?c then _ else _) = _ => destruct c
         | (match ?c with Some _ => _ | None => _ end) = _ => destruct c
         | (match ?c with Coded => _ | Fixed => _ end) = _ => destruct c
         end; discriminate Hn.

(* a Signed shift count has no __index__: the backend never emits to_integer(signed) as a shift count *)
Definition signed_count (op : bop) (b : operand) : bool :=
  match op, fst b with (PShl | PShr), TS _ => true | _, _ => false end.

Theorem fold_total_partial c op a b x :
  arith_like op = true -> cohdl_operands a b = true -> signed_count op b = false ->
  rt_bin op a b = Ok x -> py_bin c op a b <> NoImpl.
Proof.
  destruct a as [ta va], b as [tb vb]; destruct op; intros Ho; try discriminate Ho; clear Ho.
  all: destruct ta, tb; intros Hc; try discriminate Hc; clear Hc; intros Hs; try discriminate Hs; clear Hs.
  all: cbn [rt_bin to_v eval_binop arith concat bind slv eval_fn1 eval_fn2]; intros Hr; try discriminate Hr.
  all: unfold bind in Hr; try (solve [rt_guards Hr]).
  all: cbn [py_bin py_add py_sub py_rsub py_mul py_truncdiv py_mod py_rem py_shl py_shr py_concat u_add_int
            shift_count fst snd]; intro Hn; not_noimpl Hn.
Qed.

(** the guard is needed: std_logic values are ordered in VHDL, Bit defines no ordering *)
Theorem fold_total_refuted : exists op a b x, rt_bin op a b = Ok x /\ py_bin current op a b = NoImpl.
Proof. exists PLt, (TBit, 0), (TBit, 1), (VB true). split; reflexivity. Qed.

(** ** the CURRENT tree ([current]): sub, truncdiv, //, rem at full strength; no result is left unpredicted *)
Theorem sub_agrees a b t v x :
  wf a -> wf b -> py_bin current PSub a b = Value t v -> rt_bin PSub a b = Ok x -> x = to_v (t, v).
Proof. exact (sub_agrees_fixed a b t v x). Qed.

Theorem truncdiv_agrees a b t v x :
  wf a -> wf b -> py_bin current PTruncDiv a b = Value t v -> rt_bin PTruncDiv a b = Ok x -> x = to_v (t, v).
Proof. exact (truncdiv_agrees_partial Fixed a b t v x). Qed.

Theorem floordiv_agrees_current a b t v x :
  wf a -> wf b -> py_bin current PFloorDiv a b = Value t v -> rt_bin PFloorDiv a b = Ok x -> x = to_v (t, v).
Proof. exact (floordiv_agrees Fixed a b t v x). Qed.

Theorem rem_agrees a b t v x :
  wf a -> wf b -> py_bin current PRem a b = Value t v -> rt_bin PRem a b = Ok x -> x = to_v (t, v).
Proof. exact (rem_agrees_partial Fixed a b t v x). Qed.

Theorem mul_agrees_current_partial a b t v x :
  wf a -> wf b -> mul_guard Fixed Coded a b = true ->
  py_bin current PMul a b = Value t v -> rt_bin PMul a b = Ok x -> x = to_v (t, v).
Proof. exact (mul_agrees_partial Fixed Coded a b t v x). Qed.

Ltac not_res Hn :=
  cbv beta iota delta [mkUv mkSv s_add_int u_truncdiv s_truncdiv u_rem s_rem u_mod s_mod int_div frem fdiv] in Hn;
  repeat match type of Hn with
         | (if ?c then _ else _) = _ => destruct c
         end; discriminate Hn.

Theorem current_never_inexact op a b : py_bin current op a b <> Inexact.
Proof.
  destruct a as [ta va], b as [tb vb]; destruct op; destruct ta, tb.
  all: cbn [py_bin py_add py_sub py_rsub py_mul py_truncdiv py_floordiv py_mod py_rem py_shl py_shr py_logic py_concat
            py_cmp u_add_int shift_count fst snd current k_rmul k_sub k_div k_mulrange is_eqop]; intro Hn; not_res Hn.
Qed.

Theorem un_never_inexact op a : py_un op a <> Inexact.
Proof.
  destruct a as [ta va]; destruct op; try destruct t; destruct ta; cbn [py_un py_ctor is_num]; intro Hn; not_res Hn.
Qed.

(** ** non-vacuity: the hypotheses of every implication above are satisfiable (with both sides defined) *)
Ltac witness := repeat split; try (vm_compute; intuition congruence); try (vm_compute; lia); try reflexivity.

Example add_nonvacuous : exists a b t v x, wf a /\ wf b /\ py_add a b = Value t v /\ rt_bin PAdd a b = Ok x.
Proof. exists (TS 4, -3), (TPy, 7), (TS 4), 4, (VV KSgn 4 4). witness. Qed.
Example sub_round0_example : exists a b t v x,
  wf a /\ wf b /\ sub_guard a b = true /\ py_sub Coded a b = Value t v /\ rt_bin PSub a b = Ok x.
Proof. exists (TU 2, 1), (TU 4, 3), (TU 4), 14, (VV KUns 4 14). witness. Qed.
Example sub_nonvacuous : exists a b t v x, wf a /\ wf b /\ py_bin current PSub a b = Value t v /\ rt_bin PSub a b = Ok x.
Proof. exists (TU 4, 5), (TU 2, 1), (TU 4), 4, (VV KUns 4 4). witness. Qed.
Example mul_nonvacuous : exists a b t v x,
  wf a /\ wf b /\ mul_guard Fixed Coded a b = true /\ py_bin current PMul a b = Value t v /\ rt_bin PMul a b = Ok x.
Proof. exists (TS 3, -4), (TPy, 3), (TS 6), (-12), (VV KSgn 6 52). witness. Qed.
Example mul_patched_example : exists a b t v x,
  wf a /\ wf b /\ mul_guard Fixed Fixed a b = true /\ py_mul Fixed Fixed a b = Value t v /\ rt_bin PMul a b = Ok x.
Proof. exists (TPy, 3), (TU 4, 2), (TU 8), 6, (VV KUns 8 6). witness. Qed.
Example truncdiv_nonvacuous : exists a b t v x,
  wf a /\ wf b /\ py_bin current PTruncDiv a b = Value t v /\ rt_bin PTruncDiv a b = Ok x.
Proof. exists (TS 4, -7), (TPy, 2), (TS 4), (-3), (VV KSgn 4 13). witness. Qed.
Example truncdiv_inexact_reachable : exists a b, wf a /\ wf b /\ py_truncdiv Coded a b = Inexact
  /\ rt_bin PTruncDiv a b = Ok (VV KSgn 64 (2 ^ 62 + 1)).
Proof. exists (TS 64, 2 ^ 62 + 1), (TS 64, 1). witness. Qed.
Example rem_inexact_reachable : exists a b, wf a /\ wf b /\ py_rem Coded a b = Inexact
  /\ rt_bin PRem a b = Ok (VV KUns 64 1).
Proof. exists (TU 64, 2 ^ 63 + 3), (TPy, 2). witness. Qed.
Example floordiv_nonvacuous : exists a b t v x,
  wf a /\ wf b /\ py_bin current PFloorDiv a b = Value t v /\ rt_bin PFloorDiv a b = Ok x.
Proof. exists (TU 4, 13), (TU 2, 3), (TU 4), 4, (VV KUns 4 4). witness. Qed.
Example mod_nonvacuous : exists a b t v x, wf a /\ wf b /\ py_mod a b = Value t v /\ rt_bin PMod a b = Ok x.
Proof. exists (TS 4, -7), (TS 3, 3), (TS 3), 2, (VV KSgn 3 2). witness. Qed.
Example rem_nonvacuous : exists a b t v x, wf a /\ wf b /\ py_bin current PRem a b = Value t v /\ rt_bin PRem a b = Ok x.
Proof. exists (TS 4, -7), (TS 3, 3), (TS 3), (-1), (VV KSgn 3 7). witness. Qed.
Example shl_nonvacuous : exists a b t v x, wf a /\ wf b /\ py_shl a b = Value t v /\ rt_bin PShl a b = Ok x.
Proof. exists (TS 4, 3), (TU 2, 2), (TS 4), (-4), (VV KSgn 4 12). witness. Qed.
Example shr_nonvacuous : exists a b t v x, wf a /\ wf b /\ py_shr a b = Value t v /\ rt_bin PShr a b = Ok x.
Proof. exists (TS 4, -8), (TPy, 5), (TS 4), (-1), (VV KSgn 4 15). witness. Qed.
Example cmp_nonvacuous : exists a b t v x,
  wf a /\ wf b /\ py_cmp OLt a b = Value t v /\ eval_binop OLt (to_v a) (to_v b) = Ok x.
Proof. exists (TS 4, -1), (TPy, 0), TBool, 1, (VB true). witness. Qed.
Example concat_nonvacuous : exists a b t v x, wf a /\ wf b /\ py_concat a b = Value t v /\ rt_bin PConcat a b = Ok x.
Proof. exists (TU 2, 1), (TS 2, -1), (TBV 4), 7, (VV KSlv 4 7). witness. Qed.
Example logic_nonvacuous : exists a b t v x,
  wf a /\ wf b /\ py_logic OXor a b = Value t v /\ logic OXor (to_v a) (to_v b) = Ok x.
Proof. exists (TS 3, -1), (TS 3, 2), (TS 3), (-3), (VV KSgn 3 5). witness. Qed.
Example neg_nonvacuous : exists a t v x, wf a /\ py_un MNeg a = Value t v /\ rt_un MNeg a = Ok x.
Proof. exists (TS 4, -8), (TS 4), (-8), (VV KSgn 4 8). witness. Qed.
Example abs_nonvacuous : exists a t v x, wf a /\ py_un MAbs a = Value t v /\ rt_un MAbs a = Ok x.
Proof. exists (TS 4, -5), (TS 4), 5, (VV KSgn 4 5). witness. Qed.
Example inv_nonvacuous : exists a t v x, wf a /\ py_un MInv a = Value t v /\ rt_un MInv a = Ok x.
Proof. exists (TS 3, 1), (TS 3), (-2), (VV KSgn 3 6). witness. Qed.
Example view_nonvacuous : exists a t v x, wf a /\ py_un MAsS a = Value t v /\ rt_un MAsS a = Ok x.
Proof. exists (TU 3, 7), (TS 3), (-1), (VV KSgn 3 7). witness. Qed.
Example total_nonvacuous : exists op a b x,
  arith_like op = true /\ cohdl_operands a b = true /\ signed_count op b = false /\ rt_bin op a b = Ok x.
Proof. exists PMul, (TPy, 3), (TU 4, 2), (VV KUns 8 6). witness. Qed.
