(** C13 - model of cohdl's lazily populated caches of parametrised classes.

    Anchors (pinned tree):
      cohdl/_core/_bit_vector.py   _BitVector.__getitem__          -> [getbv], [getvec]
      cohdl/_core/_array.py        _MetaArray.__getitem__          -> [getprim] (PArr)
      cohdl/_core/_type_qualifier.py _TypeQualifier.__getitem__    -> [getq_core], [getq]
      cohdl/_core/_type_qualifier.py TypeQualifier.__getitem__/__iter__/unsigned/signed/bitvector,
      cohdl/utility/span.py, _bit_vector.py BitVector.__getitem__  -> section View

    A class object is an index into [tbl] (creation order); every class carries the attributes the
    real class carries ([cnm]: family, order/width, element type/count, wrapped type/direction) and its
    [__bases__] ([cbs], ordered).  The eight [_SubTypes] dictionaries are the single association list
    [cache] (their key spaces are disjoint: the key is tagged with the owning family).  Dictionary keys
    that are class objects in Python (element type of an array, wrapped type of a qualifier) are
    represented by the type expression denoting that class. *)
From Coq Require Import ZArith NArith PArith List Bool Lia.
Import ListNotations.

(** * type expressions *)
Inductive fam := FBV | FU | FS.
Inductive ord := Down | Up.
Inductive leaf := LBit | LBool | LInt.
Inductive prim :=
| PLeaf (l : leaf)
| PVecAny (f : fam)                       (* BitVector / Unsigned / Signed *)
| PVec (f : fam) (o : ord) (w : positive) (* f[w] = PVec f Down w ; f[0:w-1] = PVec f Up w *)
| PArrAny                                 (* Array *)
| PArr (e : prim) (n : Z).                (* Array[e, n] *)
Inductive qfam := QSig | QVar | QTmp | QPort.
Inductive dir := DIn | DOut | DInOut.
Inductive texpr :=
| TP (p : prim)
| TQAny (q : qfam)                        (* Signal / Variable / Temporary / Port *)
| TQ (q : qfam) (d : option dir) (p : prim). (* q[p] or q[p, d] *)

(** names of all classes that can come to exist *)
Inductive cname :=
| CObject | CPrimT | CTQBase | CTQ
| CP (p : prim)
| CQAny (q : qfam)
| CQ (q : qfam) (d : option dir) (p : prim)
| CAnon (q : qfam) (d : option dir) (f : fam) (o : ord) (w : positive).
   (* the unnamed intermediate class  type(cls.__name__, (cls[f], cls[BitVector[w]]), {})  *)

Definition fam_eqb a b := match a, b with FBV, FBV | FU, FU | FS, FS => true | _, _ => false end.
Definition ord_eqb a b := match a, b with Down, Down | Up, Up => true | _, _ => false end.
Definition leaf_eqb a b := match a, b with LBit, LBit | LBool, LBool | LInt, LInt => true | _, _ => false end.
Definition qfam_eqb a b := match a, b with QSig, QSig | QVar, QVar | QTmp, QTmp | QPort, QPort => true | _, _ => false end.
Definition dir_eqb a b := match a, b with DIn, DIn | DOut, DOut | DInOut, DInOut => true | _, _ => false end.
Definition odir_eqb a b := match a, b with None, None => true | Some x, Some y => dir_eqb x y | _, _ => false end.
Fixpoint prim_eqb a b := match a, b with
  | PLeaf x, PLeaf y => leaf_eqb x y
  | PVecAny f, PVecAny g => fam_eqb f g
  | PVec f o w, PVec g p v => fam_eqb f g && ord_eqb o p && Pos.eqb w v
  | PArrAny, PArrAny => true
  | PArr e n, PArr e' n' => prim_eqb e e' && Z.eqb n n'
  | _, _ => false end.
Definition cname_eqb a b := match a, b with
  | CObject, CObject | CPrimT, CPrimT | CTQBase, CTQBase | CTQ, CTQ => true
  | CP p, CP p' => prim_eqb p p'
  | CQAny q, CQAny q' => qfam_eqb q q'
  | CQ q d p, CQ q' d' p' => qfam_eqb q q' && odir_eqb d d' && prim_eqb p p'
  | CAnon q d f o w, CAnon q' d' f' o' w' => qfam_eqb q q' && odir_eqb d d' && fam_eqb f f' && ord_eqb o o' && Pos.eqb w w'
  | _, _ => false end.

(** * the state: class objects created so far, and the caches *)
Record cls := mkcls { cnm : cname; cbs : list nat }.
Record state := mkst { tbl : list cls; cache : list (cname * nat) }.

Definition leaf_id l := match l with LBit => 2 | LBool => 3 | LInt => 4 end.
Definition fam_id f := match f with FBV => 5 | FU => 6 | FS => 7 end.
Definition arr_id := 8.
Definition qfam_id q := match q with QSig => 11 | QPort => 12 | QVar => 13 | QTmp => 14 end.

(** the classes that exist after [import cohdl] (all caches empty) *)
Definition tbl0 : list cls :=
  [ mkcls CObject [];                       (* 0 *)
    mkcls CPrimT [0];                       (* 1  _PrimitiveType *)
    mkcls (CP (PLeaf LBit)) [1];            (* 2 *)
    mkcls (CP (PLeaf LBool)) [1];           (* 3 *)
    mkcls (CP (PLeaf LInt)) [1];            (* 4 *)
    mkcls (CP (PVecAny FBV)) [1];           (* 5 *)
    mkcls (CP (PVecAny FU)) [5];            (* 6 *)
    mkcls (CP (PVecAny FS)) [5];            (* 7 *)
    mkcls (CP PArrAny) [1];                 (* 8 *)
    mkcls CTQBase [0];                      (* 9 *)
    mkcls CTQ [9];                          (* 10 *)
    mkcls (CQAny QSig) [10];                (* 11 *)
    mkcls (CQAny QPort) [11];               (* 12 *)
    mkcls (CQAny QVar) [10];                (* 13 *)
    mkcls (CQAny QTmp) [10] ].              (* 14 *)
Definition st0 := mkst tbl0 [].

Fixpoint assoc (k : cname) (l : list (cname * nat)) : option nat :=
  match l with [] => None | (k', v) :: r => if cname_eqb k k' then Some v else assoc k r end.
Definition lookup st nm := assoc nm (cache st).
Definition nxt st := length (tbl st).
(** [type(name, bases, dict)] *)
Definition alloc st nm bs : state * nat := (mkst (tbl st ++ [mkcls nm bs]) (cache st), nxt st).
(** ... followed by [cls._SubTypes[key] = new_type] *)
Definition alloc_cached st nm bs : state * nat :=
  (mkst (tbl st ++ [mkcls nm bs]) ((nm, nxt st) :: cache st), nxt st).

(** * _BitVector.__getitem__ (shape = (order, width); the cache is per family) *)
Definition getbv st o w :=
  match lookup st (CP (PVec FBV o w)) with
  | Some i => (st, i)
  | None => alloc_cached st (CP (PVec FBV o w)) [fam_id FBV]          (* (cls,) *)
  end.
Definition getvec st f o w :=
  match f with
  | FBV => getbv st o w
  | _ => match lookup st (CP (PVec f o w)) with
         | Some i => (st, i)
         | None => let '(st1, b) := getbv st Down w in                 (* BitVector[width] : always DOWNTO *)
                   alloc_cached st1 (CP (PVec f o w)) [fam_id f; b]   (* (cls, BitVector[width]) *)
         end
  end.

(** * _MetaArray.__getitem__ (the element expression is evaluated first) *)
Fixpoint getprim st p : state * nat :=
  match p with
  | PLeaf l => (st, leaf_id l)
  | PVecAny f => (st, fam_id f)
  | PArrAny => (st, arr_id)
  | PVec f o w => getvec st f o w
  | PArr e n => let '(st1, _) := getprim st e in
                match lookup st1 (CP (PArr e n)) with
                | Some i => (st1, i)
                | None => alloc_cached st1 (CP (PArr e n)) [arr_id]    (* (cls,) *)
                end
  end.

(** * _TypeQualifier.__getitem__ *)
(** direction given iff the family is Port; otherwise an assertion fails before anything is cached *)
Definition rejected q (d : option dir) :=
  match q, d with QPort, None => true | QPort, Some _ => false | _, Some _ => true | _, None => false end.

Section Q.
  Variable sigget : state -> prim -> state * nat.   (* Signal[WrappedType], used for ports only *)
  (** the tail of __getitem__: build new_type from parent_cls and cache it *)
  Definition finish st q d p par :=
    match q with
    | QPort => let '(st1, s) := sigget st p in alloc_cached st1 (CQ q d p) [par; s]  (* (parent_cls, Signal[W]) *)
    | _ => alloc_cached st (CQ q d p) [par]                                          (* (parent_cls,) *)
    end.
  Definition getq_bvany st q d :=             (* WrappedType is BitVector: parent_cls = cls *)
    match lookup st (CQ q d (PVecAny FBV)) with
    | Some i => (st, i)
    | None => finish st q d (PVecAny FBV) (qfam_id q)
    end.
  Definition getq_usany st q d f :=           (* Unsigned / Signed: parent_cls = cls[BitVector] *)
    match lookup st (CQ q d (PVecAny f)) with
    | Some i => (st, i)
    | None => let '(st1, par) := getq_bvany st q d in finish st1 q d (PVecAny f) par
    end.
  Definition getq_bvw st q d o w :=           (* BitVector[..]: parent_cls = cls[BitVector] *)
    match lookup st (CQ q d (PVec FBV o w)) with
    | Some i => (st, i)
    | None => let '(st1, par) := getq_bvany st q d in finish st1 q d (PVec FBV o w) par
    end.
  Definition getq_usw st q d f o w :=         (* Unsigned[..] / Signed[..] *)
    match lookup st (CQ q d (PVec f o w)) with
    | Some i => (st, i)
    | None => let '(st1, a) := getq_usany st q d f in          (* cls[Unsigned] *)
              let '(st2, _) := getbv st1 Down w in             (* BitVector[WrappedType._width] *)
              let '(st3, b) := getq_bvw st2 q d Down w in      (* cls[BitVector[width]] *)
              let '(st4, par) := alloc st3 (CAnon q d f o w) [a; b] in
              finish st4 q d (PVec f o w) par
    end.
  Definition getq_core st q d p :=
    match p with
    | PVecAny FBV => getq_bvany st q d
    | PVecAny f => getq_usany st q d f
    | PVec FBV o w => getq_bvw st q d o w
    | PVec f o w => getq_usw st q d f o w
    | _ => match lookup st (CQ q d p) with
           | Some i => (st, i)
           | None => finish st q d p (qfam_id q)                (* not a BitVector: parent_cls = cls *)
           end
    end.
End Q.
Definition getq_sig st p := getq_core (fun st _ => (st, 0)) st QSig None p.
Definition getq st q d p := getq_core getq_sig st q d p.

(** one first use: the subscript expression is evaluated inside out *)
Definition getitem st e : state * option nat :=
  match e with
  | TP p => let '(st1, i) := getprim st p in (st1, Some i)
  | TQAny q => (st, Some (qfam_id q))
  | TQ q d p => let '(st1, _) := getprim st p in
                if rejected q d then (st1, None)
                else let '(st2, i) := getq st1 q d p in (st2, Some i)
  end.

Fixpoint run st (ops : list texpr) : state :=
  match ops with [] => st | e :: r => run (fst (getitem st e)) r end.
Fixpoint run_ids st (ops : list texpr) : state * list (option nat) :=
  match ops with
  | [] => (st, [])
  | e :: r => let '(st1, i) := getitem st e in let '(st2, l) := run_ids st1 r in (st2, i :: l)
  end.

(** pure lookup of an already created class (no creation) *)
Definition name_of (e : texpr) : cname :=
  match e with TP p => CP p | TQAny q => CQAny q | TQ q d p => CQ q d p end.
Definition cached st (e : texpr) : option nat :=
  match e with
  | TP (PLeaf l) => Some (leaf_id l)
  | TP (PVecAny f) => Some (fam_id f)
  | TP PArrAny => Some arr_id
  | TQAny q => Some (qfam_id q)
  | _ => lookup st (name_of e)
  end.

(** * issubclass: reflexive transitive closure over __bases__ *)
Definition bases st i := match nth_error (tbl st) i with Some c => cbs c | None => [] end.
Fixpoint issub_f fuel st a b :=
  Nat.eqb a b || match fuel with O => false | S f => existsb (fun c => issub_f f st c b) (bases st a) end.
Definition issub st a b := issub_f (nxt st) st a b.

Fixpoint anc_f fuel st a : list nat :=
  a :: match fuel with O => [] | S f => flat_map (anc_f f st) (bases st a) end.
(** number of distinct ancestors, self and object included = len(cls.__mro__) *)
Definition nmro st a := length (nodup Nat.eq_dec (anc_f (nxt st) st a)).

(** * the documented relation, as a function of the two type expressions only *)
Definition is_vec p := match p with PVecAny _ | PVec _ _ _ => true | _ => false end.
(** primitive types: Unsigned[n] / Signed[n] <= BitVector[n], <= Unsigned / Signed, <= BitVector;
    BitVector[n] <= BitVector; Unsigned, Signed <= BitVector; Array[T,n] <= Array; nothing else.
    (For an UPTO shape  f[0:n-1]  the code derives from the DOWNTO class BitVector[n]; the
    documented parameter space is the integer form, see [doc_params].) *)
Definition ple (a b : prim) : bool :=
  prim_eqb a b ||
  match a, b with
  | PVec f _ _, PVecAny g => fam_eqb g FBV || fam_eqb f g
  | PVec f _ w, PVec FBV Down v => negb (fam_eqb f FBV) && Pos.eqb w v
  | PVecAny _, PVecAny FBV => true
  | PArr _ _, PArrAny => true
  | _, _ => false
  end.
(** wrapped types of qualified classes: only the vector relations are lifted *)
Definition wle (a b : prim) : bool := prim_eqb a b || (is_vec a && is_vec b && ple a b).
Definition qany_le q q' := qfam_eqb q q' || (qfam_eqb q QPort && qfam_eqb q' QSig).
Definition doc_lattice (a b : texpr) : bool :=
  match a, b with
  | TP p, TP p' => ple p p'
  | TQAny q, TQAny q' => qany_le q q'
  | TQ q _ _, TQAny q' => qany_le q q'
  | TQ q d p, TQ q' d' p' =>
      ((qfam_eqb q q' && odir_eqb d d') || (qfam_eqb q QPort && qfam_eqb q' QSig && odir_eqb d' None)) && wle p p'
  | _, _ => false
  end.

Definition ord_down o := match o with Down => true | Up => false end.
Fixpoint prim_down p := match p with PVec _ o _ => ord_down o | PArr e _ => prim_down e | _ => true end.
(** the documented parameter space: integer widths (DOWNTO) *)
Definition doc_params e := match e with TP p => prim_down p | TQAny _ => true | TQ _ _ p => prim_down p end.
(** expressions the real code accepts *)
Definition accepted e := match e with TQ q d _ => negb (rejected q d) | _ => true end.

(** * bases as a function of the class name only (the invariant of the caches) *)
Definition doc_bases (c : cname) : list cname :=
  match c with
  | CObject => []
  | CPrimT => [CObject]
  | CTQBase => [CObject]
  | CTQ => [CTQBase]
  | CP (PLeaf _) => [CPrimT]
  | CP (PVecAny FBV) => [CPrimT]
  | CP (PVecAny f) => [CP (PVecAny FBV)]
  | CP PArrAny => [CPrimT]
  | CP (PVec FBV o w) => [CP (PVecAny FBV)]
  | CP (PVec f o w) => [CP (PVecAny f); CP (PVec FBV Down w)]
  | CP (PArr e n) => [CP PArrAny]
  | CQAny QPort => [CQAny QSig]
  | CQAny _ => [CTQ]
  | CAnon q d f o w => [CQ q d (PVecAny f); CQ q d (PVec FBV Down w)]
  | CQ q d p =>
      (match p with
       | PVecAny FBV => CQAny q
       | PVecAny f => CQ q d (PVecAny FBV)
       | PVec FBV o w => CQ q d (PVecAny FBV)
       | PVec f o w => CAnon q d f o w
       | _ => CQAny q
       end) :: match q with QPort => [CQ QSig None p] | _ => [] end
  end.

(** * observations compared with the real interpreter *)
Fixpoint index_of (x : nat) (l : list (option nat)) (i : nat) : nat :=
  match l with
  | [] => i
  | Some y :: r => if Nat.eqb x y then i else index_of x r (S i)
  | None :: r => index_of x r (S i)
  end.
Fixpoint somes {A} (l : list (option A)) : list A :=
  match l with [] => [] | Some x :: r => x :: somes r | None :: r => somes r end.

Definition fixed_ids := [2; 3; 4; 5; 6; 7; 8; 11; 12; 13; 14].

Inductive cfam := OBV | OU | OS | OArr | OSig | OPort | OVar | OTmp.
Definition owner_of (c : cname) : option cfam :=
  match c with
  | CP (PVec FBV _ _) => Some OBV | CP (PVec FU _ _) => Some OU | CP (PVec FS _ _) => Some OS
  | CP (PArr _ _) => Some OArr
  | CQ QSig _ _ => Some OSig | CQ QPort _ _ => Some OPort | CQ QVar _ _ => Some OVar | CQ QTmp _ _ => Some OTmp
  | _ => None end.
Definition cfam_eqb a b := match a, b with
  | OBV, OBV | OU, OU | OS, OS | OArr, OArr | OSig, OSig | OPort, OPort | OVar, OVar | OTmp, OTmp => true
  | _, _ => false end.
Definition owners := [OBV; OU; OS; OArr; OSig; OPort; OVar; OTmp].
(** keys of one _SubTypes dictionary in insertion order *)
Definition dict_keys st (o : cfam) : list cname :=
  rev (filter (fun c => match owner_of c with Some o' => cfam_eqb o o' | None => false end) (map fst (cache st))).

Record obs := mkobs {
  o_same : list (option nat);     (* per op: index of the first op that returned the identical class; None = rejected *)
  o_sub : list (list bool);       (* issubclass among the accepted results *)
  o_subfix : list (list bool);    (* issubclass(result, F) for the 11 fixed families *)
  o_fixsub : list (list bool);    (* issubclass(F, result) *)
  o_nmro : list nat;
  o_nbases : list nat;
  o_dicts : list (list cname) }.

(** ops come with a flag: observed (a subscript the test wrote) or implied (performed inside a view operation) *)
Definition observe (ops : list (bool * texpr)) : obs :=
  let '(st, ids) := run_ids st0 (map snd ops) in
  let oids := map snd (filter fst (combine (map fst ops) ids)) in
  let ok := somes oids in
  mkobs (map (fun i => match i with Some x => Some (index_of x oids 0) | None => None end) oids)
        (map (fun a => map (issub st a) ok) ok)
        (map (fun a => map (issub st a) fixed_ids) ok)
        (map (fun a => map (fun f => issub st f a) fixed_ids) ok)
        (map (nmro st) ok)
        (map (fun a => length (bases st a)) ok)
        (map (dict_keys st) owners).

Fixpoint list_eqb {A} (e : A -> A -> bool) (a b : list A) : bool :=
  match a, b with [] , [] => true | x :: r, y :: s => e x y && list_eqb e r s | _, _ => false end.
Definition onat_eqb (a b : option nat) := match a, b with None, None => true | Some x, Some y => Nat.eqb x y | _, _ => false end.
Definition obs_eqb (a b : obs) : bool :=
  list_eqb onat_eqb (o_same a) (o_same b) &&
  list_eqb (list_eqb Bool.eqb) (o_sub a) (o_sub b) &&
  list_eqb (list_eqb Bool.eqb) (o_subfix a) (o_subfix b) &&
  list_eqb (list_eqb Bool.eqb) (o_fixsub a) (o_fixsub b) &&
  list_eqb Nat.eqb (o_nmro a) (o_nmro b) &&
  list_eqb Nat.eqb (o_nbases a) (o_nbases b) &&
  list_eqb (list_eqb cname_eqb) (o_dicts a) (o_dicts b).
Definition ty_case_ok (c : list (bool * texpr) * obs) : bool := obs_eqb (observe (fst c)) (snd c).

(** * views of one vector object *)
Module View.
  Inductive vkind := KVec (f : fam) | KBit.
  (** the last element of _ref_spec as coded (Slice(start, stop, base_offset) / Offset(offset, base_offset)) *)
  Inductive rspec := RNone | RSlice (start stop : Z) (base : list Z) | ROffset (off : Z) (base : list Z).
  Record view := mkview {
    vroot : nat;                 (* identity of the root object *)
    vq : qfam * option dir;      (* qualifier (and direction for ports) *)
    vkind_ : vkind;
    vcells : list nat;           (* positions in the root's Span, element 0 = rightmost bit *)
    vspec : rspec }.
  Inductive step := SU | SS | SBV | SSlice (hi lo : Z) | SIndex (i : Z) | SIter (k : nat).

  Definition root_view (id : nat) (q : qfam * option dir) (f : fam) (w : nat) : view :=
    mkview id q (KVec f) (seq 0 w) RNone.

  (** data[lo : hi+1]  for 0 <= lo <= hi < len(data) *)
  Definition subrange {A} (l : list A) (lo hi : Z) : list A :=
    firstn (Z.to_nat (hi - lo + 1)) (skipn (Z.to_nat lo) l).

  Definition next_base (s : rspec) : list Z :=
    match s with RSlice _ stop base => base ++ [stop] | _ => [] end.

  Definition cast (v : view) (f : fam) : option view :=
    match vkind_ v with
    | KVec g => if fam_eqb f g then Some v else Some (mkview (vroot v) (vq v) (KVec f) (vcells v) (vspec v))
    | KBit => match f with FBV => Some v | _ => None end   (* Bit has no .unsigned/.signed; .bitvector returns self *)
    end.

  Definition vstep (v : view) (s : step) : option view :=
    match s with
    | SU => cast v FU
    | SS => cast v FS
    | SBV => cast v FBV
    | SSlice hi lo =>
        match vkind_ v with
        | KBit => None
        | KVec _ =>
            if (lo <=? hi)%Z then
              (* assert 0 <= stop and start < self.width  (before BitVector[width] is subscripted) *)
              if ((0 <=? lo) && (hi <? Z.of_nat (length (vcells v))))%Z
              then Some (mkview (vroot v) (vq v) (KVec FBV) (subrange (vcells v) lo hi) (RSlice hi lo (next_base (vspec v))))
              else None
            else None                                             (* RuntimeError("not implemented") *)
        end
    | SIndex i =>
        match vkind_ v with
        | KBit => None
        | KVec _ =>
            if ((0 <=? i) && (i <? Z.of_nat (length (vcells v))))%Z then
              match nth_error (vcells v) (Z.to_nat i) with
              | Some c => Some (mkview (vroot v) (vq v) KBit [c] (ROffset i (next_base (vspec v))))
              | None => None end
            else None
        end
    | SIter k =>
        match vkind_ v with
        | KBit => None
        | KVec _ =>
            (* Offset(nr, [*last_ref.base_offset, last_ref.stop]) : same addressing as __getitem__ *)
            match nth_error (vcells v) k with
            | Some c => Some (mkview (vroot v) (vq v) KBit [c] (ROffset (Z.of_nat k) (next_base (vspec v))))
            | None => None end
        end
    end.
  Fixpoint derive (v : view) (ch : list step) : option view :=
    match ch with [] => Some v | s :: r => match vstep v s with Some v' => derive v' r | None => None end end.

  (** storage of the root: one bool per cell *)
  Definition store := list bool.
  Fixpoint upd (st : store) (i : nat) (b : bool) : store :=
    match st, i with
    | [], _ => []
    | _ :: r, O => b :: r
    | x :: r, S j => x :: upd r j b
    end.
  Fixpoint write_cells (st : store) (cs : list nat) (bs : list bool) : store :=
    match cs, bs with c :: cr, b :: br => write_cells (upd st c b) cr br | _, _ => st end.
  Definition write (st : store) (v : view) (bs : list bool) := write_cells st (vcells v) bs.
  Definition read (st : store) (v : view) : list bool := map (fun c => nth c st false) (vcells v).

  (** the storage range a ref-spec denotes: (lowest cell, highest cell) *)
  Definition zsum (l : list Z) := fold_right Z.add 0%Z l.
  Definition resolve (w : nat) (s : rspec) : Z * Z :=
    match s with
    | RNone => (0, Z.of_nat w - 1)%Z
    | RSlice a b base => (b + zsum base, a + zsum base)%Z
    | ROffset o base => (o + zsum base, o + zsum base)%Z
    end.
  Definition cells_range (cs : list nat) : option (Z * Z) :=
    match cs with [] => None | c :: _ => Some (Z.of_nat c, Z.of_nat (last cs c)) end.
  Definition spec_ok (w : nat) (v : view) : bool :=
    match cells_range (vcells v) with
    | Some (lo, hi) => let '(lo', hi') := resolve w (vspec v) in Z.eqb lo lo' && Z.eqb hi hi'
    | None => false end.

  (** one scenario as run by the worker *)
  Record vobs := mkvobs {
    vo_kind : vkind; vo_cells : list nat; vo_spec : rspec; vo_read : list bool }.
  Definition vkind_eqb a b := match a, b with KVec f, KVec g => fam_eqb f g | KBit, KBit => true | _, _ => false end.
  Definition rspec_eqb a b := match a, b with
    | RNone, RNone => true
    | RSlice a1 b1 l1, RSlice a2 b2 l2 => Z.eqb a1 a2 && Z.eqb b1 b2 && list_eqb Z.eqb l1 l2
    | ROffset a1 l1, ROffset a2 l2 => Z.eqb a1 a2 && list_eqb Z.eqb l1 l2
    | _, _ => false end.
  Definition vobs_eqb a b :=
    vkind_eqb (vo_kind a) (vo_kind b) && list_eqb Nat.eqb (vo_cells a) (vo_cells b) &&
    rspec_eqb (vo_spec a) (vo_spec b) && list_eqb Bool.eqb (vo_read a) (vo_read b).
  Definition ovobs_eqb a b := match a, b with None, None => true | Some x, Some y => vobs_eqb x y | _, _ => false end.

  Definition obs_view st (v : option view) : option vobs :=
    match v with Some v => Some (mkvobs (vkind_ v) (vcells v) (vspec v) (read st v)) | None => None end.
  (** after each write (view index, bits): the reads through all views *)
  Fixpoint do_writes (st : store) (vs : list (option view)) (ws : list (nat * list bool)) : list (list (option (list bool))) :=
    match ws with
    | [] => []
    | (i, bs) :: r =>
        match nth i vs None with
        | Some v => let st' := write st v bs in
                    map (fun x => match x with Some x => Some (read st' x) | None => None end) vs :: do_writes st' vs r
        | None => do_writes st vs r
        end
    end.
  Definition olb_eqb (a b : option (list bool)) := match a, b with None, None => true | Some x, Some y => list_eqb Bool.eqb x y | _, _ => false end.

  Record scenario := mkscn {
    sc_fam : fam; sc_init : list bool; sc_chains : list (list step); sc_writes : list (nat * list bool) }.
  Definition run_scenario (s : scenario) : list (option vobs) * list (list (option (list bool))) :=
    let root := root_view 0 (QSig, None) (sc_fam s) (length (sc_init s)) in
    let vs := map (derive root) (sc_chains s) in
    (map (obs_view (sc_init s)) vs, do_writes (sc_init s) vs (sc_writes s)).
  Definition view_case_ok (c : scenario * (list (option vobs) * list (list (option (list bool))))) : bool :=
    let '(a, b) := run_scenario (fst c) in
    list_eqb ovobs_eqb a (fst (snd c)) && list_eqb (list_eqb olb_eqb) b (snd (snd c)).
End View.
