(** * Conv: type conversions on assignment (property C05).

    [doc_ok] / [conv_val] : the acceptance matrix and the value map of the STATEMENT.
    [trial] / [ctor] / [join] / [assign_ok] : what the code decides, as coded
      (Unsigned._assign/__init__, Signed._assign/__init__, BitVector._assign/__init__, Bit._assign,
       _Boolean._assign, Integer._assign, the setter replacements of Signal/Variable, _Redirect, _try_join,
       Entity.__init__ of _context.py and _prepare_ast_out.py).
    [cast_emit] : the case analysis of VhdlScope.format_cast on (vhdl target type, target type, value type). *)
From Coq Require Import ZArith NArith List Bool Lia.
From Cohdl Require Import Base.Bits Vhdl.Value Vhdl.NumStd.
Import ListNotations.
Local Open Scope Z_scope.

Inductive cty :=
| CBit | CBool
| CBV (n : N) | CU (n : N) | CS (n : N)
| CInteger
| CIntLit (z : Z)               (* python int literal *)
| CStrLit (len : N) (bits : Z)  (* python str literal of [len] characters '0'/'1' *)
| CNull | CFull.

Inductive vk := KB | KU | KS.     (* BitVector / Unsigned / Signed *)

Definition vec_of (t : cty) : option (vk * N) :=
  match t with CBV n => Some (KB, n) | CU n => Some (KU, n) | CS n => Some (KS, n) | _ => None end.
Definition mkvec (k : vk) (n : N) : cty := match k with KB => CBV n | KU => CU n | KS => CS n end.

(** the VHDL object a target of type [t] is stored in when reached through a view of a root of kind [k] *)
Definition retag (k : vk) (t : cty) : cty := match vec_of t with Some (_, n) => mkvec k n | None => t end.

Definition is_runtime (t : cty) : bool :=
  match t with CBit | CBool | CBV _ | CU _ | CS _ | CInteger => true | _ => false end.

Definition smin (n : N) : Z := - pow2 (n - 1).
Definition smax (n : N) : Z := pow2 (n - 1) - 1.

(** ** the statement *)

Definition doc_ok (src tgt : cty) : bool :=
  match src, tgt with
  | (CNull | CFull), _ => true
  | CIntLit z, (CBit | CBool) => (z =? 0) || (z =? 1)
  | CIntLit z, CInteger => (int_min <=? z) && (z <=? int_max)
  | CIntLit z, CU m => (0 <=? z) && (z <? pow2 m)
  | CIntLit z, CS m => (smin m <=? z) && (z <=? smax m)
  | CStrLit l _, (CBV m | CU m | CS m) => (l =? m)%N
  | CStrLit l _, (CBit | CBool) => (l =? 1)%N
  | (CBit | CBool), (CBit | CBool) => true
  | CInteger, CInteger => true
  | CU n, CU m => (n <=? m)%N
  | CU n, CS m => (n <? m)%N
  | CS n, CS m => (n <=? m)%N
  | CU n, CBV m | CS n, CBV m | CBV n, CBV m | CBV n, CU m | CBV n, CS m => (n =? m)%N
  | CU n, CInteger => (n <=? 31)%N
  | CS n, CInteger => (n <=? 32)%N
  | _, _ => false
  end.

(** raw representations: Bit/Bool 0|1, vectors their unsigned bit pattern, Integer the number *)
Definition in_range (t : cty) (v : Z) : Prop :=
  match t with
  | CBit | CBool => v = 0 \/ v = 1
  | CBV n | CU n | CS n => 0 <= v < pow2 n
  | CInteger => int_min <= v <= int_max
  | _ => v = 0
  end.

(** the represented number of a raw value *)
Definition num (t : cty) (v : Z) : Z :=
  match t with
  | CS n => sval n v
  | CIntLit z => z
  | CStrLit _ b => b
  | CNull => 0
  | _ => v
  end.

(** the documented value map (raw source representation -> raw target representation) *)
Definition conv_val (src tgt : cty) (v : Z) : Z :=
  match src, tgt with
  | CNull, _ => 0
  | CFull, (CBV m | CU m | CS m) => ones m
  | CFull, CInteger => -1
  | CFull, _ => 1
  | CIntLit z, CS m => wrap m z
  | CIntLit z, _ => z
  | CStrLit _ b, _ => b
  | CS n, CS m => wrap m (sval n v)
  | CS n, CInteger => sval n v
  | _, _ => v
  end.

Definition representable (t : cty) (z : Z) : Prop :=
  match t with
  | CBit | CBool => z = 0 \/ z = 1
  | CBV m | CU m => 0 <= z < pow2 m
  | CS m => smin m <= z <= smax m
  | CInteger => int_min <= z <= int_max
  | _ => False
  end.

(** pairs documented as plain bit copies (the number may be re-read, the bits may not change) *)
Definition bit_copy (src tgt : cty) : bool :=
  match src, tgt with
  | (CU n | CS n | CBV n), CBV m | CBV n, (CU m | CS m) => (n =? m)%N
  | (CStrLit _ _ | CNull | CFull), _ => true
  | _, _ => false
  end.

(** ** the code *)

(** [T._assign(x)] on the placeholder value of a source of type [src] (runtime Integer objects hold 0) *)
Definition trial (src tgt : cty) : bool :=
  match tgt with
  | CBit =>                                 (* BitState.construct *)
      match src with
      | CBit | CBool | CInteger | CNull | CFull => true
      | CIntLit z => (z =? 0) || (z =? 1)
      | CStrLit l _ => (l =? 1)%N
      | _ => false
      end
  | CBool =>                                (* _Boolean._assign: bool(other) *)
      match src with
      | CIntLit z => (z =? 0) || (z =? 1)
      | CStrLit l _ => (l =? 1)%N
      | _ => true
      end
  | CBV m =>                                (* BitVector._assign *)
      match src with
      | CNull | CFull => true
      | CStrLit l _ | CBV l | CU l | CS l => (l =? m)%N
      | _ => false
      end
  | CU m =>                                 (* Unsigned._assign *)
      match src with
      | CInteger => true
      | CIntLit z => (0 <=? z) && (z <? pow2 m)
      | CU l => (l <=? m)%N
      | CS _ => false
      | CNull | CFull => true
      | CStrLit l _ | CBV l => (l =? m)%N
      | _ => false
      end
  | CS m =>                                 (* Signed._assign *)
      match src with
      | CInteger => true
      | CIntLit z => (smin m <=? z) && (z <=? smax m)
      | CS l => (l <=? m)%N
      | CU l => (l <? m)%N
      | CNull | CFull => true
      | CStrLit l _ | CBV l => (l =? m)%N
      | _ => false
      end
  | CInteger =>                             (* Integer._assign *)
      match src with CInteger | CIntLit _ | CU _ | CS _ => true | _ => false end
  | _ => false
  end.

(** [T(x)] : the constructors (used by declarations with a constant, _Redirect and _try_join) *)
Definition ctor (src tgt : cty) : bool :=
  match tgt with
  | CBool => true                           (* _Boolean(value): bool(value) *)
  | CInteger => match src with CInteger | CIntLit _ | CNull => true | _ => false end
  | CBit => match src with CStrLit l _ => (l =? 1)%N | _ => trial src tgt end
  | _ => trial src tgt
  end.

(** ** format_cast *)

Inductive cexp :=
| XSrc
| XLit (v : value)
| XF1 (f : fn1) (e : cexp)
| XF2 (f : fn2) (e : cexp) (n : Z)
| XEqOne (e : cexp)
| XNeZero (e : cexp)
| XNeZeros (e : cexp) (w : N)
| XFail.

Fixpoint ceval (e : cexp) (x : value) : res value :=
  match e with
  | XSrc => Ok x
  | XLit v => Ok v
  | XF1 f a => do y <- ceval a x; eval_fn1 f y
  | XF2 f a n => do y <- ceval a x; eval_fn2 f y (VI n)
  | XEqOne a => do y <- ceval a x; eval_binop OEq y (VL true)
  | XNeZero a => do y <- ceval a x; eval_binop ONe y (VI 0)
  | XNeZeros a w => do y <- ceval a x; eval_binop ONe y (VV KSlv w 0)
  | XFail => Err ETypeError
  end.

Fixpoint cexp_eqb (a b : cexp) : bool :=
  match a, b with
  | XSrc, XSrc | XFail, XFail => true
  | XLit v, XLit w => value_eqb v w
  | XF1 f x, XF1 g y =>
      match f, g with
      | FToInteger, FToInteger | FBoolToSl, FBoolToSl | FConvUns, FConvUns | FConvSgn, FConvSgn | FConvSlv, FConvSlv
      | FQualUns, FQualUns | FQualSgn, FQualSgn | FQualSlv, FQualSlv => cexp_eqb x y
      | _, _ => false
      end
  | XF2 f x n, XF2 g y m =>
      match f, g with
      | FResize, FResize | FShl, FShl | FShr, FShr | FToUnsigned, FToUnsigned | FToSigned, FToSigned => (n =? m) && cexp_eqb x y
      | _, _ => false
      end
  | XEqOne x, XEqOne y | XNeZero x, XNeZero y => cexp_eqb x y
  | XNeZeros x w, XNeZeros y w' => (w =? w')%N && cexp_eqb x y
  | _, _ => false
  end.

Definition enc (t : cty) (z : Z) : value :=
  match t with
  | CBit => VL (negb (z =? 0))
  | CBool => VB (negb (z =? 0))
  | CBV n => VV KSlv n z
  | CU n => VV KUns n z
  | CS n => VV KSgn n z
  | _ => VI z
  end.

Definition dec (v : value) : Z :=
  match v with VL b | VB b => if b then 1 else 0 | VV _ _ z | VI z => z | _ => 0 end.

Definition slv (e : cexp) := XF1 FConvSlv e.
Definition guard (b : bool) (e : cexp) : cexp := if b then e else XFail.
Definition rsz (n m : N) (e : cexp) : cexp := XF2 FResize e (Z.of_N m).

(** the conversion of a vector-typed value into the kind of the VHDL object *)
Definition to_kind (from to : vk) (e : cexp) : cexp :=
  match to, from with
  | KU, KU | KS, KS | KB, KB => e
  | KU, KS => XF1 FConvUns (slv e)
  | KS, KU => XF1 FConvSgn (slv e)
  | KU, KB => XF1 FConvUns e
  | KS, KB => XF1 FConvSgn e
  | KB, _ => slv e
  end.

(** [vt]: type of the VHDL object written (root of the target), [tt]: type of the target expression, [st]: type of
    the value.  Non-primitive sources (literals, Null, Full) reach format_cast as a constant of the target type. *)
Definition cast_emit (vt tt st : cty) : cexp :=
  if negb (is_runtime st) then
    (* format_literal(vhdl_target_type(constant of the target type)): the constructor of the root's kind *)
    if ctor tt vt then XLit (enc vt (conv_val st tt 0)) else XFail
  else match tt with
  | CBit => match st with CBit => XSrc | CBool => XF1 FBoolToSl XSrc | _ => XFail end
  | CBool =>
      match st with
      | CBool => XSrc
      | CBit => XEqOne XSrc
      | CU _ | CS _ | CInteger => XNeZero XSrc
      | CBV w => XNeZeros XSrc w
      | _ => XFail
      end
  | CInteger => match st with CInteger => XSrc | CU _ | CS _ => XF1 FToInteger XSrc | _ => XFail end
  | CBV _ | CU _ | CS _ =>
      match vec_of vt, vec_of tt with
      | Some (kv, _), Some (kt, m) =>
          match st with
          | CInteger =>
              match kt with
              | KU => to_kind KU kv (XF2 FToUnsigned XSrc (Z.of_N m))
              | KS => to_kind KS kv (XF2 FToSigned XSrc (Z.of_N m))
              | KB => XFail
              end
          | CU n =>
              match kv with
              | KU => if (m =? n)%N then XSrc else guard (n <? m)%N (rsz n m XSrc)
              | KS =>
                  match kt with
                  | KU => if (m =? n)%N then to_kind KU KS XSrc else guard (n <? m)%N (to_kind KU KS (rsz n m XSrc))
                  | KS => guard (n <=? m)%N (to_kind KU KS (rsz n m XSrc))
                  | KB => guard (m =? n)%N (to_kind KU KS XSrc)
                  end
              | KB =>
                  match kt with
                  | KU => if (m =? n)%N then slv XSrc else guard (n <? m)%N (slv (rsz n m XSrc))
                  | KS => guard (n <? m)%N (slv (rsz n m XSrc))
                  | KB => guard (m =? n)%N (slv XSrc)
                  end
              end
          | CS n =>
              match kv with
              | KS => if (m =? n)%N then XSrc else guard (n <? m)%N (rsz n m XSrc)
              | KU =>
                  match kt with
                  | KS => if (m =? n)%N then to_kind KS KU XSrc else guard (n <? m)%N (to_kind KS KU (rsz n m XSrc))
                  | _ => guard (m =? n)%N (to_kind KS KU XSrc)
                  end
              | KB =>
                  match kt with
                  | KS => if (m =? n)%N then slv XSrc else guard (n <? m)%N (slv (rsz n m XSrc))
                  | KU => XFail
                  | KB => guard (m =? n)%N (slv XSrc)
                  end
              end
          | CBV n => guard (m =? n)%N (to_kind KB kv XSrc)
          | _ => XFail
          end
      | _, _ => XFail
      end
  | _ => XFail
  end.

Definition emits (vt tt st : cty) : bool := match cast_emit vt tt st with XFail => false | _ => true end.

(** ** branch / return merges: _try_join on two options (vector options of different widths are never joined; a numeric vector and a plain BitVector join to the BitVector) *)

Definition join_adjust (r o : cty) : option cty :=
  match r with
  | CBit => match o with CBit | CBool => Some CBit | _ => None end
  | CBool => match o with CBit => Some CBit | CBool => Some CBool | _ => None end
  | CBV n =>
      match vec_of o with
      | Some (_, m) => if (n =? m)%N then Some r else None
      | None => Some r
      end
  | CU n | CS n =>
      (* a Signed/Unsigned option joined with a plain BitVector option of the same width is a BitVector,
         whatever the order of the options (fix: f05 join) *)
      match vec_of o with
      | Some (_, m) => if (n =? m)%N then (match o with CBV _ => Some (CBV n) | _ => Some r end) else None
      | None => Some r
      end
  | _ => Some r
  end.

Definition join (a b : cty) : option cty :=
  match a, b with
  | (CNull | CFull), _ | _, (CNull | CFull) => None
  | _, _ =>
      let r := if is_runtime a then join_adjust a b else if is_runtime b then Some b else None in
      match r with
      | Some t => if ctor a t && ctor b t then Some t else None
      | None => None
      end
  end.

Definition cty_eqb (a b : cty) : bool :=
  match a, b with
  | CBit, CBit | CBool, CBool | CInteger, CInteger | CNull, CNull | CFull, CFull => true
  | CBV n, CBV m | CU n, CU m | CS n, CS m => (n =? m)%N
  | CIntLit x, CIntLit y => x =? y
  | CStrLit l x, CStrLit l' y => (l =? l')%N && (x =? y)
  | _, _ => false
  end.

(** ** assignment forms *)

Inductive form :=
| FNextOp | FNextAttr | FValueOp | FValueAttr | FPushOp | FPushAttr
| FSlice (root : vk) | FView (root : vk) | FElem (root : vk)
| FDeclSig | FDeclVar | FDeclStatic
| FPortIn | FPortOut
| FIfA | FIfB | FRetA | FRetB
(* if-expression / two-return function / select_with whose OTHER option has its own type [o]
   (Null, Full, a narrower run-time value): the new value first (A) or second (B) *)
| FMerge3A (o : cty) | FMerge3B (o : cty).

Definition root_kind (f : form) (tgt : cty) : cty :=
  match f with FSlice k | FView k => retag k tgt | _ => tgt end.

(** statement forms: the trial assignment of the setter replacement, then format_cast in the backend *)
Definition stmt_ok (vt src tgt : cty) : bool := trial src tgt && emits vt tgt src.

(** an expression whose value is one of two options, assigned to [tgt]: every option is redirected into the merge
    temporary (or, without a join, into the target) after a constructor check (_Redirect) *)
Definition redirect_ok (src tgt : cty) : bool := ctor src tgt && emits tgt tgt src.

Definition merge_ok (a b tgt : cty) : bool :=
  match join a b with
  | Some r => redirect_ok a r && redirect_ok b r && stmt_ok tgt r tgt
  | None => redirect_ok a tgt && redirect_ok b tgt
  end.

(** a declaration inside a context: no trial assignment, a run-time initial value is only seen by format_cast *)
Definition decl_ok (src tgt : cty) : bool := if is_runtime src then emits tgt tgt src else ctor src tgt.

Definition assign_ok (f : form) (src tgt : cty) : bool :=
  match f with
  | FNextOp | FNextAttr | FValueOp | FValueAttr | FPushOp | FPushAttr => stmt_ok tgt src tgt
  (* [t[hi:lo].view <<= s] and [t.view <<= s]: the target type is the view's, the VHDL object keeps the root's kind *)
  | FSlice k | FView k => match vec_of tgt with Some _ => stmt_ok (retag k tgt) src tgt | None => false end
  | FElem _ => match tgt with CBit => stmt_ok tgt src tgt | _ => false end
  | FDeclSig | FDeclVar => decl_ok src tgt
  | FDeclStatic => ctor src tgt
  (* Entity.__init__ (_context.py, as patched by efe8b9f): trial assignment in the direction of the data flow, then
     formal and actual must have the same type (a port map carries no conversion); a literal actual crashes *)
  | FPortIn => is_runtime src && trial src tgt && cty_eqb src tgt
  | FPortOut => is_runtime src && trial src tgt && trial tgt src && cty_eqb src tgt
  | FIfA | FRetA => merge_ok src tgt tgt
  | FIfB | FRetB => merge_ok tgt src tgt
  | FMerge3A o => merge_ok src o tgt
  | FMerge3B o => merge_ok o src tgt
  end.

(** the statement for a merge of two options of different types: both convert to the target, directly or through
    the type of one of them (the join type; C05_join_sound) *)
Definition via (r a o tgt : cty) : bool := is_runtime r && doc_ok a r && doc_ok o r && doc_ok r tgt.
Definition m3_doc (a o tgt : cty) : bool := doc_ok a tgt && doc_ok o tgt || via a a o tgt || via o a o tgt.
(** the value that reaches the target from option [x] of the pair (a, o) *)
Definition m3_val (x a o tgt : cty) (v : Z) : Z :=
  if doc_ok a tgt && doc_ok o tgt then conv_val x tgt v
  else if via a a o tgt then conv_val a tgt (conv_val x a v)
  else conv_val o tgt (conv_val x o v).

Definition doc_form (f : form) (src tgt : cty) : bool :=
  match f with FMerge3A o | FMerge3B o => m3_doc src o tgt | _ => doc_ok src tgt end.

(** ** the tree with /verif/seeded/_proposed_fixes/C05_decl_trial_assign.diff: declarations with a run-time vector as
    initial value make the trial assignment of the setters (harness: C05_MODEL=declfix) *)
Definition decl_ok_fixed (src tgt : cty) : bool :=
  if is_runtime src then
    match vec_of src, vec_of tgt with
    | Some _, Some _ => trial src tgt && emits tgt tgt src
    | _, _ => emits tgt tgt src
    end
  else ctor src tgt.

Definition assign_ok_declfix (f : form) (src tgt : cty) : bool :=
  match f with FDeclSig | FDeclVar => decl_ok_fixed src tgt | _ => assign_ok f src tgt end.
