(** C12 - model of the compiler's instantiation bookkeeping (which entity templates are emitted, in which
    order, how often an entity class is elaborated, and how the port map of an instance is assembled).

    Anchors (current /repo tree):
      cohdl/_core/_context.py
        l.55-61   _register_block: an instance is appended to the [_subblocks] of the block on top of the stack
        l.238-279 Entity.__init__: [if not info.extern and info.instantiated is None]: the FIRST construction of
                  an instance of an entity class creates [template_instance], stores it in [info.instantiated]
                  BEFORE running [info.architecture(template_instance)]; later constructions reuse it   -> [elab]
        l.284-352 Entity.__init__: keyword arguments are stored BY NAME in [_cohdl_port_definitions]
                  (unknown name -> AssertionError, type of formal and actual must be identical, every
                  declared port needs a definition)                                                     -> [inst_ok]
      cohdl/_compiler/frontend/_prepare_ast.py
        l.2449-2464 ConvertPythonInstance.apply(Entity): template := apply(type(inp)); out.Entity(template, ports)
        l.2466-2525 apply(type): [if info.instantiated_template is None]: inp(_cohdl_instantiate_only=True),
                  round 1 converts the architecture-level instances and then the contexts (instances created while
                  a context is traced are registered in [dummy_block]), round 2 converts those; the template
                  is stored in [info.instantiated_template] afterwards                                  -> [convert], [subblocks]
      cohdl/_compiler/frontend/_generate_ir.py l.1137-1160 ConvertInstance.apply: IdMap out-template -> ir-template
      cohdl/_compiler/backend/vhdl/_vhdl_assembler.py l.270-283 apply(ir.Entity)/apply(ir.EntityTemplate):
                  [_known_templates]: one vhdl.Entity per ir template, EntityInst(scope, entity, ports)
      cohdl/_compiler/backend/vhdl/_vhdl_repr.py
        l.1607-1621 Entity.__init__: [_sub_entities] = the EntityInst objects among the instances, in order
        l.1981-2024 EntityInst._port_map: [for port_name, port in self._entity.ports().items():
                  actual = self._ports[port_name]] (lookup by NAME in the instance's dictionary); inputs:
                  (formal, format_value(actual)); outputs: formal-side conversion [vector_kind(root)(formal)]
                  iff root, actual and port are vectors and vector_kind(root) <> vector_kind(port)      -> [port_map], [fconv]
        l.2058-2083 Library.from_top_entity: [collect_subenties]: for every sub-instance (no visited test)
                  recurse into its entity, then [entities.add(parent)] (IdSet = insertion-ordered dict keyed
                  by id: adding a present element keeps its position); then the assertion that the lower-cased
                  CLASS names of the collected entities are pairwise different                          -> [collect], [emit_order], [library]
      cohdl/std/_compile.py l.17-23 VhdlCompiler.to_string = str(Library.write()) : the units in list order.

    Not modelled: the text of an actual ([format_value]/[format_target]; only the object an actual denotes and the
    outermost type of its expression are compared), extern entities, generics, nested Blocks, Array roots, the
    renaming of a unit whose class name is reserved (scope machinery: C06). *)
From Coq Require Import NArith Arith List Bool.
Import ListNotations.

(** * types, ports, actuals *)
Inductive vkind := KSlv | KUns | KSgn.
Inductive ty := TBit | TVec (k : vkind) (w : N).
Inductive dir := DIn | DOut.
Inductive sel := SWhole | SSlice (hi lo : N) | SElem (i : N).

Record port := mkport { p_name : N; p_dir : dir; p_ty : ty }.
(** an object of the parent given as actual: root signal/port (a token), the selected part, the type of the
    root ([actual._root.type]) and the type of the object itself ([actual.type], after slices and typed views) *)
Record actual := mkact { a_root : N; a_sel : sel; a_root_ty : ty; a_ty : ty }.

Definition vkind_eqb a b := match a, b with KSlv, KSlv | KUns, KUns | KSgn, KSgn => true | _, _ => false end.
Definition ty_eqb a b := match a, b with
  | TBit, TBit => true | TVec k w, TVec k' w' => vkind_eqb k k' && N.eqb w w' | _, _ => false end.
Definition dir_eqb a b := match a, b with DIn, DIn | DOut, DOut => true | _, _ => false end.
Definition sel_eqb a b := match a, b with
  | SWhole, SWhole => true | SSlice h l, SSlice h' l' => N.eqb h h' && N.eqb l l' | SElem i, SElem j => N.eqb i j
  | _, _ => false end.
Definition vkind_of (t : ty) : option vkind := match t with TBit => None | TVec k _ => Some k end.

(** * instances, templates, graphs.  A template is identified by its position in the graph. *)
Record inst := mkinst { i_tmpl : nat; i_kw : list (N * actual) }.    (* keyword arguments in CALL order *)
Record template := mktmpl {
  t_name : list N;          (* class name, character codes *)
  t_ports : list port;      (* declared ports, declaration order (EntityInfo.ports) *)
  t_arch : list inst;       (* instances created while the architecture method runs *)
  t_ctx : list inst }.      (* instances created inside contexts (while a context is traced) *)
Definition graph := list template.
Definition t_default := mktmpl [] [] [] [].
Definition tmpl (g : graph) (p : nat) := nth p g t_default.

(** _prepare_ast.py l.2487-2509: round 1 = architecture-level blocks, round 2 = blocks registered in the dummy block *)
Definition subblocks (t : template) : list inst := t_arch t ++ t_ctx t.
Definition children (g : graph) (p : nat) : list nat := map i_tmpl (subblocks (tmpl g p)).

(** * (a) Library.from_top_entity *)
Fixpoint mem (x : nat) (l : list nat) : bool :=
  match l with [] => false | y :: r => Nat.eqb x y || mem x r end.
(** IdSet.add: [self._content[element] = element] on an insertion-ordered dict *)
Definition add (x : nat) (s : list nat) : list nat := if mem x s then s else s ++ [x].

Section Collect.
  Variable ch : nat -> list nat.
  (** collect_subenties(parent) with the IdSet threaded through; [fuel] bounds the recursion depth
      (the real recursion has no bound: a cyclic graph is a RecursionError) *)
  Fixpoint collect (fuel : nat) (p : nat) (s : list nat) : list nat :=
    match fuel with
    | 0 => s
    | S f => add p (fold_left (fun s c => collect f c s) (ch p) s)
    end.
End Collect.

(** children have smaller ids: depth of template [top] is at most [top], fuel [S top] suffices *)
Definition emit_order (g : graph) (top : nat) : list nat := collect (children g) (S top) top [].

Definition lower (c : N) : N := if (N.leb 65 c && N.leb c 90)%bool then (c + 32)%N else c.
Fixpoint nlist_eqb (a b : list N) : bool :=
  match a, b with [] , [] => true | x :: r, y :: s => N.eqb x y && nlist_eqb r s | _, _ => false end.
Fixpoint name_in (n : list N) (l : list (list N)) : bool :=
  match l with [] => false | m :: r => nlist_eqb n m || name_in n r end.
Fixpoint names_distinct (l : list (list N)) : bool :=
  match l with [] => true | n :: r => negb (name_in n r) && names_distinct r end.
Definition unit_name (g : graph) (p : nat) : list N := map lower (t_name (tmpl g p)).

(** * (c) the port map of one instance *)
Fixpoint lookup (n : N) (kw : list (N * actual)) : option actual :=
  match kw with [] => None | (m, a) :: r => if N.eqb n m then Some a else lookup n r end.

Record pm_entry := mkpm { e_formal : N; e_dir : dir; e_fconv : option vkind; e_actual : actual }.

(** _vhdl_repr.py l.1997-2017 *)
Definition fconv (p : port) (a : actual) : option vkind :=
  match p_dir p with
  | DIn => None
  | DOut => match vkind_of (a_root_ty a), vkind_of (a_ty a), vkind_of (p_ty p) with
            | Some kr, Some _, Some kp => if vkind_eqb kr kp then None else Some kr
            | _, _, _ => None
            end
  end.

(** None = KeyError of [self._ports[port_name]] *)
Fixpoint port_map (ports : list port) (kw : list (N * actual)) : option (list pm_entry) :=
  match ports with
  | [] => Some []
  | p :: r => match lookup (p_name p) kw, port_map r kw with
              | Some a, Some l => Some (mkpm (p_name p) (p_dir p) (fconv p a) a :: l)
              | _, _ => None
              end
  end.

(** Entity.__init__ l.284-334: every keyword names a declared port whose type is the type of the actual;
    every declared port is defined *)
Fixpoint find_port (n : N) (ports : list port) : option port :=
  match ports with [] => None | p :: r => if N.eqb n (p_name p) then Some p else find_port n r end.
Definition kw_ok (ports : list port) (k : N * actual) : bool :=
  match find_port (fst k) ports with Some p => ty_eqb (p_ty p) (a_ty (snd k)) | None => false end.
Definition inst_ok (ports : list port) (kw : list (N * actual)) : bool :=
  forallb (kw_ok ports) kw &&
  forallb (fun p => match lookup (p_name p) kw with Some _ => true | None => false end) ports.

(** * (b) elaboration: the two per-class caches of the front end.
    [elaborated] = classes with [info.instantiated] set, [converted] = classes with
    [info.instantiated_template] set, [runs] = executions of an architecture method, oldest first *)
Record estate := mkes { elaborated : list nat; converted : list nat; runs : list nat }.
Definition es0 := mkes [] [] [].

Section Elab.
  Variable g : graph.
  (** Entity.__init__ of an instance of class [c] *)
  Fixpoint elab (fuel : nat) (c : nat) (st : estate) : estate :=
    match fuel with
    | 0 => st
    | S f =>
      if mem c (elaborated st) then st
      else fold_left (fun st i => elab f (i_tmpl i) st) (t_arch (tmpl g c))
             (mkes (elaborated st ++ [c]) (converted st) (runs st ++ [c]))
    end.
  (** ConvertPythonInstance.apply(type) *)
  Fixpoint convert (fuel : nat) (c : nat) (st : estate) : estate :=
    match fuel with
    | 0 => st
    | S f =>
      if mem c (converted st) then st
      else
        let st1 := elab (S f) c st in                                               (* inp(_cohdl_instantiate_only=True) *)
        let st2 := fold_left (fun st i => convert f (i_tmpl i) st) (t_arch (tmpl g c)) st1 in   (* round 1: blocks *)
        let st3 := fold_left (fun st i => elab f (i_tmpl i) st) (t_ctx (tmpl g c)) st2 in       (* round 1: contexts traced *)
        let st4 := fold_left (fun st i => convert f (i_tmpl i) st) (t_ctx (tmpl g c)) st3 in    (* round 2 *)
        mkes (elaborated st4) (converted st4 ++ [c]) (runs st4)
    end.
End Elab.

Definition arch_runs (g : graph) (top : nat) : list nat := runs (convert g (S top) top es0).

(** the cache seen as a step function: one instantiation request for class [c] against the cache state
    (class -> template handle); returns the new cache, the handle and whether a template was created *)
Fixpoint cache_find (c : nat) (cache : list (nat * nat)) : option nat :=
  match cache with [] => None | (k, h) :: r => if Nat.eqb c k then Some h else cache_find c r end.
Definition cache_step (cache : list (nat * nat)) (c : nat) : list (nat * nat) * nat * bool :=
  match cache_find c cache with
  | Some h => (cache, h, false)
  | None => (cache ++ [(c, length cache)], length cache, true)
  end.
(** a sequence of requests: handles handed out and number of templates created *)
Fixpoint cache_run (cache : list (nat * nat)) (cs : list nat) : list nat * nat :=
  match cs with
  | [] => ([], 0)
  | c :: r => let '(cache', h, created) := cache_step cache c in
              let '(hs, n) := cache_run cache' r in
              (h :: hs, if created then S n else n)
  end.

(** * what one compilation shows (compared with the emitted VHDL by harness/c12_order.py) *)
Definition centry := (N * option vkind * N * sel * option vkind)%type.
(** the vector kind of the actual AS PRINTED: an input actual is printed by [format_value] (converted to the type of
    the object, i.e. of the typed view), an output actual by [format_target] (no conversion: the kind of the root) *)
Definition printed_kind (d : dir) (a : actual) : option vkind :=
  match d with
  | DIn => vkind_of (a_ty a)
  | DOut => match a_sel a with SElem _ => None | _ => vkind_of (a_root_ty a) end
  end.
Definition canon (e : pm_entry) : centry :=
  (e_formal e, e_fconv e, a_root (e_actual e), a_sel (e_actual e), printed_kind (e_dir e) (e_actual e)).

Definition inst_view (g : graph) (i : inst) : nat * list centry :=
  (i_tmpl i, match port_map (t_ports (tmpl g (i_tmpl i))) (i_kw i) with Some l => map canon l | None => [] end).
Definition unit_view (g : graph) (p : nat) : nat * list (nat * list centry) :=
  (p, map (inst_view g) (subblocks (tmpl g p))).

Definition all_insts_ok (g : graph) (units : list nat) : bool :=
  forallb (fun p => forallb (fun i => inst_ok (t_ports (tmpl g (i_tmpl i))) (i_kw i)) (subblocks (tmpl g p))) units.

(** None = the compilation is rejected *)
Definition library (g : graph) (top : nat) : option (list nat) :=
  let l := emit_order g top in
  if all_insts_ok g l && names_distinct (map (unit_name g) l) then Some l else None.

Definition compile (g : graph) (top : nat) : option (list (nat * list (nat * list centry)) * list nat) :=
  match library g top with
  | Some l => Some (map (unit_view g) l, arch_runs g top)
  | None => None
  end.

(** equality of observations *)
Definition ovk_eqb (a b : option vkind) := match a, b with
  | None, None => true | Some x, Some y => vkind_eqb x y | _, _ => false end.
Definition centry_eqb (a b : centry) : bool :=
  let '(f, c, r, s, k) := a in let '(f', c', r', s', k') := b in
  N.eqb f f' && ovk_eqb c c' && N.eqb r r' && sel_eqb s s' && ovk_eqb k k'.
Fixpoint list_eqb {A} (eqb : A -> A -> bool) (a b : list A) : bool :=
  match a, b with [], [] => true | x :: r, y :: s => eqb x y && list_eqb eqb r s | _, _ => false end.
Definition iview_eqb (a b : nat * list centry) := Nat.eqb (fst a) (fst b) && list_eqb centry_eqb (snd a) (snd b).
Definition uview_eqb (a b : nat * list (nat * list centry)) := Nat.eqb (fst a) (fst b) && list_eqb iview_eqb (snd a) (snd b).
Definition obs := option (list (nat * list (nat * list centry)) * list nat).
Definition obs_eqb (a b : obs) : bool :=
  match a, b with
  | None, None => true
  | Some (u, r), Some (u', r') => list_eqb uview_eqb u u' && list_eqb Nat.eqb r r'
  | _, _ => false
  end.
(** a case of the correspondence check: graph, top, what the real compiler showed *)
Definition case_ok (c : graph * nat * obs) : bool :=
  let '(g, top, o) := c in obs_eqb (compile g top) o.

(** the units and, per unit, the templates of its instances in architecture order (used for the netlists of
    harness/c12.py, whose port maps are covered by their trace-equality theorems) *)
Definition shape (g : graph) (top : nat) : option (list (nat * list nat)) :=
  match library g top with
  | Some l => Some (map (fun p => (p, children g p)) l)
  | None => None
  end.
Definition shape_case_ok (c : graph * nat * option (list (nat * list nat))) : bool :=
  let '(g, top, o) := c in
  match shape g top, o with
  | None, None => true
  | Some a, Some b => list_eqb (fun x y => Nat.eqb (fst x) (fst y) && list_eqb Nat.eqb (snd x) (snd y)) a b
  | _, _ => false
  end.
