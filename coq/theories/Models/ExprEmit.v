(** * ExprEmit: what the VHDL back end PRINTS for an expression tree (C02), as coded.

    Anchors (current /repo tree):
    - cohdl/_compiler/backend/vhdl/_vhdl_repr.py
        [BinOp.write] l.288-327 (shift_left/shift_right with the count cast to integer, operands of [&] taken through
        [.bitvector], a negative int next to an Unsigned in + - printed modulo 2**width, "(lhs) op (rhs)"),
        [UnaryOp.write] l.343-364 (not / - / abs, "(0) - (x)" for an Unsigned, NOT through [Boolean]),
        [Compare.write] l.202-225 (negative literal against an Unsigned folds to true / false, "(lhs op rhs)"),
        [Boolean.write] l.146-149, [VhdlScope.format_value] l.1099-1147, [_format_ref] l.862-921 (static slice / index of the
        ROOT object, the conversion function is chosen by the type of the root), [format_vhdl_cast] l.1161-1208,
        [format_cast] l.1210-1382 (resize, to_integer, boolean conversions), [format_literal] l.923-980;
    - cohdl/_core/_type_qualifier.py  [__getitem__] l.450-506 (a slice / index of a slice is folded into one reference
      relative to the root: Slice.simplify l.85-101), [unsigned/signed/bitvector] l.1292-1341 (a view keeps root and
      reference and only changes the value type), [resize] l.564-589 (zero padding is a concatenation with a constant,
      the extension is the cast of an assignment to a Temporary), the [_x_replacement] methods l.1008-1286 (every
      operator becomes one IR node whose result is a fresh Temporary);
    - cohdl/_compiler/frontend/_prepare_ast.py l.458-484 (operands are passed on as values; constant element access and
      views do not create a statement).

    Every operator result is assigned to a temporary ([tempN <= ...;] in a concurrent context, [tempN := ...;] in a
    process); [emit] produces the expression with the temporaries INLINED, as the reader's abstract syntax (so the
    redundant parentheses of the text do not appear, and a qualified literal [unsigned'("101")] is the typed literal).

    An operand at print time is described by [opnd]:
    - [OInt z]  a Python int, printed as an integer literal;
    - [OCst k w z]  a constant Bit / vector / enumeration value, printed as a (qualified) literal;
    - [ORef root rk rw s vk vw]  a reference: the root object (an input port, or an inlined temporary) of VHDL type
      (rk, rw), at most one folded static slice / index [s] into it, and the value type (vk, vw) the front end sees
      (changed by views, BitVector after a slice, Bit after an index).

    Outside the modelled grammar ([None]): if-expressions and select_with (printed as [with .. select] statements, not
    expressions), any / all, arrays, run-time indices (the index is copied to a temporary of its own), chained comparison,
    Python-level [and] / [or], operators all of whose operands are constants (folded by Python before the compiler sees
    them; property C09), views / slices / resize of constants (idem), unary minus of an Integer. *)
From Coq Require Import ZArith NArith PArith List Bool Lia.
From Cohdl Require Import Base.Bits Vhdl.Value Vhdl.NumStd Vhdl.Syntax Models.ExprRef.
Import ListNotations.
Local Open Scope Z_scope.

Inductive rsel := RNone | RSlice (hi lo : N) | RIdx (i : N).

Inductive opnd :=
| OInt (z : Z)
| OCst (k : kind) (w : N) (z : Z)
| ORef (root : expr) (rk : kind) (rw : N) (s : rsel) (vk : kind) (vw : N).

(** type conversion function named after the target kind *)
Definition cv (k : kind) (x : expr) : expr :=
  match k with
  | KU => EF1 FConvUns x
  | KS => EF1 FConvSgn x
  | _ => EF1 FConvSlv x
  end.

(** format_vhdl_cast (no reference) and the final format_cast of format_value (after a slice): bring a VHDL object
    of vector kind [rk] to the value kind [vk].  Unsigned <-> Signed goes through std_logic_vector. *)
Definition vcast (rk vk : kind) (x : expr) : expr :=
  match rk, vk with
  | KU, KU | KS, KS | KBV, KBV => x
  | KU, KS => EF1 FConvSgn (EF1 FConvSlv x)
  | KS, KU => EF1 FConvUns (EF1 FConvSlv x)
  | (KU | KS), KBV => EF1 FConvSlv x
  | KBV, KU => EF1 FConvUns x
  | KBV, KS => EF1 FConvSgn x
  | _, _ => x
  end.

(** the same after a static slice: here format_cast(value type, type of the slice) is used, whose Unsigned -> Signed
    branch (l.1316-1327) always prints a resize to the (equal) width *)
Definition vcast_ref (rk vk : kind) (w : N) (x : expr) : expr :=
  match rk, vk with
  | KU, KS => EF1 FConvSgn (EF1 FConvSlv (EF2 FResize x (ELit (VI (Z.of_N w)))))
  | _, _ => vcast rk vk x
  end.

(** format_literal *)
Definition lit_value (k : kind) (w : N) (z : Z) : value := scalar_value k w z.

(** format_value *)
Definition fmt (o : opnd) : expr :=
  match o with
  | OInt z => ELit (VI z)
  | OCst k w z => ELit (lit_value k w z)
  | ORef root rk rw s vk vw =>
      match s with
      | RNone => if is_vec rk then vcast rk vk root else root
      | RSlice hi lo => vcast_ref rk vk vw (cv rk (ESlice root hi lo))
      | RIdx i => EIdx root (ELit (VI (Z.of_N i)))
      end
  end.

(** the front end's type of an operand *)
Definition oty (o : opnd) : ty :=
  match o with
  | OInt _ => Ty KInt 0
  | OCst k w _ => Ty k w
  | ORef _ _ _ _ vk vw => Ty vk vw
  end.

Definition is_ref (o : opnd) : bool := match o with ORef _ _ _ _ _ _ => true | _ => false end.

(** a fresh temporary holding [x] of type (k, w) *)
Definition tmp (x : expr) (k : kind) (w : N) : opnd := ORef x k w RNone k w.

Definition tmp_ty (x : expr) (t : option ty) : option opnd :=
  match t with Some (Ty k w) => Some (tmp x k w) | _ => None end.

(** [x.unsigned / .signed / .bitvector] *)
Definition o_view (v : view) (o : opnd) : option opnd :=
  match o with
  | ORef root rk rw s vk vw => if is_vec vk then Some (ORef root rk rw s (view_kind v) vw) else None
  | _ => None
  end.

(** [x[hi:lo]] : folded into the reference (TypeQualifier.__getitem__, Slice.simplify) *)
Definition o_slice (hi lo : N) (o : opnd) : option opnd :=
  match o with
  | ORef root rk rw s vk vw =>
      if is_vec vk && (lo <=? hi)%N && (hi <? vw)%N then
        match s with
        | RNone => Some (ORef root rk rw (RSlice hi lo) KBV (hi - lo + 1))
        | RSlice h l => Some (ORef root rk rw (RSlice (l + hi) (l + lo)) KBV (hi - lo + 1))
        | RIdx _ => None
        end
      else None
  | _ => None
  end.

Definition o_idx (i : N) (o : opnd) : option opnd :=
  match o with
  | ORef root rk rw s vk vw =>
      if is_vec vk && (i <? vw)%N then
        match s with
        | RNone => Some (ORef root rk rw (RIdx i) KBit 1)
        | RSlice h l => Some (ORef root rk rw (RIdx (l + i)) KBit 1)
        | RIdx _ => None
        end
      else None
  | _ => None
  end.

(** Boolean(arg): format_cast(bool, arg) *)
Definition to_bool (o : opnd) : option expr :=
  match oty o with
  | Ty KBool _ => Some (fmt o)
  | Ty KBit _ => Some (EBin OEq (fmt o) (ELit (VL true)))
  | Ty (KU | KS) _ => Some (EBin ONe (fmt o) (ELit (VI 0)))
  | Ty KBV w => Some (EBin ONe (fmt o) (ELit (VV KSlv w 0)))
  | Ty KInt _ => Some (EBin ONe (fmt o) (ELit (VI 0)))
  | _ => None
  end.

(** format_cast(Integer, count) of a shift *)
Definition to_int (o : opnd) : option expr :=
  match oty o with
  | Ty KInt _ => Some (fmt o)
  | Ty (KU | KS) _ => Some (EF1 FToInteger (fmt o))
  | _ => None
  end.

Definition un_op (op : uop) : unop := match op with NInv | NNot => UNot | NNeg => UNeg | NAbs => UAbs end.

Definition o_un (op : uop) (o : opnd) : option opnd :=
  if negb (is_ref o) then None else
  match un_ty op (oty o) with
  | Some (Ty k w) =>
      match op with
      | NNot => match to_bool o with Some b => Some (tmp (EUn UNot b) k w) | None => None end
      | NNeg =>
          match oty o with
          | Ty KU _ => Some (tmp (EBin OSub (ELit (VI 0)) (fmt o)) k w)
          | Ty KS _ => Some (tmp (EUn UNeg (fmt o)) k w)
          | _ => None
          end
      | NInv => Some (tmp (EUn UNot (fmt o)) k w)
      | NAbs => Some (tmp (EUn UAbs (fmt o)) k w)
      end
  | _ => None
  end.

Definition arith_binop (op : bop) : option binop :=
  match op with
  | BAdd => Some OAdd | BSub => Some OSub | BMul => Some OMul
  | BTruncDiv => Some ODiv | BMod => Some OMod | BRem => Some ORem
  | BAnd => Some OAnd | BOr => Some OOr | BXor => Some OXor
  | _ => None
  end.

(** BinOp.write l.314-324: a negative int next to an Unsigned in + - is printed modulo 2**width *)
Definition adj_neg (op : bop) (lit other : opnd) : opnd :=
  match op, lit, oty other with
  | (BAdd | BSub), OInt z, Ty KU w => if z <? 0 then OInt (z mod pow2 w) else lit
  | _, _, _ => lit
  end.

(** operands of [&] are taken through [.bitvector] (a constant vector becomes a BitVector constant) *)
Definition as_bv (o : opnd) : option opnd :=
  match o with
  | ORef _ _ _ _ vk _ => if is_vec vk then o_view VwBV o else Some o
  | OCst k w z => if is_vec k then Some (OCst KBV w (pat k w z)) else Some o
  | OInt _ => None
  end.

Definition o_bin (op : bop) (a b : opnd) : option opnd :=
  if negb (is_ref a || is_ref b) then None else
  match bin_ty op (oty a) (oty b) with
  | Some (Ty k w) =>
      match op with
      | BShl | BShr =>
          match to_int b with
          | Some n => Some (tmp (EF2 (match op with BShl => FShl | _ => FShr end) (fmt a) n) k w)
          | None => None
          end
      | BConcat =>
          match as_bv a, as_bv b with
          | Some a', Some b' => Some (tmp (EBin OConcat (fmt a') (fmt b')) k w)
          | _, _ => None
          end
      | BAndL | BOrL => None
      | _ =>
          match arith_binop op with
          | Some o => Some (tmp (EBin o (fmt (adj_neg op a b)) (fmt (adj_neg op b a))) k w)
          | None => None
          end
      end
  | _ => None
  end.

Definition cmp_binop (op : cop) : binop :=
  match op with CEq => OEq | CNe => ONe | CLt => OLt | CLe => OLe | CGt => OGt | CGe => OGe end.

Definition flip (op : cop) : cop :=
  match op with CLt => CGt | CGt => CLt | CLe => CGe | CGe => CLe | x => x end.

(** Compare.write l.203-221 *)
Definition neg_lit_vs_unsigned (lit vec : opnd) : bool :=
  match lit, oty vec with
  | OInt z, Ty KU _ => z <? 0
  | _, _ => false
  end.

Definition int_vs_vec (ta tb : ty) : bool :=
  match ta, tb with Ty KInt _, Ty (KU | KS) _ => true | _, _ => false end.

(** a constant on the left of a comparison: Python evaluates the reflected method of the run-time operand
    ([2 < x] is [x.__gt__(2)]), so the printed comparison has its operands swapped; the same happens for a run-time
    Integer on the left of a vector (Integer's comparison methods do not accept a vector operand) *)
Definition o_cmp (op : cop) (a b : opnd) : option opnd :=
  if negb (is_ref a || is_ref b) then None else
  if negb (cmp_ok op (oty a) (oty b)) then None else
  let '(op', l, r) := if is_ref a && negb (int_vs_vec (oty a) (oty b)) then (op, a, b) else (flip op, b, a) in
  if neg_lit_vs_unsigned r l then
    Some (tmp (ELit (VB (match op' with CNe | CGt | CGe => true | _ => false end))) KBool 1)
  else Some (tmp (EBin (cmp_binop op') (fmt l) (fmt r)) KBool 1).

(** x.resize(n, zeros=z) : TypeQualifier.resize l.564-589 + format_cast of the assignment to the Temporary *)
Definition o_resize (n zeros : N) (o : opnd) : option opnd :=
  match o with
  | ORef _ _ _ _ ((KU | KS) as k) w =>
      if (w + zeros <=? n)%N then
        if (zeros =? 0)%N then
          Some (tmp (if (n =? w)%N then fmt o else EF2 FResize (fmt o) (ELit (VI (Z.of_N n)))) k n)
        else
          match o_view VwBV o with
          | Some obv =>
              let padded := EBin OConcat (fmt obv) (ELit (VV KSlv zeros 0)) in
              let viewed := cv k padded in
              Some (tmp (if (n =? w + zeros)%N then viewed else EF2 FResize viewed (ELit (VI (Z.of_N n)))) k n)
          | None => None
          end
      else None
  | _ => None
  end.

Section Emit.
Variable pos : nat -> positive.

Fixpoint emo (e : texp) : option opnd :=
  match e with
  | XIn k (Ty kd w) => if wf_scalar kd w then Some (tmp (ESig (pos k)) kd w) else None
  | XIn _ _ => None
  | XConst KInt _ z => Some (OInt z)
  | XConst k w z => if wf_scalar k w && in_range k w z then Some (OCst k w z) else None
  | XUn op a => match emo a with Some o => o_un op o | None => None end
  | XBin op a b => match emo a, emo b with Some x, Some y => o_bin op x y | _, _ => None end
  | XCmp op a b => match emo a, emo b with Some x, Some y => o_cmp op x y | _, _ => None end
  | XIdxC a i => match emo a with Some o => o_idx i o | None => None end
  | XSlice a hi lo => match emo a with Some o => o_slice hi lo o | None => None end
  | XView v a => match emo a with Some o => o_view v o | None => None end
  | XResize a n z => match emo a with Some o => o_resize n z o | None => None end
  | _ => None
  end.

(** the expression assigned to the output port (the cast of the final assignment is the identity: the port has the
    type of the expression); a constant-only tree is outside *)
Definition emit (e : texp) : option expr :=
  match emo e with
  | Some (ORef root rk rw s vk vw) => Some (fmt (ORef root rk rw s vk vw))
  | _ => None
  end.
End Emit.

(** ** syntactic equality of emitted expressions (for the correspondence check) *)
Definition binop_eqb (a b : binop) : bool :=
  match a, b with
  | OAdd, OAdd | OSub, OSub | OMul, OMul | ODiv, ODiv | OMod, OMod | ORem, ORem
  | OAnd, OAnd | OOr, OOr | OXor, OXor | OConcat, OConcat
  | OEq, OEq | ONe, ONe | OLt, OLt | OLe, OLe | OGt, OGt | OGe, OGe => true
  | _, _ => false
  end.

Definition unop_eqb (a b : unop) : bool :=
  match a, b with UNot, UNot | UNeg, UNeg | UAbs, UAbs => true | _, _ => false end.

Definition fn1_eqb (a b : fn1) : bool :=
  match a, b with
  | FToInteger, FToInteger | FBoolToSl, FBoolToSl | FConvUns, FConvUns | FConvSgn, FConvSgn | FConvSlv, FConvSlv
  | FQualUns, FQualUns | FQualSgn, FQualSgn | FQualSlv, FQualSlv => true
  | _, _ => false
  end.

Definition fn2_eqb (a b : fn2) : bool :=
  match a, b with
  | FResize, FResize | FShl, FShl | FShr, FShr | FToUnsigned, FToUnsigned | FToSigned, FToSigned => true
  | _, _ => false
  end.

Fixpoint expr_eqb (a b : expr) : bool :=
  match a, b with
  | ELit x, ELit y => value_eqb x y
  | ESig x, ESig y => Pos.eqb x y
  | EVar x, EVar y => Pos.eqb x y
  | EIdx x i, EIdx y j => expr_eqb x y && expr_eqb i j
  | ESlice x h l, ESlice y h' l' => expr_eqb x y && (h =? h')%N && (l =? l')%N
  | EUn o x, EUn o' y => unop_eqb o o' && expr_eqb x y
  | EBin o x1 x2, EBin o' y1 y2 => binop_eqb o o' && expr_eqb x1 y1 && expr_eqb x2 y2
  | EF1 f x, EF1 g y => fn1_eqb f g && expr_eqb x y
  | EF2 f x1 x2, EF2 g y1 y2 => fn2_eqb f g && expr_eqb x1 y1 && expr_eqb x2 y2
  | EEdge r x, EEdge r' y => Bool.eqb r r' && Pos.eqb x y
  | _, _ => false
  end.

(** classification used by harness/c02_emit.py: 0 = outside the modelled grammar, 1 = printed text equals the model,
    2 = differs *)
Definition emit_class (inputs : list positive) (e : texp) (printed : expr) : N :=
  match emit (fun k => nth k inputs 1%positive) e with
  | None => 0%N
  | Some ex => if expr_eqb ex printed then 1%N else 2%N
  end.

(** ** the side conditions of the all-trees theorem (ExprEmitProofs.emit_correct), as computable predicates

    - [int_ok] : an int operand is inside the VHDL integer range;
    - [arith_lit_ok] : an int operand of an arithmetic operator next to a vector of kind [k] / width [w]: next to an
      Unsigned it must be a NATURAL (numeric_std) - a negative one is accepted in + - where the back end prints it modulo
      2**w; in * / mod rem it must be representable at the vector's width (otherwise numeric_std converts it to that
      width first: the known finding "mul by an out-of-range int");
    - a shift count is at most integer'high (an Unsigned count: at most 31 bits, so that TO_INTEGER is defined);
    - resize / slice widths are at most integer'high (they are printed as integer literals);
    - input ports are not Integers (an int operand is a Python int literal here; a run-time Integer next to an
      Unsigned would need the additional assumption that it is never negative).
    if-expressions / select_with as operands (the known finding "mixed-width merge") are outside [emit] altogether. *)
Definition int_ok (z : Z) : bool := (int_min <=? z) && (z <=? int_max).

Definition lit_of (e : texp) : option Z := match e with XConst KInt _ z => Some z | _ => None end.

Definition arith_lit_ok (op : bop) (k : kind) (w : N) (z : Z) : bool :=
  int_ok z &&
  match op, k with
  | (BAdd | BSub), KU => nat_ok (if z <? 0 then z mod pow2 w else z)
  | (BAdd | BSub), _ => true
  | _, KU => nat_ok z && in_range KU w z
  | _, _ => in_range k w z
  end.

Definition node_ok (e : texp) : bool :=
  match e with
  | XIn _ (Ty k _) => negb (kind_eqb k KInt)
  | XBin op a b =>
      match op with
      | BAdd | BSub | BMul | BTruncDiv | BMod | BRem =>
          match tyof a, tyof b with
          | Some (Ty ka wa), Some (Ty kb wb) =>
              match lit_of a, lit_of b with
              | Some z, None => arith_lit_ok op kb wb z
              | None, Some z => arith_lit_ok op ka wa z
              | None, None => true
              | _, _ => false
              end
          | _, _ => false
          end
      | BShl | BShr =>
          match lit_of b, tyof b with
          | Some z, _ => z <=? int_max
          | None, Some (Ty KU w) => (w <=? 31)%N
          | _, _ => false
          end
      | BAnd | BOr | BXor | BConcat => true
      | _ => false
      end
  | XCmp op a b =>
      match lit_of a, lit_of b with
      | Some z, None | None, Some z => int_ok z
      | None, None => true
      | _, _ => false
      end
  | XSlice a hi lo => Z.of_N hi <? int_max
  | XResize a n z => Z.of_N n <=? int_max
  | _ => true
  end.

Fixpoint in_emit_grammar (e : texp) : bool :=
  node_ok e &&
  match e with
  | XUn _ a | XIdxC a _ | XSlice a _ _ | XView _ a | XResize a _ _ => in_emit_grammar a
  | XBin _ a b | XCmp _ a b => in_emit_grammar a && in_emit_grammar b
  | XIn _ _ | XConst _ _ _ => true
  | _ => false
  end.
