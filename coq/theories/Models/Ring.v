(** * Ring: executable models of std.Fifo and std.Stack AS CODED (cohdl/std/utility.py),
    for every capacity N, as reference machines over [list Z] states (format of [Equiv.RefTS]).

    Unlike [Models.StdSpecs.queue_step]/[stack_step] (abstract bounded queue / stack) these models
    keep what the code keeps: a memory of N cells, index registers of the width the code chooses
    ([Unsigned.upto]) and the index arithmetic exactly as written ([Fifo._next_index],
    [Stack._next_index]/[_prev_index]).  [Models.RingProofs] proves for ALL N that they refine the
    abstract machines; the per-configuration case theorems of harness/c14.py tie them to the VHDL the
    real compiler emits. *)
From Coq Require Import ZArith NArith PArith List Bool Lia.
From Cohdl Require Import Base.Bits Vhdl.Value Equiv.Explore Equiv.RefTS.
Import ListNotations.
Local Open Scope Z_scope.

(** ** python integer helpers used by the code *)

(** [int.bit_length()] *)
Definition bit_length (z : Z) : BinNums.N :=
  match z with Zpos p => Npos (Pos.size p) | _ => 0%N end.

(** [int.bit_count()] *)
Fixpoint pos_bit_count (p : positive) : nat :=
  match p with xH => 1%nat | xO q => pos_bit_count q | xI q => S (pos_bit_count q) end.

(** [std.is_pow_two(inp)]: [inp.bit_count() == 1] *)
Definition is_pow_two (z : Z) : bool :=
  match z with Zpos p => Nat.eqb (pos_bit_count p) 1 | _ => false end.

(** width of [Unsigned.upto(max_value)]: [max_value == 0] is replaced by 1, then [bit_length] *)
Definition upto_width (mx : Z) : BinNums.N := bit_length (if mx =? 0 then 1 else mx).

(** ** memory: [Array[T, N]] as a list of N cells; signal semantics is in the step functions
    (all reads see the values before the clock) *)
Fixpoint upd (l : list Z) (i : nat) (v : Z) : list Z :=
  match l, i with
  | [], _ => []
  | _ :: r, O => v :: r
  | x :: r, S j => x :: upd r j v
  end.
Definition mem_get (m : list Z) (i : Z) : Z := nth (Z.to_nat i) m 0.
Definition mem_set (m : list Z) (i : Z) (v : Z) : list Z := upd m (Z.to_nat i) v.

(** ** std.Fifo[T, N] *)

(** [Fifo._next_index]: [_max_index = N - 1], index type [Unsigned.upto(_max_index)];
    for a power of two [index + 1] (natural overflow of the index type),
    otherwise [index + 1 if index != _max_index else 0] *)
Definition fifo_next (N : nat) (i : Z) : Z :=
  let mx := Z.of_nat N - 1 in
  let cw := upto_width mx in
  if is_pow_two (mx + 1) then wrap cw (i + 1)
  else if negb (i =? mx) then wrap cw (i + 1) else 0.

(** state [dout; rd_index; wr_index] ++ mem (N cells); inputs [push; pop; din];
    outputs [dout; empty; full] (the wrapper FIFO_SRC of harness/c14.py, observed after the clock).
    push: [mem[wr] <= din; wr <= next(wr)];  pop: [rd <= next(rd); dout <= mem[rd]] (old memory);
    [empty = (wr == rd)], [full = (next(wr) == rd)] *)
Definition ring_step (N : nat) (w : BinNums.N) : rstep := fun st inp =>
  match st, inp with
  | dout :: rd :: wr :: mem, [p; o; dv] =>
      let mem' := if vbit p then mem_set mem wr (vnum dv) else mem in
      let wr' := if vbit p then fifo_next N wr else wr in
      let dout' := if vbit o then mem_get mem rd else dout in
      let rd' := if vbit o then fifo_next N rd else rd in
      (dout' :: rd' :: wr' :: mem',
       Ok [ouns w dout'; obit (wr' =? rd'); obit (fifo_next N wr' =? rd')])
  | _, _ => (st, Err ETypeError)
  end.

Definition ring_init (N : nat) : list Z := 0 :: 0 :: 0 :: repeat 0 N.

(** the documented preconditions as the component itself sees them (its own empty/full) *)
Definition ring_assume (N : nat) : list Z -> list value -> bool := fun st inp =>
  match st, inp with
  | _ :: rd :: wr :: _, [p; o; _] =>
      implb (vbit p) (negb (fifo_next N wr =? rd)) && implb (vbit o) (negb (wr =? rd))
  | _, _ => false
  end.

(** ** std.Stack[T, N] (both modes) *)

(** state [dout; index; cnt] ++ mem (N cells); inputs [push; pop; reset; din] (wrapper STACK_SRC:
    reset, else push, else pop); outputs [dout; empty; full; size].
    index type [Unsigned.upto(N)].  NO_OVERFLOW: [_cnt] is an alias of [_index],
    [_next_index = index + 1], [_prev_index = index - 1].  DROP_OLD: separate saturating [_cnt],
    the index runs round the memory ([index + 1 if index != N - 1 else 0],
    [N - 1 if index == 0 else index - 1]). *)
Definition stackm_step (N : nat) (w sw : BinNums.N) (drop_old : bool) : rstep := fun st inp =>
  match st, inp with
  | dout :: idx :: cnt :: mem, [p; o; r; dv] =>
      let n := Z.of_nat N in
      let cw := upto_width n in
      let prev := if drop_old then (if idx =? 0 then n - 1 else wrap cw (idx - 1)) else wrap cw (idx - 1) in
      let next := if drop_old then (if negb (idx =? n - 1) then wrap cw (idx + 1) else 0) else wrap cw (idx + 1) in
      let '(dout', idx', cntd, mem') :=
        if vbit r then (dout, 0, 0, mem)
        else if vbit p then
          (dout, next, (if cnt =? n then n else wrap cw (cnt + 1)), mem_set mem idx (vnum dv))
        else if vbit o then (mem_get mem prev, prev, wrap cw (cnt - 1), mem)
        else (dout, idx, cnt, mem) in
      let cnt' := if drop_old then cntd else idx' in
      (dout' :: idx' :: cnt' :: mem',
       Ok [ouns w dout'; obit (cnt' =? 0); obit (cnt' =? n); ouns sw cnt'])
  | _, _ => (st, Err ETypeError)
  end.

Definition stackm_init (N : nat) : list Z := 0 :: 0 :: 0 :: repeat 0 N.

Definition stackm_assume (N : nat) (drop_old : bool) : list Z -> list value -> bool := fun st inp =>
  match st, inp with
  | _ :: _ :: cnt :: _, [p; o; r; _] =>
      (zb (vbit p) + zb (vbit o) + zb (vbit r) <=? 1)
      && implb (vbit p) (drop_old || negb (cnt =? Z.of_nat N))
      && implb (vbit o) (negb (cnt =? 0))
  | _, _ => false
  end.

(** ** admissible input sequences without a finite alphabet: every data value is allowed *)
Fixpoint adm (step : rstep) (assume : list Z -> list value -> bool) (st : list Z)
         (ins : list (list value)) : Prop :=
  match ins with
  | [] => True
  | i :: r => assume st i = true /\ adm step assume (fst (step st i)) r
  end.

(** state reached after an input sequence *)
Definition run (step : rstep) (st : list Z) (ins : list (list value)) : list Z :=
  fold_left (fun s i => fst (step s i)) ins st.
