(** * Proofs about Models/Conv.v (property C05) *)
From Coq Require Import ZArith NArith List Bool Lia.
From Cohdl Require Import Base.Bits Vhdl.Value Vhdl.NumStd Models.Conv.
Import ListNotations.
Local Open Scope Z_scope.

(** widths are positive and fit a VHDL natural (the second argument of resize / to_unsigned) *)
Definition wfw (t : cty) : Prop :=
  match t with CBV n | CU n | CS n => (0 < n)%N /\ Z.of_N n <= int_max | _ => True end.

Lemma nat_ok_w m : Z.of_N m <= int_max -> nat_ok (Z.of_N m) = true.
Proof. intros H. unfold nat_ok. apply andb_true_intro; split; [apply Z.leb_le; lia|apply Z.leb_le; exact H]. Qed.

Lemma pow2_half m : (0 < m)%N -> pow2 m = 2 * pow2 (m - 1).
Proof. intros H. replace m with (N.succ (m - 1)) at 1 by lia. apply pow2_succ. Qed.

Lemma resize_u n m v : Z.of_N m <= int_max -> (n <= m)%N -> 0 <= v < pow2 n ->
  eval_fn2 FResize (VV KUns n v) (VI (Z.of_N m)) = Ok (VV KUns m v).
Proof.
  intros Hm Hnm Hv. cbn [eval_fn2]. rewrite (nat_ok_w m Hm), N2Z.id.
  rewrite wrap_small; [reflexivity|]. pose proof (pow2_le n m Hnm). lia.
Qed.

Lemma resize_s n m v : Z.of_N m <= int_max -> (0 < m)%N -> (n <= m)%N ->
  eval_fn2 FResize (VV KSgn n v) (VI (Z.of_N m)) = Ok (VV KSgn m (wrap m (sval n v))).
Proof.
  intros Hm Hp Hnm. cbn [eval_fn2]. rewrite (nat_ok_w m Hm), N2Z.id. unfold sresize.
  destruct (N.eqb_spec m 0); [lia|]. destruct (N.leb_spec n m); [reflexivity|lia].
Qed.

Lemma sval_small n m v : (n < m)%N -> 0 <= v < pow2 n -> sval m v = v.
Proof.
  intros Hnm Hv. unfold sval. destruct (N.eqb_spec m 0); [lia|].
  assert (pow2 n <= pow2 (m - 1)) by (apply pow2_le; lia).
  destruct (Z.ltb_spec v (pow2 (m - 1))); lia.
Qed.

Lemma sval_ext n m v : (0 < n)%N -> (n <= m)%N -> 0 <= v < pow2 n -> sval m (wrap m (sval n v)) = sval n v.
Proof.
  intros Hn Hnm Hv. apply sval_wrap; [lia|].
  pose proof (sval_range n v Hn Hv). assert (pow2 (n - 1) <= pow2 (m - 1)) by (apply pow2_le; lia). lia.
Qed.

Lemma pow2_31 : pow2 31 = 2147483648.
Proof. reflexivity. Qed.

Lemma to_int_u n v : (n <= 31)%N -> 0 <= v < pow2 n -> eval_fn1 FToInteger (VV KUns n v) = Ok (VI v).
Proof.
  intros Hn Hv. cbn [eval_fn1]. assert (pow2 n <= pow2 31) by (apply pow2_le; exact Hn). rewrite pow2_31 in H.
  unfold int_max. destruct (Z.leb_spec v 2147483647); [reflexivity|lia].
Qed.

Lemma to_int_s n v : (0 < n)%N -> (n <= 32)%N -> 0 <= v < pow2 n -> eval_fn1 FToInteger (VV KSgn n v) = Ok (VI (sval n v)).
Proof.
  intros Hp Hn Hv. cbn [eval_fn1]. unfold mk_int, int_min, int_max.
  pose proof (sval_range n v Hp Hv). assert (pow2 (n - 1) <= pow2 31) by (apply pow2_le; lia). rewrite pow2_31 in H0.
  destruct (Z.leb_spec (-2147483648) (sval n v)); [|lia]. destruct (Z.leb_spec (sval n v) 2147483647); [reflexivity|lia].
Qed.

Lemma enc_bit v : v = 0 \/ v = 1 -> negb (v =? 0) = (v =? 1).
Proof. intros [->| ->]; reflexivity. Qed.

Ltac cmp :=
  repeat match goal with
         | H : (_ =? _)%N = true |- _ => apply N.eqb_eq in H; subst
         | H : (_ <=? _)%N = true |- _ => apply N.leb_le in H
         | H : (_ <? _)%N = true |- _ => apply N.ltb_lt in H
         | H : _ && _ = true |- _ => apply andb_prop in H; destruct H
         end.

Ltac zcmp :=
  repeat match goal with
         | H : (_ <=? _) = true |- _ => apply Z.leb_le in H
         | H : (_ <? _) = true |- _ => apply Z.ltb_lt in H
         end.

Ltac split_if :=
  repeat match goal with
         | |- context [(?a =? ?b)%N] => destruct (N.eqb_spec a b); subst
         | |- context [(?a <? ?b)%N] => destruct (N.ltb_spec a b)
         | |- context [(?a <=? ?b)%N] => destruct (N.leb_spec a b)
         end.

Ltac unfold_cast :=
  cbv [cast_emit is_runtime negb vec_of retag mkvec to_kind guard rsz slv enc conv_val].

(** ** documented conversions: the emitted cast computes the documented value, whatever VHDL object holds the target *)
Definition view_ok (src tgt : cty) (k : vk) : bool := is_runtime src || ctor tgt (retag k tgt).

Theorem doc_value src tgt k v :
  wfw src -> wfw tgt -> doc_ok src tgt = true -> view_ok src tgt k = true -> in_range src v ->
  ceval (cast_emit (retag k tgt) tgt src) (enc src v) = Ok (enc (retag k tgt) (conv_val src tgt v)).
Proof.
  intros Ws Wt Hd Hk Hv. unfold view_ok in Hk.
  destruct src as [| |n|n|n| |z|l b| |]; destruct tgt as [| |m|m|m| |z'|l' b'| |];
    cbn [doc_ok] in Hd; try discriminate Hd; cbn [wfw in_range] in *;
    try (destruct k; cbn [is_runtime orb retag vec_of mkvec ctor trial] in Hk;
         rewrite ?N.ltb_irrefl in Hk; try discriminate Hk;
         unfold_cast; cbn [ctor trial]; rewrite ?N.eqb_refl, ?N.leb_refl; reflexivity).
  all: try (destruct k; unfold_cast; cbn [ceval bind eval_fn1 eval_binop compare is_eqop]; destruct Hv as [-> | ->]; reflexivity).
  all: cmp.
  (* vector -> vector, vector -> Integer *)
  all: try (destruct Ws as [Wn Wn']); try (destruct Wt as [Wm Wm' (* *) ]).
  all: destruct k; unfold_cast; split_if; try lia;
    cbn [ceval bind];
    try rewrite (resize_u _ _ _ Wm') by (try lia; exact Hv);
    try rewrite (resize_s _ _ _ Wm') by lia;
    cbn [bind eval_fn1];
    try reflexivity;
    try (rewrite wrap_sval by exact Hv; reflexivity).
  all: try exact (to_int_u _ _ Hd Hv).
  all: try exact (to_int_s _ _ Wn Hd Hv).
Qed.

(** ** nothing documented truncates: the represented number survives (or the pair is a documented bit copy) *)
Theorem doc_no_trunc src tgt v :
  wfw src -> wfw tgt -> doc_ok src tgt = true -> in_range src v ->
  bit_copy src tgt = true \/ (representable tgt (num src v) /\ num tgt (conv_val src tgt v) = num src v).
Proof.
  intros Ws Wt Hd Hv.
  destruct src as [| |n|n|n| |z|l b| |]; destruct tgt as [| |m|m|m| |z'|l' b'| |];
    cbn [doc_ok] in Hd; try discriminate Hd; cbn [wfw in_range bit_copy] in *;
    try (left; reflexivity); try (left; exact Hd); right; cbn [representable num conv_val].
  all: try (split; [exact Hv|reflexivity]).
  all: try (apply orb_prop in Hd; destruct Hd as [Hd|Hd]; apply Z.eqb_eq in Hd; subst; split; [auto|reflexivity]).
  all: cmp; try (destruct Ws as [Wn Wn']); try (destruct Wt as [Wm Wm' (* *) ]).
  - (* U n -> U m *) pose proof (pow2_le n m Hd). split; [lia|reflexivity].
  - (* U n -> S m *) assert (pow2 n <= pow2 (m - 1)) by (apply pow2_le; lia). unfold smin, smax.
    split; [lia|]. apply (sval_small n m v Hd Hv).
  - (* U n -> Integer *) assert (HP : pow2 n <= pow2 31) by (apply pow2_le; exact Hd). rewrite pow2_31 in HP.
    unfold int_min, int_max. split; [lia|reflexivity].
  - (* S n -> S m *) pose proof (sval_range n v Wn Hv). assert (pow2 (n - 1) <= pow2 (m - 1)) by (apply pow2_le; lia).
    unfold smin, smax. split; [lia|]. apply (sval_ext n m v Wn Hd Hv).
  - (* S n -> Integer *) pose proof (sval_range n v Wn Hv). assert (HP : pow2 (n - 1) <= pow2 31) by (apply pow2_le; lia).
    rewrite pow2_31 in HP. unfold int_min, int_max. split; [lia|reflexivity].
  - (* literal -> Bit *) apply orb_prop in Hd. split; [|reflexivity]. destruct Hd as [Hd|Hd]; apply Z.eqb_eq in Hd; auto.
  - (* literal -> Bool *) apply orb_prop in Hd. split; [|reflexivity]. destruct Hd as [Hd|Hd]; apply Z.eqb_eq in Hd; auto.
  - (* literal -> U m *) zcmp. split; [lia|reflexivity].
  - (* literal -> S m *) zcmp. split; [lia|]. unfold smin, smax in *. apply sval_wrap; lia.
  - (* literal -> Integer *) zcmp. split; [lia|reflexivity].
Qed.

(** ** the acceptance matrix, as coded, against the documentation *)

Definition is_target (t : cty) : bool :=
  match t with CBit | CBool | CBV _ | CU _ | CS _ | CInteger => true | _ => false end.

Definition int32 (z : Z) : bool := (int_min <=? z) && (z <=? int_max).

(** pairs on which the statement forms (`<<=`, `@=`, `^=`, .next, .value, .push, slice and element targets) depart *)
Definition dep_stmt (src tgt : cty) : bool :=
  match src, tgt with
  | (CBV _ | CU _ | CS _ | CInteger), CBool => true          (* ACCEPTED: truthiness, emitted as  x /= 0 *)
  | CInteger, (CU _ | CS _) => true                            (* ACCEPTED: to_unsigned / to_signed truncate *)
  | CU n, CInteger => negb (n <=? 31)%N                        (* ACCEPTED: to_integer leaves the integer range *)
  | CS n, CInteger => negb (n <=? 32)%N
  | CIntLit z, CInteger => negb (int32 z)
  | (CNull | CFull), CInteger => true                          (* rejected although documented *)
  | _, _ => false
  end.

Theorem matrix_stmt src tgt k :
  is_target tgt = true -> dep_stmt src tgt = false -> view_ok src tgt k = true ->
  stmt_ok (retag k tgt) src tgt = doc_ok src tgt.
Proof.
  intros Ht Hdep Hk. unfold view_ok in Hk.
  destruct src as [| |n|n|n| |z|l b| |]; destruct tgt as [| |m|m|m| |z'|l' b'| |];
    cbn [is_target dep_stmt] in *; try discriminate; destruct k;
    cbn [is_runtime orb retag vec_of mkvec ctor trial] in Hk; rewrite ?N.ltb_irrefl in Hk; try discriminate Hk;
    unfold stmt_ok, emits; unfold_cast; cbn [ctor trial doc_ok];
    rewrite ?andb_true_r, ?andb_false_r, ?N.eqb_refl, ?N.leb_refl;
    try reflexivity;
    try (apply negb_false_iff in Hdep; unfold int32 in Hdep; rewrite Hdep; reflexivity);
    split_if; try reflexivity; try lia.
Qed.

(** declarations inside a context see no trial assignment at all: format_cast is the only check *)
Definition dep_decl (src tgt : cty) : bool :=
  match src, tgt with
  | CS n, CU m | CU n, CS m => (n =? m)%N                      (* ACCEPTED: equal width reinterpretation *)
  | (CIntLit _ | CStrLit _ _), CBool => negb (doc_ok src tgt)  (* ACCEPTED: bool(x) *)
  | CNull, CInteger => false
  | _, _ => dep_stmt src tgt
  end.

Theorem matrix_decl src tgt :
  is_target tgt = true -> dep_decl src tgt = false -> decl_ok src tgt = doc_ok src tgt.
Proof.
  intros Ht Hdep.
  destruct src as [| |n|n|n| |z|l b| |]; destruct tgt as [| |m|m|m| |z'|l' b'| |];
    cbn [is_target dep_decl dep_stmt] in *; try discriminate;
    unfold decl_ok, emits; unfold_cast; cbn [ctor trial doc_ok]; rewrite ?andb_true_r, ?andb_false_r;
    try reflexivity;
    try (apply negb_false_iff in Hdep; unfold int32 in Hdep; cbn [doc_ok] in Hdep; rewrite Hdep; reflexivity);
    try rewrite Hdep; split_if; try reflexivity; try lia; try (apply N.eqb_neq in Hdep; lia).
Qed.

(** constants at declaration (Signal[T](literal), Port.output(T, default=literal)): the constructors *)
Theorem matrix_static src tgt :
  is_target tgt = true -> is_runtime src = false -> dep_decl src tgt = false -> ctor src tgt = doc_ok src tgt.
Proof.
  intros Ht Hr Hdep. rewrite <- (matrix_decl src tgt Ht Hdep). unfold decl_ok. rewrite Hr. reflexivity.
Qed.

(** sub-entity ports (patched tree): identical types only; every documented widening is over-rejected *)
Definition dep_port (src tgt : cty) : bool := negb (cty_eqb src tgt) && doc_ok src tgt.

Lemma cty_eqb_eq a b : cty_eqb a b = true -> a = b.
Proof.
  destruct a, b; cbn [cty_eqb]; try discriminate; try reflexivity; intros H;
    try (apply N.eqb_eq in H; subst; reflexivity).
  - apply Z.eqb_eq in H; subst; reflexivity.
  - apply andb_prop in H. destruct H as [H1 H2]. apply N.eqb_eq in H1. apply Z.eqb_eq in H2. subst. reflexivity.
Qed.

Lemma trial_self t : is_target t = true -> trial t t = true /\ doc_ok t t = true.
Proof. destruct t; try discriminate; intros _; cbn [trial doc_ok]; rewrite ?N.eqb_refl, ?N.leb_refl; split; reflexivity. Qed.

Theorem matrix_port src tgt :
  is_target tgt = true -> dep_port src tgt = false ->
  is_runtime src && trial src tgt && cty_eqb src tgt = doc_ok src tgt /\
  is_runtime src && trial src tgt && trial tgt src && cty_eqb src tgt = doc_ok src tgt.
Proof.
  intros Ht Hdep. unfold dep_port in Hdep. destruct (cty_eqb src tgt) eqn:E.
  - apply cty_eqb_eq in E. subst. destruct (trial_self tgt Ht) as [T D]. rewrite T, D.
    assert (R : is_runtime tgt = true) by (destruct tgt; try discriminate Ht; reflexivity). rewrite R. split; reflexivity.
  - cbn [negb andb] in Hdep. rewrite Hdep, !andb_false_r. split; reflexivity.
Qed.

(** if-expression / function-return merges: the new value first, or second *)
Definition dep_merge_a (src tgt : cty) : bool :=
  match src, tgt with
  | (CIntLit _ | CStrLit _ _), CBool => negb (doc_ok src tgt)  (* ACCEPTED: _Redirect builds bool(x) *)
  | CNull, CInteger => false
  | _, _ => dep_stmt src tgt
  end.

Definition dep_merge_b (src tgt : cty) : bool :=
  match src, tgt with
  | (CU _ | CS _), CInteger => doc_ok src tgt                  (* rejected although documented (order dependent) *)
  | _, _ => dep_merge_a src tgt
  end.

Ltac crunch :=
  repeat first
    [ progress (cbn -[N.eqb N.leb N.ltb Z.eqb Z.leb Z.ltb pow2 smin smax ones int_min int_max])
    | progress (rewrite ?N.eqb_refl, ?N.leb_refl, ?N.ltb_irrefl, ?andb_true_r, ?andb_false_r)
    | progress split_if
    | match goal with E : ?c = _ |- context [?c] => rewrite E end
    | match goal with |- context [match (if ?c then _ else _) with _ => _ end] =>
        let E := fresh "E" in destruct c eqn:E end ];
  try reflexivity; try lia.

Theorem matrix_merge_a src tgt :
  is_target tgt = true -> dep_merge_a src tgt = false -> merge_ok src tgt tgt = doc_ok src tgt.
Proof.
  intros Ht Hdep.
  destruct src as [| |n|n|n| |z|l b| |]; destruct tgt as [| |m|m|m| |z'|l' b'| |];
    cbn [is_target dep_merge_a dep_stmt] in *; try discriminate;
    try (apply negb_false_iff in Hdep; unfold int32 in Hdep; cbn [doc_ok] in Hdep);
    unfold merge_ok, join, join_adjust, redirect_ok, stmt_ok, emits, cast_emit; crunch;
    try (rewrite ?Hdep; crunch).
Qed.

Theorem matrix_merge_b src tgt :
  is_target tgt = true -> dep_merge_b src tgt = false -> merge_ok tgt src tgt = doc_ok src tgt.
Proof.
  intros Ht Hdep.
  destruct src as [| |n|n|n| |z|l b| |]; destruct tgt as [| |m|m|m| |z'|l' b'| |];
    cbn [is_target dep_merge_b dep_merge_a dep_stmt] in *; try discriminate;
    try (apply negb_false_iff in Hdep; unfold int32 in Hdep; cbn [doc_ok] in Hdep);
    unfold merge_ok, join, join_adjust, redirect_ok, stmt_ok, emits, cast_emit; crunch;
    try (cbn [doc_ok] in Hdep; rewrite ?Hdep; crunch);
    try (cbn [doc_ok] in Hdep; apply N.leb_gt in Hdep; lia).
Qed.

(** ** merges: the join type of two options, as coded *)
Definition dep_join (a r : cty) : bool :=
  match a, r with
  | CInteger, (CU _ | CS _) => true                            (* Unsigned[n](Integer placeholder 0) succeeds *)
  | (CIntLit _ | CStrLit _ _), CBool => negb (doc_ok a r)      (* bool(x) *)
  | (CU n | CS n), CInteger => negb (doc_ok a r)
  | CIntLit z, CInteger => negb (int32 z)
  | (CBV _ | CU _ | CS _ | CInteger), CBool | CInteger, CBit => true   (* never joined: excluded for the proof only *)
  | _, _ => false
  end.

Theorem join_sound a b r :
  join a b = Some r -> dep_join a r = false -> dep_join b r = false -> doc_ok a r = true /\ doc_ok b r = true.
Proof.
  intros Hj Ha Hb.
  assert (Hc : ctor a r = true /\ ctor b r = true /\ is_target r = true).
  { unfold join in Hj.
    destruct a as [| |n|n|n| |z|l c| |]; destruct b as [| |m|m|m| |z'|l' c'| |]; try discriminate Hj;
      cbn [is_runtime join_adjust vec_of] in Hj;
      repeat match type of Hj with
             | context [(?x =? ?y)%N] => destruct (N.eqb_spec x y); subst
             end; try discriminate Hj;
      match type of Hj with
      | (if ?c then _ else _) = _ => destruct c eqn:E; [|discriminate Hj]
      end; injection Hj as <-; apply andb_prop in E; destruct E as [E1 E2]; repeat split; try (assumption || reflexivity). }
  destruct Hc as [Ca [Cb Tr]].
  assert (G : forall x, ctor x r = true -> dep_join x r = false -> doc_ok x r = true).
  { clear - Tr. intros x Cx Dx.
    destruct x as [| |n|n|n| |z|l c| |]; destruct r as [| |m|m|m| |z'|l' c'| |];
      cbn [is_target dep_join ctor trial doc_ok] in *; try discriminate; try reflexivity; try assumption;
      try (apply negb_false_iff in Dx; unfold int32 in Dx; exact Dx). }
  split; apply G; assumption.
Qed.

(** ** all forms *)

Definition self_kind (t : cty) : vk := match t with CU _ => KU | CS _ => KS | _ => KB end.

Lemma retag_self t : retag (self_kind t) t = t.
Proof. destruct t; reflexivity. Qed.

Lemma view_self src t : is_target t = true -> view_ok src t (self_kind t) = true.
Proof.
  intros Ht. unfold view_ok. rewrite retag_self. destruct t; try discriminate Ht; cbn [ctor trial];
    rewrite ?N.eqb_refl, ?N.leb_refl; apply orb_true_r.
Qed.

(** does the form exist for this pair at all *)
Definition applies (f : form) (src tgt : cty) : bool :=
  is_target tgt &&
  match f with
  | FSlice _ | FView _ => match vec_of tgt with Some _ => true | None => false end
  | FElem _ => match tgt with CBit => true | _ => false end
  | FDeclStatic => negb (is_runtime src)
  | FMerge3A _ | FMerge3B _ => false        (* two sources: see merge3_* below *)
  | _ => true
  end.

(** the exact guard: where the decision of the code differs from the documented matrix, per form *)
Definition departs (f : form) (src tgt : cty) : bool :=
  match f with
  | FNextOp | FNextAttr | FValueOp | FValueAttr | FPushOp | FPushAttr | FElem _ => dep_stmt src tgt
  | FSlice k | FView k => dep_stmt src tgt || negb (view_ok src tgt k) && doc_ok src tgt   (* constant into a U view of an S root *)
  | FDeclSig | FDeclVar | FDeclStatic => dep_decl src tgt
  | FPortIn | FPortOut => dep_port src tgt           (* identical types only: widening is rejected although documented *)
  | FIfA | FRetA => dep_merge_a src tgt
  | FIfB | FRetB => dep_merge_b src tgt
  | FMerge3A _ | FMerge3B _ => true
  end.

Theorem matrix_partial f src tgt :
  applies f src tgt = true -> departs f src tgt = false -> assign_ok f src tgt = doc_ok src tgt.
Proof.
  intros Ha Hd. unfold applies in Ha. apply andb_prop in Ha. destruct Ha as [Ht Ha].
  assert (S : dep_stmt src tgt = false -> stmt_ok tgt src tgt = doc_ok src tgt).
  { intros D. rewrite <- (retag_self tgt) at 1. apply matrix_stmt; [exact Ht|exact D|apply view_self; exact Ht]. }
  assert (V : forall root, match vec_of tgt with Some _ => true | None => false end = true ->
              dep_stmt src tgt || negb (view_ok src tgt root) && doc_ok src tgt = false ->
              match vec_of tgt with Some _ => stmt_ok (retag root tgt) src tgt | None => false end = doc_ok src tgt).
  { intros root Hv Hdv. destruct (vec_of tgt) eqn:V; [|discriminate Hv].
    apply orb_false_elim in Hdv. destruct Hdv as [D1 D2].
    destruct (view_ok src tgt root) eqn:Vk.
    + apply matrix_stmt; assumption.
    + cbn [negb andb] in D2. rewrite D2.
      unfold stmt_ok, emits, cast_emit. unfold view_ok in Vk. apply orb_false_elim in Vk. destruct Vk as [R C].
      rewrite R, C. cbn [negb]. apply andb_false_r. }
  destruct f; cbn [assign_ok departs] in *; try discriminate Ha; try (apply S; exact Hd).
  - (* slice *) apply V; assumption.
  - (* whole-object view *) apply V; assumption.
  - (* element *) destruct tgt; try discriminate Ha. apply S; exact Hd.
  - apply matrix_decl; assumption.
  - apply matrix_decl; assumption.
  - apply matrix_static; [exact Ht|apply negb_true_iff; exact Ha|exact Hd].
  - apply (matrix_port src tgt Ht Hd).
  - apply (matrix_port src tgt Ht Hd).
  - apply matrix_merge_a; assumption.
  - apply matrix_merge_b; assumption.
  - apply matrix_merge_a; assumption.
  - apply matrix_merge_b; assumption.
Qed.

(** forms whose emitted text is  target <= format_cast(target, source) *)
Definition cast_form (f : form) : bool :=
  match f with
  | FNextOp | FNextAttr | FValueOp | FValueAttr | FPushOp | FPushAttr | FSlice _ | FView _ | FElem _ | FDeclSig | FDeclVar => true
  | _ => false
  end.

Theorem value_ok f src tgt v :
  cast_form f = true -> applies f src tgt = true -> departs f src tgt = false -> assign_ok f src tgt = true ->
  wfw src -> wfw tgt -> in_range src v ->
  ceval (cast_emit (root_kind f tgt) tgt src) (enc src v) = Ok (enc (root_kind f tgt) (conv_val src tgt v)).
Proof.
  intros Hc Ha Hd Hok Ws Wt Hv. rewrite (matrix_partial f src tgt Ha Hd) in Hok.
  assert (Ht : is_target tgt = true) by (unfold applies in Ha; apply andb_prop in Ha; tauto).
  assert (S : ceval (cast_emit tgt tgt src) (enc src v) = Ok (enc tgt (conv_val src tgt v))).
  { rewrite <- (retag_self tgt) at 1 3. apply doc_value; try assumption. apply view_self; exact Ht. }
  destruct f; try discriminate Hc; cbn [root_kind]; try exact S.
  all: cbn [departs] in Hd; apply orb_false_elim in Hd; destruct Hd as [_ D2]; rewrite Hok, andb_true_r in D2;
    apply negb_false_iff in D2; apply doc_value; assumption.
Qed.

Theorem no_truncation f src tgt v :
  applies f src tgt = true -> departs f src tgt = false -> assign_ok f src tgt = true ->
  wfw src -> wfw tgt -> in_range src v ->
  bit_copy src tgt = true \/ (representable tgt (num src v) /\ num tgt (conv_val src tgt v) = num src v).
Proof.
  intros Ha Hd Hok Ws Wt Hv. rewrite (matrix_partial f src tgt Ha Hd) in Hok. apply doc_no_trunc; assumption.
Qed.

(** ** where the code departs: witnesses *)

(** a run-time integer into Unsigned[3]: accepted, emitted as to_unsigned(x, 3): 9 becomes 1, -1 is a range error *)
Lemma refuted_integer_truncated :
  assign_ok FNextOp CInteger (CU 3) = true /\ doc_ok CInteger (CU 3) = false /\
  ceval (cast_emit (CU 3) (CU 3) CInteger) (VI 9) = Ok (VV KUns 3 1) /\
  ceval (cast_emit (CU 3) (CU 3) CInteger) (VI (-1)) = Err ERange.
Proof. vm_compute. repeat split. Qed.

(** Signal[Unsigned[4]](signed) inside a context: accepted, emitted as unsigned(std_logic_vector(x)): -1 becomes 15 *)
Lemma refuted_decl_reinterprets :
  assign_ok FDeclSig (CS 4) (CU 4) = true /\ doc_ok (CS 4) (CU 4) = false /\
  ceval (cast_emit (CU 4) (CU 4) (CS 4)) (VV KSgn 4 15) = Ok (VV KUns 4 15) /\ num (CS 4) 15 = -1 /\
  assign_ok FDeclVar (CU 4) (CS 4) = true /\ doc_ok (CU 4) (CS 4) = false.
Proof. vm_compute. repeat split. Qed.

(** sub-entity ports after efe8b9f: nothing undocumented is accepted any more; widening is over-rejected *)
Lemma port_forms_patched :
  assign_ok FPortOut (CU 8) (CU 4) = false /\ assign_ok FPortIn CInteger CBit = false /\
  assign_ok FPortOut (CU 4) (CU 8) = false /\ assign_ok FPortIn (CU 2) (CU 3) = false /\ doc_ok (CU 2) (CU 3) = true /\
  assign_ok FPortIn (CU 3) (CU 3) = true /\ assign_ok FPortOut (CS 3) (CS 3) = true.
Proof. vm_compute. repeat split. Qed.

Theorem port_forms_sound f src tgt :
  (f = FPortIn \/ f = FPortOut) -> assign_ok f src tgt = true -> src = tgt.
Proof.
  intros [-> | ->]; cbn [assign_ok]; intros H; apply andb_prop in H; destruct H as [_ H]; apply cty_eqb_eq; exact H.
Qed.

Lemma refuted_truthiness :
  assign_ok FNextOp (CU 4) CBool = true /\ doc_ok (CU 4) CBool = false /\
  assign_ok FDeclStatic (CIntLit 5) CBool = true /\ doc_ok (CIntLit 5) CBool = false.
Proof. vm_compute. repeat split. Qed.

(** documented conversions that are rejected *)
Lemma over_rejected :
  assign_ok FIfB (CU 2) CInteger = false /\ assign_ok FIfA (CU 2) CInteger = true /\ doc_ok (CU 2) CInteger = true /\
  assign_ok (FSlice KS) CNull (CU 2) = false /\ doc_ok CNull (CU 2) = true /\
  assign_ok FPortIn CNull (CU 2) = false /\ assign_ok FPortOut (CU 2) (CU 3) = false.
Proof. vm_compute. repeat split. Qed.

(** the join of Unsigned[2] and a run-time integer is Unsigned[2]: the integer branch is truncated *)
Lemma refuted_join : join (CU 2) CInteger = Some (CU 2) /\ doc_ok CInteger (CU 2) = false /\ join CInteger (CU 2) = None.
Proof. vm_compute. repeat split. Qed.

(** [isinstance(result_type, Signed)] on a class is False: vectors of different width are never joined *)
Lemma join_width_quirk n m : n <> m -> join (CU n) (CU m) = None /\ join (CS n) (CS m) = None.
Proof.
  intros H. unfold join. cbn [is_runtime join_adjust vec_of]. destruct (N.eqb_spec n m); [contradiction|]. split; reflexivity.
Qed.

(** non-vacuity *)
Example ex_applies : applies (FSlice KU) (CU 2) (CS 3) = true /\ departs (FSlice KU) (CU 2) (CS 3) = false /\
  assign_ok (FSlice KU) (CU 2) (CS 3) = true /\ wfw (CU 2) /\ wfw (CS 3) /\ in_range (CU 2) 3.
Proof. vm_compute. repeat split; try discriminate; reflexivity. Qed.

Example ex_value :
  ceval (cast_emit (root_kind (FSlice KU) (CS 3)) (CS 3) (CU 2)) (enc (CU 2) 3) = Ok (VV KUns 3 3).
Proof. reflexivity. Qed.

Example ex_sign_extend :
  ceval (cast_emit (CS 4) (CS 4) (CS 2)) (enc (CS 2) 3) = Ok (VV KSgn 4 15) /\ conv_val (CS 2) (CS 4) 3 = 15 /\
  num (CS 2) 3 = -1 /\ num (CS 4) 15 = -1.
Proof. vm_compute. repeat split. Qed.

Example ex_join : join (CBV 4) (CS 4) = Some (CBV 4) /\ dep_join (CBV 4) (CBV 4) = false /\ dep_join (CS 4) (CBV 4) = false /\
  join CBool CBit = Some CBit.
Proof. vm_compute. repeat split. Qed.

(** with the proposed declaration repair the equal-width reinterpretation is rejected, the documented pairs stay *)
Lemma declfix_rejects_reinterpretation n m :
  decl_ok_fixed (CS n) (CU m) = false /\ decl_ok_fixed (CU n) (CS n) = false.
Proof. unfold decl_ok_fixed. cbn [is_runtime vec_of trial]. rewrite N.ltb_irrefl. split; reflexivity. Qed.

Lemma declfix_keeps_documented src tgt :
  is_target tgt = true -> dep_decl src tgt = false -> decl_ok_fixed src tgt = doc_ok src tgt.
Proof.
  intros Ht Hd. pose proof (matrix_decl src tgt Ht Hd) as E. unfold decl_ok in E. unfold decl_ok_fixed.
  destruct (is_runtime src) eqn:R; [|exact E].
  destruct (vec_of src) as [[ks n]|] eqn:Vs; [|exact E]. destruct (vec_of tgt) as [[kt m]|] eqn:Vt; [|exact E].
  destruct (trial src tgt) eqn:T; [exact E|]. cbn [andb]. clear E.
  destruct src; try discriminate Vs; destruct tgt; try discriminate Vt; cbn [trial doc_ok] in *;
    try (symmetry; exact T); reflexivity.
Qed.


(** ** merges whose other option has its own type (Null, Full, a narrower run-time value) *)

(** Null / Full are never joined: every option is converted to the assignment target on its own, so Full is filled at
    the TARGET width *)
Theorem merge3_null_full a o tgt :
  o = CNull \/ o = CFull ->
  join a o = None /\ join o a = None /\
  merge_ok a o tgt = redirect_ok a tgt && redirect_ok o tgt /\
  merge_ok o a tgt = redirect_ok o tgt && redirect_ok a tgt.
Proof.
  intros [-> | ->]; unfold merge_ok; destruct a; cbn [join]; repeat split; reflexivity.
Qed.

Theorem full_at_target_width k m :
  let tgt := mkvec k m in
  ceval (cast_emit tgt tgt CFull) (VI 0) = Ok (enc tgt (ones m)) /\
  ceval (cast_emit tgt tgt CNull) (VI 0) = Ok (enc tgt 0).
Proof.
  destruct k; cbn [mkvec]; unfold cast_emit; cbn [is_runtime negb ctor trial]; rewrite ?N.eqb_refl, ?N.leb_refl;
    cbn [ceval conv_val enc]; split; reflexivity.
Qed.

(** soundness of a three-type merge on the universe the harness generates (widths 1..4 and 8): whatever is
    accepted converts BOTH options to the target by documented conversions (directly or through the type of one of
    them, [m3_doc]), outside the known departures
    (run-time Integer into a vector, truthiness) *)
Definition m3_widths : list N := [1; 2; 3; 4; 8]%N.
Definition m3_sources : list cty :=
  [CBit; CBool; CInteger] ++ flat_map (fun n => [CBV n; CU n; CS n]) m3_widths.
Definition m3_others (tgt : cty) : list cty :=
  CNull :: CFull ::
  match vec_of tgt with
  | Some (_, n) => if (1 <? n)%N then [CU (n - 1); CS (n - 1)] else []
  | None => []
  end.
Definition m3_dep (a tgt : cty) : bool :=
  match a, tgt with
  | CInteger, (CU _ | CS _) => true
  | (CBV _ | CU _ | CS _ | CInteger), CBool => true
  | _, _ => false
  end.
Definition m3_sound_at (a o tgt : cty) : bool :=
  implb (merge_ok a o tgt && negb (m3_dep a tgt) && negb (m3_dep o tgt)) (m3_doc a o tgt) &&
  implb (merge_ok o a tgt && negb (m3_dep a tgt) && negb (m3_dep o tgt)) (m3_doc a o tgt).
Definition m3_check : bool :=
  forallb (fun tgt => forallb (fun a => forallb (fun o => m3_sound_at a o tgt) (m3_others tgt)) m3_sources)
          (filter is_target m3_sources).

Theorem merge3_sound_bounded : m3_check = true.
Proof. vm_compute. reflexivity. Qed.

Lemma merge3_sound_use a o tgt :
  In tgt (filter is_target m3_sources) -> In a m3_sources -> In o (m3_others tgt) ->
  m3_dep a tgt = false -> m3_dep o tgt = false ->
  merge_ok a o tgt = true \/ merge_ok o a tgt = true -> m3_doc a o tgt = true.
Proof.
  intros Ht Ha Ho Da Do H. pose proof merge3_sound_bounded as C. unfold m3_check in C.
  rewrite forallb_forall in C. specialize (C tgt Ht). rewrite forallb_forall in C. specialize (C a Ha).
  rewrite forallb_forall in C. specialize (C o Ho). unfold m3_sound_at in C. rewrite Da, Do in C. cbn [negb] in C.
  rewrite !andb_true_r in C. apply andb_prop in C. destruct C as [C1 C2].
  destruct H as [H|H]; rewrite H in *; cbn [implb] in *; [exact C1|exact C2].
Qed.

Example ex_merge3 :
  merge_ok (CU 2) CFull (CS 3) = true /\ merge_ok CFull (CU 2) (CU 3) = true /\ merge_ok (CU 2) (CU 2) (CU 3) = true /\
  merge_ok (CS 2) (CU 2) (CS 3) = true /\ merge_ok (CS 2) (CU 2) (CU 3) = false /\
  assign_ok (FView KU) (CS 2) (CS 3) = true /\
  ceval (cast_emit (CU 3) (CS 3) (CS 2)) (enc (CS 2) 3) = Ok (VV KUns 3 7).
Proof. vm_compute. repeat split. Qed.
