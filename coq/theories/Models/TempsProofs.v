(** * Proofs about Models/Temps.v (property C08) *)
From Coq Require Import PArith List Bool Lia.
Import ListNotations.
From Cohdl Require Import Models.Temps.

Lemma pmem_In x l : pmem x l = true <-> In x l.
Proof.
  unfold pmem. rewrite existsb_exists. split.
  - intros [y [Hy He]]. apply Pos.eqb_eq in He. subst. assumption.
  - intros H. exists x. split; [assumption|apply Pos.eqb_refl].
Qed.

Lemma dbu_b_iff MU t : def_before_use_b MU t = true <-> def_before_use MU t.
Proof. unfold def_before_use_b, def_before_use. apply forallb_forall. Qed.

(** ** the CaseWhen arm as coded is unsound: the match witness *)
Lemma search_refuted :
  exists t, wf_block t = true /\ search_invalid [] t = Accept /\ ~ def_before_use [] t.
Proof.
  exists match_witness. split; [reflexivity|]. split; [vm_compute; reflexivity|].
  intros H. apply dbu_b_iff in H. vm_compute in H. discriminate.
Qed.

Lemma search_fixed_rejects_witness : search_invalid_fixed [] match_witness = RejInvalid.
Proof. vm_compute. reflexivity. Qed.

(** ** _check_temporaries *)
Lemma first_is_write_sound : forall l seen, first_is_write seen l = true ->
  forall pre x post, l = pre ++ AR (OTemp x) :: post -> pmem x seen = true \/ In (AW (OTemp x)) pre.
Proof.
  induction l as [|a l IH]; intros seen H pre x post E.
  - destruct pre; discriminate.
  - destruct pre as [|b pre'].
    + cbn in E. injection E as -> ->. cbn in H. apply andb_true_iff in H. left. tauto.
    + cbn in E. injection E as -> E.
      destruct b as [[r|]|[r|]]; cbn [first_is_write] in H.
      * apply andb_true_iff in H. destruct H as [_ H].
        destruct (IH seen H pre' x post E) as [G|G]; [left; assumption|right; right; assumption].
      * destruct (IH seen H pre' x post E) as [G|G]; [left; assumption|right; right; assumption].
      * destruct (IH (r :: seen) H pre' x post E) as [G|G]; [|right; right; assumption].
        cbn in G. apply orb_true_iff in G. destruct G as [G|G]; [|left; assumption].
        apply Pos.eqb_eq in G. subst. right. left. reflexivity.
      * destruct (IH seen H pre' x post E) as [G|G]; [left; assumption|right; right; assumption].
Qed.

(** no state reads a temporary that it has not written itself, earlier in program order:
    nothing computed in one state is consumed in another *)
Theorem states_sound : forall sts, check_states sts = true ->
  forall s, In s sts -> forall pre x post, lin_block s = pre ++ AR (OTemp x) :: post -> In (AW (OTemp x)) pre.
Proof.
  intros sts H s Hs pre x post E. unfold check_states in H. rewrite forallb_forall in H.
  specialize (H s Hs). unfold check_state in H.
  destruct (first_is_write_sound _ _ H pre x post E) as [G|G]; [discriminate|assumption].
Qed.

Example states_nonvacuous :
  check_states [BCons (SExpr false [OOther] (OTemp 1)) (BCons (SOther [OTemp 1]) BNil)] = true /\
  check_states [BCons (SExpr false [OOther] (OTemp 1)) BNil; BCons (SOther [OTemp 1]) BNil] = false.
Proof. vm_compute. split; reflexivity. Qed.

(** ** cleanup_bool_cast as coded loses the write of a chained cast *)
Lemma boolcast_refuted :
  exists t, search_invalid_fixed [] t = Accept /\ def_before_use [] t /\ ~ def_before_use [] (cleanup t).
Proof.
  exists boolcast_witness. split; [vm_compute; reflexivity|]. split.
  - apply dbu_b_iff. vm_compute. reflexivity.
  - intros H. apply dbu_b_iff in H. vm_compute in H. discriminate.
Qed.

Lemma boolcast_fixed_witness : def_before_use [] (cleanup_fixed boolcast_witness).
Proof. apply dbu_b_iff. vm_compute. reflexivity. Qed.
