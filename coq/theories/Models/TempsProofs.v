(** * Proofs about Models/Temps.v (property C08) *)
From Coq Require Import PArith List Bool Lia Setoid.
Import ListNotations.
From Cohdl Require Import Models.Temps.

Lemma pmem_In x l : pmem x l = true <-> In x l.
Proof.
  unfold pmem. rewrite existsb_exists. split.
  - intros [y [Hy He]]. apply Pos.eqb_eq in He. subst. assumption.
  - intros H. exists x. split; [assumption|apply Pos.eqb_refl].
Qed.

Lemma dbu_b_iff MU t : def_before_use_b MU t = true <-> def_before_use MU t.
Proof. unfold def_before_use_b, def_before_use. apply forallb_forall. Qed.

(** ** the CaseWhen arm as coded is unsound: the match witness *)
Lemma search_refuted :
  exists t, wf_block t = true /\ search_invalid_coded [] t = Accept /\ ~ def_before_use [] t.
Proof.
  exists match_witness. split; [reflexivity|]. split; [vm_compute; reflexivity|].
  intros H. apply dbu_b_iff in H. vm_compute in H. discriminate.
Qed.

Lemma search_rejects_witness : search_invalid [] match_witness = RejInvalid.
Proof. vm_compute. reflexivity. Qed.

(** ** _check_temporaries *)
Lemma first_is_write_sound : forall l seen, first_is_write seen l = true ->
  forall pre x post, l = pre ++ AR (OTemp x) :: post -> pmem x seen = true \/ In (AW (OTemp x)) pre.
Proof.
  induction l as [|a l IH]; intros seen H pre x post E.
  - destruct pre; discriminate.
  - destruct pre as [|b pre'].
    + cbn in E. injection E as -> ->. cbn in H. apply andb_true_iff in H. left. tauto.
    + cbn in E. injection E as -> E.
      destruct b as [[r|]|[r|]]; cbn [first_is_write] in H.
      * apply andb_true_iff in H. destruct H as [_ H].
        destruct (IH seen H pre' x post E) as [G|G]; [left; assumption|right; right; assumption].
      * destruct (IH seen H pre' x post E) as [G|G]; [left; assumption|right; right; assumption].
      * destruct (IH (r :: seen) H pre' x post E) as [G|G]; [|right; right; assumption].
        cbn in G. apply orb_true_iff in G. destruct G as [G|G]; [|left; assumption].
        apply Pos.eqb_eq in G. subst. right. left. reflexivity.
      * destruct (IH seen H pre' x post E) as [G|G]; [left; assumption|right; right; assumption].
Qed.

(** no state reads a temporary that it has not written itself, earlier in program order:
    nothing computed in one state is consumed in another *)
Theorem states_sound : forall sts, check_states sts = true ->
  forall s, In s sts -> forall pre x post, lin_block s = pre ++ AR (OTemp x) :: post -> In (AW (OTemp x)) pre.
Proof.
  intros sts H s Hs pre x post E. unfold check_states in H. rewrite forallb_forall in H.
  specialize (H s Hs). unfold check_state in H.
  destruct (first_is_write_sound _ _ H pre x post E) as [G|G]; [discriminate|assumption].
Qed.

Example states_nonvacuous :
  check_states [BCons (SExpr false [OOther] (OTemp 1)) (BCons (SOther [OTemp 1]) BNil)] = true /\
  check_states [BCons (SExpr false [OOther] (OTemp 1)) BNil; BCons (SOther [OTemp 1]) BNil] = false.
Proof. vm_compute. split; reflexivity. Qed.

(** ** cleanup_bool_cast as coded loses the write of a chained cast *)
Lemma boolcast_refuted :
  exists t, search_invalid [] t = Accept /\ def_before_use [] t /\ ~ def_before_use [] (cleanup_coded t).
Proof.
  exists boolcast_witness. split; [vm_compute; reflexivity|]. split.
  - apply dbu_b_iff. vm_compute. reflexivity.
  - intros H. apply dbu_b_iff in H. vm_compute in H. discriminate.
Qed.

Lemma boolcast_witness_ok : def_before_use [] (cleanup boolcast_witness).
Proof. apply dbu_b_iff. vm_compute. reflexivity. Qed.

(** ** Soundness of the search of the current tree (corrected CaseWhen arm, fx = true) *)

Arguments pmem : simpl never.
Arguments premove : simpl never.
Arguments pdiff : simpl never.
Arguments pinter : simpl never.

Lemma pmem_cons x r a : pmem x (r :: a) = Pos.eqb x r || pmem x a.
Proof. reflexivity. Qed.

Lemma pmem_app x a b : pmem x (a ++ b) = pmem x a || pmem x b.
Proof. unfold pmem. apply existsb_app. Qed.

Lemma pmem_pinter x a b : pmem x (pinter a b) = pmem x a && pmem x b.
Proof.
  apply Bool.eq_iff_eq_true. rewrite andb_true_iff, !pmem_In. unfold pinter.
  rewrite filter_In, pmem_In. tauto.
Qed.

Lemma pmem_pdiff x a b : pmem x (pdiff a b) = pmem x a && negb (pmem x b).
Proof.
  apply Bool.eq_iff_eq_true. unfold pdiff. rewrite andb_true_iff, pmem_In, filter_In, pmem_In. tauto.
Qed.

Lemma pmem_premove x r a : pmem x (premove r a) = pmem x a && negb (Pos.eqb x r).
Proof.
  apply Bool.eq_iff_eq_true. unfold premove. rewrite andb_true_iff, pmem_In, filter_In, pmem_In. tauto.
Qed.

Lemma rbind_ok {A B} (r : R A) (f : A -> R B) y : rbind r f = ROk y -> exists a, r = ROk a /\ f a = ROk y.
Proof. destruct r; cbn; [eauto|discriminate]. Qed.

Section Sound.
  Variable MU : list positive.

  Definition Inv (D : list positive) (x : st) : Prop :=
    forall r, pmem r x.(wr) = true -> pmem r MU = false -> pmem r x.(inv) = true \/ pmem r D = true.

  Definition FrameI (x y : st) : Prop :=
    forall r, pmem r y.(wr) = true -> pmem r MU = false ->
      (pmem r x.(wr) = true /\ pmem r x.(inv) = false) \/ pmem r y.(inv) = true.

  Definition Frame (x y : st) (L : list positive) : Prop :=
    forall r, pmem r y.(wr) = true -> pmem r MU = false ->
      (pmem r x.(wr) = true /\ pmem r x.(inv) = false) \/ pmem r y.(inv) = true \/ pmem r L = true.

  Fixpoint after (D : list positive) (p : list acc) : list positive :=
    match p with
    | [] => D
    | AW (OTemp r) :: q => after (r :: D) q
    | _ :: q => after D q
    end.

  Lemma after_app D p q : after D (p ++ q) = after (after D p) q.
  Proof. revert D. induction p as [|[[r|]|[r|]] p IH]; intros D; cbn; auto. Qed.

  Lemma after_mono r p : forall D, pmem r D = true -> pmem r (after D p) = true.
  Proof.
    induction p as [|[[s|]|[s|]] p IH]; intros D H; cbn; auto.
    apply IH. rewrite pmem_cons, H. apply orb_true_r.
  Qed.

  Lemma after_reads D l : after D (map AR l) = D.
  Proof. induction l as [|[r|] l IH]; cbn; auto. Qed.

  Lemma ok_from_app p q : forall D, ok_from MU D (p ++ q) = ok_from MU D p && ok_from MU (after D p) q.
  Proof.
    induction p as [|[[r|]|[r|]] p IH]; intros D; cbn; auto.
    rewrite IH. rewrite andb_assoc. reflexivity.
  Qed.

  Lemma FrameI_refl x : FrameI x x.
  Proof. intros r H _. destruct (pmem r (inv x)) eqn:E; [right; auto|left; auto]. Qed.

  Lemma FrameI_trans x y z : FrameI x y -> FrameI y z -> FrameI x z.
  Proof.
    intros H1 H2 r Hr Hm. destruct (H2 r Hr Hm) as [[Hw Hi]|Hi]; [|right; assumption].
    destruct (H1 r Hw Hm) as [G|G]; [left; assumption|congruence].
  Qed.

  Lemma Frame_trans x y z L1 L2 :
    (forall r, pmem r L1 = true -> pmem r L2 = true) -> Frame x y L1 -> Frame y z L2 -> Frame x z L2.
  Proof.
    intros Hs H1 H2 r Hr Hm. destruct (H2 r Hr Hm) as [[Hw Hi]|Hi]; [|right; assumption].
    destruct (H1 r Hw Hm) as [G|[G|G]]; [left; assumption|congruence|right; right; auto].
  Qed.

  Lemma Frame_add_inv x y L : Frame x y L -> FrameI x (add_inv L y).
  Proof.
    intros H r Hr Hm. cbn in Hr. destruct (H r Hr Hm) as [G|[G|G]]; [left; assumption| |];
      right; cbn; rewrite pmem_app, G; [apply orb_true_r|reflexivity].
  Qed.

  Lemma Inv_FrameI D x y : Inv D x -> FrameI x y -> Inv D y.
  Proof.
    intros HI HF r Hr Hm. destruct (HF r Hr Hm) as [[Hw Hi]|Hi]; [|left; assumption].
    destruct (HI r Hw Hm) as [G|G]; [congruence|right; assumption].
  Qed.

  Lemma Inv_sub_inv D x a : Inv D x -> (forall r, pmem r a = true -> pmem r D = true) -> Inv D (sub_inv a x).
  Proof.
    intros HI Ha r Hr Hm. cbn in *. destruct (HI r Hr Hm) as [G|G]; [|right; assumption].
    destruct (pmem r a) eqn:E; [right; auto|left]. rewrite pmem_pdiff, G, E. reflexivity.
  Qed.

  Lemma FrameI_sub_inv x y a L : FrameI x y -> Frame x (sub_inv a y) (a ++ L).
  Proof.
    intros H r Hr Hm. cbn in Hr. destruct (H r Hr Hm) as [G|G]; [left; assumption|right].
    destruct (pmem r a) eqn:E.
    - right. rewrite pmem_app, E. reflexivity.
    - left. cbn. rewrite pmem_pdiff, G, E. reflexivity.
  Qed.

  Lemma Inv_mono D D' x : (forall r, pmem r D = true -> pmem r D' = true) -> Inv D x -> Inv D' x.
  Proof. intros Hs H r Hr Hm. destruct (H r Hr Hm); [left|right]; auto. Qed.

  (** reads *)
  Definition read_ok (D : list positive) (o : obj) : Prop :=
    match o with OTemp r => pmem r MU || pmem r D = true | OOther => True end.

  Lemma check_read_ok o x x1 : check_read o x = ROk x1 ->
    x1 = x /\ match o with OTemp r => pmem r x.(inv) = false /\ pmem r x.(wr) = true | OOther => True end.
  Proof.
    destruct o as [r|]; cbn; [|intros [= <-]; auto].
    destruct (pmem r (inv x)); [discriminate|]. destruct (pmem r (wr x)); cbn; [|discriminate].
    intros [= <-]. auto.
  Qed.

  Lemma check_read_inv D o x x1 : Inv D x -> check_read o x = ROk x1 -> x1 = x /\ read_ok D o.
  Proof.
    intros HI H. apply check_read_ok in H. destruct H as [-> H]. split; [reflexivity|].
    destruct o as [r|]; cbn; [|exact I]. destruct H as [Hi Hw].
    destruct (pmem r MU) eqn:Em; [reflexivity|]. cbn.
    destruct (HI r Hw Em); congruence.
  Qed.

  Lemma check_reads_ok l : forall x x1, check_reads l x = ROk x1 ->
    x1 = x /\ Forall (fun o => match o with OTemp r => pmem r x.(inv) = false /\ pmem r x.(wr) = true | OOther => True end) l.
  Proof.
    induction l as [|o l IH]; cbn; intros x x1 H.
    - injection H as <-. auto.
    - apply rbind_ok in H. destruct H as [x2 [H1 H2]]. apply check_read_ok in H1. destruct H1 as [-> H1].
      apply IH in H2. destruct H2 as [-> H2]. split; [reflexivity|constructor; assumption].
  Qed.

  Lemma ok_from_reads D l : Forall (read_ok D) l -> forall q, ok_from MU D (map AR l ++ q) = ok_from MU D q.
  Proof.
    induction 1 as [|o l Ho _ IH]; intros q; cbn; [reflexivity|].
    destruct o as [r|]; cbn in *; [rewrite Ho|]; apply IH.
  Qed.

  (** *** part A: monotonicity and frame (independent of the paths) *)

  Definition A_res (x : st) (loc : list positive) (x' : st) (loc' : list positive) : Prop :=
    (forall r, pmem r loc = true -> pmem r loc' = true) /\ Frame x x' loc'.

  Lemma do_def_frame o x loc x' loc' :
    do_def MU o (do_write o x) loc = (x', loc') -> A_res x loc x' loc'.
  Proof.
    destruct o as [r|]; cbn.
    - destruct (pmem r MU) eqn:Em; intros [= <- <-]; split; try (intros; assumption).
      + intros y Hy Hm. cbn in Hy. rewrite pmem_cons in Hy. destruct (Pos.eqb y r) eqn:E; cbn in Hy.
        * apply Pos.eqb_eq in E. subst. congruence.
        * destruct (pmem y (inv x)) eqn:Ei; [right; left; auto|left; auto].
      + intros y H. rewrite pmem_cons, H. apply orb_true_r.
      + intros y Hy Hm. cbn in Hy. rewrite pmem_cons in Hy. destruct (Pos.eqb y r) eqn:E; cbn in Hy.
        * right. right. rewrite pmem_cons, E. reflexivity.
        * destruct (pmem y (inv x)) eqn:Ei; [|left; auto].
          right. left. cbn. rewrite pmem_premove, Ei, E. reflexivity.
    - intros [= <- <-]. split; [auto|]. intros y Hy _.
      destruct (pmem y (inv x)) eqn:Ei; [right; left; auto|left; auto].
  Qed.

  Lemma A_res_refl x loc : A_res x loc x loc.
  Proof.
    split; [auto|]. intros y Hy _. destruct (pmem y (inv x)) eqn:Ei; [right; left; auto|left; auto].
  Qed.

  Definition A_stmt (s : stmt) : Prop :=
    forall x loc x' loc', search_stmt true MU s x loc = ROk (x', loc') -> A_res x loc x' loc'.
  Definition A_block (b : block) : Prop :=
    forall x loc x' loc', search_block true MU b x loc = ROk (x', loc') -> A_res x loc x' loc'.
  Definition A_brs (brs : branches) : Prop :=
    forall x c x' c', search_brs true MU brs x c = ROk (x', c') ->
      FrameI x x' /\
      (forall a' r, fst c' = Some a' -> pmem r a' = true -> forall a, fst c = Some a -> pmem r a = true).

  Lemma A_block_nil_loc b : A_block b -> forall x x' L, search_block true MU b x [] = ROk (x', L) ->
    FrameI x (add_inv L x').
  Proof. intros H x x' L E. apply Frame_add_inv. apply (H x [] x' L E). Qed.

  Fixpoint A_stmt_pf (s : stmt) {struct s} : A_stmt s
  with A_block_pf (b : block) {struct b} : A_block b
  with A_brs_pf (brs : branches) {struct brs} : A_brs brs.
  Proof.
    - destruct s as [c reads result|target source|reads|test body orelse|b|value brs hasdef default];
        unfold A_stmt; intros x loc x' loc' H; cbn [search_stmt] in H.
      + apply rbind_ok in H. destruct H as [x1 [H1 H2]]. apply check_reads_ok in H1. destruct H1 as [-> _].
        injection H2 as H2. exact (do_def_frame _ _ _ _ _ H2).
      + apply rbind_ok in H. destruct H as [x1 [H1 H2]]. apply check_reads_ok in H1. destruct H1 as [-> _].
        injection H2 as H2. exact (do_def_frame _ _ _ _ _ H2).
      + apply rbind_ok in H. destruct H as [x1 [H1 H2]]. apply check_reads_ok in H1. destruct H1 as [-> _].
        injection H2 as <- <-. apply A_res_refl.
      + apply rbind_ok in H. destruct H as [x1 [H1 H]]. apply check_read_ok in H1. destruct H1 as [-> _].
        apply rbind_ok in H. destruct H as [[xb Lb] [Hb H]].
        apply rbind_ok in H. destruct H as [[xe Le] [He H]]. cbn [fst snd] in *.
        injection H as <- <-.
        pose proof (A_block_nil_loc body (A_block_pf body) _ _ _ Hb) as Fb.
        pose proof (A_block_nil_loc orelse (A_block_pf orelse) _ _ _ He) as Fe.
        split.
        * intros r Hr. rewrite pmem_app, Hr. apply orb_true_r.
        * apply FrameI_sub_inv. eapply FrameI_trans; eassumption.
      + apply rbind_ok in H. destruct H as [[xb Lb] [Hb H]]. cbn [fst snd] in *. injection H as <- <-.
        destruct (A_block_pf b _ _ _ _ Hb) as [_ F]. split.
        * intros r Hr. rewrite pmem_app, Hr. apply orb_true_r.
        * intros r Hr Hm. destruct (F r Hr Hm) as [G|[G|G]]; [left; assumption|right; left; assumption|].
          right. right. rewrite pmem_app, G. reflexivity.
      + apply rbind_ok in H. destruct H as [x1 [H1 H]]. apply check_read_ok in H1. destruct H1 as [-> _].
        apply rbind_ok in H. destruct H as [[x2 [always last]] [Hl H]].
        destruct (A_brs_pf brs _ _ _ _ Hl) as [Fl _].
        destruct hasdef.
        * apply rbind_ok in H. destruct H as [[xd Ld] [Hd H]]. cbn [fst snd] in *. injection H as <- <-.
          pose proof (A_block_nil_loc default (A_block_pf default) _ _ _ Hd) as Fd.
          split.
          -- intros r Hr. rewrite pmem_app, Hr. apply orb_true_r.
          -- apply FrameI_sub_inv. eapply FrameI_trans; eassumption.
        * injection H as <- <-. split; [auto|].
          intros r Hr Hm. destruct (Fl r Hr Hm) as [G|G]; [left; assumption|right; left; assumption].
    - destruct b as [|s r]; unfold A_block; intros x loc x' loc' H; cbn [search_block] in H.
      + injection H as <- <-. apply A_res_refl.
      + apply rbind_ok in H. destruct H as [[x1 l1] [H1 H2]]. cbn [fst snd] in H2.
        destruct (A_stmt_pf s _ _ _ _ H1) as [M1 F1]. destruct (A_block_pf r _ _ _ _ H2) as [M2 F2].
        split; [auto|]. eapply Frame_trans; eassumption.
    - destruct brs as [|cond code r]; unfold A_brs; intros x c x' c' H; cbn [search_brs] in H.
      + injection H as <- <-. split; [apply FrameI_refl|]. intros a' y E Hy a E2. congruence.
      + apply rbind_ok in H. destruct H as [x1 [H1 H]]. apply check_read_ok in H1. destruct H1 as [-> _].
        apply rbind_ok in H. destruct H as [[xb Lb] [Hb H]]. cbn [fst snd] in H.
        pose proof (A_block_nil_loc code (A_block_pf code) _ _ _ Hb) as Fb.
        destruct (A_brs_pf r _ _ _ _ H) as [Fr Sr]. split; [eapply FrameI_trans; eassumption|].
        intros a' y E Hy a E2. cbn [fst] in Sr. specialize (Sr a' y E Hy _ eq_refl).
        rewrite E2 in Sr. rewrite pmem_pinter in Sr. apply andb_true_iff in Sr. tauto.
  Qed.

  (** after a branch: the new [always] is contained in the branch's local set *)
  Lemma A_brs_always brs x c x' c' Lb a0 :
    search_brs true MU brs x (Some a0, c) = ROk (x', c') ->
    (forall r, pmem r a0 = true -> pmem r Lb = true) ->
    forall a' r, fst c' = Some a' -> pmem r a' = true -> pmem r Lb = true.
  Proof.
    intros H Hs a' r E Hr. destruct (A_brs_pf brs _ _ _ _ H) as [_ S].
    apply Hs. exact (S a' r E Hr a0 eq_refl).
  Qed.

  Lemma search_brs_some : forall brs x a l x' c',
    search_brs true MU brs x (Some a, l) = ROk (x', c') -> exists a', fst c' = Some a'.
  Proof.
    induction brs as [|cond code r IH]; intros x a l x' c' H; cbn [search_brs] in H.
    - injection H as <- <-. exists a. reflexivity.
    - apply rbind_ok in H. destruct H as [x1 [_ H]]. apply rbind_ok in H. destruct H as [rb [_ H]].
      cbn [fst] in H. eapply IH. exact H.
  Qed.

  Lemma search_brs_cons_some : forall brs x c x' c',
    search_brs true MU brs x c = ROk (x', c') -> paths_brs brs <> [] -> exists a', fst c' = Some a'.
  Proof.
    intros [|cond code r] x c x' c' H Hne; [exfalso; apply Hne; reflexivity|]. cbn [search_brs] in H.
    apply rbind_ok in H. destruct H as [x1 [_ H]]. apply rbind_ok in H. destruct H as [rb [_ H]].
    eapply search_brs_some. exact H.
  Qed.

  (** *** part B: every path is checked *)

  Definition Post (D : list positive) (x' : st) (loc loc' : list positive) (ps : list (list acc)) : Prop :=
    forall p, In p ps ->
      ok_from MU D p = true /\ Inv (after D p) x' /\
      (forall r, pmem r loc' = true -> pmem r loc = true \/ pmem r (after D p) = true).

  Definition B_stmt (s : stmt) : Prop :=
    forall x loc x' loc' D, search_stmt true MU s x loc = ROk (x', loc') -> wf_stmt s = true -> Inv D x ->
      Post D x' loc loc' (paths_stmt s).
  Definition B_block (b : block) : Prop :=
    forall x loc x' loc' D, search_block true MU b x loc = ROk (x', loc') -> wf_block b = true -> Inv D x ->
      Post D x' loc loc' (paths_block b).
  Definition B_brs (brs : branches) : Prop :=
    forall x c x' c' D, search_brs true MU brs x c = ROk (x', c') -> wf_brs brs = true -> Inv D x ->
      forall p, In p (paths_brs brs) ->
        ok_from MU D p = true /\
        exists xj, Inv (after D p) xj /\ FrameI xj x' /\
          (forall a' r, fst c' = Some a' -> pmem r a' = true -> pmem r (after D p) = true).

  Lemma reads_ok_of D x l :
    Inv D x ->
    Forall (fun o => match o with OTemp r => pmem r x.(inv) = false /\ pmem r x.(wr) = true | OOther => True end) l ->
    Forall (read_ok D) l.
  Proof.
    intros HI H. induction H as [|o l Ho _ IH]; constructor; [|assumption].
    destruct o as [r|]; cbn; [|exact I]. destruct Ho as [Hi Hw].
    destruct (pmem r MU) eqn:Em; [reflexivity|]. cbn. destruct (HI r Hw Em); congruence.
  Qed.

  Lemma leaf_def D o x loc x' loc' :
    Inv D x -> do_def MU o (do_write o x) loc = (x', loc') ->
    Inv (after D [AW o]) x' /\ (forall r, pmem r loc' = true -> pmem r loc = true \/ pmem r (after D [AW o]) = true).
  Proof.
    intros HI. destruct o as [r|]; cbn.
    - destruct (pmem r MU) eqn:Em; intros [= <- <-]; split.
      + intros y Hy Hm. cbn in Hy. rewrite pmem_cons in Hy. destruct (Pos.eqb y r) eqn:E; cbn in Hy.
        * right. rewrite pmem_cons, E. reflexivity.
        * destruct (HI y Hy Hm) as [G|G]; [left; assumption|right]. rewrite pmem_cons, G. apply orb_true_r.
      + auto.
      + intros y Hy Hm. cbn in Hy. rewrite pmem_cons in Hy. destruct (Pos.eqb y r) eqn:E; cbn in Hy.
        * right. rewrite pmem_cons, E. reflexivity.
        * destruct (HI y Hy Hm) as [G|G]; [left|right].
          -- cbn. rewrite pmem_premove, G, E. reflexivity.
          -- rewrite pmem_cons, G. apply orb_true_r.
      + intros y Hy. rewrite pmem_cons in Hy. apply orb_true_iff in Hy. destruct Hy as [Hy|Hy]; [right|left; assumption].
        rewrite pmem_cons, Hy. reflexivity.
    - intros [= <- <-]. split; [assumption|auto].
  Qed.

  Fixpoint B_stmt_pf (s : stmt) {struct s} : B_stmt s
  with B_block_pf (b : block) {struct b} : B_block b
  with B_brs_pf (brs : branches) {struct brs} : B_brs brs.
  Proof.
    - destruct s as [c reads result|target source|reads|test body orelse|b|value brs hasdef default];
        unfold B_stmt; intros x loc x' loc' D H Hwf HI; cbn [search_stmt] in H; cbn [paths_stmt wf_stmt] in *.
      + (* SExpr *)
        apply rbind_ok in H. destruct H as [x1 [H1 H2]]. apply check_reads_ok in H1. destruct H1 as [-> Hr].
        injection H2 as H2. intros p [<-|[]].
        rewrite (ok_from_reads D reads (reads_ok_of D x reads HI Hr)).
        rewrite after_app, after_reads.
        destruct (leaf_def D result x loc x' loc' HI H2) as [G1 G2].
        split; [destruct result as [r|]; reflexivity|]. split; assumption.
      + (* SVarAssign *)
        apply rbind_ok in H. destruct H as [x1 [H1 H2]]. apply check_reads_ok in H1. destruct H1 as [-> Hr].
        injection H2 as H2. intros p [<-|[]].
        assert (Hro : Forall (read_ok D) source).
        { destruct target as [t|]; [|exact (reads_ok_of D x source HI Hr)].
          cbn in Hwf. apply negb_true_iff in Hwf.
          clear H2. induction Hr as [|o l Ho _ IH]; constructor.
          - destruct o as [r|]; cbn; [|exact I]. cbn in Ho. destruct Ho as [Hi Hw]. rewrite pmem_cons in Hw.
            cbn in Hwf. apply orb_false_iff in Hwf. destruct Hwf as [Hne _]. cbn in Hne.
            rewrite Pos.eqb_sym in Hne. rewrite Hne in Hw. cbn in Hw.
            destruct (pmem r MU) eqn:Em; [reflexivity|]. cbn. destruct (HI r Hw Em); congruence.
          - apply IH. cbn in Hwf. apply orb_false_iff in Hwf. tauto. }
        rewrite (ok_from_reads D source Hro). rewrite after_app, after_reads.
        destruct (leaf_def D target x loc x' loc' HI H2) as [G1 G2].
        split; [destruct target as [r|]; reflexivity|]. split; assumption.
      + (* SOther *)
        apply rbind_ok in H. destruct H as [x1 [H1 H2]]. apply check_reads_ok in H1. destruct H1 as [-> Hr].
        injection H2 as <- <-. intros p [<-|[]].
        rewrite <- (app_nil_r (map AR reads)).
        rewrite (ok_from_reads D reads (reads_ok_of D x reads HI Hr)). rewrite after_app, after_reads.
        split; [reflexivity|]. split; [assumption|auto].
      + (* SIf *)
        apply andb_true_iff in Hwf. destruct Hwf as [Wb We].
        apply rbind_ok in H. destruct H as [x1 [H1 H]]. destruct (check_read_inv D _ _ _ HI H1) as [-> Rt].
        apply rbind_ok in H. destruct H as [[xb Lb] [Hb H]].
        apply rbind_ok in H. destruct H as [[xe Le] [He H]]. cbn [fst snd] in *.
        injection H as <- <-.
        pose proof (A_block_nil_loc body (A_block_pf body) _ _ _ Hb) as Fb.
        pose proof (A_block_nil_loc orelse (A_block_pf orelse) _ _ _ He) as Fe.
        pose proof (B_block_pf body _ _ _ _ D Hb Wb HI) as Pb.
        pose proof (B_block_pf orelse _ _ _ _ D He We (Inv_FrameI D _ _ HI Fb)) as Pe.
        intros p Hp. apply in_map_iff in Hp. destruct Hp as [q [<- Hq]].
        assert (Hok : forall q', ok_from MU D (AR test :: q') = ok_from MU D q').
        { intros q'. destruct test as [r|]; cbn in *; [rewrite Rt|]; reflexivity. }
        rewrite Hok. assert (Haf : after D (AR test :: q) = after D q) by (destruct test; reflexivity).
        rewrite Haf. apply in_app_or in Hq. destruct Hq as [Hq|Hq].
        * destruct (Pb q Hq) as [O [I1 L1]]. split; [assumption|]. split.
          -- apply Inv_sub_inv.
             ++ apply Inv_FrameI with (x := add_inv Lb xb); [|assumption].
                intros r Hr Hm. cbn in Hr. destruct (I1 r Hr Hm) as [G|G]; [left|right; assumption].
                cbn. rewrite pmem_app, G. apply orb_true_r.
             ++ intros r Hr. rewrite pmem_pinter in Hr. apply andb_true_iff in Hr. destruct Hr as [Hr _].
                destruct (L1 r Hr) as [G|G]; [discriminate|assumption].
          -- intros r Hr. rewrite pmem_app in Hr. apply orb_true_iff in Hr. destruct Hr as [Hr|Hr]; [right|left; assumption].
             rewrite pmem_pinter in Hr. apply andb_true_iff in Hr. destruct Hr as [Hr _].
             destruct (L1 r Hr) as [G|G]; [discriminate|assumption].
        * destruct (Pe q Hq) as [O [I1 L1]]. split; [assumption|]. split.
          -- apply Inv_sub_inv.
             ++ intros r Hr Hm. cbn in Hr. destruct (I1 r Hr Hm) as [G|G]; [left|right; assumption].
                cbn. rewrite pmem_app, G. apply orb_true_r.
             ++ intros r Hr. rewrite pmem_pinter in Hr. apply andb_true_iff in Hr. destruct Hr as [_ Hr].
                destruct (L1 r Hr) as [G|G]; [discriminate|assumption].
          -- intros r Hr. rewrite pmem_app in Hr. apply orb_true_iff in Hr. destruct Hr as [Hr|Hr]; [right|left; assumption].
             rewrite pmem_pinter in Hr. apply andb_true_iff in Hr. destruct Hr as [_ Hr].
             destruct (L1 r Hr) as [G|G]; [discriminate|assumption].
      + (* SBlock *)
        apply rbind_ok in H. destruct H as [[xb Lb] [Hb H]]. cbn [fst snd] in *. injection H as <- <-.
        pose proof (B_block_pf b _ _ _ _ D Hb Hwf HI) as Pb.
        intros p Hp. destruct (Pb p Hp) as [O [I1 L1]]. split; [assumption|]. split; [assumption|].
        intros r Hr. rewrite pmem_app in Hr. apply orb_true_iff in Hr. destruct Hr as [Hr|Hr]; [right|left; assumption].
        destruct (L1 r Hr) as [G|G]; [discriminate|assumption].
      + (* SCase *)
        apply andb_true_iff in Hwf. destruct Hwf as [Wb Wd].
        apply rbind_ok in H. destruct H as [x1 [H1 H]]. destruct (check_read_inv D _ _ _ HI H1) as [-> Rt].
        apply rbind_ok in H. destruct H as [[x2 [always last]] [Hl H]].
        destruct (A_brs_pf brs _ _ _ _ Hl) as [Fl _].
        pose proof (B_brs_pf brs _ _ _ _ D Hl Wb HI) as Pl.
        assert (Hok : forall q', ok_from MU D (AR value :: q') = ok_from MU D q').
        { intros q'. destruct value as [r|]; cbn in *; [rewrite Rt|]; reflexivity. }
        assert (Haf : forall q, after D (AR value :: q) = after D q) by (intros; destruct value; reflexivity).
        destruct hasdef.
        * apply rbind_ok in H. destruct H as [[xd Ld] [Hd H]]. cbn [fst snd] in *. injection H as <- <-.
          pose proof (A_block_nil_loc default (A_block_pf default) _ _ _ Hd) as Fd.
          pose proof (B_block_pf default _ _ _ _ D Hd Wd (Inv_FrameI D _ _ HI Fl)) as Pd.
          set (a := match always with Some a => pinter a Ld | None => Ld end).
          intros p Hp. apply in_map_iff in Hp. destruct Hp as [q [<- Hq]]. rewrite Hok, Haf.
          apply in_app_or in Hq. destruct Hq as [Hq|Hq].
          -- destruct (Pl q Hq) as [O [xj [I1 [F1 S1]]]]. split; [assumption|].
             assert (Ha : forall r, pmem r a = true -> pmem r (after D q) = true).
             { intros r Hr. unfold a in Hr. destruct always as [a0|].
               - rewrite pmem_pinter in Hr. apply andb_true_iff in Hr. destruct Hr as [Hr _].
                 exact (S1 a0 r eq_refl Hr).
               - (* no branch was executed: there is no branch path *)
                 exfalso. assert (Hne : paths_brs brs <> []) by (intros E0; rewrite E0 in Hq; contradiction).
                 destruct (search_brs_cons_some _ _ _ _ _ Hl Hne) as [a' E']. discriminate. }
             split.
             ++ apply Inv_sub_inv; [|assumption].
                apply Inv_FrameI with (x := xj); [assumption|]. eapply FrameI_trans; eassumption.
             ++ intros r Hr. rewrite pmem_app in Hr. apply orb_true_iff in Hr.
                destruct Hr as [Hr|Hr]; [right; auto|left; assumption].
          -- destruct (Pd q Hq) as [O [I1 L1]]. split; [assumption|].
             assert (Ha : forall r, pmem r a = true -> pmem r (after D q) = true).
             { intros r Hr. assert (Hd' : pmem r Ld = true).
               { unfold a in Hr. destruct always; [|assumption].
                 rewrite pmem_pinter in Hr. apply andb_true_iff in Hr. tauto. }
               destruct (L1 r Hd') as [G|G]; [discriminate|assumption]. }
             split.
             ++ apply Inv_sub_inv; [|assumption].
                intros r Hr Hm. cbn in Hr. destruct (I1 r Hr Hm) as [G|G]; [left|right; assumption].
                cbn. rewrite pmem_app, G. apply orb_true_r.
             ++ intros r Hr. rewrite pmem_app in Hr. apply orb_true_iff in Hr.
                destruct Hr as [Hr|Hr]; [right; auto|left; assumption].
        * injection H as <- <-.
          intros p Hp. apply in_map_iff in Hp. destruct Hp as [q [<- Hq]]. rewrite Hok, Haf.
          apply in_app_or in Hq. destruct Hq as [Hq|Hq].
          -- destruct (Pl q Hq) as [O [xj [I1 [F1 _]]]]. split; [assumption|]. split; [|auto].
             apply Inv_FrameI with (x := xj); assumption.
          -- destruct Hq as [<-|[]]. cbn. split; [reflexivity|]. split; [|auto].
             apply Inv_FrameI with (x := x); assumption.
    - destruct b as [|s r]; unfold B_block; intros x loc x' loc' D H Hwf HI; cbn [search_block] in H;
        cbn [paths_block wf_block] in *.
      + injection H as <- <-. intros p [<-|[]]. cbn. split; [reflexivity|]. split; [assumption|auto].
      + apply andb_true_iff in Hwf. destruct Hwf as [Ws Wr].
        apply rbind_ok in H. destruct H as [[x1 l1] [H1 H2]]. cbn [fst snd] in H2.
        pose proof (B_stmt_pf s _ _ _ _ D H1 Ws HI) as Ps.
        intros pq Hpq. apply in_flat_map in Hpq. destruct Hpq as [p [Hp Hpq]].
        apply in_map_iff in Hpq. destruct Hpq as [q [<- Hq]].
        destruct (Ps p Hp) as [O1 [I1 L1]].
        pose proof (B_block_pf r _ _ _ _ (after D p) H2 Wr I1) as Pr.
        destruct (Pr q Hq) as [O2 [I2 L2]].
        rewrite ok_from_app, O1, O2, after_app. split; [reflexivity|]. split; [assumption|].
        intros y Hy. destruct (L2 y Hy) as [G|G]; [|right; assumption].
        destruct (L1 y G) as [G'|G']; [left; assumption|right]. apply after_mono. assumption.
    - destruct brs as [|cond code r]; unfold B_brs; intros x c x' c' D H Hwf HI p Hp; cbn [search_brs] in H;
        cbn [paths_brs wf_brs] in *; [contradiction|].
      apply andb_true_iff in Hwf. destruct Hwf as [Wc Wr].
      apply rbind_ok in H. destruct H as [x1 [H1 H]]. destruct (check_read_inv D _ _ _ HI H1) as [-> Rt].
      apply rbind_ok in H. destruct H as [[xb Lb] [Hb H]]. cbn [fst snd] in H.
      pose proof (A_block_nil_loc code (A_block_pf code) _ _ _ Hb) as Fb.
      destruct (A_brs_pf r _ _ _ _ H) as [Fr Sr].
      apply in_app_or in Hp. destruct Hp as [Hp|Hp].
      + apply in_map_iff in Hp. destruct Hp as [q [<- Hq]].
        destruct (B_block_pf code _ _ _ _ D Hb Wc HI q Hq) as [O [I1 L1]].
        assert (Hok : ok_from MU D (AR cond :: q) = ok_from MU D q).
        { destruct cond as [y|]; cbn in *; [rewrite Rt|]; reflexivity. }
        assert (Haf : after D (AR cond :: q) = after D q) by (destruct cond; reflexivity).
        rewrite Hok, Haf. split; [assumption|].
        exists (add_inv Lb xb). split; [|split; [assumption|]].
        * intros y Hy Hm. cbn in Hy. destruct (I1 y Hy Hm) as [G|G]; [left|right; assumption].
          cbn. rewrite pmem_app, G. apply orb_true_r.
        * intros a' y E Hy. cbn [fst] in Sr. specialize (Sr a' y E Hy _ eq_refl).
          assert (Hb' : pmem y Lb = true).
          { destruct (fst c); [|assumption]. rewrite pmem_pinter in Sr. apply andb_true_iff in Sr. tauto. }
          destruct (L1 y Hb') as [G|G]; [discriminate|assumption].
      + destruct (B_brs_pf r _ _ _ _ D H Wr (Inv_FrameI D _ _ HI Fb) p Hp) as [O [xj [I1 [F1 S1]]]].
        split; [assumption|]. exists xj. split; [assumption|]. split; assumption.
  Qed.

  Theorem search_sound : forall t, wf_block t = true ->
    search_invalid MU t = Accept -> def_before_use MU t.
  Proof.
    intros t Hwf H p Hp. unfold search_invalid, search_invalid_gen in H.
    destruct (search_block true MU t {| inv := []; wr := [] |} []) as [[x' loc']|v] eqn:E; [|destruct v; discriminate].
    assert (HI : Inv [] {| inv := []; wr := [] |}) by (intros r Hr; discriminate).
    destruct (B_block_pf t _ _ _ _ [] E Hwf HI p Hp) as [O _]. exact O.
  Qed.
End Sound.

(** ** cleanup_unused removes no write of a temporary that is read anywhere *)
Lemma no_write_in_reads o l : ~ In (AW o) (map AR l).
Proof. induction l as [|x l IH]; cbn; [tauto|]. intros [H|H]; [discriminate|auto]. Qed.

Definition K_stmt (s : stmt) : Prop := forall used r, pmem r used = true ->
  In (AW (OTemp r)) (lin_stmt s) -> In (AW (OTemp r)) (lin_stmt (cu_stmt used s)).
Definition K_block (b : block) : Prop := forall used r, pmem r used = true ->
  In (AW (OTemp r)) (lin_block b) -> In (AW (OTemp r)) (lin_block (cu_block used b)).
Definition K_brs (b : branches) : Prop := forall used r, pmem r used = true ->
  In (AW (OTemp r)) (lin_brs b) -> In (AW (OTemp r)) (lin_brs (cu_brs used b)).

Fixpoint K_stmt_pf (s : stmt) {struct s} : K_stmt s
with K_block_pf (b : block) {struct b} : K_block b
with K_brs_pf (b : branches) {struct b} : K_brs b.
Proof.
  - destruct s as [c reads result|target source|reads|test body orelse|b|value brs hasdef default];
      unfold K_stmt; intros used r Hu H; cbn [cu_stmt lin_stmt] in *.
    + destruct (unused used result) eqn:E; [|assumption]. exfalso.
      apply in_app_or in H. destruct H as [H|[H|[]]]; [exact (no_write_in_reads _ _ H)|].
      injection H as ->. cbn in E. rewrite Hu in E. discriminate.
    + destruct (unused used target) eqn:E; [|assumption]. exfalso.
      destruct H as [H|H]; [|exact (no_write_in_reads _ _ H)].
      injection H as ->. cbn in E. rewrite Hu in E. discriminate.
    + assumption.
    + destruct H as [H|H]; [discriminate|]. right. apply in_or_app. apply in_app_or in H.
      destruct H as [H|H]; [left; apply K_block_pf|right; apply K_block_pf]; assumption.
    + apply K_block_pf; assumption.
    + apply in_or_app. apply in_app_or in H. destruct H as [H|H]; [left; apply K_brs_pf; assumption|right].
      apply in_or_app. apply in_app_or in H. destruct H as [H|H]; [left|right; assumption].
      destruct hasdef; [apply K_block_pf; assumption|assumption].
  - destruct b as [|s r0]; unfold K_block; intros used r Hu H; cbn [cu_block lin_block] in *; [assumption|].
    apply in_or_app. apply in_app_or in H.
    destruct H as [H|H]; [left; apply K_stmt_pf|right; apply K_block_pf]; assumption.
  - destruct b as [|cond code r0]; unfold K_brs; intros used r Hu H; cbn [cu_brs lin_brs] in *; [assumption|].
    destruct H as [H|H]; [discriminate|]. right. apply in_or_app. apply in_app_or in H.
    destruct H as [H|H]; [left; apply K_block_pf|right; apply K_brs_pf]; assumption.
Qed.

(** every temporary that is read somewhere in the context keeps all its writes *)
Theorem cleanup_unused_keeps_needed_writes : forall t r,
  In r (reads_of (lin_block t)) -> In (AW (OTemp r)) (lin_block t) ->
  In (AW (OTemp r)) (lin_block (cleanup_unused t)).
Proof.
  intros t r Hr Hw. unfold cleanup_unused. apply K_block_pf; [|assumption]. apply pmem_In. assumption.
Qed.

Example cleanup_unused_nonvacuous :
  let t := BCons (SExpr false [OOther] (OTemp 1)) (BCons (SExpr false [OOther] (OTemp 2)) (BCons (SOther [OTemp 1]) BNil)) in
  temp_lin (cleanup_unused t) = [AW (OTemp 1); AR (OTemp 1)].
Proof. vm_compute. reflexivity. Qed.

(** ** cleanup preserves definition-before-use, path-wise *)

Lemma reads_of_app a b : reads_of (a ++ b) = reads_of a ++ reads_of b.
Proof. induction a as [|[[r|]|[r|]] a IH]; cbn; congruence. Qed.

Lemma reads_of_reads l r : In r (reads_of (map AR l)) <-> In (OTemp r) l.
Proof.
  induction l as [|[x|] l IH]; cbn; [tauto| |].
  - rewrite IH. split; intros [H|H]; auto; [left; congruence|left; congruence].
  - rewrite IH. split; [auto|intros [H|H]; [discriminate|auto]].
Qed.

(** *** reads on a path are reads of the linearisation *)
Definition RP_stmt (s : stmt) := forall p r, In p (paths_stmt s) -> In r (reads_of p) -> In r (reads_of (lin_stmt s)).
Definition RP_block (b : block) := forall p r, In p (paths_block b) -> In r (reads_of p) -> In r (reads_of (lin_block b)).
Definition RP_brs (b : branches) := forall p r, In p (paths_brs b) -> In r (reads_of p) -> In r (reads_of (lin_brs b)).

Lemma reads_cons_AR o p r : In r (reads_of (AR o :: p)) <-> (o = OTemp r \/ In r (reads_of p)).
Proof.
  destruct o as [x|]; cbn.
  - split; intros [H|H]; auto; left; congruence.
  - split; [auto|intros [H|H]; [discriminate|assumption]].
Qed.

Fixpoint RP_stmt_pf (s : stmt) {struct s} : RP_stmt s
with RP_block_pf (b : block) {struct b} : RP_block b
with RP_brs_pf (b : branches) {struct b} : RP_brs b.
Proof.
  - destruct s as [c reads result|target source|reads|test body orelse|b|value brs hasdef default];
      unfold RP_stmt; intros p r Hp Hr; cbn [paths_stmt lin_stmt] in *.
    + destruct Hp as [<-|[]]. assumption.
    + destruct Hp as [<-|[]]. rewrite reads_of_app in Hr. apply in_app_or in Hr.
      destruct Hr as [Hr|Hr]; [|destruct target; cbn in Hr; contradiction].
      destruct target; cbn; assumption.
    + destruct Hp as [<-|[]]. assumption.
    + apply in_map_iff in Hp. destruct Hp as [q [<- Hq]]. apply reads_cons_AR in Hr. apply reads_cons_AR.
      destruct Hr as [Hr|Hr]; [left; assumption|right]. rewrite reads_of_app. apply in_or_app.
      apply in_app_or in Hq. destruct Hq as [Hq|Hq]; [left; eapply RP_block_pf|right; eapply RP_block_pf]; eassumption.
    + eapply RP_block_pf; eassumption.
    + apply in_map_iff in Hp. destruct Hp as [q [<- Hq]]. apply reads_cons_AR in Hr.
      rewrite !reads_of_app. apply in_or_app.
      destruct Hr as [Hr|Hr].
      * right. apply in_or_app. right. subst. cbn. auto.
      * apply in_app_or in Hq. destruct Hq as [Hq|Hq]; [left; eapply RP_brs_pf; eassumption|].
        right. apply in_or_app. left. destruct hasdef; [eapply RP_block_pf; eassumption|].
        destruct Hq as [<-|[]]. cbn in Hr. contradiction.
  - destruct b as [|s r0]; unfold RP_block; intros p r Hp Hr; cbn [paths_block lin_block] in *.
    + destruct Hp as [<-|[]]. cbn in Hr. contradiction.
    + apply in_flat_map in Hp. destruct Hp as [p1 [Hp1 Hp]]. apply in_map_iff in Hp. destruct Hp as [q [<- Hq]].
      rewrite reads_of_app in *. apply in_or_app. apply in_app_or in Hr.
      destruct Hr as [Hr|Hr]; [left; eapply RP_stmt_pf|right; eapply RP_block_pf]; eassumption.
  - destruct b as [|cond code r0]; unfold RP_brs; intros p r Hp Hr; cbn [paths_brs lin_brs] in *; [contradiction|].
    apply in_app_or in Hp. apply reads_cons_AR. rewrite reads_of_app. destruct Hp as [Hp|Hp].
    + apply in_map_iff in Hp. destruct Hp as [q [<- Hq]]. apply reads_cons_AR in Hr.
      destruct Hr as [Hr|Hr]; [left; assumption|right]. apply in_or_app. left. eapply RP_block_pf; eassumption.
    + right. apply in_or_app. right. eapply RP_brs_pf; eassumption.
Qed.

(** *** cleanup_unused: every path of the result is a path of the input with accesses deleted *)
Inductive Del (used : list positive) : list acc -> list acc -> Prop :=
| Del_nil : Del used [] []
| Del_keep a p p' : Del used p p' -> Del used (a :: p) (a :: p')
| Del_read o p p' : Del used p p' -> Del used (AR o :: p) p'
| Del_write o p p' : Del used p p' -> unused used o = true -> Del used (AW o :: p) p'.

Lemma Del_refl used p : Del used p p.
Proof. induction p; constructor; assumption. Qed.

Lemma Del_app used p p' q q' : Del used p p' -> Del used q q' -> Del used (p ++ q) (p' ++ q').
Proof. induction 1; intros Hq; cbn; [assumption|constructor; auto|constructor; auto|constructor; auto]. Qed.

Lemma Del_reads used l q q' : Del used q q' -> Del used (map AR l ++ q) q'.
Proof. intros H. induction l as [|o l IH]; cbn; [assumption|constructor; assumption]. Qed.

Definition DP_stmt (s : stmt) := forall used p', In p' (paths_stmt (cu_stmt used s)) -> exists p, In p (paths_stmt s) /\ Del used p p'.
Definition DP_block (b : block) := forall used p', In p' (paths_block (cu_block used b)) -> exists p, In p (paths_block b) /\ Del used p p'.
Definition DP_brs (b : branches) := forall used p', In p' (paths_brs (cu_brs used b)) -> exists p, In p (paths_brs b) /\ Del used p p'.

Fixpoint DP_stmt_pf (s : stmt) {struct s} : DP_stmt s
with DP_block_pf (b : block) {struct b} : DP_block b
with DP_brs_pf (b : branches) {struct b} : DP_brs b.
Proof.
  - destruct s as [c reads result|target source|reads|test body orelse|b|value brs hasdef default];
      unfold DP_stmt; intros used p' Hp; cbn [cu_stmt] in Hp.
    + destruct (unused used result) eqn:E.
      * cbn in Hp. destruct Hp as [<-|[]]. eexists. split; [left; reflexivity|].
        apply Del_reads. constructor; [constructor|assumption].
      * eexists. split; [eassumption|apply Del_refl].
    + destruct (unused used target) eqn:E.
      * cbn in Hp. destruct Hp as [<-|[]]. eexists. split; [left; reflexivity|].
        apply Del_reads. constructor; [constructor|assumption].
      * eexists. split; [eassumption|apply Del_refl].
    + eexists. split; [eassumption|apply Del_refl].
    + cbn [paths_stmt] in *. apply in_map_iff in Hp. destruct Hp as [q' [<- Hq]]. apply in_app_or in Hq.
      destruct Hq as [Hq|Hq].
      * destruct (DP_block_pf body used q' Hq) as [q [Hq1 Hq2]]. exists (AR test :: q). split; [|constructor; assumption].
        apply in_map. apply in_or_app. left. assumption.
      * destruct (DP_block_pf orelse used q' Hq) as [q [Hq1 Hq2]]. exists (AR test :: q). split; [|constructor; assumption].
        apply in_map. apply in_or_app. right. assumption.
    + cbn [paths_stmt] in *. apply DP_block_pf. assumption.
    + cbn [paths_stmt] in *. apply in_map_iff in Hp. destruct Hp as [q' [<- Hq]]. apply in_app_or in Hq.
      destruct Hq as [Hq|Hq].
      * destruct (DP_brs_pf brs used q' Hq) as [q [Hq1 Hq2]]. exists (AR value :: q). split; [|constructor; assumption].
        apply in_map. apply in_or_app. left. assumption.
      * destruct hasdef.
        -- destruct (DP_block_pf default used q' Hq) as [q [Hq1 Hq2]]. exists (AR value :: q). split; [|constructor; assumption].
           apply in_map. apply in_or_app. right. assumption.
        -- destruct Hq as [<-|[]]. exists [AR value]. split; [|apply Del_refl].
           apply in_map. apply in_or_app. right. left. reflexivity.
  - destruct b as [|s r0]; unfold DP_block; intros used p' Hp; cbn [cu_block paths_block] in *.
    + destruct Hp as [<-|[]]. exists []. split; [left; reflexivity|constructor].
    + apply in_flat_map in Hp. destruct Hp as [p1' [Hp1 Hp]]. apply in_map_iff in Hp. destruct Hp as [q' [<- Hq]].
      destruct (DP_stmt_pf s used p1' Hp1) as [p1 [A1 A2]]. destruct (DP_block_pf r0 used q' Hq) as [q [B1 B2]].
      exists (p1 ++ q). split; [|apply Del_app; assumption].
      apply in_flat_map. exists p1. split; [assumption|]. apply in_map. assumption.
  - destruct b as [|cond code r0]; unfold DP_brs; intros used p' Hp; cbn [cu_brs paths_brs] in *; [contradiction|].
    apply in_app_or in Hp. destruct Hp as [Hp|Hp].
    + apply in_map_iff in Hp. destruct Hp as [q' [<- Hq]]. destruct (DP_block_pf code used q' Hq) as [q [Hq1 Hq2]].
      exists (AR cond :: q). split; [|constructor; assumption]. apply in_or_app. left. apply in_map. assumption.
    + destruct (DP_brs_pf r0 used p' Hp) as [q [Hq1 Hq2]]. exists q. split; [|assumption]. apply in_or_app. right. assumption.
Qed.

Lemma Del_ok MU used p p' : Del used p p' ->
  forall D D', ok_from MU D p = true ->
    (forall r, In r (reads_of p) -> pmem r used = true) ->
    (forall r, pmem r used = true -> pmem r D = true -> pmem r D' = true) ->
    ok_from MU D' p' = true.
Proof.
  induction 1 as [|a p p' H IH|o p p' H IH|o p p' H IH Hu]; intros D D' Hok Hrd HD.
  - reflexivity.
  - destruct a as [[r|]|[r|]]; cbn in *.
    + apply andb_true_iff in Hok. destruct Hok as [Hr Hok]. apply andb_true_iff. split.
      * apply orb_true_iff in Hr. apply orb_true_iff. destruct Hr as [Hr|Hr]; [left; assumption|right].
        apply HD; [apply Hrd; left; reflexivity|assumption].
      * eapply IH; [eassumption| |assumption]. intros x Hx. apply Hrd. right. assumption.
    + eapply IH; eassumption.
    + eapply IH; [eassumption|assumption|]. intros x Hu Hx. unfold pmem in *. cbn in *.
      apply orb_true_iff in Hx. apply orb_true_iff. destruct Hx as [Hx|Hx]; [left; assumption|right; apply HD; assumption].
    + eapply IH; eassumption.
  - destruct o as [r|]; cbn in *.
    + apply andb_true_iff in Hok. destruct Hok as [_ Hok]. eapply IH; [eassumption| |assumption].
      intros x Hx. apply Hrd. right. assumption.
    + eapply IH; eassumption.
  - destruct o as [r|]; cbn in *; [|discriminate].
    eapply IH; [eassumption|assumption|]. intros x Hx Hd. apply HD; [assumption|].
    unfold pmem in Hd. cbn in Hd. apply orb_true_iff in Hd. destruct Hd as [Hd|Hd]; [|assumption].
    apply Pos.eqb_eq in Hd. subst. apply negb_true_iff in Hu. congruence.
Qed.

Theorem cleanup_unused_preserves MU t : def_before_use MU t -> def_before_use MU (cleanup_unused t).
Proof.
  intros H p' Hp'. unfold cleanup_unused, paths in *.
  destruct (DP_block_pf t _ _ Hp') as [p [Hp HD]].
  eapply Del_ok; [eassumption|apply H; assumption| |auto].
  intros r Hr. apply pmem_In. eapply RP_block_pf; eassumption.
Qed.

(** *** cleanup_bool_cast: every path of the result is a path of the input, renamed, with the casts deleted *)
Definition sa (m : rmap) (a : acc) : acc := match a with AR o => AR (bc_obj m o) | AW o => AW (bc_obj m o) end.

Lemma bc_obj_temp m r : bc_obj m (OTemp r) = OTemp (sigma m r).
Proof. unfold bc_obj, sigma. destruct (rfind m r); reflexivity. Qed.

Lemma bc_stmt_expr m c reads result :
  bc_stmt m (SExpr c reads result) =
  match is_cast c reads result with
  | Some _ => SOther []
  | None => SExpr c (map (bc_obj m) reads) (bc_obj m result)
  end.
Proof. destruct c; [|reflexivity]. destruct reads as [|[s|] [|? ?]]; destruct result; reflexivity. Qed.

Lemma is_cast_some c reads result t s : is_cast c reads result = Some (t, s) -> reads = [OTemp s] /\ result = OTemp t.
Proof.
  destruct c; [|discriminate]. destruct reads as [|[x|] [|? ?]]; destruct result; try discriminate.
  cbn. intros [= -> ->]. auto.
Qed.

Lemma map_sa_reads m l : map (sa m) (map AR l) = map AR (map (bc_obj m) l).
Proof. rewrite !map_map. reflexivity. Qed.

Section Tr.
  Variable C : positive -> positive -> Prop.
  Variable m : rmap.

  Inductive Tr : list acc -> list acc -> Prop :=
  | Tr_nil : Tr [] []
  | Tr_keep a p p' : Tr p p' -> Tr (a :: p) (sa m a :: p')
  | Tr_cast s t p p' : C t s -> Tr p p' -> Tr (AR (OTemp s) :: AW (OTemp t) :: p) p'.

  Lemma Tr_map l : Tr l (map (sa m) l).
  Proof. induction l; cbn; constructor; assumption. Qed.

  Lemma Tr_app p p' q q' : Tr p p' -> Tr q q' -> Tr (p ++ q) (p' ++ q').
  Proof. induction 1; intros Hq; cbn; [assumption|constructor; auto|constructor; auto]. Qed.

  Definition TP_stmt (s : stmt) := (forall t s', In (t, s') (casts_stmt s) -> C t s') ->
    forall p', In p' (paths_stmt (bc_stmt m s)) -> exists p, In p (paths_stmt s) /\ Tr p p'.
  Definition TP_block (b : block) := (forall t s', In (t, s') (casts_block b) -> C t s') ->
    forall p', In p' (paths_block (bc_block m b)) -> exists p, In p (paths_block b) /\ Tr p p'.
  Definition TP_brs (b : branches) := (forall t s', In (t, s') (casts_brs b) -> C t s') ->
    forall p', In p' (paths_brs (bc_brs m b)) -> exists p, In p (paths_brs b) /\ Tr p p'.

  Fixpoint TP_stmt_pf (s : stmt) {struct s} : TP_stmt s
  with TP_block_pf (b : block) {struct b} : TP_block b
  with TP_brs_pf (b : branches) {struct b} : TP_brs b.
  Proof.
    - destruct s as [c reads result|target source|reads|test body orelse|b|value brs hasdef default];
        unfold TP_stmt; intros HC p' Hp.
      + rewrite bc_stmt_expr in Hp. cbn [casts_stmt] in HC. destruct (is_cast c reads result) as [[t s]|] eqn:E.
        * apply is_cast_some in E. destruct E as [-> ->]. cbn in Hp. destruct Hp as [<-|[]].
          eexists. split; [left; reflexivity|]. cbn. apply Tr_cast; [apply HC; left; reflexivity|constructor].
        * cbn in Hp. destruct Hp as [<-|[]]. eexists. split; [left; reflexivity|].
          rewrite <- map_sa_reads. change [AW (bc_obj m result)] with (map (sa m) [AW result]).
          rewrite <- map_app. apply Tr_map.
      + cbn in Hp. destruct Hp as [<-|[]]. eexists. split; [left; reflexivity|].
        rewrite <- map_sa_reads. change [AW (bc_obj m target)] with (map (sa m) [AW target]).
        rewrite <- map_app. apply Tr_map.
      + cbn in Hp. destruct Hp as [<-|[]]. eexists. split; [left; reflexivity|].
        rewrite <- map_sa_reads. apply Tr_map.
      + cbn [bc_stmt paths_stmt casts_stmt] in *. apply in_map_iff in Hp. destruct Hp as [q' [<- Hq]].
        apply in_app_or in Hq. destruct Hq as [Hq|Hq].
        * destruct (TP_block_pf body (fun t s' H => HC t s' (in_or_app _ _ _ (or_introl H))) q' Hq) as [q [Hq1 Hq2]].
          exists (AR test :: q). split; [|exact (Tr_keep (AR test) _ _ Hq2)].
          apply in_map. apply in_or_app. left. assumption.
        * destruct (TP_block_pf orelse (fun t s' H => HC t s' (in_or_app _ _ _ (or_intror H))) q' Hq) as [q [Hq1 Hq2]].
          exists (AR test :: q). split; [|exact (Tr_keep (AR test) _ _ Hq2)].
          apply in_map. apply in_or_app. right. assumption.
      + cbn [bc_stmt paths_stmt casts_stmt] in *. apply TP_block_pf; assumption.
      + cbn [bc_stmt paths_stmt casts_stmt] in *. apply in_map_iff in Hp. destruct Hp as [q' [<- Hq]].
        apply in_app_or in Hq. destruct Hq as [Hq|Hq].
        * destruct (TP_brs_pf brs (fun t s' H => HC t s' (in_or_app _ _ _ (or_introl H))) q' Hq) as [q [Hq1 Hq2]].
          exists (AR value :: q). split; [|exact (Tr_keep (AR value) _ _ Hq2)].
          apply in_map. apply in_or_app. left. assumption.
        * destruct hasdef.
          -- destruct (TP_block_pf default (fun t s' H => HC t s' (in_or_app _ _ _ (or_intror H))) q' Hq) as [q [Hq1 Hq2]].
             exists (AR value :: q). split; [|exact (Tr_keep (AR value) _ _ Hq2)].
             apply in_map. apply in_or_app. right. assumption.
          -- destruct Hq as [<-|[]]. exists [AR value]. split; [|exact (Tr_keep (AR value) _ _ Tr_nil)].
             apply in_map. apply in_or_app. right. left. reflexivity.
    - destruct b as [|s r0]; unfold TP_block; intros HC p' Hp; cbn [bc_block paths_block casts_block] in *.
      + destruct Hp as [<-|[]]. exists []. split; [left; reflexivity|constructor].
      + apply in_flat_map in Hp. destruct Hp as [p1' [Hp1 Hp]]. apply in_map_iff in Hp. destruct Hp as [q' [<- Hq]].
        destruct (TP_stmt_pf s (fun t s' H => HC t s' (in_or_app _ _ _ (or_introl H))) p1' Hp1) as [p1 [A1 A2]].
        destruct (TP_block_pf r0 (fun t s' H => HC t s' (in_or_app _ _ _ (or_intror H))) q' Hq) as [q [B1 B2]].
        exists (p1 ++ q). split; [|apply Tr_app; assumption].
        apply in_flat_map. exists p1. split; [assumption|]. apply in_map. assumption.
    - destruct b as [|cond code r0]; unfold TP_brs; intros HC p' Hp; cbn [bc_brs paths_brs casts_brs] in *; [contradiction|].
      apply in_app_or in Hp. destruct Hp as [Hp|Hp].
      + apply in_map_iff in Hp. destruct Hp as [q' [<- Hq]].
        destruct (TP_block_pf code (fun t s' H => HC t s' (in_or_app _ _ _ (or_introl H))) q' Hq) as [q [Hq1 Hq2]].
        exists (AR cond :: q). split; [|exact (Tr_keep (AR cond) _ _ Hq2)]. apply in_or_app. left. apply in_map. assumption.
      + destruct (TP_brs_pf r0 (fun t s' H => HC t s' (in_or_app _ _ _ (or_intror H))) p' Hp) as [q [Hq1 Hq2]].
        exists q. split; [|assumption]. apply in_or_app. right. assumption.
  Qed.

  Lemma Tr_ok MU p p' : Tr p p' ->
    (forall t s, C t s -> sigma m t = sigma m s) ->
    (forall x, pmem x MU = true -> pmem (sigma m x) MU = true) ->
    forall D D', ok_from MU D p = true ->
      (forall x, pmem x D = true -> pmem (sigma m x) D' = true \/ pmem (sigma m x) MU = true) ->
      ok_from MU D' p' = true.
  Proof.
    intros H HC HM. induction H as [|a p p' H IH|s t p p' Hc H IH]; intros D D' Hok HR.
    - reflexivity.
    - destruct a as [[x|]|[x|]]; cbn [sa]; rewrite ?bc_obj_temp; cbn [bc_obj ok_from] in *.
      + apply andb_true_iff in Hok. destruct Hok as [Hx Hok]. apply andb_true_iff. split; [|eapply IH; eassumption].
        apply orb_true_iff in Hx. apply orb_true_iff. destruct Hx as [Hx|Hx]; [left; auto|].
        destruct (HR x Hx); [right|left]; assumption.
      + eapply IH; eassumption.
      + eapply IH; [eassumption|]. intros y Hy. unfold pmem in Hy. cbn in Hy. apply orb_true_iff in Hy.
        destruct Hy as [Hy|Hy].
        * apply Pos.eqb_eq in Hy. subst. left. unfold pmem. cbn. rewrite Pos.eqb_refl. reflexivity.
        * destruct (HR y Hy) as [G|G]; [left|right; assumption]. unfold pmem in *. cbn. rewrite G. apply orb_true_r.
      + eapply IH; eassumption.
    - cbn [ok_from] in Hok. apply andb_true_iff in Hok. destruct Hok as [Hs Hok].
      eapply IH; [eassumption|]. intros y Hy. unfold pmem in Hy. cbn in Hy. apply orb_true_iff in Hy.
      destruct Hy as [Hy|Hy]; [|apply HR; assumption].
      apply Pos.eqb_eq in Hy. subst. rewrite (HC _ _ Hc).
      apply orb_true_iff in Hs. destruct Hs as [Hs|Hs]; [right; auto|apply HR; assumption].
  Qed.
End Tr.

Theorem cleanup_bool_cast_preserves MU t :
  def_before_use MU t -> bc_consistent t = true -> mu_closed MU t = true ->
  def_before_use MU (cleanup_bool_cast t).
Proof.
  intros H Hc Hm p' Hp'. unfold cleanup_bool_cast, cleanup_bool_cast_gen, paths in *.
  set (m := bc_collect_block true t []) in *.
  set (C := fun t0 s0 : positive => In (t0, s0) (casts_block t)).
  destruct (TP_block_pf C m t (fun t0 s0 H0 => H0) p' Hp') as [p [Hp HT]].
  eapply (Tr_ok C m MU p p' HT).
  - intros t0 s0 H0. unfold bc_consistent, bc_consistent_gen in Hc. fold m in Hc. rewrite forallb_forall in Hc.
    specialize (Hc _ H0). apply Pos.eqb_eq in Hc. exact Hc.
  - intros x Hx. unfold mu_closed in Hm. fold m in Hm. rewrite forallb_forall in Hm. apply Hm. apply pmem_In. assumption.
  - apply H. assumption.
  - intros x Hx. discriminate.
Qed.

(** the whole cleanup of [ConvertInstance.apply] (unused-temporary removal, then the bool-cast pass of the
    current tree) keeps definition-before-use on every path, provided no remaining read refers to a removed
    write ([bc_consistent]) and maybe-uninitialized temporaries are only replaced among themselves *)
Theorem cleanup_preserves MU t :
  def_before_use MU t ->
  bc_consistent (cleanup_unused t) = true -> mu_closed MU (cleanup_unused t) = true ->
  def_before_use MU (cleanup t).
Proof.
  intros H Hc Hm. unfold cleanup. apply cleanup_bool_cast_preserves; [|assumption|assumption].
  apply cleanup_unused_preserves. assumption.
Qed.

Example cleanup_preserves_nonvacuous :
  def_before_use_b [] boolcast_witness = true /\
  bc_consistent (cleanup_unused boolcast_witness) = true /\ mu_closed [] (cleanup_unused boolcast_witness) = true /\
  temp_lin (cleanup boolcast_witness) = [AW (OTemp 1); AR (OTemp 1)] /\
  bc_consistent_gen false (cleanup_unused boolcast_witness) = false.
Proof. vm_compute. repeat split. Qed.
