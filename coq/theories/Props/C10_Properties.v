(** C10 - property theorems (statements only; proofs live in Models/BindProofs.v)

    The compile-time Python subset evaluates exactly like CPython.
    Proved here: argument binding (all signatures x all call shapes), the object of
    zero-argument super(), binary-operator / comparison dispatch over an abstract class
    table, and/or/not.  Everything else of the property (closures, classes, comprehensions,
    unpacking, ...) has no Gallina model and is differential testing in harness/c10.py. *)
From Coq Require Import NArith List Bool.
From Cohdl Require Import Models.Bind Models.BindProofs.
Import ListNotations.
Local Open Scope N_scope.

(** ** argument binding *)

(** PARTIAL: the unguarded statement [forall s c, wf_sig s -> tracer_bind s c = cpython_bind s c]
    is false (C10_bind_refuted).  Missing: the case of a keyword that occurs twice in the
    flattened call (`f(a=1, **{'a': 2})`): CPython raises TypeError, the ast.Call handler of the
    tracer overwrites the dict entry.  With pairwise distinct keywords the tracer's binding
    (ast.Call dict construction + FunctionDefinition.bind_args as coded) equals the binding
    rule of the language reference for every signature and every call: same bound objects,
    same rejections. *)
Theorem C10_bind_agrees_partial :
  forall s c, wf_sig s -> NoDup (map fst (c_kws c)) -> tracer_bind s c = cpython_bind s c.
Proof. exact bind_agrees. Qed.
Print Assumptions C10_bind_agrees_partial.

Example C10_bind_agrees_nonvacuous :
  wf_sig sig_j /\ NoDup (map fst (c_kws call_j)) /\
  tracer_bind sig_j call_j = Some [(0, BVal 10); (2, BVal 13); (1, BTuple [11; 12]); (3, BDict [(0, 14)])].
Proof. exact bind_agrees_nonvacuous. Qed.
Print Assumptions C10_bind_agrees_nonvacuous.

(** the exact behaviour without the guard: the tracer binds what CPython binds for the call
    whose repeated keywords are collapsed (last value wins) - CPython itself rejects that call *)
Theorem C10_bind_characterised :
  forall s c, wf_sig s -> tracer_bind s c = cpython_bind s (mkCall (c_pos c) (merge_kw (c_kws c))).
Proof. exact bind_characterised. Qed.
Print Assumptions C10_bind_characterised.

Theorem C10_bind_rejects_repeated_keyword :
  forall s c, has_dup (map fst (c_kws c)) = true -> cpython_bind s c = None.
Proof. exact cpython_rejects_dup. Qed.
Print Assumptions C10_bind_rejects_repeated_keyword.

(** `def f(p0, p1=71)`, `f( **{'p0': 40}, **{'p0': 41})` *)
Theorem C10_bind_refuted :
  exists s c, wf_sig s /\ cpython_bind s c = None /\ tracer_bind s c = Some [(0, BVal 41); (1, BVal 71)].
Proof. exact bind_refuted. Qed.
Print Assumptions C10_bind_refuted.

(** ** the object used by zero-argument super() *)

(** PARTIAL: guard = the function has a positional parameter.  Without one CPython raises
    RuntimeError("super(): no arguments"); bind_args hands the `*args` tuple / the first
    keyword-only value / the `**kw` dict to super() (C10_super_arg_refuted). *)
Theorem C10_super_arg_agrees_partial :
  forall s b, s_posonly s ++ s_args s <> [] -> tracer_super_arg s b = cpython_super_arg s b.
Proof. exact super_arg_agrees. Qed.
Print Assumptions C10_super_arg_agrees_partial.

Example C10_super_arg_nonvacuous :
  exists s c b, s_posonly s ++ s_args s <> [] /\ tracer_bind s c = Some b /\ tracer_super_arg s b = Some (BVal 999).
Proof. exact super_arg_nonvacuous. Qed.
Print Assumptions C10_super_arg_nonvacuous.

Theorem C10_super_arg_refuted :
  exists s c b, wf_sig s /\ tracer_bind s c = Some b /\
                tracer_super_arg s b = Some (BTuple [999]) /\ cpython_super_arg s b = None.
Proof. exact super_arg_refuted. Qed.
Print Assumptions C10_super_arg_refuted.

(** ** binary operator dispatch *)

(** PARTIAL: guards = operands of different classes, and CPython's subclass-priority rule
    does not apply (rhs class a proper subclass of the lhs class that overrides the reflected
    method).  The tracer has no such rule (C10_dispatch_refuted); for operands of the same
    class it tries the reflected method where CPython does not (C10_dispatch_same_type_refuted). *)
Theorem C10_dispatch_agrees_partial :
  forall T l r op rop, l <> r -> binop_priority T l r rop = false ->
    tracer_binop T l r op rop = cpython_binop T l r op rop.
Proof. exact dispatch_agrees. Qed.
Print Assumptions C10_dispatch_agrees_partial.

Example C10_dispatch_agrees_nonvacuous :
  exists T l r op rop, l <> r /\ binop_priority T l r rop = false /\ tracer_binop T l r op rop = DCall 1 1.
Proof. exact dispatch_agrees_nonvacuous. Qed.
Print Assumptions C10_dispatch_agrees_nonvacuous.

Theorem C10_dispatch_same_type_partial :
  forall T l op rop, try_call (lookup T l op) op l <> None ->
    tracer_binop T l l op rop = cpython_binop T l l op rop.
Proof. exact dispatch_same_type. Qed.
Print Assumptions C10_dispatch_same_type_partial.

(** class C0: __add__;  class C1(C0): __radd__;  C0() + C1() - two different VALUES *)
Theorem C10_dispatch_refuted :
  exists T l r op rop, l <> r /\
    tracer_binop T l r op rop = DCall 0 0 /\ cpython_binop T l r op rop = DCall 1 1.
Proof. exact dispatch_refuted. Qed.
Print Assumptions C10_dispatch_refuted.

(** class C0: __radd__ only;  C0() + C0() - CPython TypeError, the tracer produces a value *)
Theorem C10_dispatch_same_type_refuted :
  exists T l op rop, tracer_binop T l l op rop = DCall 0 1 /\ cpython_binop T l l op rop = DReject.
Proof. exact dispatch_same_type_refuted. Qed.
Print Assumptions C10_dispatch_same_type_refuted.

(** PARTIAL: comparisons; guard = rhs class not a proper subclass of the lhs class.  Then the
    tracer either rejects or yields CPython's result (it rejects e.g. where CPython falls back to
    identity for ==, or where the lhs class inherits the ordering method from object). *)
Theorem C10_compare_agrees_partial :
  forall T l r op rop is_eq, proper_subclass T r l = false ->
    tracer_compare T l r op rop is_eq = DReject \/
    tracer_compare T l r op rop is_eq = cpython_compare T l r op rop is_eq.
Proof. exact compare_agrees. Qed.
Print Assumptions C10_compare_agrees_partial.

Example C10_compare_agrees_nonvacuous :
  exists T l r op rop, proper_subclass T r l = false /\ tracer_compare T l r op rop false = DCall 1 5.
Proof. exact compare_agrees_nonvacuous. Qed.
Print Assumptions C10_compare_agrees_nonvacuous.

Theorem C10_compare_refuted :
  exists T l r op rop,
    tracer_compare T l r op rop false = DCall 0 4 /\ cpython_compare T l r op rop false = DCall 1 5.
Proof. exact compare_refuted. Qed.
Print Assumptions C10_compare_refuted.

(** ** and / or / not yield the truth value of CPython's result *)
Theorem C10_boolop_truth_value :
  (forall r x, tracer_and x r = pv_truth (cpython_and x r)) /\
  (forall r x, tracer_or x r = pv_truth (cpython_or x r)) /\
  (forall x, tracer_not x = negb (pv_truth x)).
Proof. exact boolop_truth_value. Qed.
Print Assumptions C10_boolop_truth_value.

Example C10_boolop_nonvacuous :
  cpython_and (mkPv 1 true) [mkPv 2 false; mkPv 3 true] = mkPv 2 false /\
  tracer_and (mkPv 1 true) [mkPv 2 false; mkPv 3 true] = false /\
  cpython_or (mkPv 1 false) [mkPv 2 true] = mkPv 2 true /\ tracer_or (mkPv 1 false) [mkPv 2 true] = true.
Proof. exact boolop_nonvacuous. Qed.
Print Assumptions C10_boolop_nonvacuous.
