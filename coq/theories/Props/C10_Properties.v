(** C10 - property theorems (statements only; proofs live in Models/BindProofs.v)

    The compile-time Python subset evaluates exactly like CPython.
    Proved here, for the models of the code as patched by the fix commits bf02a0d (repeated
    keyword) and b791a08 (operator dispatch): argument binding (all signatures x all call
    shapes), binary-operator / comparison dispatch over an abstract class table, and/or/not,
    and the object of zero-argument super().  Everything else of the property (closures,
    classes, comprehensions, unpacking, ...) has no Gallina model and is differential testing
    in harness/c10.py. *)
From Coq Require Import NArith List Bool.
From Cohdl Require Import Models.Bind Models.BindProofs.
Import ListNotations.
Local Open Scope N_scope.

(** ** argument binding *)

(** The tracer's binding (ast.Call dict construction with its repeated-keyword assertion +
    FunctionDefinition.bind_args as coded) equals the binding rule of the language reference
    for every signature and every call: same bound objects, same rejections. *)
Theorem C10_bind_agrees :
  forall s c, wf_sig s -> tracer_bind s c = cpython_bind s c.
Proof. exact bind_agrees. Qed.
Print Assumptions C10_bind_agrees.

(** non-vacuity: upstream fn_j(a=6.321, /, *b, c=None, **d) called fn_j(10, 11, 12, c=13, a=14) *)
Example C10_bind_agrees_nonvacuous :
  wf_sig sig_j /\
  tracer_bind sig_j call_j = Some [(0, BVal 10); (2, BVal 13); (1, BTuple [11; 12]); (3, BDict [(0, 14)])].
Proof. exact bind_agrees_nonvacuous. Qed.
Print Assumptions C10_bind_agrees_nonvacuous.

(** the half "calls that CPython rejects for argument-binding reasons are rejected too", repeated keyword *)
Theorem C10_bind_rejects_repeated_keyword :
  forall s c, has_dup (map fst (c_kws c)) = true -> cpython_bind s c = None.
Proof. exact cpython_rejects_dup. Qed.
Print Assumptions C10_bind_rejects_repeated_keyword.

(** regression of the defect fixed by bf02a0d: `def f(p0, p1=71)`, `f( **{'p0': 40}, **{'p0': 41})` *)
Example C10_bind_repeated_keyword_regression :
  tracer_bind sig_dup call_dup = None /\ cpython_bind sig_dup call_dup = None.
Proof. exact bind_repeated_keyword_rejected. Qed.
Print Assumptions C10_bind_repeated_keyword_regression.

(** ** the object used by zero-argument super() *)

(** PARTIAL: guard = the function has a positional parameter.  Without one bind_args hands the
    `*args` tuple / the first keyword-only value / the `**kw` dict to super() where CPython raises
    RuntimeError("super(): no arguments") (C10_super_arg_refuted).  Replayed on the real code:
    `super(cls, <tuple>)` then raises TypeError, i.e. both sides reject the program - a departure
    of the model-level value only, NOT a violation of C10. *)
Theorem C10_super_arg_agrees_partial :
  forall s b, s_posonly s ++ s_args s <> [] -> tracer_super_arg s b = cpython_super_arg s b.
Proof. exact super_arg_agrees. Qed.
Print Assumptions C10_super_arg_agrees_partial.

Example C10_super_arg_nonvacuous :
  exists s c b, s_posonly s ++ s_args s <> [] /\ tracer_bind s c = Some b /\ tracer_super_arg s b = Some (BVal 999).
Proof. exact super_arg_nonvacuous. Qed.
Print Assumptions C10_super_arg_nonvacuous.

Theorem C10_super_arg_refuted :
  exists s c b, wf_sig s /\ tracer_bind s c = Some b /\
                tracer_super_arg s b = Some (BTuple [999]) /\ cpython_super_arg s b = None.
Proof. exact super_arg_refuted. Qed.
Print Assumptions C10_super_arg_refuted.

(** ** binary operator dispatch *)

(** The tracer's `overloaded_operator` selects the same method implementation as CPython (or
    rejects exactly when CPython raises TypeError) for all class tables and all operand classes:
    subclass priority of the reflected method and the same-type rule included. *)
Theorem C10_dispatch_agrees :
  forall T l r op rop, tracer_binop T l r op rop = cpython_binop T l r op rop.
Proof. exact dispatch_agrees. Qed.
Print Assumptions C10_dispatch_agrees.

(** regressions of the defects fixed by b791a08 (and non-vacuity: three different rules fire) *)
Example C10_dispatch_subclass_priority_regression :
  tracer_binop T_prio 0 1 0 1 = DCall 1 1 /\ cpython_binop T_prio 0 1 0 1 = DCall 1 1.
Proof. exact dispatch_subclass_priority. Qed.
Print Assumptions C10_dispatch_subclass_priority_regression.

Example C10_dispatch_same_type_regression :
  tracer_binop [mkC None [mkM 1 []]] 0 0 0 1 = DReject /\ cpython_binop [mkC None [mkM 1 []]] 0 0 0 1 = DReject.
Proof. exact dispatch_same_type_no_reflected. Qed.
Print Assumptions C10_dispatch_same_type_regression.

Example C10_dispatch_reflected_fallback :
  tracer_binop [mkC None [mkM 0 [1]]; mkC None [mkM 1 []]] 0 1 0 1 = DCall 1 1.
Proof. exact dispatch_reflected_fallback. Qed.
Print Assumptions C10_dispatch_reflected_fallback.

(** comparisons: for all class tables and operands the tracer yields CPython's result or rejects
    (the shape the property demands).  It rejects where CPython falls back to identity for ==,
    and where a consulted class inherits the ordering method from object (over-rejections). *)
Theorem C10_compare_agrees :
  forall T l r op rop is_eq,
    tracer_compare T l r op rop is_eq = DReject \/
    tracer_compare T l r op rop is_eq = cpython_compare T l r op rop is_eq.
Proof. exact compare_agrees. Qed.
Print Assumptions C10_compare_agrees.

(** equivalently: whenever the tracer produces a value, it is CPython's value *)
Theorem C10_compare_value_is_cpython :
  forall T l r op rop is_eq x,
    tracer_compare T l r op rop is_eq = x -> x <> DReject -> cpython_compare T l r op rop is_eq = x.
Proof. exact compare_agrees_value. Qed.
Print Assumptions C10_compare_value_is_cpython.

Example C10_compare_subclass_priority_regression :
  tracer_compare [mkC None [mkM 4 []]; mkC (Some 0) [mkM 5 []]] 0 1 4 5 false = DCall 1 5 /\
  cpython_compare [mkC None [mkM 4 []]; mkC (Some 0) [mkM 5 []]] 0 1 4 5 false = DCall 1 5.
Proof. exact compare_subclass_priority. Qed.
Print Assumptions C10_compare_subclass_priority_regression.

Example C10_compare_reflected_fallback :
  tracer_compare [mkC None [mkM 4 [1]]; mkC None [mkM 5 []]] 0 1 4 5 false = DCall 1 5.
Proof. exact compare_reflected_fallback. Qed.
Print Assumptions C10_compare_reflected_fallback.

(** ** and / or / not yield the truth value of CPython's result *)
Theorem C10_boolop_truth_value :
  (forall r x, tracer_and x r = pv_truth (cpython_and x r)) /\
  (forall r x, tracer_or x r = pv_truth (cpython_or x r)) /\
  (forall x, tracer_not x = negb (pv_truth x)).
Proof. exact boolop_truth_value. Qed.
Print Assumptions C10_boolop_truth_value.

Example C10_boolop_nonvacuous :
  cpython_and (mkPv 1 true) [mkPv 2 false; mkPv 3 true] = mkPv 2 false /\
  tracer_and (mkPv 1 true) [mkPv 2 false; mkPv 3 true] = false /\
  cpython_or (mkPv 1 false) [mkPv 2 true] = mkPv 2 true /\ tracer_or (mkPv 1 false) [mkPv 2 true] = true.
Proof. exact boolop_nonvacuous. Qed.
Print Assumptions C10_boolop_nonvacuous.
