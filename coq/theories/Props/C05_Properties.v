(** * C05 — type conversions on assignment preserve the value or are rejected *)
From Coq Require Import ZArith NArith List Bool Lia.
From Cohdl Require Import Base.Bits Vhdl.Value Vhdl.NumStd Models.Conv Models.ConvProofs.
Import ListNotations.
Local Open Scope Z_scope.

(** The full statement [forall form src tgt, assign_ok form src tgt = doc_ok src tgt] is FALSE of the code as
    modelled.  Proved: equality outside the exact guard [departs] (all widths, all forms; [applies] says that the
    form exists for the pair).  Missing: the pairs inside the guard, refuted below. *)
Theorem C05_matrix_partial : forall f src tgt,
  applies f src tgt = true -> departs f src tgt = false -> assign_ok f src tgt = doc_ok src tgt.
Proof. exact matrix_partial. Qed.
Print Assumptions C05_matrix_partial.

Theorem C05_matrix_refuted_integer_truncated :
  assign_ok FNextOp CInteger (CU 3) = true /\ doc_ok CInteger (CU 3) = false /\
  ceval (cast_emit (CU 3) (CU 3) CInteger) (VI 9) = Ok (VV KUns 3 1) /\
  ceval (cast_emit (CU 3) (CU 3) CInteger) (VI (-1)) = Err ERange.
Proof. exact refuted_integer_truncated. Qed.
Print Assumptions C05_matrix_refuted_integer_truncated.

Theorem C05_matrix_refuted_decl_reinterprets :
  assign_ok FDeclSig (CS 4) (CU 4) = true /\ doc_ok (CS 4) (CU 4) = false /\
  ceval (cast_emit (CU 4) (CU 4) (CS 4)) (VV KSgn 4 15) = Ok (VV KUns 4 15) /\ num (CS 4) 15 = -1 /\
  assign_ok FDeclVar (CU 4) (CS 4) = true /\ doc_ok (CU 4) (CS 4) = false.
Proof. exact refuted_decl_reinterprets. Qed.
Print Assumptions C05_matrix_refuted_decl_reinterprets.

(** sub-entity port connections (tree as patched by efe8b9f): whatever is accepted connects identical types, so no
    conversion is needed in the port map; documented widenings are over-rejected *)
Theorem C05_port_forms_sound : forall f src tgt,
  (f = FPortIn \/ f = FPortOut) -> assign_ok f src tgt = true -> src = tgt.
Proof. exact port_forms_sound. Qed.
Print Assumptions C05_port_forms_sound.

Theorem C05_port_forms_patched :
  assign_ok FPortOut (CU 8) (CU 4) = false /\ assign_ok FPortIn CInteger CBit = false /\
  assign_ok FPortOut (CU 4) (CU 8) = false /\ assign_ok FPortIn (CU 2) (CU 3) = false /\ doc_ok (CU 2) (CU 3) = true /\
  assign_ok FPortIn (CU 3) (CU 3) = true /\ assign_ok FPortOut (CS 3) (CS 3) = true.
Proof. exact port_forms_patched. Qed.
Print Assumptions C05_port_forms_patched.

Theorem C05_matrix_refuted_truthiness :
  assign_ok FNextOp (CU 4) CBool = true /\ doc_ok (CU 4) CBool = false /\
  assign_ok FDeclStatic (CIntLit 5) CBool = true /\ doc_ok (CIntLit 5) CBool = false.
Proof. exact refuted_truthiness. Qed.
Print Assumptions C05_matrix_refuted_truthiness.

Theorem C05_matrix_over_rejected :
  assign_ok FIfB (CU 2) CInteger = false /\ assign_ok FIfA (CU 2) CInteger = true /\ doc_ok (CU 2) CInteger = true /\
  assign_ok (FSlice KS) CNull (CU 2) = false /\ doc_ok CNull (CU 2) = true /\
  assign_ok FPortIn CNull (CU 2) = false /\ assign_ok FPortOut (CU 2) (CU 3) = false.
Proof. exact over_rejected. Qed.
Print Assumptions C05_matrix_over_rejected.

(** every documented conversion, whatever VHDL object holds the target (root of kind k), emits a cast that computes
    the documented value — for all widths and all source values *)
Theorem C05_value_documented : forall src tgt k v,
  wfw src -> wfw tgt -> doc_ok src tgt = true -> view_ok src tgt k = true -> in_range src v ->
  ceval (cast_emit (retag k tgt) tgt src) (enc src v) = Ok (enc (retag k tgt) (conv_val src tgt v)).
Proof. exact doc_value. Qed.
Print Assumptions C05_value_documented.

(** [C05_value] for the code as coded holds outside the guard only (inside: C05_matrix_refuted_integer_truncated) *)
Theorem C05_value_partial : forall f src tgt v,
  cast_form f = true -> applies f src tgt = true -> departs f src tgt = false -> assign_ok f src tgt = true ->
  wfw src -> wfw tgt -> in_range src v ->
  ceval (cast_emit (root_kind f tgt) tgt src) (enc src v) = Ok (enc (root_kind f tgt) (conv_val src tgt v)).
Proof. exact value_ok. Qed.
Print Assumptions C05_value_partial.

Theorem C05_no_truncation_documented : forall src tgt v,
  wfw src -> wfw tgt -> doc_ok src tgt = true -> in_range src v ->
  bit_copy src tgt = true \/ (representable tgt (num src v) /\ num tgt (conv_val src tgt v) = num src v).
Proof. exact doc_no_trunc. Qed.
Print Assumptions C05_no_truncation_documented.

Theorem C05_no_truncation_partial : forall f src tgt v,
  applies f src tgt = true -> departs f src tgt = false -> assign_ok f src tgt = true ->
  wfw src -> wfw tgt -> in_range src v ->
  bit_copy src tgt = true \/ (representable tgt (num src v) /\ num tgt (conv_val src tgt v) = num src v).
Proof. exact no_truncation. Qed.
Print Assumptions C05_no_truncation_partial.

(** the merge type of two branches is a type both convert to — outside [dep_join] (a run-time Integer option
    is absorbed by a vector type, literals by bool); refuted inside *)
Theorem C05_join_sound_partial : forall a b r,
  join a b = Some r -> dep_join a r = false -> dep_join b r = false -> doc_ok a r = true /\ doc_ok b r = true.
Proof. exact join_sound. Qed.
Print Assumptions C05_join_sound_partial.

Theorem C05_join_sound_refuted :
  join (CU 2) CInteger = Some (CU 2) /\ doc_ok CInteger (CU 2) = false /\ join CInteger (CU 2) = None.
Proof. exact refuted_join. Qed.
Print Assumptions C05_join_sound_refuted.

Theorem C05_join_width_quirk : forall n m, n <> m -> join (CU n) (CU m) = None /\ join (CS n) (CS m) = None.
Proof. exact join_width_quirk. Qed.
Print Assumptions C05_join_width_quirk.

(** non-vacuity *)
Theorem C05_example_hypotheses : applies (FSlice KU) (CU 2) (CS 3) = true /\ departs (FSlice KU) (CU 2) (CS 3) = false /\
  assign_ok (FSlice KU) (CU 2) (CS 3) = true /\ wfw (CU 2) /\ wfw (CS 3) /\ in_range (CU 2) 3.
Proof. exact ex_applies. Qed.
Print Assumptions C05_example_hypotheses.

Theorem C05_example_sign_extend :
  ceval (cast_emit (CS 4) (CS 4) (CS 2)) (enc (CS 2) 3) = Ok (VV KSgn 4 15) /\ conv_val (CS 2) (CS 4) 3 = 15 /\
  num (CS 2) 3 = -1 /\ num (CS 4) 15 = -1.
Proof. exact ex_sign_extend. Qed.
Print Assumptions C05_example_sign_extend.

Theorem C05_example_join : join (CBV 4) (CS 4) = Some (CBV 4) /\ dep_join (CBV 4) (CBV 4) = false /\
  dep_join (CS 4) (CBV 4) = false /\ join CBool CBit = Some CBit.
Proof. exact ex_join. Qed.
Print Assumptions C05_example_join.

(** Null / Full are never joined with the other option of a merge: each option is converted to the assignment target
    on its own, so Full is filled at the TARGET width (all widths) *)
Theorem C05_merge3_null_full : forall a o tgt,
  o = CNull \/ o = CFull ->
  join a o = None /\ join o a = None /\
  merge_ok a o tgt = redirect_ok a tgt && redirect_ok o tgt /\
  merge_ok o a tgt = redirect_ok o tgt && redirect_ok a tgt.
Proof. exact merge3_null_full. Qed.
Print Assumptions C05_merge3_null_full.

Theorem C05_full_at_target_width : forall k m,
  let tgt := mkvec k m in
  ceval (cast_emit tgt tgt CFull) (VI 0) = Ok (enc tgt (ones m)) /\
  ceval (cast_emit tgt tgt CNull) (VI 0) = Ok (enc tgt 0).
Proof. exact full_at_target_width. Qed.
Print Assumptions C05_full_at_target_width.

(** merges whose other option is Null, Full or a narrower run-time value: bounded (widths 1..4, 8 = the universe the
    harness generates; checked exhaustively by vm_compute, not proved for all widths): whatever is accepted converts
    both options by documented conversions, directly or through the type of one of them, outside [m3_dep] *)
Theorem C05_merge3_sound_bounded : forall a o tgt,
  In tgt (filter is_target m3_sources) -> In a m3_sources -> In o (m3_others tgt) ->
  m3_dep a tgt = false -> m3_dep o tgt = false ->
  merge_ok a o tgt = true \/ merge_ok o a tgt = true -> m3_doc a o tgt = true.
Proof. exact merge3_sound_use. Qed.
Print Assumptions C05_merge3_sound_bounded.

Theorem C05_example_merge3 :
  merge_ok (CU 2) CFull (CS 3) = true /\ merge_ok CFull (CU 2) (CU 3) = true /\ merge_ok (CU 2) (CU 2) (CU 3) = true /\
  merge_ok (CS 2) (CU 2) (CS 3) = true /\ merge_ok (CS 2) (CU 2) (CU 3) = false /\
  assign_ok (FView KU) (CS 2) (CS 3) = true /\
  ceval (cast_emit (CU 3) (CS 3) (CS 2)) (enc (CS 2) 3) = Ok (VV KUns 3 7).
Proof. exact ex_merge3. Qed.
Print Assumptions C05_example_merge3.
