From Coq Require Import List Bool Arith.
Import ListNotations.
From Cohdl Require Import Models.Hist Models.HistProofs.
