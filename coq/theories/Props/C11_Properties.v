(** C11 - compilation is a pure function of the design, independent of history.

    Model: Models/Hist.v.  [compile] is the CURRENT tree: the exits repaired by the fix: commits 73c9e08 72ebcaa
    215d68c 5bdcba1 36732b7 restore their state; IrGenerator.returned_blocks and ir.Statement._current_frame still
    leak on a rejection inside IR generation.  [compile_coded] is the tree before those commits (regressions),
    [compile_fixed] a tree that restores the two scratch variables too.  The model is tied to /repo by harness/c11.py
    (histories run in one interpreter, every global read back and compared inside Coq). *)
From Coq Require Import List Bool Arith.
Import ListNotations.
From Cohdl Require Import Models.Hist Models.HistProofs.

(** ** the current tree: all histories, all designs of the model *)

Theorem C11_history_independent :
  forall h d, outcome_of compile d (run compile h) = outcome_of compile d init.
Proof. exact history_independent. Qed.
Print Assumptions C11_history_independent.

(** every outcome-relevant variable is back at its import-time value after any history
    ([rclean]: all of [gstate] except the prefix table (not attached to a live object), the caches, and the two
    variables of [C11_scratch_transparent]) *)
Theorem C11_relevant_clean_invariant : forall h, rclean (run compile h).
Proof. exact relevant_clean_invariant. Qed.
Print Assumptions C11_relevant_clean_invariant.

(** one step from ANY relevant-clean state (hypothesis satisfiable: [C11_relevant_clean_nonvacuous]) *)
Theorem C11_relevant_clean_step :
  forall d g, rclean g -> rclean (fst (compile d g)) /\ outcome_of compile d g = outcome_of compile d init.
Proof. exact relevant_clean_step. Qed.
Print Assumptions C11_relevant_clean_step.

Example C11_relevant_clean_nonvacuous :
  rclean init /\ rclean (run compile [W_sm; W_width; W_inwith; W_clk; W_arch])
  /\ run compile [W_sm; W_width; W_inwith; W_clk; W_arch] <> init.
Proof. repeat split; try (vm_compute; reflexivity). vm_compute. discriminate. Qed.
Print Assumptions C11_relevant_clean_nonvacuous.

(** the FULL-state invariant is false of the current tree: the witness leaves returned_blocks and _current_frame
    rebound (and nothing else) *)
Theorem C11_clean_invariant_refuted :
  exists h, cleanb (run compile h) = false /\ rcleanb (run compile h) = true
            /\ g_rb (run compile h) = true /\ g_fr (run compile h) = true.
Proof. exact clean_invariant_refuted. Qed.
Print Assumptions C11_clean_invariant_refuted.

(** ... and harmless: those two variables never change an outcome nor any other variable, whatever their value
    (any discipline) - every compilation writes them before it reads them *)
Theorem C11_scratch_transparent :
  forall fx fi d g rb fr,
    snd (compile_gen fx fi d (set_fr fr (set_rb rb g))) = snd (compile_gen fx fi d g)
    /\ erase (fst (compile_gen fx fi d (set_fr fr (set_rb rb g)))) = erase (fst (compile_gen fx fi d g)).
Proof. exact scratch_transparent. Qed.
Print Assumptions C11_scratch_transparent.

(** type caches / known-definition caches never change an outcome, and the rest of the state does not depend on them *)
Theorem C11_caches_transparent :
  forall fx fi d g c,
    snd (compile_gen fx fi d (set_cache c g)) = snd (compile_gen fx fi d g)
    /\ set_cache 0 (fst (compile_gen fx fi d (set_cache c g))) = set_cache 0 (fst (compile_gen fx fi d g)).
Proof. exact caches_transparent. Qed.
Print Assumptions C11_caches_transparent.

(** restoring the two scratch variables as well would not change any outcome *)
Theorem C11_current_equals_fixed_outcome :
  forall h d, outcome_of compile d (run compile h) = outcome_of compile_fixed d (run compile_fixed h).
Proof. exact current_equals_fixed_outcome. Qed.
Print Assumptions C11_current_equals_fixed_outcome.

(** non-vacuity of history independence: the histories contain a rejected design of every formerly poisoning class,
    the equated outcomes are not all the same, and they are the outcomes a fresh interpreter gives
    (these are the regression histories of harness/c11.py CORPUS) *)
Example C11_current_regressions :
  outcome_of compile W_coro (run compile [W_sm]) = Accepted []
  /\ outcome_of compile W_pfx (run compile [W_width; W_pfx]) = Accepted [[P 0]]
  /\ outcome_of compile W_pfxarch (run compile [W_inwith]) = Accepted [[P 0]]
  /\ outcome_of compile W_pfxarch (run compile [W_inwith; W_pfxarch]) = Accepted [[P 0]]
  /\ outcome_of compile W_needs (run compile [W_clk]) = Rejected SPrep
  /\ outcome_of compile W_arch (run compile [W_arch]) = Rejected SArch.
Proof. exact current_regressions. Qed.
Print Assumptions C11_current_regressions.

(** ** the tree before the fix: commits: the same histories poisoned the interpreter (why the model has the
    try/finally discipline where it has it) *)

Example C11_before_fixes_statemachine_singleton :
  outcome_of compile_coded W_coro (run compile_coded [W_sm]) = Crashed SIr
  /\ outcome_of compile_coded W_coro init = Accepted [].
Proof. exact before_fixes_statemachine. Qed.
Print Assumptions C11_before_fixes_statemachine_singleton.

Example C11_before_fixes_block_stack :
  outcome_of compile_coded W_pfx (run compile_coded [W_width; W_pfx]) = Accepted [[P 0; C 1]]
  /\ outcome_of compile_coded W_pfx init = Accepted [[P 0]].
Proof. exact before_fixes_block_stack. Qed.
Print Assumptions C11_before_fixes_block_stack.

Example C11_before_fixes_prefix_scope :
  outcome_of compile_coded W_pfxarch (run compile_coded [W_inwith]) = Accepted [[P 4; P 0]]
  /\ outcome_of compile_coded W_pfxarch (run compile_coded [W_inwith; W_pfxarch]) = Crashed SArch
  /\ outcome_of compile_coded W_pfxarch init = Accepted [[P 0]].
Proof. exact before_fixes_prefix_scope. Qed.
Print Assumptions C11_before_fixes_prefix_scope.

Example C11_before_fixes_current_context :
  outcome_of compile_coded W_needs (run compile_coded [W_clk]) = Accepted []
  /\ outcome_of compile_coded W_needs init = Rejected SPrep.
Proof. exact before_fixes_current_context. Qed.
Print Assumptions C11_before_fixes_current_context.

Example C11_before_fixes_stale_template :
  outcome_of compile_coded W_arch (run compile_coded [W_arch]) = Accepted []
  /\ outcome_of compile_coded W_arch init = Rejected SArch.
Proof. exact before_fixes_stale_template. Qed.
Print Assumptions C11_before_fixes_stale_template.

(** even then, from a relevant-clean state a design that is accepted, or rejected only by the checks after IR
    generation / the back end, got its specified outcome and left the state relevant-clean
    (third hypothesis: the compilation does not crash on a name clash the design itself contains) *)
Theorem C11_before_fixes_harmless_preserves_clean :
  forall d g, rclean g -> harmless d = true -> (forall s, outcome_of compile_coded d g <> Crashed s) ->
    rclean (fst (compile_coded d g)) /\ outcome_of compile_coded d g = outcome_of compile d init.
Proof. exact before_fixes_harmless_preserves_clean. Qed.
Print Assumptions C11_before_fixes_harmless_preserves_clean.

Example C11_before_fixes_harmless_nonvacuous :
  rclean init /\ harmless W_coro = true /\ harmless W_pfx = true
  /\ (forall s, outcome_of compile_coded W_coro init <> Crashed s)
  /\ outcome_of compile_coded W_coro init = Accepted [].
Proof. vm_compute. repeat split; try reflexivity. intros s H; discriminate H. Qed.
Print Assumptions C11_before_fixes_harmless_nonvacuous.
