(** C11 - compilation is a pure function of the design, independent of history.

    Model: Models/Hist.v ([compile] = the set/restore discipline as coded, [compile_fixed] = with try/finally on
    every exceptional exit).  The all-histories statements
      C11_clean_invariant     : forall h, clean (run compile h)
      C11_history_independent : forall h d, outcome (compile d (run compile h)) = outcome (compile d init)
    are FALSE of the as-coded model (the [_refuted] theorems: vm_compute witnesses, each replayed against the real
    compiler by harness/c11.py) and are proved for [compile_fixed]. *)
From Coq Require Import List Bool Arith.
Import ListNotations.
From Cohdl Require Import Models.Hist Models.HistProofs.

(** ** as coded: refuted *)

(** two witnesses: (i) StatemachineContext._singleton left set by a design rejected inside coroutine lowering,
    every later coroutine design crashes; (ii) _block_stack left non-empty by a design rejected in a context,
    the prefix table is no longer cleared and the second later compilation emits p0_1 instead of p0 *)
Theorem C11_history_independent_refuted :
  (exists h d, outcome_of compile d (run compile h) = Crashed SIr /\ outcome_of compile d init = Accepted [])
  /\ (exists h d n1 n2, outcome_of compile d (run compile h) = Accepted n1 /\ outcome_of compile d init = Accepted n2
                        /\ n1 <> n2).
Proof. exact history_independent_refuted. Qed.
Print Assumptions C11_history_independent_refuted.

Theorem C11_clean_invariant_refuted : exists h, cleanb (run compile h) = false.
Proof. exact clean_invariant_refuted. Qed.
Print Assumptions C11_clean_invariant_refuted.

(** the individual mechanisms, on the design classes of the pool *)
Theorem C11_refuted_statemachine_singleton :
  outcome_of compile W_coro (run compile [W_sm]) = Crashed SIr /\ outcome_of compile W_coro init = Accepted [].
Proof. exact refuted_statemachine. Qed.
Print Assumptions C11_refuted_statemachine_singleton.

Theorem C11_refuted_block_stack :
  outcome_of compile W_pfx (run compile [W_width; W_pfx]) = Accepted [[P 0; C 1]]
  /\ outcome_of compile W_pfx init = Accepted [[P 0]].
Proof. exact refuted_block_stack. Qed.
Print Assumptions C11_refuted_block_stack.

Theorem C11_refuted_prefix_scope :
  outcome_of compile W_pfxarch (run compile [W_inwith]) = Accepted [[P 4; P 0]]
  /\ outcome_of compile W_pfxarch (run compile [W_inwith; W_pfxarch]) = Crashed SArch
  /\ outcome_of compile W_pfxarch init = Accepted [[P 0]].
Proof. exact refuted_prefix_scope. Qed.
Print Assumptions C11_refuted_prefix_scope.

Theorem C11_refuted_current_context :
  outcome_of compile W_needs (run compile [W_clk]) = Accepted [] /\ outcome_of compile W_needs init = Rejected SPrep.
Proof. exact refuted_current_context. Qed.
Print Assumptions C11_refuted_current_context.

Theorem C11_refuted_stale_template :
  outcome_of compile W_arch (run compile [W_arch]) = Accepted [] /\ outcome_of compile W_arch init = Rejected SArch.
Proof. exact refuted_stale_template. Qed.
Print Assumptions C11_refuted_stale_template.

(** ** with the try/finally discipline: all histories *)

Theorem C11_clean_invariant : forall h, clean (run compile_fixed h).
Proof. exact clean_invariant_fixed. Qed.
Print Assumptions C11_clean_invariant.

Theorem C11_history_independent :
  forall h d, outcome_of compile_fixed d (run compile_fixed h) = outcome_of compile_fixed d init.
Proof. exact history_independent_fixed. Qed.
Print Assumptions C11_history_independent.

(** one step, from ANY clean state (hypothesis satisfiable: [init] is clean, and so is every reachable state) *)
Theorem C11_clean_step :
  forall d g, clean g -> clean (fst (compile_fixed d g)) /\ outcome_of compile_fixed d g = outcome_of compile_fixed d init.
Proof. exact fixed_step. Qed.
Print Assumptions C11_clean_step.

Example C11_clean_step_nonvacuous : clean init /\ clean (run compile_fixed [W_sm; W_width; W_inwith; W_clk; W_arch]).
Proof. split; vm_compute; reflexivity. Qed.
Print Assumptions C11_clean_step_nonvacuous.

(** non-vacuity of history independence: the outcomes it equates are not all the same, and rejected designs
    of every poisoning class occur in the history *)
Example C11_history_independent_nonvacuous :
  outcome_of compile_fixed W_coro (run compile_fixed [W_sm; W_width; W_inwith; W_clk; W_arch]) = Accepted []
  /\ outcome_of compile_fixed W_pfx (run compile_fixed [W_width; W_pfx]) = Accepted [[P 0]]
  /\ outcome_of compile_fixed W_needs (run compile_fixed [W_clk]) = Rejected SPrep
  /\ outcome_of compile_fixed W_arch (run compile_fixed [W_arch]) = Rejected SArch.
Proof. vm_compute. repeat split; reflexivity. Qed.
Print Assumptions C11_history_independent_nonvacuous.

(** ** caches: the type caches / known-definition caches never change an outcome (either discipline), and the
    rest of the state does not depend on them *)
Theorem C11_caches_transparent :
  forall fx d g c,
    snd (compile_gen fx d (set_cache c g)) = snd (compile_gen fx d g)
    /\ set_cache 0 (fst (compile_gen fx d (set_cache c g))) = set_cache 0 (fst (compile_gen fx d g)).
Proof. exact caches_transparent. Qed.
Print Assumptions C11_caches_transparent.

(** ** as coded, conditionally: from a clean state a design that is accepted, or rejected only by the checks
    after IR generation / the back end, gets its specified outcome and leaves the state clean - only rejections
    at architecture(), PrepareAst or IR generation can poison an interpreter.
    (third hypothesis: the compilation does not crash on a name clash the design itself contains) *)
Theorem C11_coded_harmless_preserves_clean :
  forall d g, clean g -> harmless d = true -> (forall s, outcome_of compile d g <> Crashed s) ->
    clean (fst (compile d g)) /\ outcome_of compile d g = outcome_of compile_fixed d init.
Proof. exact coded_harmless_preserves_clean. Qed.
Print Assumptions C11_coded_harmless_preserves_clean.

Example C11_coded_harmless_nonvacuous :
  clean init /\ harmless W_coro = true /\ harmless W_pfx = true
  /\ (forall s, outcome_of compile W_coro init <> Crashed s)
  /\ outcome_of compile W_coro init = Accepted [].
Proof. vm_compute. repeat split; try reflexivity. intros s H; discriminate H. Qed.
Print Assumptions C11_coded_harmless_nonvacuous.
