(** C15 - property theorems (statements only; proofs live in the library files) *)
From Coq Require Import ZArith NArith PArith List Bool.
From Cohdl Require Import Vhdl.Value Vhdl.Syntax Vhdl.Sem Vhdl.DefAssign Vhdl.DeadVars Equiv.Explore Equiv.VhdlTS Equiv.RefTS Equiv.Monitor Equiv.StoreTS Models.StdSpecs.
Import ListNotations.

(** per-configuration obligation: OK from the checker means the hand-over monitor answers ok at
    every clock of every input sequence (all timings of producer and consumer, all payloads) *)
Theorem C15_case_sound :
  forall d mid mon alphabet fuel m0,
    conc_all_ok (auto_Ts d) d = true ->
    is_ok (mcheck_s d mid mon alphabet fuel m0) = true ->
    forall ins, Forall (fun i => In i alphabet) ins ->
      Forall (fun o => o = okout) (traceA (mstep_s d mid mon) (power_up_s d, m0) ins).
Proof. exact mcheck_s_sound. Qed.
Print Assumptions C15_case_sound.

(** ** all-delay theorems about the AS-CODED model of std.SyncFlag / std.Mailbox (Models/Handover.v: the toggle
    registers [_set_tx]/[_set_rx], the two delay lines as lists of [tx]/[rx] booleans, [Mailbox._data], the
    comparisons each context makes; [g] = guarded wrapper (MBOX_TWO, FLAG_TWO) / unguarded (FLAG_UNGUARDED),
    [p] = Mailbox (payload) / SyncFlag).  [hin] = (send, want, din) of one clock; [htrace] = the wrapper outputs
    (sent, got, dout) after each clock; [sent_of ins tr] = the values offered in clocks with [sent] raised,
    [recv_of tr] = the values on [dout] in clocks with [got] raised.  Quantifiers: all tx, rx : nat (zero included),
    all payloads (any integer, so any width), all input sequences (all relative timings). *)
From Coq Require Import Lia.
From Cohdl Require Import Models.Handover Models.HandoverProofs.
Local Open Scope Z_scope.

(** the invariant over the delay-line contents, after every input sequence: the registers and lines hold ONE
    edge of the toggle protocol, [Full k]: in the tx line, sent k clocks ago; [Empty k]: in the rx line *)
Theorem C15_handover_invariant_all_delays : forall (tx rx : nat) (g p : bool) (ins : list hin),
  exists b ph, Ph tx rx b ph (hrun g p (hinit tx rx) ins).
Proof. intros; apply hrun_inv, hinit_inv. Qed.
Print Assumptions C15_handover_invariant_all_delays.

(** (a) exactly once, in order, unmodified: the sent values are the received values followed by the item
    still in the slot (at most one), at every point of every run *)
Theorem C15_exactly_once_all_delays : forall (tx rx : nat) (g : bool) (ins : list hin),
  let tr := htrace g true (hinit tx rx) ins in
  sent_of ins tr = recv_of tr ++ pending (hrun g true (hinit tx rx) ins) /\
  (length (pending (hrun g true (hinit tx rx) ins)) <= 1)%nat.
Proof. exact handover_exactly_once. Qed.
Print Assumptions C15_exactly_once_all_delays.

(** (a) the consumer never sees the flag set before the data register holds the value sent *)
Theorem C15_set_implies_data_valid_all_delays : forall (tx rx : nat) (g : bool) (ins : list hin),
  let tr := htrace g true (hinit tx rx) ins in
  let s := hrun g true (hinit tx rx) ins in
  is_set_c s = true -> sent_of ins tr = recv_of tr ++ [data s].
Proof. exact set_implies_data_valid. Qed.
Print Assumptions C15_set_implies_data_valid_all_delays.

(** (a) the producer never overwrites an unconsumed item: it only sends when it sees clear, and then
    everything sent has been received *)
Theorem C15_clear_implies_consumed_all_delays : forall (tx rx : nat) (g : bool) (ins : list hin),
  let tr := htrace g true (hinit tx rx) ins in
  let s := hrun g true (hinit tx rx) ins in
  is_clear_p s = true -> sent_of ins tr = recv_of tr.
Proof. exact clear_implies_consumed. Qed.
Print Assumptions C15_clear_implies_consumed_all_delays.

(** [sent] only with the producer seeing clear, [got] only with the consumer seeing set, never both in one
    clock; an unguarded [set()] while not clear has no effect on [_set_tx] *)
Theorem C15_events_guarded_all_delays : forall (tx rx : nat) (g p : bool) (s : hstate) (sd wt : bool) (dv : Z),
  Inv tx rx s ->
  let o := snd (hstep g p s sd wt dv) in
  fst (fst o) = sd && is_clear_p s /\ snd (fst o) = wt && is_set_c s /\
  (fst (fst o) && snd (fst o) = false) /\
  (is_clear_p s = false -> set_tx (fst (hstep g p s sd wt dv)) = set_tx s).
Proof. exact events_guarded. Qed.
Print Assumptions C15_events_guarded_all_delays.

(** with or without payload: the pulses alternate, starting with [sent] *)
Theorem C15_pulses_alternate_all_delays : forall (tx rx : nat) (g p : bool) (ins : list hin),
  let tr := htrace g p (hinit tx rx) ins in
  (count_got tr <= count_sent tr <= count_got tr + 1)%nat.
Proof. exact handover_counts. Qed.
Print Assumptions C15_pulses_alternate_all_delays.

(** (b) bounded response, exact: after a clock with [sent] the consumer sees the flag set after exactly tx
    further clocks (not earlier), whatever the inputs *)
Theorem C15_send_visible_after_tx_delay : forall (tx rx : nat) (g p : bool) (s : hstate) (sd wt : bool) (dv : Z),
  Inv tx rx s -> fst (fst (snd (hstep g p s sd wt dv))) = true ->
  forall js, (length js <= tx)%nat ->
    is_set_c (hrun g p (fst (hstep g p s sd wt dv)) js) = Nat.eqb (length js) tx.
Proof. exact send_visible_after_tx_delay. Qed.
Print Assumptions C15_send_visible_after_tx_delay.

(** (b) the clear path: after a clock with [got] the producer sees the flag clear after exactly rx further clocks *)
Theorem C15_receive_visible_after_rx_delay : forall (tx rx : nat) (g p : bool) (s : hstate) (sd wt : bool) (dv : Z),
  Inv tx rx s -> snd (fst (snd (hstep g p s sd wt dv))) = true ->
  forall js, (length js <= rx)%nat ->
    is_clear_p (hrun g p (fst (hstep g p s sd wt dv)) js) = Nat.eqb (length js) rx.
Proof. exact receive_visible_after_rx_delay. Qed.
Print Assumptions C15_receive_visible_after_rx_delay.

(** (b) once visible it stays visible until asked for, and is then served in that very clock *)
Theorem C15_visible_until_served : forall (tx rx : nat) (g p : bool) (s : hstate) (sd wt : bool) (dv : Z),
  Inv tx rx s ->
  (is_set_c s = true ->
     snd (fst (snd (hstep g p s sd wt dv))) = wt /\
     (wt = false -> is_set_c (fst (hstep g p s sd wt dv)) = true)) /\
  (is_clear_p s = true ->
     fst (fst (snd (hstep g p s sd wt dv))) = sd /\
     (sd = false -> is_clear_p (fst (hstep g p s sd wt dv)) = true)).
Proof. exact visible_until_served. Qed.
Print Assumptions C15_visible_until_served.

(** the model satisfies the monitor of the per-configuration cases for every bound K >= max tx rx
    (harness/c15.py uses K = 2 (tx + rx) + 3), every strictness, with and without payload *)
Theorem C15_model_satisfies_monitor_all_delays :
  forall (tx rx : nat) (g p : bool) (w : BinNums.N) (K : Z) (strict : bool),
  Z.of_nat (Nat.max tx rx) <= K ->
  forall ins, Forall (fun i => wf_in p i = true) ins ->
    Forall (fun o => o = okout)
           (traceA (rmstep (ho_rstep tx g p w) (chan_monitor K strict)) (ho_init tx rx, [0; 0; 0; 0]) ins).
Proof. exact ho_monitor_ok. Qed.
Print Assumptions C15_model_satisfies_monitor_all_delays.

(** the [list Z] machine the '*_model' cases of harness/c15.py compare the emitted VHDL with IS the record model *)
Theorem C15_model_machine_trace : forall (tx rx : nat) (g p : bool) (w : BinNums.N) (ins : list hin),
  traceB (ho_rstep tx g p w) (ho_init tx rx) (map (hin_val w) ins) =
  map (fun o => Ok (hout w o)) (htrace g p (hinit tx rx) ins).
Proof. exact ho_rstep_trace. Qed.
Print Assumptions C15_model_machine_trace.

(** tie to the code, every configuration at once: the two computed hypotheses are what the '*_model' case file
    of a configuration proves for its parsed design d (non-vacuity: each such case file); then the monitor never
    flags on the emitted VHDL for ANY bound K >= max tx rx *)
Theorem C15_code_satisfies_monitor_all_delays :
  forall d mid alphabet fuel (tx rx : nat) (g p : bool) (w : BinNums.N) (K : Z) (strict : bool),
  conc_all_ok (auto_Ts d) d = true ->
  is_ok (rcheck_s d mid (ho_rstep tx g p w) alphabet (fun _ _ => true) fuel (ho_init tx rx)) = true ->
  forallb (wf_in p) alphabet = true ->
  Z.of_nat (Nat.max tx rx) <= K ->
  forall ins, Forall (fun i => In i alphabet) ins ->
    Forall (fun o => o = okout)
           (traceA (mstep_s d mid (chan_monitor K strict)) (power_up_s d, [0; 0; 0; 0]) ins).
Proof. exact ho_code_tie. Qed.
Print Assumptions C15_code_satisfies_monitor_all_delays.

(** the form applied inside every '*_model' case file of harness/c15.py (theorem [monitor_ok] there), from the
    statement of its exploration theorem [case_ok] *)
Theorem C15_code_trace_implies_monitor_all_delays :
  forall d mid alphabet (tx rx : nat) (g p : bool) (w : BinNums.N) (K : Z) (strict : bool),
  (forall ins, admissible (ho_rstep tx g p w) alphabet (fun _ _ => true) (ho_init tx rx) ins ->
     traceA (sstep d mid) (power_up_s d) ins = traceB (ho_rstep tx g p w) (ho_init tx rx) ins) ->
  forallb (wf_in p) alphabet = true ->
  Z.of_nat (Nat.max tx rx) <= K ->
  forall ins, Forall (fun i => In i alphabet) ins ->
    Forall (fun o => o = okout)
           (traceA (mstep_s d mid (chan_monitor K strict)) (power_up_s d, [0; 0; 0; 0]) ins).
Proof. exact ho_traces_tie. Qed.
Print Assumptions C15_code_trace_implies_monitor_all_delays.

(** ... and the emitted VHDL hands over exactly once, in order, unmodified, on its ports *)
Theorem C15_code_exactly_once_all_delays :
  forall d mid alphabet fuel (tx rx : nat) (g : bool) (w : BinNums.N),
  conc_all_ok (auto_Ts d) d = true ->
  is_ok (rcheck_s d mid (ho_rstep tx g true w) alphabet (fun _ _ => true) fuel (ho_init tx rx)) = true ->
  forall ins : list hin, Forall (fun i => In (hin_val w i) alphabet) ins ->
    exists tr rest,
      traceA (sstep d mid) (power_up_s d) (map (hin_val w) ins) = map (fun o => Ok (hout w o)) tr /\
      sent_of ins tr = recv_of tr ++ rest /\ (length rest <= 1)%nat.
Proof. exact ho_code_exactly_once. Qed.
Print Assumptions C15_code_exactly_once_all_delays.

(** non-vacuity at tx = 2, rx = 1: two items go through; the first is sent in clock 0 and received in clock
    3 = 0 + tx + 1 although the consumer asks from clock 0; the producer (asking all the time) gets its second
    send in clock 5 = 3 + rx + 1; both contexts see their flag (hypotheses of the theorems above are met) *)
Definition C15_handover_example : list hin :=
  [(true, true, 5); (true, true, 6); (true, true, 7); (true, true, 8); (true, true, 9);
   (true, false, 1); (true, true, 2); (false, true, 3); (false, true, 0); (false, true, 0)].
Example C15_handover_nonvacuous :
  htrace true true (hinit 2 1) C15_handover_example =
    [(true, false, 0); (false, false, 0); (false, false, 0); (false, true, 5); (false, false, 5);
     (true, false, 5); (false, false, 5); (false, false, 5); (false, true, 1); (false, false, 1)] /\
  sent_of C15_handover_example (htrace true true (hinit 2 1) C15_handover_example) = [5; 1] /\
  recv_of (htrace true true (hinit 2 1) C15_handover_example) = [5; 1] /\
  is_set_c (hrun true true (hinit 2 1) (firstn 3 C15_handover_example)) = true /\
  data (hrun true true (hinit 2 1) (firstn 3 C15_handover_example)) = 5 /\
  is_clear_p (hrun true true (hinit 2 1) (firstn 5 C15_handover_example)) = true /\
  Forall (fun i => wf_in true i = true) (map (hin_val 4) C15_handover_example).
Proof. vm_compute. repeat split; repeat constructor. Qed.

(** the bound of [C15_model_satisfies_monitor_all_delays] is exact: at tx = 2, rx = 1 the monitor with
    K = 2 = max tx rx accepts this run and the monitor with K = 1 flags it *)
Example C15_monitor_bound_exact :
  all_okout (traceA (rmstep (ho_rstep 2 true true 4) (chan_monitor 2 true)) (ho_init 2 1, [0; 0; 0; 0])
                    (map (hin_val 4) C15_handover_example)) = true /\
  all_okout (traceA (rmstep (ho_rstep 2 true true 4) (chan_monitor 1 true)) (ho_init 2 1, [0; 0; 0; 0])
                    (map (hin_val 4) C15_handover_example)) = false.
Proof. vm_compute. split; reflexivity. Qed.
