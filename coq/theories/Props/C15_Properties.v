(** C15 - property theorems *)
From Coq Require Import ZArith NArith PArith List Bool.
From Cohdl Require Import Vhdl.Value Vhdl.Syntax Vhdl.Sem Equiv.Explore Equiv.VhdlTS Equiv.RefTS Equiv.Monitor Models.StdSpecs.
Import ListNotations.

(** per-configuration obligation: OK from the checker means the hand-over monitor answers ok at
    every clock of every input sequence (all timings of producer and consumer, all payloads) *)
Theorem C15_case_sound :
  forall d mid mon alphabet fuel m0,
    is_ok (mcheck d mid mon alphabet fuel m0) = true ->
    forall ins, Forall (fun i => In i alphabet) ins ->
      Forall (fun o => o = okout) (traceA (mstep d mid mon) (power_up d, m0) ins).
Proof. exact mcheck_sound. Qed.
Print Assumptions C15_case_sound.
