(** C20 - property theorems (statements only; proofs live in the library files) *)
From Coq Require Import ZArith NArith PArith List Bool.
From Cohdl Require Import Vhdl.Value Vhdl.Syntax Vhdl.Sem Vhdl.DefAssign Vhdl.DeadVars Equiv.Explore Equiv.VhdlTS Equiv.RefTS Equiv.Monitor Equiv.StoreTS Models.AxiSpec.
Import ListNotations.

(** per (layout, phase): OK from the checker means the AXI monitor answers ok at every clock of every
    input sequence over the phase's alphabet *)
Theorem C20_case_sound :
  forall d mid mon alphabet fuel m0,
    conc_all_ok (auto_Ts d) d = true ->
    is_ok (mcheck_s d mid mon alphabet fuel m0) = true ->
    forall ins, Forall (fun i => In i alphabet) ins ->
      Forall (fun o => o = okout) (traceA (mstep_s d mid mon) (power_up_s d, m0) ins).
Proof. exact mcheck_s_sound. Qed.
Print Assumptions C20_case_sound.
