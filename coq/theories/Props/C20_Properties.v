(** C20 - property theorems (statements only; proofs live in the library files) *)
From Coq Require Import ZArith NArith PArith List Bool.
From Cohdl Require Import Vhdl.Value Vhdl.Syntax Vhdl.Sem Vhdl.DefAssign Vhdl.DeadVars Equiv.Explore Equiv.VhdlTS Equiv.RefTS Equiv.Monitor Equiv.StoreTS Models.AxiSpec.
Import ListNotations.
Local Open Scope Z_scope.

(** per (layout, phase): OK from the checker means the AXI monitor answers ok at every clock of every
    input sequence over the phase's alphabet *)
Theorem C20_case_sound :
  forall d mid mon alphabet fuel m0,
    conc_all_ok (auto_Ts d) d = true ->
    is_ok (mcheck_s d mid mon alphabet fuel m0) = true ->
    forall ins, Forall (fun i => In i alphabet) ins ->
      Forall (fun o => o = okout) (traceA (mstep_s d mid mon) (power_up_s d, m0) ins).
Proof. exact mcheck_s_sound. Qed.
Print Assumptions C20_case_sound.

(** ** the reference data model the monitor compares the registers with *)

(** a write to a plain word changes exactly the strobed bytes: bit i takes the written bit when strobe
    bit i/8 is set and keeps its value otherwise ... *)
Theorem C20_strobe_merge_exact :
  forall old data strb i, 0 <= i < 32 ->
    Z.testbit (strobe_merge old data strb) i = if Z.testbit strb (i / 8) then Z.testbit data i else Z.testbit old i.
Proof. exact strobe_merge_bit. Qed.
Print Assumptions C20_strobe_merge_exact.

(** ... and nothing outside the 32 bits of the word *)
Theorem C20_strobe_merge_nothing_else :
  forall old data strb i, i < 0 \/ 32 <= i -> Z.testbit (strobe_merge old data strb) i = Z.testbit old i.
Proof. exact strobe_merge_bit_out. Qed.
Print Assumptions C20_strobe_merge_nothing_else.

Example C20_strobe_merge_nonvacuous :
  strobe_merge 287454020 2864434397 5 = 297481181 (* 0x11223344 <- 0xAABBCCDD, bytes 0 and 2 = 0x11BB33DD *)
  /\ Z.testbit 5 (17 / 8) = true /\ Z.testbit 5 (9 / 8) = false /\ 0 <= 17 < 32.
Proof. vm_compute. repeat split; discriminate. Qed.

(** registers with fields: a bit changes only if its byte is strobed AND it is bus-writable *)
Theorem C20_masked_write_exact :
  forall old data strb wmask i, 0 <= i < 32 ->
    Z.testbit (merge_masked old data strb wmask) i =
    if Z.testbit strb (i / 8) && Z.testbit wmask i then Z.testbit data i else Z.testbit old i.
Proof. exact merge_masked_bit. Qed.
Print Assumptions C20_masked_write_exact.

(** a bus write never changes a bit outside the register's write mask (hardware-driven / read-only fields) *)
Theorem C20_readonly_bits_kept :
  forall old data strb wmask i, Z.testbit wmask i = false ->
    Z.testbit (merge_masked old data strb wmask) i = Z.testbit old i.
Proof. exact merge_masked_readonly. Qed.
Print Assumptions C20_readonly_bits_kept.

Example C20_readonly_bits_nonvacuous :
  Z.testbit 4095 16 = false /\ Z.testbit 4095 3 = true
  /\ merge_masked 65596 4294967295 15 4095 = 69631 (* 0x1003C <- all ones under mask 0xFFF = 0x10FFF *).
Proof. vm_compute. repeat split. Qed.

(** decoding: a write to an address where no register is mapped leaves every register unchanged *)
Theorem C20_unmapped_write_keeps :
  forall offsets wmasks regs addr data strb,
    (forall o, In o offsets -> addr / 4 <> o / 4) -> ref_write offsets wmasks regs addr data strb = regs.
Proof. exact ref_write_unmapped. Qed.
Print Assumptions C20_unmapped_write_keeps.

Example C20_unmapped_write_nonvacuous :
  (forall o, In o [8; 12] -> 4 / 4 <> o / 4) /\ ref_write [8; 12] [] [1; 2] 4 255 15 = [1; 2]
  /\ ref_write [8; 12] [] [1; 2] 12 255 15 = [1; 255].
Proof. split; [intros o [<-|[<-|[]]]; vm_compute; discriminate|split; reflexivity]. Qed.

(** a write changes no register but the addressed one ... *)
Theorem C20_write_other_registers_kept :
  forall offsets wmasks regs addr data strb j,
    reg_at offsets addr O <> Some j -> nth j (ref_write offsets wmasks regs addr data strb) 0 = nth j regs 0.
Proof. exact ref_write_other. Qed.
Print Assumptions C20_write_other_registers_kept.

(** ... and the addressed one (the register whose word offset equals the word of the address) gets the masked merge *)
Theorem C20_write_addressed_register :
  forall offsets wmasks regs addr data strb k,
    reg_at offsets addr O = Some k -> (k < length regs)%nat ->
    nth k (ref_write offsets wmasks regs addr data strb) 0 = merge_masked (nth k regs 0) data strb (nth k wmasks all32).
Proof. exact ref_write_addressed. Qed.
Print Assumptions C20_write_addressed_register.

Theorem C20_decode_sound :
  forall offsets addr k, reg_at offsets addr O = Some k ->
    (0 <= k)%nat /\ (k - 0 < length offsets)%nat /\ nth (k - 0) offsets 0 / 4 = addr / 4.
Proof. intros offsets addr k. exact (reg_at_some offsets addr O k). Qed.
Print Assumptions C20_decode_sound.

Example C20_write_addressed_nonvacuous :
  reg_at [0; 12] 12 O = Some 1%nat /\ reg_at [0; 12] 12 O <> Some 0%nat /\ (1 < length [7; 9])%nat
  /\ ref_write [0; 12] [] [7; 9] 12 4294967295 1 = [7; 255].
Proof. vm_compute. repeat split; try discriminate. apply le_n. Qed.

(** a read returns the current value of the register mapped at the word of the address *)
Theorem C20_read_addressed_register :
  forall offsets regs addr v, ref_read offsets regs addr = Some v ->
    exists k, (k < length offsets)%nat /\ nth k offsets 0 / 4 = addr / 4 /\ v = nth k regs 0.
Proof. exact ref_read_mapped. Qed.
Print Assumptions C20_read_addressed_register.

Example C20_read_nonvacuous : ref_read [0; 12] [7; 9] 13 = Some 9 /\ ref_read [0; 12] [7; 9] 8 = None.
Proof. split; reflexivity. Qed.

(** the hardware model of the register with fields moves only the bits of its own fields (so any other bit
    the monitor sees change was changed by the bus side) *)
Theorem C20_hw_counter_only_its_field :
  forall v shift width i, 0 <= shift -> 0 <= width -> i < shift \/ shift + width <= i ->
    Z.testbit (cnt_tick v shift width) i = Z.testbit v i.
Proof. exact cnt_tick_outside. Qed.
Print Assumptions C20_hw_counter_only_its_field.

Theorem C20_hw_toggle_only_its_bit :
  forall v shift i, 0 <= shift -> i <> shift -> Z.testbit (tog_tick v shift) i = Z.testbit v i.
Proof. exact tog_tick_other. Qed.
Print Assumptions C20_hw_toggle_only_its_bit.

Theorem C20_hw_other_registers_kept :
  forall nf tw tr regs j,
    match nf with Some s => j <> s.(n_reg) | None => True end -> nth j (hw_tick nf tw tr regs) 0 = nth j regs 0.
Proof. exact hw_tick_other. Qed.
Print Assumptions C20_hw_other_registers_kept.

Example C20_hw_nonvacuous :
  cnt_tick 196668 16 2 = 60 (* 0x3003C: counter 3 wraps to 0, the rest stays *) /\ cnt_tick 60 16 2 = 65596
  /\ tog_tick 60 24 = 16777276 /\ tog_tick 16777276 24 = 60
  /\ hw_tick (Some {| n_reg := 1; n_wshift := 16; n_wwidth := 2; n_rshift := 24 |}) true true [5; 60] = [5; 16842812].
Proof. vm_compute. repeat split. Qed.

(** ** the monitor is not vacuous: on the recorded three-clock trace of a full-word write of all ones to the
    register with fields (idle clock; AW+W accepted, BVALID, register 0x3C -> 0xFFF, write notification;
    B accepted, hardware counter 0 -> 1) it answers ok, and it flags each of these changes of the slave's
    outputs: a notification in the idle clock, no notification, a notification without the update, the
    hardware-driven bits written by the bus, the hardware counter not counting *)
Definition ex_mon : monitor :=
  axi_monitor_x 3 [4] [4095] (Some {| n_reg := 0; n_wshift := 16; n_wwidth := 2; n_rshift := 24 |}).
Definition ex_in (awvalid wvalid bready : bool) : list value :=
  [VV KUns 4 4; VV KUns 3 0; VL awvalid; VV KSlv 32 4294967295; VV KSlv 4 15; VL wvalid; VL bready;
   VV KUns 4 0; VV KUns 3 0; VL false; VL false].
Definition ex_out (ready bvalid : bool) (reg : Z) (ntw : bool) : list value :=
  [VL ready; VL ready; VV KSlv 2 0; VL bvalid; VL true; VV KSlv 32 0; VV KSlv 2 0; VL false; VV KSlv 32 reg; VL ntw; VL false].
Definition ex_trace (ntw1 : bool) (reg2 : Z) (ntw2 : bool) (reg3 : Z) : list bool :=
  mon_trace ex_mon (axi_m0 [60])
    [(ex_in false false false, ex_out true false 60 ntw1);
     (ex_in true true false, ex_out false true reg2 ntw2);
     (ex_in false false true, ex_out true false reg3 false)].

Example C20_monitor_accepts_real_trace : ex_trace false 4095 true 69631 = [true; true; true].
Proof. vm_compute. reflexivity. Qed.
Example C20_monitor_flags_spurious_notification : nth 0 (ex_trace true 4095 true 69631) true = false.
Proof. vm_compute. reflexivity. Qed.
Example C20_monitor_flags_missing_notification : nth 1 (ex_trace false 4095 false 4095) true = false.
Proof. vm_compute. reflexivity. Qed.
Example C20_monitor_flags_notification_without_update : nth 1 (ex_trace false 60 true 69631) true = false.
Proof. vm_compute. reflexivity. Qed.
Example C20_monitor_flags_bus_write_of_hardware_bits : nth 1 (ex_trace false 4294967295 true 4294967295) true = false.
Proof. vm_compute. reflexivity. Qed.
Example C20_monitor_flags_missing_hardware_update : nth 2 (ex_trace false 4095 true 4095) true = false.
Proof. vm_compute. reflexivity. Qed.

(** ** ALL register-map layouts (Models/AxiLayout.v: the address computation, decode and write masking of
       std.reg / connect_addr_map as coded; trees of registers, arrays and nested register files) *)
From Cohdl Require Import Models.AxiLayout Models.AxiLayoutProofs.

(** (i) nesting composes: relocating any subtree by [d] relocates every register in it by [d] ... *)
Theorem C20_layout_relocation : forall n base d, flat (base + d) n = map (shift d) (flat base n).
Proof. exact flat_shift. Qed.
Print Assumptions C20_layout_relocation.

(** ... so the registers of a register file are its members' registers moved by the member offsets (register files
    inside register files, arrays inside register files at non-zero offsets), an array's are its element's moved
    by index * step ... *)
Theorem C20_layout_regfile_members : forall wc ms base,
  flat base (File wc ms) = flat_map (fun m => map (shift (fst m)) (flat base (snd m))) ms.
Proof. exact flat_member. Qed.
Print Assumptions C20_layout_regfile_members.

Theorem C20_layout_array_elements : forall stop step e base,
  flat base (Arr stop step e) = flat_map (fun k => map (shift k) (flat base e)) (arange stop step).
Proof. exact flat_array. Qed.
Print Assumptions C20_layout_array_elements.

(** ... and the absolute offset of a register is exactly the sum of the offsets along its path
    ([resolve]: member offsets and index * step added up along a path of member / element indices) *)
Theorem C20_layout_offset_is_path_sum : forall n p base z wc k,
  resolve n p = Some (z, wc, k) -> In (mkObj (base + z) wc k) (flat base n).
Proof. exact resolve_sound. Qed.
Print Assumptions C20_layout_offset_is_path_sum.

Theorem C20_layout_every_register_has_a_path : forall n base o, In o (flat base n) ->
  exists p, resolve n p = Some (o_off o - base, o_wc o, o_kind o).
Proof. exact resolve_complete. Qed.
Print Assumptions C20_layout_every_register_has_a_path.

Example C20_layout_path_nonvacuous :
  resolve ex_root [1%nat; 0%nat; 1%nat] = Some (12, 1, RMemWord)     (* file@8 / array@0 / element 1 * step 4 *)
  /\ abs_offsets ex_root = [0; 8; 12; 20; 32; 40] /\ accepted ex_root = true
  /\ abs_offsets (File None [(8, File (Some 2) [(4, File (Some 1) [(0, Leaf 1 RMemWord)])])]) = [12].
Proof. vm_compute. repeat split; reflexivity. Qed.

(** (ii) in a map the code accepts (its local checks and the neighbour check of _flatten_) no two registers contain
    one address, and the absolute offsets are pairwise distinct *)
Theorem C20_layout_no_two_registers_at_one_address : forall root a i j x y, accepted root = true ->
  nth_error (regs root) i = Some x -> nth_error (regs root) j = Some y -> in_ext x a -> in_ext y a -> i = j.
Proof. exact accepted_disjoint. Qed.
Print Assumptions C20_layout_no_two_registers_at_one_address.

Theorem C20_layout_offsets_distinct : forall root, accepted root = true -> NoDup (offsets_of root).
Proof. exact accepted_offsets_nodup. Qed.
Print Assumptions C20_layout_offsets_distinct.

Theorem C20_layout_registers_word_aligned : forall n base, local_ok n = true -> base mod stride = 0 -> aligned (flat base n).
Proof. exact local_ok_aligned. Qed.
Print Assumptions C20_layout_registers_word_aligned.

(** overlapping / unaligned / out-of-parent maps are not accepted (the hypotheses above are not vacuous either way) *)
Example C20_layout_accept_nonvacuous :
  accepted ex_root = true
  /\ accepted (File (Some 4) [(4, Leaf 1 RMemWord); (4, Leaf 1 RMemWord)]) = false
  /\ accepted (File (Some 4) [(2, Leaf 1 RMemWord)]) = false
  /\ accepted (File (Some 1) [(4, Leaf 1 RMemWord)]) = false
  /\ accepted (File (Some 8) [(0, Arr 10 4 (Leaf 1 RMemWord)); (8, Leaf 1 RMemWord)]) = false.
Proof. vm_compute. repeat split; reflexivity. Qed.

(** (iii) decode: both branches of _contains_addr_ are the range test; an address selects register k iff it lies in
    register k's words, and nothing iff it lies in no register *)
Theorem C20_layout_contains_is_range : forall o a, contains o a = true <-> in_ext o a.
Proof. exact contains_spec. Qed.
Print Assumptions C20_layout_contains_is_range.

Theorem C20_layout_decode_exact : forall root a k, accepted root = true ->
  (decode root a = Some k <-> exists o, nth_error (regs root) k = Some o /\ in_ext o a).
Proof. exact decode_some_iff. Qed.
Print Assumptions C20_layout_decode_exact.

Theorem C20_layout_decode_unmapped : forall root a,
  decode root a = None <-> (forall o, In o (regs root) -> ~ in_ext o a).
Proof. exact decode_none_iff. Qed.
Print Assumptions C20_layout_decode_unmapped.

(** one-word registers: register k is selected iff the address with its two low bits dropped is k's absolute offset *)
Theorem C20_layout_decode_register : forall root a k, accepted root = true -> Forall (fun o => o_wc o = 1) (regs root) ->
  (decode root a = Some k <-> nth_error (offsets_of root) k = Some (stride * (a / stride))).
Proof. exact decode_register_iff. Qed.
Print Assumptions C20_layout_decode_register.

(** the decode of the explored monitor (AxiSpec.reg_at over the layout's offsets) is the as-coded decode *)
Theorem C20_layout_monitor_decode_agrees : forall root a, accepted root = true -> Forall (fun o => o_wc o = 1) (regs root) ->
  reg_at (offsets_of root) a O = decode root a.
Proof. exact monitor_decode_agrees. Qed.
Print Assumptions C20_layout_monitor_decode_agrees.

Example C20_layout_decode_nonvacuous :
  map (decode ex_root) [0; 3; 4; 13; 20; 36; 47] = [Some 0%nat; Some 0%nat; None; Some 2%nat; Some 3%nat; None; None]
  /\ forallb (fun o => o_wc o =? 1) (regs ex_root) = true
  /\ decode (File None [(4, Leaf 3 RRange)]) 15 = Some 0%nat /\ decode (File None [(4, Leaf 3 RRange)]) 16 = None.
Proof. vm_compute. repeat split; reflexivity. Qed.

(** (iv) field layout and write mask *)
Theorem C20_layout_fields_inside_word : forall fs f, fields_ok fs = true -> In f fs -> field_wf f.
Proof. exact fields_ok_wf. Qed.
Print Assumptions C20_layout_fields_inside_word.

Theorem C20_layout_fields_disjoint : forall fs i, fields_ok fs = true ->
  (length (filter (fun f => in_range f i) fs) <= 1)%nat.
Proof. exact fields_disjoint. Qed.
Print Assumptions C20_layout_fields_disjoint.

Theorem C20_layout_wmask_is_union_of_writable_fields : forall fs i,
  (forall f, In f fs -> 0 <= f_off f /\ 0 <= f_width f) -> 0 <= i ->
  Z.testbit (wmask (RRegister fs)) i = existsb (fun f => is_mem (f_kind f) && in_range f i) fs.
Proof. exact wmask_spec. Qed.
Print Assumptions C20_layout_wmask_is_union_of_writable_fields.

Theorem C20_layout_register_write_exact : forall fs old merged i, fields_ok fs = true -> 0 <= i ->
  Z.testbit (reg_write (RRegister fs) old merged) i
  = if Z.testbit (wmask (RRegister fs)) i then Z.testbit merged i
    else Z.testbit (rmask (RRegister fs)) i && Z.testbit old i.
Proof. exact reg_write_spec. Qed.
Print Assumptions C20_layout_register_write_exact.

(** (v) a bus write changes exactly the strobed bytes inside the write mask *)
Theorem C20_layout_bus_write_exact : forall k old data strb i, kind_ok k = true -> 0 <= i < 32 ->
  Z.testbit (bus_write k old data strb) i
  = if Z.testbit strb (i / 8) && Z.testbit (wmask k) i then Z.testbit data i
    else Z.testbit (rmask k) i && Z.testbit old i.
Proof. exact bus_write_spec. Qed.
Print Assumptions C20_layout_bus_write_exact.

(** the as-coded register write is the reference write of the explored monitor, with this layout's masks *)
Theorem C20_layout_bus_write_is_monitor_merge : forall k old data strb, kind_ok k = true -> no_padding k old ->
  bus_write k old data strb = merge_masked old data strb (wmask k).
Proof. exact bus_write_is_merge_masked. Qed.
Print Assumptions C20_layout_bus_write_is_monitor_merge.

Theorem C20_layout_map_write_is_monitor_write : forall root st a data strb,
  accepted root = true -> Forall (fun o => o_wc o = 1) (regs root) ->
  Forall (fun o => kind_ok (o_kind o) = true) (regs root) ->
  (forall k o, nth_error (regs root) k = Some o -> no_padding (o_kind o) (nth k st 0)) ->
  map_write root st a data strb = ref_write (offsets_of root) (wmasks_of root) st a data strb.
Proof. exact map_write_is_ref_write. Qed.
Print Assumptions C20_layout_map_write_is_monitor_write.

Example C20_layout_write_nonvacuous :
  kind_ok ex_freg = true /\ wmask ex_freg = 4095 /\ rmask ex_freg = 16977919
  /\ no_padding ex_freg 16977919
  /\ bus_write ex_freg 16977919 0 5 = 16977664          (* bytes 0 and 2 strobed: m cleared, cnt (hardware) kept *)
  /\ fields_ok [mkField KMemField 0 8; mkField KField 7 1] = false
  /\ fields_ok [mkField KMemField 30 3] = false.
Proof. vm_compute. repeat split; reflexivity. Qed.
