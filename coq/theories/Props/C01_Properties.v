(** C01 - property theorems (statements only; proofs live in the library files) *)
From Coq Require Import ZArith NArith PArith List Bool.
From Cohdl Require Import Vhdl.Value Vhdl.Syntax Vhdl.Sem Vhdl.DefAssign Vhdl.DeadVars Equiv.Explore Equiv.VhdlTS Equiv.RefTS Equiv.Monitor Equiv.StoreTS Models.Coro Models.Lower Models.LowerProofs.
Import ListNotations.

(** The per-program obligation is a proof for all input sequences of all lengths: if the reflective
    checker answers OK for the parsed design [d] and the reference semantics of program [p], their
    output traces coincide on every admissible input sequence. *)
Theorem C01_explore_sound :
  forall (d : design) (p : stmt) alphabet assume fuel,
    conc_all_ok (auto_Ts d) d = true ->
    is_ok (vcheck_s d false (ref_step p) rstate_eqb rhash alphabet assume fuel rinit) = true ->
    forall ins, admissible (ref_step p) alphabet assume rinit ins ->
      traceA (sstep d false) (power_up_s d) ins = traceB (ref_step p) rinit ins.
Proof. intros d p alphabet assume fuel. exact (vcheck_s_sound d false (ref_step p) rstate_eqb rstate_eqb_ok rhash alphabet assume fuel rinit). Qed.
Print Assumptions C01_explore_sound.

Theorem C01_normalisation_sound :
  forall T d mid, conc_all_ok T d = true -> forall ins s n, srel_s T s n ->
    traceA (sstep d mid) s ins = traceA (sstep_n d T mid) n ins.
Proof. exact norm_traces_s. Qed.
Print Assumptions C01_normalisation_sound.

(** The programs quantifier, for the Gallina model [Lower.lower] of the compiler's lowering
    (IrGenerator._apply_impl: open blocks, one new state per await / loop head, first-state special
    case, code after a branching construct duplicated into every open block, continue = inlined loop
    head, awaited sub-coroutine lowered in place with return = open block after the call): for EVERY
    program of the grammar [Lower.in_grammar] (Skip, Eff, Seq, If, While with Break / Continue,
    always-false while, await cond / true / false, Call of a sub-coroutine with Return; break/continue
    only inside a loop of the same coroutine, return only inside a call and not as the very first
    action of the process, every continue separated from its loop head by a clock; the interpreter
    fuel [Coro.ref_fuel] statically sufficient; wait_for(n) for every constant n >= 1 except n = 1 as the
    very first action (C16_lower_wait1_first_refuted); wait_for with a run-time duration: C16_lower_wait_rt_correct, under an assumption on that input) and EVERY input
    sequence of any length the lowered machine has the trace of the coroutine semantics.  The model is
    tied to the real compiler per generated program (harness/c01.py, theorem case_low). *)
Theorem C01_lower_correct :
  forall p : stmt, in_grammar p = true ->
  forall ins, traceB (mstepZ (lower p)) minitZ ins = traceB (ref_step p) rinit ins.
Proof. exact lower_correct. Qed.
Print Assumptions C01_lower_correct.

Theorem C01_lower_correct_mstep :
  forall p : stmt, in_grammar p = true ->
  forall ins, traceB (mstep (lower p)) minit ins = traceB (ref_step p) rinit ins.
Proof. exact lower_correct_mstep. Qed.
Print Assumptions C01_lower_correct_mstep.

(** non-vacuity of [in_grammar]: nested while / await / break / continue / call with return, at least 3 states *)
Example C01_lower_nonvacuous :
  in_grammar ex_prog = true /\ Nat.leb 3 (length (lower ex_prog)) = true.
Proof. exact ex_prog_ok. Qed.
Print Assumptions C01_lower_nonvacuous.
