(** C01 - property theorems (statements only; proofs live in the model files) *)
From Coq Require Import ZArith NArith PArith List Bool.
From Cohdl Require Import Vhdl.Value Vhdl.Syntax Vhdl.Sem Equiv.Explore Equiv.VhdlTS Models.Coro.
Import ListNotations.

(** The per-program obligation is a proof for all input sequences of all lengths:
    if the reflective checker answers OK for the parsed design [d] and the
    reference semantics of program [p], their output traces coincide on every
    admissible input sequence. *)
Theorem C01_explore_sound :
  forall (d : design) (p : stmt) alphabet assume fuel inits,
    is_ok (vcheck d false (ref_step p) rstate_eqb rhash alphabet assume fuel inits) = true ->
    forall a b, In (a, b) inits ->
    forall ins, admissible (ref_step p) alphabet assume b ins ->
      traceA (vstep d false) a ins = traceB (ref_step p) b ins.
Proof. intros d p alphabet assume fuel inits. exact (vcheck_sound d false (ref_step p) rstate_eqb rstate_eqb_ok rhash alphabet assume fuel inits). Qed.
Print Assumptions C01_explore_sound.
