(** C01 - property theorems (statements only; proofs live in the library files) *)
From Coq Require Import ZArith NArith PArith List Bool.
From Cohdl Require Import Vhdl.Value Vhdl.Syntax Vhdl.Sem Vhdl.DefAssign Vhdl.DeadVars Equiv.Explore Equiv.VhdlTS Equiv.RefTS Equiv.Monitor Equiv.StoreTS Models.Coro.
Import ListNotations.

(** The per-program obligation is a proof for all input sequences of all lengths: if the reflective
    checker answers OK for the parsed design [d] and the reference semantics of program [p], their
    output traces coincide on every admissible input sequence. *)
Theorem C01_explore_sound :
  forall (d : design) (p : stmt) alphabet assume fuel,
    conc_all_ok (auto_Ts d) d = true ->
    is_ok (vcheck_s d false (ref_step p) rstate_eqb rhash alphabet assume fuel rinit) = true ->
    forall ins, admissible (ref_step p) alphabet assume rinit ins ->
      traceA (sstep d false) (power_up_s d) ins = traceB (ref_step p) rinit ins.
Proof. intros d p alphabet assume fuel. exact (vcheck_s_sound d false (ref_step p) rstate_eqb rstate_eqb_ok rhash alphabet assume fuel rinit). Qed.
Print Assumptions C01_explore_sound.

Theorem C01_normalisation_sound :
  forall T d mid, conc_all_ok T d = true -> forall ins s n, srel_s T s n ->
    traceA (sstep d mid) s ins = traceA (sstep_n d T mid) n ins.
Proof. exact norm_traces_s. Qed.
Print Assumptions C01_normalisation_sound.
