(** C04 - property theorems *)
From Coq Require Import ZArith NArith PArith List Bool.
From Cohdl Require Import Vhdl.Value Vhdl.Syntax Vhdl.Sem Vhdl.DefAssign Vhdl.DeadVars Equiv.Explore Equiv.VhdlTS Equiv.RefTS Equiv.Monitor Equiv.StoreTS Models.SeqRef Models.ResetRef Models.Coro Models.CoroReset.
Import ListNotations.

Theorem C04_case_sound :
  forall d mid stepB alphabet assume fuel initB,
    conc_all_ok (auto_Ts d) d = true ->
    is_ok (rcheck_s d mid stepB alphabet assume fuel initB) = true ->
    forall ins, admissible stepB alphabet assume initB ins ->
      traceA (sstep d mid) (power_up_s d) ins = traceB stepB initB ins.
Proof. exact rcheck_s_sound. Qed.
Print Assumptions C04_case_sound.

(** the explored system is the design with its dead compiler temporaries normalised after every
    clock; this theorem is what makes that exploration speak about the design itself *)
Theorem C04_normalisation_sound :
  forall T d mid, conc_all_ok T d = true -> forall ins s n, srel_s T s n ->
    traceA (sstep d mid) s ins = traceA (sstep_n d T mid) n ins.
Proof. exact norm_traces_s. Qed.
Print Assumptions C04_normalisation_sound.

(** reset returns the reference to its power-up behaviour from ANY state: after one step with
    the reset active, the state of the wrapped machine is a function of the declarations and of
    the non-resettable objects only *)
Theorem C04_reset_from_any_state :
  forall is_async active_low rs outs inner st1 st2 rv rest,
    xorb (vbit rv) active_low = true ->
    (forall k, nth k (apply_reset rs st1) 0%Z = nth k (apply_reset rs st2) 0%Z) ->
    fst (with_reset is_async active_low rs outs inner st1 (rv :: rest)) = apply_reset rs st1 /\
    fst (with_reset is_async active_low rs outs inner st2 (rv :: rest)) = apply_reset rs st2.
Proof. intros. unfold with_reset. rewrite H. split; reflexivity. Qed.
Print Assumptions C04_reset_from_any_state.

Theorem C04_coroutine_restarts :
  forall is_async active_low prog st rv rest,
    xorb (match rv with VL b => b | _ => false end) active_low = true ->
    fst (ref_step_rst is_async active_low prog st (rv :: rest)) = rinit.
Proof. intros. unfold ref_step_rst. rewrite H. reflexivity. Qed.
Print Assumptions C04_coroutine_restarts.
