(** C04 - property theorems *)
From Coq Require Import ZArith NArith PArith List Bool.
From Cohdl Require Import Vhdl.Value Vhdl.Syntax Vhdl.Sem Vhdl.DefAssign Vhdl.DeadVars Equiv.Explore Equiv.VhdlTS Equiv.RefTS Equiv.Monitor Equiv.StoreTS Models.SeqRef Models.ResetRef Models.Coro Models.CoroReset Models.Lower Models.LowerProofs Models.LowerReset Models.LowerResetProofs.
Import ListNotations.

Theorem C04_case_sound :
  forall d mid stepB alphabet assume fuel initB,
    conc_all_ok (auto_Ts d) d = true ->
    is_ok (rcheck_s d mid stepB alphabet assume fuel initB) = true ->
    forall ins, admissible stepB alphabet assume initB ins ->
      traceA (sstep d mid) (power_up_s d) ins = traceB stepB initB ins.
Proof. exact rcheck_s_sound. Qed.
Print Assumptions C04_case_sound.

(** the explored system is the design with its dead compiler temporaries normalised after every
    clock; this theorem is what makes that exploration speak about the design itself *)
Theorem C04_normalisation_sound :
  forall T d mid, conc_all_ok T d = true -> forall ins s n, srel_s T s n ->
    traceA (sstep d mid) s ins = traceA (sstep_n d T mid) n ins.
Proof. exact norm_traces_s. Qed.
Print Assumptions C04_normalisation_sound.

(** reset returns the reference to its power-up behaviour from ANY state: after one step with
    the reset active, the state of the wrapped machine is a function of the declarations and of
    the non-resettable objects only *)
Theorem C04_reset_from_any_state :
  forall is_async active_low rs outs inner st1 st2 rv rest,
    xorb (vbit rv) active_low = true ->
    (forall k, nth k (apply_reset rs st1) 0%Z = nth k (apply_reset rs st2) 0%Z) ->
    fst (with_reset is_async active_low rs outs inner st1 (rv :: rest)) = apply_reset rs st1 /\
    fst (with_reset is_async active_low rs outs inner st2 (rv :: rest)) = apply_reset rs st2.
Proof. intros. unfold with_reset. rewrite H. split; reflexivity. Qed.
Print Assumptions C04_reset_from_any_state.

Theorem C04_coroutine_restarts :
  forall is_async active_low prog st rv rest,
    xorb (match rv with VL b => b | _ => false end) active_low = true ->
    fst (ref_step_rst is_async active_low prog st (rv :: rest)) = rinit.
Proof. intros. unfold ref_step_rst. rewrite H. reflexivity. Qed.
Print Assumptions C04_coroutine_restarts.

(** ** reset of the lowered state machine, for ALL coroutine programs of [Lower.in_grammar]

    [mstepZ_rst is_async active_low rs m] is the machine [m] inside the reset clause the compiler emits
    ([if reset then <defaults>; s_proc <= state_0 else case s_proc ...], outside [rising_edge] for an
    asynchronous reset) over configurations [state; v; cnt; mark; wait counter]; [rs_with rw] = the three
    objects of the generated sources have the default 0 and none is noreset, [rw] is the declaration of the
    wait counter (Waiter: default Null; std.wait_for: a local signal without default, [r_rst = false]);
    [rs_all] = [rs_with] (reset to 0).  Both observation conventions of C04 (outputs before ++ after the edge;
    an asynchronous reset already visible before the edge) and both polarities are the parameters
    [is_async] / [active_low]. *)
Theorem C04_lower_rst_correct :
  forall (is_async active_low : bool) (p : stmt), in_grammar p = true ->
  forall ins, traceB (mstepZ_rst is_async active_low rs_all (lower p)) minitZ ins
            = traceB (ref_step_rst is_async active_low p) rinit ins.
Proof. exact lower_rst_correct. Qed.
Print Assumptions C04_lower_rst_correct.

(** any declaration and any power-up value of the wait counter *)
Theorem C04_lower_rst_correct_gen :
  forall (is_async active_low : bool) (rw : rdecl) (wc0 : Z) (p : stmt), in_grammar p = true ->
  forall ins, traceB (mstepZ_rst is_async active_low (rs_with rw) (lower p)) [0; 0; 0; 0; wc0]%Z ins
            = traceB (ref_step_rst is_async active_low p) rinit ins.
Proof. exact lower_rst_correct_gen. Qed.
Print Assumptions C04_lower_rst_correct_gen.

(** one clock with the reset active takes ANY configuration - any value of the state register (also one
    that names no state) and of the objects, reachable or not - to the power-up configuration (a wait
    counter without default keeps its value) ... *)
Theorem C04_lower_reset_from_any_config :
  forall is_async active_low rw m n v c k wc rv rest, active rv active_low = true ->
    fst (mstepZ_rst is_async active_low (rs_with rw) m [n; v; c; k; wc] (rv :: rest))
    = [0; 0; 0; 0; if r_rst rw then r_def rw else wc]%Z.
Proof. exact reset_from_any_config. Qed.
Print Assumptions C04_lower_reset_from_any_config.

Theorem C04_lower_reset_from_any_config_all :
  forall is_async active_low m n v c k wc rv rest, active rv active_low = true ->
    fst (mstepZ_rst is_async active_low rs_all m [n; v; c; k; wc] (rv :: rest)) = minitZ.
Proof. exact reset_from_any_config_all. Qed.
Print Assumptions C04_lower_reset_from_any_config_all.

(** ... so that behaviour after it is the power-up behaviour of the coroutine (restart from the first
    statement), also when the reset hit the middle of a wait_for whose counter is not reset *)
Theorem C04_lower_reset_then_powerup_trace :
  forall is_async active_low rw p, in_grammar p = true ->
  forall n v c k wc rv rest, active rv active_low = true ->
  forall ins,
    traceB (mstepZ_rst is_async active_low (rs_with rw) (lower p))
           (fst (mstepZ_rst is_async active_low (rs_with rw) (lower p) [n; v; c; k; wc] (rv :: rest))) ins
    = traceB (ref_step_rst is_async active_low p) rinit ins.
Proof. exact reset_then_powerup_trace. Qed.
Print Assumptions C04_lower_reset_then_powerup_trace.

(** arbitrary declarations [rs] (objects without default or marked noreset have [r_rst = false]): the
    state register returns to state 0, every object takes [apply_reset], i.e. its default if resettable
    and its old value otherwise; configurations that agree on the untouched objects are merged *)
Theorem C04_lower_reset_general :
  forall is_async active_low rs m n v c k wc rv rest, active rv active_low = true ->
    fst (mstepZ_rst is_async active_low rs m [n; v; c; k; wc] (rv :: rest)) = 0%Z :: apply_reset rs [v; c; k; wc].
Proof. exact mstepZ_rst_reset. Qed.
Print Assumptions C04_lower_reset_general.

Theorem C04_apply_reset_nth :
  forall rs st i d dr, (i < length rs)%nat -> (i < length st)%nat ->
    nth i (apply_reset rs st) d = if r_rst (nth i rs dr) then r_def (nth i rs dr) else nth i st d.
Proof. exact apply_reset_nth. Qed.
Print Assumptions C04_apply_reset_nth.

Theorem C04_lower_reset_merges_configs :
  forall is_async active_low rs m n1 v1 c1 k1 w1 n2 v2 c2 k2 w2 rv rest, active rv active_low = true ->
    apply_reset rs [v1; c1; k1; w1] = apply_reset rs [v2; c2; k2; w2] ->
    forall ins,
      traceB (mstepZ_rst is_async active_low rs m) (fst (mstepZ_rst is_async active_low rs m [n1; v1; c1; k1; w1] (rv :: rest))) ins
      = traceB (mstepZ_rst is_async active_low rs m) (fst (mstepZ_rst is_async active_low rs m [n2; v2; c2; k2; w2] (rv :: rest))) ins.
Proof. exact reset_merges_configs. Qed.
Print Assumptions C04_lower_reset_merges_configs.

(** non-vacuity: a grammar program (nested loops, call) and an unreachable configuration that an
    asynchronous active-low reset takes to power-up *)
Example C04_lower_reset_nonvacuous :
  in_grammar ex_prog = true /\
  fst (mstepZ_rst true true rs_all (lower ex_prog) [5; 3; 2; 9; 4]%Z [VL false; VL true; VL true]) = minitZ.
Proof. exact reset_example. Qed.
Print Assumptions C04_lower_reset_nonvacuous.
