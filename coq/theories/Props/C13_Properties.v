(** C13 - parametrised types are canonical and form the documented subtype lattice; views alias.
    Statements only; proofs are in Models/TyCacheProofs.v about the model Models/TyCache.v. *)
From Coq Require Import ZArith NArith PArith List Bool Lia.
Import ListNotations.
From Cohdl Require Import Models.TyCache Models.TyCacheProofs.
Import View.

(** For every sequence of first uses (any order, any length, any widths / element types / qualifier kinds /
    directions, malformed subscripts included): two subscripts return the identical class object iff they
    have equal parameters. *)
Theorem C13_canonical : forall ops st ids k1 k2 e1 e2 i j,
  run_ids st0 ops = (st, ids) ->
  nth_error ops k1 = Some e1 -> nth_error ops k2 = Some e2 ->
  nth_error ids k1 = Some (Some i) -> nth_error ids k2 = Some (Some j) ->
  (i = j <-> e1 = e2).
Proof. exact canonical. Qed.
Print Assumptions C13_canonical.

Example C13_canonical_nonvacuous :
  let ops := [TQ QPort (Some DIn) (PVec FU Down 3); TQ QSig None (PVec FU Down 3); TQ QPort (Some DIn) (PVec FU Down 3)] in
  exists st i j, run_ids st0 ops = (st, [Some i; Some j; Some i]) /\ i <> j.
Proof. eexists; eexists; eexists. split; [vm_compute; reflexivity | discriminate]. Qed.

(** a subscript is rejected iff a direction is given to a non-port or missing on a port *)
Theorem C13_accepted_iff : forall ops st ids k e oi,
  run_ids st0 ops = (st, ids) -> nth_error ops k = Some e -> nth_error ids k = Some oi ->
  (oi <> None <-> accepted e = true).
Proof. exact accepted_iff. Qed.
Print Assumptions C13_accepted_iff.

(** issubclass between any two returned classes, in the state after ANY history, is the documented relation
    (a pure function of the two type expressions).  Documented parameter space: integer widths. *)
Theorem C13_lattice : forall ops st ids k1 k2 a b i j,
  run_ids st0 ops = (st, ids) ->
  nth_error ops k1 = Some a -> nth_error ops k2 = Some b ->
  nth_error ids k1 = Some (Some i) -> nth_error ids k2 = Some (Some j) ->
  doc_params a = true -> doc_params b = true ->
  issub st i j = doc_lattice a b.
Proof. intros; eapply lattice; eassumption. Qed.
Print Assumptions C13_lattice.

Example C13_lattice_nonvacuous :
  let ops := [TQ QSig None (PVec FBV Down 4); TQ QPort (Some DOut) (PVec FS Down 4)] in
  exists st i j, run_ids st0 ops = (st, [Some i; Some j]) /\ issub st j i = true /\ issub st i j = false
                 /\ doc_params (TQ QPort (Some DOut) (PVec FS Down 4)) = true.
Proof. eexists; eexists; eexists. split; [vm_compute; reflexivity | repeat split; vm_compute; reflexivity]. Qed.

(** the same for UPTO shapes, where [doc_lattice] records what is coded: f[0:n-1] derives from the DOWNTO BitVector[n] *)
Theorem C13_lattice_upto_as_coded : forall ops st ids k1 k2 a b i j,
  run_ids st0 ops = (st, ids) ->
  nth_error ops k1 = Some a -> nth_error ops k2 = Some b ->
  nth_error ids k1 = Some (Some i) -> nth_error ids k2 = Some (Some j) ->
  issub st i j = doc_lattice a b.
Proof. exact lattice. Qed.
Print Assumptions C13_lattice_upto_as_coded.

Theorem C13_upto_base_is_downto :
  doc_lattice (TP (PVec FU Up 3)) (TP (PVec FBV Down 3)) = true /\
  doc_lattice (TP (PVec FU Up 3)) (TP (PVec FBV Up 3)) = false.
Proof. split; reflexivity. Qed.
Print Assumptions C13_upto_base_is_downto.

(** ... and between all classes present in the caches, implicitly created ones included *)
Theorem C13_lattice_all_cached : forall ops a b i j,
  cached (run st0 ops) a = Some i -> cached (run st0 ops) b = Some j ->
  issub (run st0 ops) i j = doc_lattice a b.
Proof. exact lattice_cached. Qed.
Print Assumptions C13_lattice_all_cached.

(** the closed form [doc_lattice] is exactly the reflexive transitive closure of the bases the code computes *)
Theorem C13_doc_lattice_is_closure : forall a b, nle (name_of a) (name_of b) = doc_lattice a b.
Proof. exact nle_doc. Qed.
Print Assumptions C13_doc_lattice_is_closure.

(** every port type is a (strict) subtype of the signal type of the same wrapped type, which exists whenever the port type does *)
Theorem C13_ports_are_signals : forall ops d p i,
  cached (run st0 ops) (TQ QPort (Some d) p) = Some i ->
  exists j, cached (run st0 ops) (TQ QSig None p) = Some j /\
            issub (run st0 ops) i j = true /\ issub (run st0 ops) j i = false.
Proof. exact ports_are_signals. Qed.
Print Assumptions C13_ports_are_signals.

Example C13_ports_are_signals_nonvacuous :
  exists i, cached (run st0 [TQ QPort (Some DInOut) (PArr (PVec FU Down 8) 4)]) (TQ QPort (Some DInOut) (PArr (PVec FU Down 8) 4)) = Some i.
Proof. eexists. vm_compute. reflexivity. Qed.

(** unrelated widths, kinds or qualifiers are never subclasses of each other *)
Theorem C13_unrelated_never_sub : forall ops q d f o w q' d' f' o' w' i j,
  cached (run st0 ops) (TQ q d (PVec f o w)) = Some i ->
  cached (run st0 ops) (TQ q' d' (PVec f' o' w')) = Some j ->
  issub (run st0 ops) i j = true ->
  w = w' /\ (f' = f /\ o' = o \/ f' = FBV /\ f <> FBV /\ o' = Down) /\
  (q' = q /\ d' = d \/ q = QPort /\ q' = QSig /\ d' = None).
Proof. exact unrelated_never_sub. Qed.
Print Assumptions C13_unrelated_never_sub.

Theorem C13_unrelated_prims_never_sub : forall ops f o w f' o' w' i j,
  cached (run st0 ops) (TP (PVec f o w)) = Some i ->
  cached (run st0 ops) (TP (PVec f' o' w')) = Some j ->
  issub (run st0 ops) i j = true ->
  w = w' /\ (f' = f /\ o' = o \/ f' = FBV /\ f <> FBV /\ o' = Down).
Proof. exact unrelated_prims_never_sub. Qed.
Print Assumptions C13_unrelated_prims_never_sub.

Example C13_unrelated_nonvacuous :
  let ops := [TQ QVar None (PVec FU Down 3); TQ QVar None (PVec FBV Down 3); TQ QVar None (PVec FU Down 2)] in
  exists i j k, cached (run st0 ops) (TQ QVar None (PVec FU Down 3)) = Some i /\
                cached (run st0 ops) (TQ QVar None (PVec FBV Down 3)) = Some j /\
                cached (run st0 ops) (TQ QVar None (PVec FU Down 2)) = Some k /\
                issub (run st0 ops) i j = true /\ issub (run st0 ops) k j = false.
Proof. eexists; eexists; eexists. repeat split; vm_compute; reflexivity. Qed.

(** views: any chain of .unsigned/.signed/.bitvector, slices, indices, iteration keeps root and qualifier ... *)
Theorem C13_views_root_qualifier : forall ch v v', derive v ch = Some v' -> vroot v' = vroot v /\ vq v' = vq v.
Proof. exact derive_root. Qed.
Print Assumptions C13_views_root_qualifier.

(** ... and a write through any view is seen through every other view of the same cells *)
Theorem C13_views_alias : forall id q f (st : store) ch1 ch2 v1 v2 bs,
  derive (root_view id q f (length st)) ch1 = Some v1 ->
  derive (root_view id q f (length st)) ch2 = Some v2 ->
  length bs = length (vcells v1) ->
  read (write st v1 bs) v2 =
    map (fun c => match pos_of c (vcells v1) with Some k => nth k bs false | None => nth c st false end) (vcells v2)
  /\ vroot v1 = id /\ vroot v2 = id /\ vq v1 = q /\ vq v2 = q.
Proof. exact views_alias. Qed.
Print Assumptions C13_views_alias.

Example C13_views_alias_nonvacuous :
  let st := [false; true; true; false; false; true; false; true] in
  let root := root_view 7 (QPort, Some DOut) FBV 8 in
  exists v1 v2, derive root [SU; SSlice 5 2; SBV; SIndex 1] = Some v1 /\ derive root [SSlice 7 2; SS] = Some v2 /\
                read st v2 = [true; false; false; true; false; true] /\
                read (write st v1 [true]) v2 = [true; true; false; true; false; true].
Proof. eexists; eexists. repeat split; vm_compute; reflexivity. Qed.

(** the compile-time address (_ref_spec) recorded for a view denotes exactly its storage cells - for EVERY chain of
    casts, slices, indices and iteration (true since fix 1fd038a: __iter__ keeps the offsets of enclosing slices;
    and 3cbec06: slices outside the vector are rejected) *)
Theorem C13_refspec : forall id q f w ch v,
  derive (root_view id q f w) ch = Some v ->
  (0 <= fst (resolve w (vspec v)))%Z /\
  vcells v = seq (Z.to_nat (fst (resolve w (vspec v))))
                 (Z.to_nat (snd (resolve w (vspec v)) - fst (resolve w (vspec v)) + 1)).
Proof. exact refspec_cells. Qed.
Print Assumptions C13_refspec.

Example C13_refspec_nonvacuous :
  exists v v', derive (root_view 0 (QSig, None) FBV 8) [SSlice 7 2; SSlice 3 1; SIter 0] = Some v /\
               derive (root_view 0 (QSig, None) FBV 8) [SSlice 7 2; SSlice 3 1; SIndex 0] = Some v' /\
               vcells v = [3] /\ vcells v' = [3] /\ resolve 8 (vspec v) = (3, 3)%Z /\ resolve 8 (vspec v') = (3, 3)%Z.
Proof. exact iter_equals_index. Qed.
