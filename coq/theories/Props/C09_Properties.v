(** * C09: compile-time evaluation of the primitives agrees with the emitted run-time logic.

    [py_bin current], [py_un] : the Python methods of the CURRENT tree (Models/Ops.v; [current] = round-0 code with the
      three applied C09 fixes: __rmul__, sub at the result width, exact truncdiv / rem; mul-by-int as coded);
    [rt_bin], [rt_un] : the value numeric_std computes for the operation the backend emits (Vhdl/NumStd.v).
    Every agreement theorem reads: whenever the fold yields a value and the emitted operation is defined on the operand
    values, the hardware value IS the folded value (type, width and value) - for all widths and all values.

    Remaining _partial / _refuted:
    - mul: numeric_std converts an integer factor to the width of the vector operand first, so a factor that is not
      representable at that width gives a different product (Unsigned[4](5) * 17 folds to 85, the hardware yields 5; the
      same for Signed and for either operand order).  [mul_guard Fixed Coded] = "the int factor is representable at the
      vector's width" is the exact guard.  Known finding (upstream tests pin the width of vector * out-of-range int).
      C09_mul_agrees_all_switches is the same statement for every setting of the two mul switches (with both patches
      the guard is [true]).
    - totality: only "implemented" (not NoImpl) is claimed, for the arithmetic-like operators on cohdl operand pairs;
      a fold may still reject by assertion (e.g. Signed[4](-8) / -1); Bit < Bit is defined in VHDL but not in Python.
    The round-0 refutations (sub at the rhs width, __rmul__, float division) are regression cases of harness/c09.py. *)
From Coq Require Import ZArith NArith List Bool Lia.
From Cohdl Require Import Base.Bits Vhdl.Value Vhdl.NumStd Models.Ops Models.OpsProofs.
Local Open Scope Z_scope.

Theorem C09_add_agrees : forall a b t v x, wf a -> wf b -> py_add a b = Value t v -> rt_bin PAdd a b = Ok x -> x = to_v (t, v).
Proof. exact add_agrees. Qed.
Print Assumptions C09_add_agrees.

Theorem C09_sub_agrees : forall a b t v x, wf a -> wf b ->
  py_bin current PSub a b = Value t v -> rt_bin PSub a b = Ok x -> x = to_v (t, v).
Proof. exact sub_agrees. Qed.
Print Assumptions C09_sub_agrees.

Theorem C09_mul_agrees_partial : forall a b t v x, wf a -> wf b -> mul_guard Fixed Coded a b = true ->
  py_bin current PMul a b = Value t v -> rt_bin PMul a b = Ok x -> x = to_v (t, v).
Proof. exact mul_agrees_current_partial. Qed.
Print Assumptions C09_mul_agrees_partial.

Theorem C09_mul_int_width_refuted : exists a b t v x,
  wf a /\ wf b /\ py_bin current PMul a b = Value t v /\ rt_bin PMul a b = Ok x /\ x <> to_v (t, v).
Proof. exact mul_int_width_refuted. Qed.
Print Assumptions C09_mul_int_width_refuted.

Theorem C09_mul_agrees_all_switches : forall mr m a b t v x, wf a -> wf b -> mul_guard mr m a b = true ->
  py_mul mr m a b = Value t v -> rt_bin PMul a b = Ok x -> x = to_v (t, v).
Proof. exact mul_agrees_partial. Qed.
Print Assumptions C09_mul_agrees_all_switches.

Theorem C09_truncdiv_agrees : forall a b t v x, wf a -> wf b ->
  py_bin current PTruncDiv a b = Value t v -> rt_bin PTruncDiv a b = Ok x -> x = to_v (t, v).
Proof. exact truncdiv_agrees. Qed.
Print Assumptions C09_truncdiv_agrees.

Theorem C09_floordiv_agrees : forall a b t v x, wf a -> wf b ->
  py_bin current PFloorDiv a b = Value t v -> rt_bin PFloorDiv a b = Ok x -> x = to_v (t, v).
Proof. exact floordiv_agrees_current. Qed.
Print Assumptions C09_floordiv_agrees.

Theorem C09_mod_agrees : forall a b t v x, wf a -> wf b -> py_mod a b = Value t v -> rt_bin PMod a b = Ok x -> x = to_v (t, v).
Proof. exact mod_agrees. Qed.
Print Assumptions C09_mod_agrees.

Theorem C09_rem_agrees : forall a b t v x, wf a -> wf b ->
  py_bin current PRem a b = Value t v -> rt_bin PRem a b = Ok x -> x = to_v (t, v).
Proof. exact rem_agrees. Qed.
Print Assumptions C09_rem_agrees.

Theorem C09_current_never_inexact : forall op a b, py_bin current op a b <> Inexact.
Proof. exact current_never_inexact. Qed.
Print Assumptions C09_current_never_inexact.

Theorem C09_methods_never_inexact : forall op a, py_un op a <> Inexact.
Proof. exact un_never_inexact. Qed.
Print Assumptions C09_methods_never_inexact.

Theorem C09_shl_agrees : forall a b t v x, wf a -> wf b -> py_shl a b = Value t v -> rt_bin PShl a b = Ok x -> x = to_v (t, v).
Proof. exact shl_agrees. Qed.
Print Assumptions C09_shl_agrees.

Theorem C09_shr_agrees : forall a b t v x, wf a -> wf b -> py_shr a b = Value t v -> rt_bin PShr a b = Ok x -> x = to_v (t, v).
Proof. exact shr_agrees. Qed.
Print Assumptions C09_shr_agrees.

Theorem C09_cmp_agrees : forall op a b t v x, wf a -> wf b ->
  py_cmp op a b = Value t v -> eval_binop op (to_v a) (to_v b) = Ok x ->
  (match op with OEq | ONe | OLt | OLe | OGt | OGe => True | _ => False end) -> x = to_v (t, v).
Proof. exact cmp_agrees. Qed.
Print Assumptions C09_cmp_agrees.

Theorem C09_concat_agrees : forall a b t v x, wf a -> wf b ->
  py_concat a b = Value t v -> rt_bin PConcat a b = Ok x -> x = to_v (t, v).
Proof. exact concat_agrees. Qed.
Print Assumptions C09_concat_agrees.

Theorem C09_logic_agrees : forall op a b t v x, wf a -> wf b ->
  py_logic op a b = Value t v -> logic op (to_v a) (to_v b) = Ok x -> x = to_v (t, v).
Proof. exact logic_agrees. Qed.
Print Assumptions C09_logic_agrees.

Theorem C09_neg_agrees : forall a t v x, wf a -> py_un MNeg a = Value t v -> rt_un MNeg a = Ok x -> x = to_v (t, v).
Proof. exact neg_agrees. Qed.
Print Assumptions C09_neg_agrees.

Theorem C09_abs_agrees : forall a t v x, wf a -> py_un MAbs a = Value t v -> rt_un MAbs a = Ok x -> x = to_v (t, v).
Proof. exact abs_agrees. Qed.
Print Assumptions C09_abs_agrees.

Theorem C09_inv_agrees : forall a t v x, wf a -> py_un MInv a = Value t v -> rt_un MInv a = Ok x -> x = to_v (t, v).
Proof. exact inv_agrees. Qed.
Print Assumptions C09_inv_agrees.

Theorem C09_view_agrees : forall op a t v x, wf a -> (op = MAsU \/ op = MAsS \/ op = MAsBV) ->
  py_un op a = Value t v -> rt_un op a = Ok x -> x = to_v (t, v).
Proof. exact view_agrees. Qed.
Print Assumptions C09_view_agrees.

Theorem C09_type_as_documented : forall c op a b t v, py_bin c op a b = Value t v ->
  match spec_ty op (fst a) (fst b) with
  | Some t' => t = t' \/ (t = TInt /\ t' = TPy) \/ (t = TPy /\ t' = TInt) \/ (op = PAnd \/ op = POr \/ op = PXor)
  | None => op = PAnd \/ op = POr \/ op = PXor \/ op = PEq \/ op = PNe
  end.
Proof. exact type_as_documented. Qed.
Print Assumptions C09_type_as_documented.

Theorem C09_fold_total_where_runtime_defined_partial : forall c op a b x,
  arith_like op = true -> cohdl_operands a b = true -> signed_count op b = false ->
  rt_bin op a b = Ok x -> py_bin c op a b <> NoImpl.
Proof. exact fold_total_partial. Qed.
Print Assumptions C09_fold_total_where_runtime_defined_partial.

Theorem C09_fold_total_refuted : exists op a b x, rt_bin op a b = Ok x /\ py_bin current op a b = NoImpl.
Proof. exact fold_total_refuted. Qed.
Print Assumptions C09_fold_total_refuted.

(** non-vacuity: the hypotheses of the implications above are satisfiable with both sides defined *)
Theorem C09_add_nonvacuous : exists a b t v x, wf a /\ wf b /\ py_add a b = Value t v /\ rt_bin PAdd a b = Ok x.
Proof. exact add_nonvacuous. Qed.
Print Assumptions C09_add_nonvacuous.

Theorem C09_sub_nonvacuous : exists a b t v x, wf a /\ wf b /\ py_bin current PSub a b = Value t v /\ rt_bin PSub a b = Ok x.
Proof. exact sub_nonvacuous. Qed.
Print Assumptions C09_sub_nonvacuous.

Theorem C09_mul_nonvacuous : exists a b t v x,
  wf a /\ wf b /\ mul_guard Fixed Coded a b = true /\ py_bin current PMul a b = Value t v /\ rt_bin PMul a b = Ok x.
Proof. exact mul_nonvacuous. Qed.
Print Assumptions C09_mul_nonvacuous.

Theorem C09_truncdiv_nonvacuous : exists a b t v x,
  wf a /\ wf b /\ py_bin current PTruncDiv a b = Value t v /\ rt_bin PTruncDiv a b = Ok x.
Proof. exact truncdiv_nonvacuous. Qed.
Print Assumptions C09_truncdiv_nonvacuous.

Theorem C09_floordiv_nonvacuous : exists a b t v x,
  wf a /\ wf b /\ py_bin current PFloorDiv a b = Value t v /\ rt_bin PFloorDiv a b = Ok x.
Proof. exact floordiv_nonvacuous. Qed.
Print Assumptions C09_floordiv_nonvacuous.

Theorem C09_mod_nonvacuous : exists a b t v x, wf a /\ wf b /\ py_mod a b = Value t v /\ rt_bin PMod a b = Ok x.
Proof. exact mod_nonvacuous. Qed.
Print Assumptions C09_mod_nonvacuous.

Theorem C09_rem_nonvacuous : exists a b t v x, wf a /\ wf b /\ py_bin current PRem a b = Value t v /\ rt_bin PRem a b = Ok x.
Proof. exact rem_nonvacuous. Qed.
Print Assumptions C09_rem_nonvacuous.

Theorem C09_shl_nonvacuous : exists a b t v x, wf a /\ wf b /\ py_shl a b = Value t v /\ rt_bin PShl a b = Ok x.
Proof. exact shl_nonvacuous. Qed.
Print Assumptions C09_shl_nonvacuous.

Theorem C09_shr_nonvacuous : exists a b t v x, wf a /\ wf b /\ py_shr a b = Value t v /\ rt_bin PShr a b = Ok x.
Proof. exact shr_nonvacuous. Qed.
Print Assumptions C09_shr_nonvacuous.

Theorem C09_cmp_nonvacuous : exists a b t v x,
  wf a /\ wf b /\ py_cmp OLt a b = Value t v /\ eval_binop OLt (to_v a) (to_v b) = Ok x.
Proof. exact cmp_nonvacuous. Qed.
Print Assumptions C09_cmp_nonvacuous.

Theorem C09_concat_nonvacuous : exists a b t v x, wf a /\ wf b /\ py_concat a b = Value t v /\ rt_bin PConcat a b = Ok x.
Proof. exact concat_nonvacuous. Qed.
Print Assumptions C09_concat_nonvacuous.

Theorem C09_logic_nonvacuous : exists a b t v x,
  wf a /\ wf b /\ py_logic OXor a b = Value t v /\ logic OXor (to_v a) (to_v b) = Ok x.
Proof. exact logic_nonvacuous. Qed.
Print Assumptions C09_logic_nonvacuous.

Theorem C09_neg_nonvacuous : exists a t v x, wf a /\ py_un MNeg a = Value t v /\ rt_un MNeg a = Ok x.
Proof. exact neg_nonvacuous. Qed.
Print Assumptions C09_neg_nonvacuous.

Theorem C09_abs_nonvacuous : exists a t v x, wf a /\ py_un MAbs a = Value t v /\ rt_un MAbs a = Ok x.
Proof. exact abs_nonvacuous. Qed.
Print Assumptions C09_abs_nonvacuous.

Theorem C09_inv_nonvacuous : exists a t v x, wf a /\ py_un MInv a = Value t v /\ rt_un MInv a = Ok x.
Proof. exact inv_nonvacuous. Qed.
Print Assumptions C09_inv_nonvacuous.

Theorem C09_view_nonvacuous : exists a t v x, wf a /\ py_un MAsS a = Value t v /\ rt_un MAsS a = Ok x.
Proof. exact view_nonvacuous. Qed.
Print Assumptions C09_view_nonvacuous.

Theorem C09_total_nonvacuous : exists op a b x,
  arith_like op = true /\ cohdl_operands a b = true /\ signed_count op b = false /\ rt_bin op a b = Ok x.
Proof. exact total_nonvacuous. Qed.
Print Assumptions C09_total_nonvacuous.

