(** * C09: compile-time evaluation of primitives agrees with the emitted run-time logic *)
From Coq Require Import ZArith NArith List Bool Lia.
From Cohdl Require Import Base.Bits Vhdl.Value Vhdl.NumStd Models.Ops Models.OpsProofs.
Local Open Scope Z_scope.

Theorem C09_placeholder : True. Proof. exact placeholder. Qed.
Print Assumptions C09_placeholder.
