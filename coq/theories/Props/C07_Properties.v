From Coq Require Import ZArith NArith PArith List Bool.
From Cohdl Require Import Models.Usage Models.UsageProofs.

Theorem C07_check_refuted : exists D root, check D = Accept /\ drivers D root = 2.
Proof. exact check_refuted. Qed.
Print Assumptions C07_check_refuted.
