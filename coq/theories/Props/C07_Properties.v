(** C07 - One driver per signal: conflicts rejected, accepted designs conflict-free. *)
From Coq Require Import ZArith NArith PArith List Bool Permutation.
From Cohdl Require Import Vhdl.Value Vhdl.NumStd Vhdl.Syntax Vhdl.Sem Vhdl.Drivers Models.Usage Models.UsageProofs.

(** the usage check of the CURRENT tree ([check]: the always block is a context of its own, variables are
    rejected inside it, instance outputs may not drive input ports - fix commits 8d3d526, 615f499, f68d635) *)
Theorem C07_check_sound : forall D, check D = Accept ->
  forall root, drivers D root <= 1 /\ (is_var_or_temp D root -> users D root <= 1) /\ no_input_written D.
Proof. exact check_sound. Qed.
Print Assumptions C07_check_sound.

Example C07_check_sound_nonvacuous :
  check sample_ok = Accept /\ check_old sample_ok = Accept
  /\ drivers sample_ok 2 = 1 /\ drivers sample_ok 6 = 1 /\ users sample_ok 3 = 1.
Proof. exact check_sound_nonvacuous. Qed.
Print Assumptions C07_check_sound_nonvacuous.

(** the converse reading: a conflicting design is rejected *)
Theorem C07_check_complete : forall D root,
  1 < drivers D root \/ 1 < users D root \/ no_input_writtenb D = false -> check D <> Accept.
Proof. exact check_complete. Qed.
Print Assumptions C07_check_complete.

Example C07_check_complete_nonvacuous :
  1 < drivers witness 1 /\ 1 < users witness_var 2 /\ no_input_writtenb witness_inst = false.
Proof. exact check_complete_nonvacuous. Qed.
Print Assumptions C07_check_complete_nonvacuous.

(** the executable spec evaluated by the harness on every placement is implied by acceptance *)
Theorem C07_accept_conflict_free : forall D, check D = Accept -> conflict_freeb D = true.
Proof. exact check_conflict_free. Qed.
Print Assumptions C07_accept_conflict_free.

(** no over-rejection: conflict free + the context-local rules of ConvertInstance (no variable in a concurrent
    context / always block, temporaries written before read) => accepted *)
Theorem C07_check_exact : forall D,
  (forall root, drivers D root <= 1 /\ users D root <= 1) -> no_input_written D ->
  locally_ok Current D = true -> check D = Accept.
Proof. exact check_exact. Qed.
Print Assumptions C07_check_exact.

Example C07_check_exact_nonvacuous :
  (forall root, drivers sample_ok root <= 1 /\ users sample_ok root <= 1) /\ locally_ok Current sample_ok = true.
Proof. exact check_exact_nonvacuous. Qed.
Print Assumptions C07_check_exact_nonvacuous.

(** regressions: the three designs the OLD discipline accepted (always-block writer + enclosing body, variable read
    by an always block, instance output on an input port) are rejected by the current check ... *)
Example C07_check_rejects_witnesses :
  check witness = Reject RMultiWrite /\ check witness_var = Reject RVarInConc
  /\ check witness_inst = Reject RInputWritten.
Proof. exact check_rejects_witnesses. Qed.
Print Assumptions C07_check_rejects_witnesses.

(** ... and were accepted by the old one, for which the soundness statement is false *)
Example C07_old_discipline_refuted : exists D root, check_old D = Accept /\ drivers D root = 2.
Proof. exact check_old_refuted. Qed.
Print Assumptions C07_old_discipline_refuted.

Example C07_old_discipline_refuted_users : exists D root, check_old D = Accept /\ users D root = 2.
Proof. exact check_old_refuted_users. Qed.
Print Assumptions C07_old_discipline_refuted_users.

Example C07_old_discipline_refuted_input : exists D, check_old D = Accept /\ no_input_writtenb D = false.
Proof. exact check_old_refuted_input. Qed.
Print Assumptions C07_old_discipline_refuted_input.

(** emitted text: under [single_driver d = true] one delta cycle of [Sem] - the variable store threaded through
    the processes, the committed signal store, the set of changed signals - does not depend on the order in which
    the concurrent statements are listed (stores compared extensionally, two runs that both end in a run-time error
    are identified).  Covers different statements assigning disjoint static slices / elements of ONE signal. *)
Theorem C07_single_driver_sound : forall d cs' sg vr ev init,
  single_driver d = true -> Permutation d.(d_conc) cs' ->
  delta_equiv (delta (prepare d.(d_conc)) sg vr ev init) (delta (prepare cs') sg vr ev init).
Proof. exact single_driver_sound. Qed.
Print Assumptions C07_single_driver_sound.

(** the commit half on its own: whatever variable stores the statements ran with, their write lists can be handed
    to [Sem.commit] in any statement order *)
Theorem C07_single_driver_commit_sound : forall d sg ev wss wss',
  drivers_disjoint d = true ->
  Forall2 (fun c ws => exists vr0 vr1, run_conc sg vr0 ev c = Ok (vr1, ws)) d.(d_conc) wss ->
  Permutation wss wss' ->
  res_equiv (commit sg (List.concat wss)) (commit sg (List.concat wss')).
Proof. exact single_driver_commit_sound. Qed.
Print Assumptions C07_single_driver_commit_sound.

(** the frame property of the variable store: a statement only reads and writes its own variables *)
Theorem C07_run_conc_frame : forall (P : positive -> Prop) sg ev a b c,
  (forall x, In x (conc_vars c) -> P x) -> agree P a b ->
  out_rel P (run_conc sg a ev c) (run_conc sg b ev c).
Proof. exact run_conc_agree. Qed.
Print Assumptions C07_run_conc_frame.

(** the bit-level core: writes to disjoint ranges of a vector commute *)
Theorem C07_setslice_comm : forall v lo1 n1 x lo2 n2 y, (lo1 + n1 <= lo2 \/ lo2 + n2 <= lo1)%N ->
  Bits.setslice (Bits.setslice v lo1 n1 x) lo2 n2 y = Bits.setslice (Bits.setslice v lo2 n2 y) lo1 n1 x.
Proof. exact setslice_comm. Qed.
Print Assumptions C07_setslice_comm.

(** the two-statement swap lemma and its lift, on write lists *)
Theorem C07_commit_swap : forall a b rest, blocks_disjoint a b ->
  forall s, res_equiv (commit s (a ++ b ++ rest)) (commit s (b ++ a ++ rest)).
Proof. exact commit_swap_blocks. Qed.
Print Assumptions C07_commit_swap.

Theorem C07_commit_perm : forall wss wss' s,
  tagged_disjoint (tag_from 0 wss) -> Permutation wss wss' ->
  res_equiv (commit s (List.concat wss)) (commit s (List.concat wss')).
Proof. exact commit_perm. Qed.
Print Assumptions C07_commit_perm.

Example C07_single_driver_nonvacuous :
  exists d, single_driver d = true /\ single_driver_roots d = false.
Proof. exact single_driver_nonvacuous. Qed.
Print Assumptions C07_single_driver_nonvacuous.

(** ... and the check does reject: a second driver reading a process variable, overlapping scalars, a run-time
    index next to another statement, an assigned [in] port *)
Example C07_single_driver_rejects :
  single_driver example_design = true /\ single_driver_roots example_design = false
  /\ single_driver (with_conc example_design (CAssign 3 nil (EVar 1) :: example_design.(d_conc))) = false
  /\ drivers_disjoint (with_conc example_design (CAssign 2 (SelSlice 3 1 :: nil) (ELit (VV KSlv 3 1)) :: CAssign 2 (SelIdx (ELit (VI 1)) :: nil) (ESig 3) :: nil)) = false
  /\ drivers_disjoint (with_conc example_design (CAssign 2 (SelIdx (EF1 FToInteger (ESig 2)) :: nil) (ESig 3) :: CAssign 2 (SelIdx (ELit (VI 1)) :: nil) (ESig 3) :: nil)) = false
  /\ no_in_port_assigned (with_conc example_design (CAssign 1 nil (ESig 3) :: nil)) = false.
Proof. exact single_driver_examples. Qed.
Print Assumptions C07_single_driver_rejects.
