(** * C18 - std combinational helpers compute their mathematical definition

    Models: Models/Helpers.v (tied to /repo/cohdl/std/_core_utility.py and _crc.py by harness/c18.py on every run);
    proofs: Models/HelpersProofs.v.  Bit vectors are [list bool], LSB first; [None] = the helper raises.
    Every theorem is for ALL widths / list lengths / batch sizes / values. *)
From Coq Require Import ZArith NArith List Bool Lia.
Import ListNotations.
From Cohdl Require Import Base.Bits Models.Helpers Models.HelpersProofs.

(** ** folds *)

(** binary_fold (left) is the sequential left fold, for every operator *)
Theorem C18_binary_fold_spec : forall (A : Type) (f : A -> A -> A) x rest,
  binary_fold f false (x :: rest) = Some (fold_left f rest x).
Proof. intros; apply binary_fold_left_spec. Qed.
Print Assumptions C18_binary_fold_spec.

(** binary_fold in both directions equals the left fold for associative operators *)
Theorem C18_binary_fold_assoc : forall (A : Type) (f : A -> A -> A),
  (forall a b c, f (f a b) c = f a (f b c)) ->
  forall right x rest, binary_fold f right (x :: rest) = Some (fold_left f rest x).
Proof. intros; apply binary_fold_assoc; assumption. Qed.
Print Assumptions C18_binary_fold_assoc.

(** batched_fold, any batch size >= 1 and any number of operands, equals the left fold for associative operators *)
Theorem C18_batched_fold_assoc : forall (A : Type) (f : A -> A -> A),
  (forall a b c, f (f a b) c = f a (f b c)) ->
  forall bs x rest, (1 <= bs)%nat -> batched_fold f bs (x :: rest) = Some (fold_left f rest x).
Proof. intros; apply batched_fold_assoc; assumption. Qed.
Print Assumptions C18_batched_fold_assoc.

(** non-vacuity: an associative, non-commutative operator; 7 operands, batch size 3 *)
Example C18_batched_fold_assoc_nonvacuous :
  (forall a b c : list nat, (a ++ b) ++ c = a ++ (b ++ c)) /\
  batched_fold (@app nat) 3 [[1];[2];[3];[4];[5];[6];[7]]%nat = Some [1;2;3;4;5;6;7]%nat.
Proof. split; [intros; symmetry; apply app_assoc|vm_compute; reflexivity]. Qed.

(** _batch_args partitions its argument *)
Theorem C18_batch_args_spec : forall (A : Type) bs (l : list A), (1 <= bs)%nat -> concat (batch_args bs l) = l.
Proof. intros; apply batch_args_concat; assumption. Qed.
Print Assumptions C18_batch_args_spec.

(** ** concat / reverse_bits / repeat / stretch / pads *)

Theorem C18_concat_spec : forall xs, xs <> [] -> concat_m xs = Some (concat_spec xs).
Proof. exact concat_m_spec. Qed.
Print Assumptions C18_concat_spec.

Theorem C18_reverse_bits_spec : forall v, v <> [] -> reverse_bits_m v = Some (rev v).
Proof. exact reverse_bits_m_spec. Qed.
Print Assumptions C18_reverse_bits_spec.

Theorem C18_repeat_spec : forall v times, (1 <= times)%nat -> repeat_m v times = Some (repeat_spec v times).
Proof. exact repeat_m_spec. Qed.
Print Assumptions C18_repeat_spec.

Theorem C18_stretch_spec : forall v factor,
  v <> [] -> (1 <= factor)%nat -> stretch_m false v factor = Some (stretch_spec v factor).
Proof. exact stretch_m_vector_spec. Qed.
Print Assumptions C18_stretch_spec.

Theorem C18_stretch_bit_spec : forall b factor, (1 <= factor)%nat -> stretch_m true [b] factor = Some (repeat b factor).
Proof. exact stretch_m_bit_spec. Qed.
Print Assumptions C18_stretch_bit_spec.

Theorem C18_leftpad_spec : forall inp rw fill,
  (length inp <= rw)%nat -> leftpad_m inp rw fill = Some (leftpad_spec inp rw fill).
Proof. exact leftpad_m_spec. Qed.
Print Assumptions C18_leftpad_spec.

Theorem C18_rightpad_spec : forall inp rw fill,
  (length inp <= rw)%nat -> rightpad_m inp rw fill = Some (rightpad_spec inp rw fill).
Proof. exact rightpad_m_spec. Qed.
Print Assumptions C18_rightpad_spec.

Theorem C18_pad_spec : forall inp left right fill, pad_m inp left right fill = Some (pad_spec inp left right fill).
Proof. exact pad_m_spec. Qed.
Print Assumptions C18_pad_spec.

Example C18_pad_nonvacuous : (length [true; false] <= 5)%nat /\ leftpad_m [true; false] 5 true = Some [true; false; true; true; true].
Proof. split; [cbn; lia|vm_compute; reflexivity]. Qed.

(** ** rotations (index permutations) and shift-with-fill *)

Theorem C18_rol_spec : forall v n, (n <= length v)%nat -> rol_m v n = Some (rol_spec v n).
Proof. exact rol_m_spec. Qed.
Print Assumptions C18_rol_spec.

Theorem C18_ror_spec : forall v n, (n <= length v)%nat -> ror_m v n = Some (ror_spec v n).
Proof. exact ror_m_spec. Qed.
Print Assumptions C18_ror_spec.

Example C18_rol_nonvacuous : (1 <= length [true; false; false])%nat /\ rol_m [true; false; false] 1 = Some [false; true; false].
Proof. split; [cbn; lia|vm_compute; reflexivity]. Qed.

Theorem C18_lshift_fill_spec : forall val fill,
  (length fill <= length val)%nat -> lshift_fill_m val fill = Some (lshift_fill_spec val fill).
Proof. exact lshift_fill_m_spec. Qed.
Print Assumptions C18_lshift_fill_spec.

Theorem C18_rshift_fill_spec : forall val fill,
  (length fill <= length val)%nat -> rshift_fill_m val fill = Some (rshift_fill_spec val fill).
Proof. exact rshift_fill_m_spec. Qed.
Print Assumptions C18_rshift_fill_spec.

(** ** masks *)

Theorem C18_apply_mask_spec : forall old new mask,
  length old = length new -> length old = length mask ->
  apply_mask_m old new mask = Some (apply_mask_spec old new mask).
Proof. exact apply_mask_m_spec. Qed.
Print Assumptions C18_apply_mask_spec.

Theorem C18_Mask_as_vector_spec : forall m w,
  match m with MVec v => length v = w | _ => True end ->
  mask_as_vector_m m w = Some (mask_as_vector_spec m w).
Proof. exact mask_as_vector_m_spec. Qed.
Print Assumptions C18_Mask_as_vector_spec.

(** ** counting: widening adders + final truncation never lose a carry *)

Theorem C18_count_spec : forall flags, count_m flags = Some (count_spec flags).
Proof. exact count_m_spec. Qed.
Print Assumptions C18_count_spec.

Theorem C18_count_set_bits_spec : forall vector bs,
  vector <> [] -> (1 <= bs)%nat -> count_set_bits_m vector bs = Some (count_set_bits_spec vector).
Proof. exact count_set_bits_m_spec. Qed.
Print Assumptions C18_count_set_bits_spec.

Theorem C18_count_clear_bits_spec : forall vector bs,
  vector <> [] -> (1 <= bs)%nat -> count_clear_bits_m vector bs = Some (count_clear_bits_spec vector).
Proof. exact count_clear_bits_m_spec. Qed.
Print Assumptions C18_count_clear_bits_spec.

Example C18_count_set_bits_nonvacuous :
  count_set_bits_m (B 13 5501) 3 = Some (4%nat, 9%Z) /\ count_set_bits_spec (B 13 5501) = (4%nat, 9%Z).
Proof. split; vm_compute; reflexivity. Qed.

(** ** minimum / maximum (and, through them, min_element/max_element/min_index/max_index) *)

(** for every strict weak order [cmp]: the reversed tree reduction equals the sequential scan in which
    an element replaces the current best only if it is strictly better (so the first extremum wins) *)
Theorem C18_minimum_spec : forall (E K : Type) (cmp : K -> K -> bool) (key : E -> K),
  (forall a b c, cmp a b = true -> cmp b c = true -> cmp a c = true) ->
  (forall a b c, cmp a b = false -> cmp b c = false -> cmp a c = false) ->
  forall x rest, minimum_m cmp key (x :: rest) = Some (minimum_spec cmp key x (x :: rest)).
Proof. intros; apply minimum_m_spec; assumption. Qed.
Print Assumptions C18_minimum_spec.

Example C18_minimum_nonvacuous :
  (forall a b c, (a <? b)%Z = true -> (b <? c)%Z = true -> (a <? c)%Z = true) /\
  (forall a b c, (a <? b)%Z = false -> (b <? c)%Z = false -> (a <? c)%Z = false) /\
  (forall a b c, (a >? b)%Z = true -> (b >? c)%Z = true -> (a >? c)%Z = true) /\
  (forall a b c, (a >? b)%Z = false -> (b >? c)%Z = false -> (a >? c)%Z = false) /\
  min_element_m Z.ltb (fun x : Z => x) [5; 2; 7; 2; 9]%Z = Some (1%nat, 2%Z).
Proof.
  split; [exact ltb_trans|]. split; [exact ltb_negtrans|]. split; [exact gtb_trans|]. split; [exact gtb_negtrans|].
  vm_compute; reflexivity.
Qed.

(** ** clamp, choose_first, count_elements_while/until, leading/trailing counts, one_hot *)

Theorem C18_clamp_spec : forall val low high,
  (low <= high)%Z -> clamp_m None val low high = Some (clamp_spec val low high).
Proof. exact clamp_m_spec. Qed.
Print Assumptions C18_clamp_spec.

Theorem C18_clamp_ranged_spec : forall lo hi val low high,
  (lo <= low <= hi)%Z -> (lo <= high <= hi)%Z -> (low <= high)%Z ->
  clamp_m (Some (lo, hi)) val low high = Some (clamp_spec val low high).
Proof. exact clamp_m_spec_ranged. Qed.
Print Assumptions C18_clamp_ranged_spec.

Example C18_clamp_nonvacuous : (0 <= 2 <= 15)%Z /\ (0 <= 7 <= 15)%Z /\ (2 <= 7)%Z /\ clamp_m (Some (0, 15)%Z) 9 2 7 = Some 7%Z.
Proof. repeat split; try lia; vm_compute; congruence. Qed.

Theorem C18_choose_first_spec : forall (A : Type) (args : list (bool * A)) d, first_impl args d = choose_first_spec args d.
Proof. intros; apply first_impl_spec. Qed.
Print Assumptions C18_choose_first_spec.

Theorem C18_count_elements_while_spec : forall flags, count_elements_while_m flags = count_elements_while_spec flags.
Proof. exact count_elements_while_m_spec. Qed.
Print Assumptions C18_count_elements_while_spec.

Theorem C18_count_elements_until_spec : forall flags, count_elements_until_m flags = count_elements_until_spec flags.
Proof. exact count_elements_until_m_spec. Qed.
Print Assumptions C18_count_elements_until_spec.

Theorem C18_count_trailing_spec : forall b v, count_trailing_m b v = count_trailing_spec b v.
Proof. exact count_trailing_m_spec. Qed.
Print Assumptions C18_count_trailing_spec.

Theorem C18_count_leading_spec : forall b v, v <> [] -> count_leading_m b v = Some (count_leading_spec b v).
Proof. exact count_leading_m_spec. Qed.
Print Assumptions C18_count_leading_spec.

Theorem C18_one_hot_spec : forall w pos, (pos < w)%nat -> one_hot_m w pos = Some (one_hot_spec w pos).
Proof. exact one_hot_m_spec. Qed.
Print Assumptions C18_one_hot_spec.

(** ** CRC *)

(** feeding several bits in one step (update_multiple / _calc_steps) equals iterating the single-bit update *)
Theorem C18_crc_multi_equals_iterated_single : forall poly steps reg,
  Forall (fun s => s <> []) steps ->
  crc_run_multi poly reg steps = Some (fold_left (crc_step poly) (concat steps) reg).
Proof. intros; apply crc_run_multi_spec; assumption. Qed.
Print Assumptions C18_crc_multi_equals_iterated_single.

Example C18_crc_multi_nonvacuous :
  Forall (fun s : list bool => s <> []) [[true]; [false; true]] /\
  crc_run_multi (B 4 3) (B 4 15) [[true]; [true; false]] = Some (B 4 11).
Proof. split; [repeat constructor; discriminate|vm_compute; reflexivity]. Qed.

(** the register after feeding [msg] (first bit = highest coefficient) from [init] is the remainder of
    init * x^len(msg) + msg * x^n  divided by the generator x^n + poly(x), computed by schoolbook long division *)
Theorem C18_crc_is_poly_remainder : forall poly init msg,
  length poly = length init -> init <> [] ->
  fold_left (crc_step poly) msg init = crc_spec poly init msg.
Proof. exact crc_is_poly_remainder. Qed.
Print Assumptions C18_crc_is_poly_remainder.

(** non-vacuity: CRC-8 (poly 0x07, init 0) of the ASCII string "123456789" is 0xF4, by the division and by the register *)
Example C18_crc_check_value :
  let msg := [false;false;true;true;false;false;false;true;false;false;true;true;false;false;true;false;false;false;true;true;false;false;true;true;false;false;true;true;false;true;false;false;false;false;true;true;false;true;false;true;false;false;true;true;false;true;true;false;false;false;true;true;false;true;true;true;false;false;true;true;true;false;false;false;false;false;true;true;true;false;false;true] in
  length (B 8 7) = length (B 8 0) /\ B 8 0 <> [] /\
  crc_spec (B 8 7) (B 8 0) msg = B 8 244 /\ fold_left (crc_step (B 8 7)) msg (B 8 0) = B 8 244.
Proof. vm_compute. repeat split; try reflexivity. discriminate. Qed.

(** the index returned by min_element (hence min_index) is the first position whose key is minimal *)
Theorem C18_first_extremum_wins : forall (E : Type) (key : E -> Z) (xs : list E) i e,
  min_element_m Z.ltb key xs = Some (i, e) ->
  nth_error xs i = Some e /\
  (forall j y, nth_error xs j = Some y -> (key e <= key y)%Z) /\
  (forall j y, (j < i)%nat -> nth_error xs j = Some y -> (key e < key y)%Z).
Proof. intros E key xs i e; apply first_extremum_wins. Qed.
Print Assumptions C18_first_extremum_wins.

Example C18_first_extremum_wins_nonvacuous :
  min_element_m Z.ltb (fun x : Z * Z => snd x) [(0, 5); (1, 2); (2, 7); (3, 2)]%Z = Some (1%nat, (1, 2)%Z).
Proof. vm_compute; reflexivity. Qed.

(** batched: the k-th batch is the slice of bits [k*n, min((k+1)*n, width)) *)
Theorem C18_batched_spec : forall input n partial,
  (1 <= n)%nat -> ((length input mod n = 0)%nat \/ partial = true) ->
  batched_m input n partial = Some (batched_spec input n).
Proof. exact batched_m_spec. Qed.
Print Assumptions C18_batched_spec.

Example C18_batched_nonvacuous :
  (1 <= 3)%nat /\ batched_m (B 7 83) 3 true = Some [B 3 3; B 3 2; B 1 1].
Proof. split; [lia|vm_compute; reflexivity]. Qed.

Theorem C18_select_spec : forall (A : Type) arg (branches : list (Z * A)) d,
  select_m arg branches d =
  match find (fun kv : Z * A => (fst kv =? arg)%Z) branches with Some kv => snd kv | None => d end.
Proof. intros; apply select_m_spec. Qed.
Print Assumptions C18_select_spec.
