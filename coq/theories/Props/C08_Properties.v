(** * C08 - Intermediate values are written before read within every activation *)
From Coq Require Import PArith List Bool.
Import ListNotations.
From Cohdl Require Import Vhdl.Value Vhdl.Syntax Vhdl.Sem Vhdl.DefAssign Models.Temps Models.TempsProofs.

(** the CaseWhen arm of search_invalid_temporaries AS CODED accepts a tree with an undefined read *)
Theorem C08_search_refuted :
  exists t, wf_block t = true /\ search_invalid [] t = Accept /\ ~ def_before_use [] t.
Proof. exact search_refuted. Qed.
Print Assumptions C08_search_refuted.

(** ... and with the corrected CaseWhen arm (intersection over all branches and the default; nothing without
    a default) the check is sound for trees of any shape and depth: every accepted tree has, on every
    execution path, a write before every read of a temporary (not flagged maybe-uninitialized) *)
Theorem C08_search_sound : forall MU t, wf_block t = true ->
  search_invalid_fixed MU t = Accept -> def_before_use MU t.
Proof. exact search_fixed_sound. Qed.
Print Assumptions C08_search_sound.

Example C08_search_sound_nonvacuous :
  let d := SExpr false [OOther] (OTemp 1) in
  let t := BCons (SCase OOther (BrCons OOther (BCons d BNil) (BrCons OOther (BCons d BNil) BrNil)) true (BCons d BNil))
           (BCons (SOther [OTemp 1]) BNil) in
  wf_block t = true /\ search_invalid_fixed [] t = Accept /\ search_invalid_fixed [] match_witness = RejInvalid.
Proof. vm_compute. repeat split. Qed.
Print Assumptions C08_search_sound_nonvacuous.

Theorem C08_states_sound : forall sts, check_states sts = true ->
  forall s, In s sts -> forall pre x post, lin_block s = pre ++ AR (OTemp x) :: post -> In (AW (OTemp x)) pre.
Proof. exact states_sound. Qed.
Print Assumptions C08_states_sound.

Example C08_states_nonvacuous :
  check_states [BCons (SExpr false [OOther] (OTemp 1)) (BCons (SOther [OTemp 1]) BNil)] = true /\
  check_states [BCons (SExpr false [OOther] (OTemp 1)) BNil; BCons (SOther [OTemp 1]) BNil] = false.
Proof. exact states_nonvacuous. Qed.
Print Assumptions C08_states_nonvacuous.

(** cleanup_bool_cast AS CODED removes a write that a remaining read needs (chained casts) *)
Theorem C08_cleanup_boolcast_refuted :
  exists t, search_invalid_fixed [] t = Accept /\ def_before_use [] t /\ ~ def_before_use [] (cleanup t).
Proof. exact boolcast_refuted. Qed.
Print Assumptions C08_cleanup_boolcast_refuted.

(** cleanup_unused removes no write that a remaining read needs: a temporary that is read anywhere in the
    context keeps every one of its writes.  _partial: this is the unused-temporary half in program (visit) order;
    the bool-cast half is REFUTED above for the code as written (C08_cleanup_boolcast_refuted), and a path-wise
    statement [def_before_use t -> def_before_use (cleanup_fixed t)] for the proposed transitive replacement is
    not proved (it is only evaluated per case by the harness). *)
Theorem C08_cleanup_preserves_partial : forall t r,
  In r (reads_of (lin_block t)) -> In (AW (OTemp r)) (lin_block t) ->
  In (AW (OTemp r)) (lin_block (cleanup_unused t)).
Proof. exact cleanup_unused_keeps_needed_writes. Qed.
Print Assumptions C08_cleanup_preserves_partial.

Example C08_cleanup_nonvacuous :
  let t := BCons (SExpr false [OOther] (OTemp 1)) (BCons (SExpr false [OOther] (OTemp 2)) (BCons (SOther [OTemp 1]) BNil)) in
  temp_lin (cleanup_unused t) = [AW (OTemp 1); AR (OTemp 1)].
Proof. exact cleanup_unused_nonvacuous. Qed.
Print Assumptions C08_cleanup_nonvacuous.

(** definite assignment of the emitted process body is sound for the VHDL semantics *)
Theorem C08_def_assign_sound : forall T body sg ev v1 v2,
  def_assign T body = true -> agree_outside T v1 v2 ->
  match exec sg ev body v1 [], exec sg ev body v2 [] with
  | Ok (w1, p1), Ok (w2, p2) =>
      p1 = p2 /\
      (forall x, DefAssign.pmem x T = false -> PM.find x w1 = PM.find x w2) /\
      (exists D, da T body [] = Some D /\ forall x, DefAssign.pmem x D = true -> PM.find x w1 = PM.find x w2)
  | Err e1, Err e2 => e1 = e2
  | _, _ => False
  end.
Proof. exact def_assign_sound. Qed.
Print Assumptions C08_def_assign_sound.

Example C08_def_assign_nonvacuous :
  let body := SSeq (SVar 1 [] (ESig 1)) (SSig 2 [] (EVar 1)) in
  def_assign [1%positive] body = true /\
  def_assign [1%positive] (SSig 2 [] (EVar 1)) = false /\
  def_assign [1%positive] (SSeq (Syntax.SCase (ESig 1) (ACons [VL true] (SVar 1 [] (ESig 1)) (ANil (Some SNull)))) (SSig 2 [] (EVar 1))) = false.
Proof. exact def_assign_nonvacuous. Qed.
Print Assumptions C08_def_assign_nonvacuous.
