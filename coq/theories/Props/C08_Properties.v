(** * C08 - Intermediate values are written before read within every activation

    [search_invalid], [cleanup_bool_cast], [cleanup] model the CURRENT tree (CaseWhen arm corrected by commit
    a252909, bool-cast pass corrected by 1da1fb5); the [_coded] variants are the code as it was before and are
    kept only for the regression witnesses. *)
From Coq Require Import ZArith NArith PArith List Bool.
Import ListNotations.
From Cohdl Require Import Vhdl.Value Vhdl.Syntax Vhdl.Sem Vhdl.DefAssign Vhdl.DefAssignTyped Models.Temps Models.TempsProofs.

(** the temporaries check is sound for trees of any shape and depth: every accepted tree has, on every
    execution path, a write before every read of a temporary (not flagged maybe-uninitialized).
    [wf_block]: a variable assignment to a temporary does not read that temporary. *)
Theorem C08_search_sound : forall MU t, wf_block t = true ->
  search_invalid MU t = Accept -> def_before_use MU t.
Proof. exact search_sound. Qed.
Print Assumptions C08_search_sound.

(** non-vacuity; the old witness (definition only in the first case) is now rejected *)
Example C08_search_sound_nonvacuous :
  let d := SExpr false [OOther] (OTemp 1) in
  let t := BCons (SCase OOther (BrCons OOther (BCons d BNil) (BrCons OOther (BCons d BNil) BrNil)) true (BCons d BNil))
           (BCons (SOther [OTemp 1]) BNil) in
  wf_block t = true /\ search_invalid [] t = Accept /\ search_invalid [] match_witness = RejInvalid.
Proof. vm_compute. repeat split. Qed.
Print Assumptions C08_search_sound_nonvacuous.

(** regression: the CaseWhen arm as it was coded before a252909 accepted a tree with an undefined read *)
Theorem C08_search_coded_refuted :
  exists t, wf_block t = true /\ search_invalid_coded [] t = Accept /\ ~ def_before_use [] t.
Proof. exact search_refuted. Qed.
Print Assumptions C08_search_coded_refuted.

Theorem C08_states_sound : forall sts, check_states sts = true ->
  forall s, In s sts -> forall pre x post, lin_block s = pre ++ AR (OTemp x) :: post -> In (AW (OTemp x)) pre.
Proof. exact states_sound. Qed.
Print Assumptions C08_states_sound.

Example C08_states_nonvacuous :
  check_states [BCons (SExpr false [OOther] (OTemp 1)) (BCons (SOther [OTemp 1]) BNil)] = true /\
  check_states [BCons (SExpr false [OOther] (OTemp 1)) BNil; BCons (SOther [OTemp 1]) BNil] = false.
Proof. exact states_nonvacuous. Qed.
Print Assumptions C08_states_nonvacuous.

(** cleanup (unused-temporary removal + the bool-cast pass) removes no write that a remaining read needs:
    PATH-WISE, definition-before-use is preserved, provided
    - [bc_consistent]: every removed cast's target is replaced by the same temporary as its source, i.e. no
      remaining read refers to a removed write (true when cast results are fresh temporaries whose source
      cast was visited earlier; it is exactly what failed for chained casts before 1da1fb5), and
    - [mu_closed]: a maybe-uninitialized temporary is only replaced by a maybe-uninitialized one.
    Both are computable side conditions on the tree after unused-removal; the harness evaluates them per case. *)
Theorem C08_cleanup_preserves : forall MU t,
  def_before_use MU t ->
  bc_consistent (cleanup_unused t) = true -> mu_closed MU (cleanup_unused t) = true ->
  def_before_use MU (cleanup t).
Proof. exact cleanup_preserves. Qed.
Print Assumptions C08_cleanup_preserves.

(** the unused-removal half needs no side condition *)
Theorem C08_cleanup_unused_preserves : forall MU t,
  def_before_use MU t -> def_before_use MU (cleanup_unused t).
Proof. exact cleanup_unused_preserves. Qed.
Print Assumptions C08_cleanup_unused_preserves.

Theorem C08_cleanup_unused_keeps_writes : forall t r,
  In r (reads_of (lin_block t)) -> In (AW (OTemp r)) (lin_block t) ->
  In (AW (OTemp r)) (lin_block (cleanup_unused t)).
Proof. exact cleanup_unused_keeps_needed_writes. Qed.
Print Assumptions C08_cleanup_unused_keeps_writes.

(** non-vacuity on the chained-cast witness: hypotheses hold, the result reads t1 after writing t1, and the
    side condition is false for the pass as it was coded before *)
Example C08_cleanup_preserves_nonvacuous :
  def_before_use_b [] boolcast_witness = true /\
  bc_consistent (cleanup_unused boolcast_witness) = true /\ mu_closed [] (cleanup_unused boolcast_witness) = true /\
  temp_lin (cleanup boolcast_witness) = [AW (OTemp 1); AR (OTemp 1)] /\
  bc_consistent_gen false (cleanup_unused boolcast_witness) = false.
Proof. exact cleanup_preserves_nonvacuous. Qed.
Print Assumptions C08_cleanup_preserves_nonvacuous.

(** regression: the bool-cast pass as coded before 1da1fb5 lost the write of a chained cast *)
Theorem C08_cleanup_coded_refuted :
  exists t, search_invalid [] t = Accept /\ def_before_use [] t /\ ~ def_before_use [] (cleanup_coded t).
Proof. exact boolcast_refuted. Qed.
Print Assumptions C08_cleanup_coded_refuted.

(** definite assignment of the emitted process body is sound for the VHDL semantics *)
Theorem C08_def_assign_sound : forall T body sg ev v1 v2,
  def_assign T body = true -> agree_outside T v1 v2 ->
  match exec sg ev body v1 [], exec sg ev body v2 [] with
  | Ok (w1, p1), Ok (w2, p2) =>
      p1 = p2 /\
      (forall x, DefAssign.pmem x T = false -> PM.find x w1 = PM.find x w2) /\
      (exists D, da T body [] = Some D /\ forall x, DefAssign.pmem x D = true -> PM.find x w1 = PM.find x w2)
  | Err e1, Err e2 => e1 = e2
  | _, _ => False
  end.
Proof. exact def_assign_sound. Qed.
Print Assumptions C08_def_assign_sound.

Example C08_def_assign_nonvacuous :
  let body := SSeq (SVar 1 [] (ESig 1)) (SSig 2 [] (EVar 1)) in
  def_assign [1%positive] body = true /\
  def_assign [1%positive] (SSig 2 [] (EVar 1)) = false /\
  def_assign [1%positive] (SSeq (Syntax.SCase (ESig 1) (ACons [VL true] (SVar 1 [] (ESig 1)) (ANil (Some SNull)))) (SSig 2 [] (EVar 1))) = false.
Proof. exact def_assign_nonvacuous. Qed.
Print Assumptions C08_def_assign_nonvacuous.

(** the rule the harness evaluates on every emitted process: definite assignment after pruning the
    [when others] arm of a [case] over a signal whose listed choices cover every two-valued value of its declared
    type.  With signals that hold values of their declared shape ([sig_ok]: the two-valued modelling assumption)
    the ORIGINAL body behaves identically from any two variable stores that differ only on temporaries. *)
Theorem C08_def_assign_typed_sound : forall S T body sg ev v1 v2,
  sig_ok S sg -> def_assign_typed S T body = true -> agree_outside T v1 v2 ->
  match exec sg ev body v1 [], exec sg ev body v2 [] with
  | Ok (w1, p1), Ok (w2, p2) =>
      p1 = p2 /\
      (forall x, pmem x T = false -> PM.find x w1 = PM.find x w2) /\
      (exists D, da T (prune S body) [] = Some D /\ forall x, pmem x D = true -> PM.find x w1 = PM.find x w2)
  | Err e1, Err e2 => e1 = e2
  | _, _ => False
  end.
Proof. exact def_assign_typed_sound. Qed.
Print Assumptions C08_def_assign_typed_sound.

Theorem C08_prune_exec : forall S s sg ev vr pend, sig_ok S sg ->
  exec sg ev (prune S s) vr pend = exec sg ev s vr pend.
Proof. exact prune_exec. Qed.
Print Assumptions C08_prune_exec.

Example C08_typed_nonvacuous :
  let S := sig_shapes [ {| sd_id := 1%positive; sd_ty := TVec KSlv 2%N; sd_dir := DIn; sd_init := VV KSlv 2%N 0%Z; sd_hasdef := false |} ] in
  let full := SSeq (Syntax.SCase (ESig 1%positive) (ACons [VV KSlv 2%N 0%Z] (SVar 1%positive [] (ESig 2%positive))
                                   (ACons [VV KSlv 2%N 1%Z] (SVar 1%positive [] (ESig 2%positive))
                                   (ACons [VV KSlv 2%N 2%Z; VV KSlv 2%N 3%Z] (SVar 1%positive [] (ESig 2%positive)) (ANil (Some SNull))))))
                   (SSig 3%positive [] (EVar 1%positive)) in
  let part := SSeq (Syntax.SCase (ESig 1%positive) (ACons [VV KSlv 2%N 0%Z] (SVar 1%positive [] (ESig 2%positive))
                                   (ACons [VV KSlv 2%N 1%Z] (SVar 1%positive [] (ESig 2%positive)) (ANil (Some SNull)))))
                   (SSig 3%positive [] (EVar 1%positive)) in
  def_assign [1%positive] full = false /\ def_assign_typed S [1%positive] full = true /\
  def_assign_typed S [1%positive] part = false /\
  sig_ok S (PM.add 1%positive (VV KSlv 2%N 2%Z) (PM.empty value)).
Proof. exact typed_nonvacuous. Qed.
Print Assumptions C08_typed_nonvacuous.
