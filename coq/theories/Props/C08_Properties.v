(** * C08 - Intermediate values are written before read within every activation *)
From Coq Require Import PArith List Bool.
Import ListNotations.
From Cohdl Require Import Vhdl.Value Vhdl.Syntax Vhdl.Sem Vhdl.DefAssign Models.Temps Models.TempsProofs.

(** the CaseWhen arm of search_invalid_temporaries AS CODED accepts a tree with an undefined read *)
Theorem C08_search_refuted :
  exists t, wf_block t = true /\ search_invalid [] t = Accept /\ ~ def_before_use [] t.
Proof. exact search_refuted. Qed.
Print Assumptions C08_search_refuted.

Theorem C08_states_sound : forall sts, check_states sts = true ->
  forall s, In s sts -> forall pre x post, lin_block s = pre ++ AR (OTemp x) :: post -> In (AW (OTemp x)) pre.
Proof. exact states_sound. Qed.
Print Assumptions C08_states_sound.

Example C08_states_nonvacuous :
  check_states [BCons (SExpr false [OOther] (OTemp 1)) (BCons (SOther [OTemp 1]) BNil)] = true /\
  check_states [BCons (SExpr false [OOther] (OTemp 1)) BNil; BCons (SOther [OTemp 1]) BNil] = false.
Proof. exact states_nonvacuous. Qed.
Print Assumptions C08_states_nonvacuous.

(** cleanup_bool_cast AS CODED removes a write that a remaining read needs (chained casts) *)
Theorem C08_cleanup_boolcast_refuted :
  exists t, search_invalid_fixed [] t = Accept /\ def_before_use [] t /\ ~ def_before_use [] (cleanup t).
Proof. exact boolcast_refuted. Qed.
Print Assumptions C08_cleanup_boolcast_refuted.

(** definite assignment of the emitted process body is sound for the VHDL semantics *)
Theorem C08_def_assign_sound : forall T body sg ev v1 v2,
  def_assign T body = true -> agree_outside T v1 v2 ->
  match exec sg ev body v1 [], exec sg ev body v2 [] with
  | Ok (w1, p1), Ok (w2, p2) =>
      p1 = p2 /\
      (forall x, DefAssign.pmem x T = false -> PM.find x w1 = PM.find x w2) /\
      (exists D, da T body [] = Some D /\ forall x, DefAssign.pmem x D = true -> PM.find x w1 = PM.find x w2)
  | Err e1, Err e2 => e1 = e2
  | _, _ => False
  end.
Proof. exact def_assign_sound. Qed.
Print Assumptions C08_def_assign_sound.

Example C08_def_assign_nonvacuous :
  let body := SSeq (SVar 1 [] (ESig 1)) (SSig 2 [] (EVar 1)) in
  def_assign [1%positive] body = true /\
  def_assign [1%positive] (SSig 2 [] (EVar 1)) = false /\
  def_assign [1%positive] (SSeq (Syntax.SCase (ESig 1) (ACons [VL true] (SVar 1 [] (ESig 1)) (ANil (Some SNull)))) (SSig 2 [] (EVar 1))) = false.
Proof. exact def_assign_nonvacuous. Qed.
Print Assumptions C08_def_assign_nonvacuous.
