(** C17 - serialisation round-trips with the documented bit layout
    (statements only; proofs live in Models/SerProofs.v).

    All theorems quantify over every type composition of [Ser.sty] (structural induction, unbounded
    nesting: Bit, bool, BitVector/Unsigned/Signed, cohdl.Array, std.Array with its underlying storage,
    Record, Enum/FlagEnum, SFixed/UFixed, BitField) and every value / bit pattern.
    Bit lists are LSB first: index i of the list is bit i of the vector. *)
From Coq Require Import ZArith NArith List Bool.
From Cohdl Require Import Base.Bits Models.Ser Models.SerProofs.
Import ListNotations.

(** to_bits(x) has exactly count_bits(T) bits *)
Theorem C17_width : forall t x, wf t x = true -> length (to_bits x) = count_bits t.
Proof. exact ser_width. Qed.
Print Assumptions C17_width.

(** from_bits[T](to_bits(x)) == x *)
Theorem C17_roundtrip_val : forall t x, wf t x = true -> from_bits t (to_bits x) = Some x.
Proof. exact ser_roundtrip_val. Qed.
Print Assumptions C17_roundtrip_val.

(** to_bits(from_bits[T](b)) == b for every bit pattern of the right width (and the result inhabits T) *)
Theorem C17_roundtrip_bits : forall t b, length b = count_bits t ->
  exists x, from_bits t b = Some x /\ to_bits x = b /\ wf t x = true.
Proof. exact ser_roundtrip_bits. Qed.
Print Assumptions C17_roundtrip_bits.

(** consequence: serialisation is injective on the values of a type *)
Theorem C17_to_bits_injective : forall t x y, wf t x = true -> wf t y = true -> to_bits x = to_bits y -> x = y.
Proof. exact to_bits_inj. Qed.
Print Assumptions C17_to_bits_injective.

Example C17_nonvacuous_value : wf ex_ty ex_val = true /\ count_bits ex_ty = 41 /\ ser_ok ex_ty = true
  /\ to_bits ex_val = B 41 496524808971%Z.
Proof. exact ex_wf. Qed.
Print Assumptions C17_nonvacuous_value.

Example C17_nonvacuous_bits : exists b, length b = count_bits ex_ty /\ from_bits ex_ty b = Some ex_val.
Proof. exact ex_bits. Qed.
Print Assumptions C17_nonvacuous_bits.

(** layout: field i of a record occupies [off_i, off_i + w_i), off_i = sum of the widths of the earlier fields
    (first field at the least significant bits) - for to_bits and for from_bits *)
Theorem C17_layout_record : forall fs xs i x t', wf (TRec fs) (VRec xs) = true ->
  nth_error xs i = Some x -> field_ty fs i = Some t' ->
  slice (to_bits (VRec xs)) (field_off fs i) (count_bits t') = to_bits x.
Proof. exact layout_record. Qed.
Print Assumptions C17_layout_record.

Theorem C17_layout_record_from_bits : forall fs b xs i x t', from_bits (TRec fs) b = Some (VRec xs) ->
  nth_error xs i = Some x -> field_ty fs i = Some t' ->
  from_bits t' (slice b (field_off fs i) (count_bits t')) = Some x.
Proof. exact layout_record_from. Qed.
Print Assumptions C17_layout_record_from_bits.

(** layout: element j of an array occupies [j*w, (j+1)*w) (element 0 at the least significant bits) *)
Theorem C17_layout_array : forall e n es j x, wf (TCArr e n) (VCArr es) = true -> nth_error es j = Some x ->
  slice (to_bits (VCArr es)) (j * count_bits e) (count_bits e) = to_bits x.
Proof. exact layout_carr. Qed.
Print Assumptions C17_layout_array.

Theorem C17_layout_array_from_bits : forall e n b xs j x, from_bits (TCArr e n) b = Some (VCArr xs) ->
  nth_error xs j = Some x -> from_bits e (slice b (j * count_bits e) (count_bits e)) = Some x.
Proof. exact layout_carr_from. Qed.
Print Assumptions C17_layout_array_from_bits.

(** std.Array: the stored element j occupies [j*w, (j+1)*w) and get_elem(j) reads exactly those bits *)
Theorem C17_layout_std_array : forall e n cs j c, wf (TSArr e n) (VSArr (VCArr cs)) = true ->
  nth_error cs j = Some c ->
  slice (to_bits (VSArr (VCArr cs))) (j * count_bits e) (count_bits e) = to_bits c
  /\ exists x, sarr_get e (VCArr cs) j = Some x /\ to_bits x = to_bits c.
Proof. exact layout_sarr. Qed.
Print Assumptions C17_layout_std_array.

Example C17_nonvacuous_layout : exists x,
  nth_error [VBit true; sarr_make ex_inner [ex_in 5 (-16); ex_in 2 15]] 1 = Some x
  /\ field_ty (FCons TBit (FCons (TSArr ex_inner 2) FNil)) 1 = Some (TSArr ex_inner 2)
  /\ field_off (FCons TBit (FCons (TSArr ex_inner 2) FNil)) 1 = 1
  /\ wf (TRec (FCons TBit (FCons (TSArr ex_inner 2) FNil)))
        (VRec [VBit true; sarr_make ex_inner [ex_in 5 (-16); ex_in 2 15]]) = true.
Proof. exact ex_layout. Qed.
Print Assumptions C17_nonvacuous_layout.

(** Serialized[T]: Serialized[T](x).value() == x, from_raw(b).bits() == b and its value serialises to b *)
Theorem C17_serialized_value : forall t x, wf t x = true ->
  ser_value (ser_make t x) = Some x /\ ser_bits (ser_make t x) = to_bits x.
Proof. exact serialized_value. Qed.
Print Assumptions C17_serialized_value.

Theorem C17_serialized_raw : forall t b, length b = count_bits t ->
  exists s, ser_from_raw t b = Some s /\ ser_bits s = b /\ exists x, ser_value s = Some x /\ to_bits x = b.
Proof. exact serialized_raw. Qed.
Print Assumptions C17_serialized_raw.

(** what a green correspondence case means: the boolean comparison evaluated by harness/c17.py on the recorded
    real results implies the model-level equalities (the decidable equality [sval_eqb] is sound) *)
Theorem C17_case_check_sound : forall t c, vcase_ok t c = true ->
  wf t (v_x c) = true /\ to_bits (v_x c) = v_bits c /\ from_bits t (v_bits c) = Some (v_back c) /\ v_x c = v_back c.
Proof. exact vcase_ok_sound. Qed.
Print Assumptions C17_case_check_sound.

(** BitField: a field (through any nesting of sub-BitFields) reads exactly its declared absolute range ... *)
Theorem C17_bitfield_exact_range_get : forall d W v, bf_valid W d = true -> length v = W ->
  length (bf_get v d) = snd (bf_range d)
  /\ forall j, j < snd (bf_range d) -> nth_error (bf_get v d) j = nth_error v (fst (bf_range d) + j).
Proof. exact bf_get_exact. Qed.
Print Assumptions C17_bitfield_exact_range_get.

(** ... and writing it changes exactly that range: the field reads back the written value, the width is kept,
    every bit outside [lo, lo + n) is unchanged *)
Theorem C17_bitfield_exact_range_set : forall d W v x, bf_valid W d = true -> length v = W ->
  length x = snd (bf_range d) ->
  length (bf_set v d x) = W
  /\ bf_get (bf_set v d x) d = x
  /\ forall i, i < fst (bf_range d) \/ fst (bf_range d) + snd (bf_range d) <= i ->
               nth_error (bf_set v d x) i = nth_error v i.
Proof. exact bf_set_exact. Qed.
Print Assumptions C17_bitfield_exact_range_set.

Example C17_nonvacuous_bitfield :
  bf_valid 16 (FSub 10 4 (FVec 3 1)) = true /\ bf_range (FSub 10 4 (FVec 3 1)) = (11, 3)
  /\ bf_get (B 16 42841%Z) (FSub 10 4 (FVec 3 1)) = [false; false; true]
  /\ bf_set (B 16 42841%Z) (FSub 10 4 (FVec 3 1)) [false; false; false] = B 16 34649%Z.
Proof. exact ex_bitfield. Qed.
Print Assumptions C17_nonvacuous_bitfield.
