(** C12 - property theorems *)
From Coq Require Import ZArith NArith PArith List Bool.
From Cohdl Require Import Vhdl.Value Vhdl.Syntax Vhdl.Sem Equiv.Explore Equiv.VhdlTS.
Import ListNotations.

(** per-tree obligation: OK from the checker means the elaborated hierarchical design and the
    inlined design have equal traces for every input sequence of every length *)
Theorem C12_case_sound :
  forall d1 d2 mid alphabet fuel,
    is_ok (dcheck d1 d2 mid alphabet fuel) = true ->
    forall ins, Forall (fun i => In i alphabet) ins ->
      traceA (vstep d1 mid) (power_up d1) ins = traceB (vstep d2 mid) (power_up d2) ins.
Proof. exact dcheck_sound. Qed.
Print Assumptions C12_case_sound.
