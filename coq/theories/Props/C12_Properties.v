(** C12 - property theorems (statements only; proofs live in the library files) *)
From Coq Require Import ZArith NArith PArith List Bool.
From Cohdl Require Import Vhdl.Value Vhdl.Syntax Vhdl.Sem Vhdl.DefAssign Vhdl.DeadVars Equiv.Explore Equiv.VhdlTS Equiv.RefTS Equiv.Monitor Equiv.StoreTS.
Import ListNotations.

(** per-tree obligation: OK from the checker means the elaborated hierarchical design and the
    inlined design have equal traces for every input sequence of every length *)
Theorem C12_case_sound :
  forall d1 d2 mid alphabet fuel,
    conc_all_ok (auto_Ts d1) d1 = true -> conc_all_ok (auto_Ts d2) d2 = true ->
    is_ok (dcheck_s d1 d2 mid alphabet fuel) = true ->
    forall ins, Forall (fun i => In i alphabet) ins ->
      traceA (sstep d1 mid) (power_up_s d1) ins = traceA (sstep d2 mid) (power_up_s d2) ins.
Proof. exact dcheck_s_sound. Qed.
Print Assumptions C12_case_sound.

(** ------------------------------------------------------------------------------------------------
    ALL instantiation graphs: the compiler's instantiation bookkeeping as coded (Models/EmitOrder.v:
    Library.from_top_entity, the per-class template caches, EntityInst._port_map).  A graph is a list of
    templates; a template is identified by its position and instantiates templates with smaller positions
    ([wf_graph], acyclic by construction); the same template may be instantiated any number of times by
    any number of parents at any depth. *)
From Cohdl Require Import Models.EmitOrder Models.EmitOrderProofs.
From Coq Require Import Permutation Lia.

(** a diamond with a shared leaf at two depths: 0 leaf; 1 = mid(0,0); 2 = mid(0); 3 = top(1, 0, 2, 1) *)
Definition C12_diamond : graph :=
  [ mktmpl [76%N] [] [] [];
    mktmpl [77%N] [] [mkinst 0 []; mkinst 0 []] [];
    mktmpl [78%N] [] [] [mkinst 0 []];
    mktmpl [84%N] [] [mkinst 1 []; mkinst 0 []; mkinst 2 []] [mkinst 1 []] ].
Example C12_diamond_wf : wf_graph C12_diamond /\ emit_order C12_diamond 3 = [0; 1; 2; 3].
Proof. split; [apply wf_graphb_sound; vm_compute; reflexivity | vm_compute; reflexivity]. Qed.

(** (i) each reachable template exactly once *)
Theorem C12_emit_order_each_once : forall g top, wf_graph g ->
  NoDup (emit_order g top) /\ forall x, In x (emit_order g top) <-> greach g top x.
Proof. exact emit_order_each_once. Qed.
Print Assumptions C12_emit_order_each_once.

(** (ii) every sub-entity, direct or transitive, stands before every emitted entity that uses it *)
Theorem C12_emit_order_sub_before_user : forall g top u x, wf_graph g ->
  In u (emit_order g top) -> gdesc g u x ->
  exists l1 l2, emit_order g top = l1 ++ u :: l2 /\ In x l1.
Proof. exact emit_order_sub_first. Qed.
Print Assumptions C12_emit_order_sub_before_user.
Example C12_emit_order_sub_before_user_nonvacuous :
  wf_graph C12_diamond /\ In 3 (emit_order C12_diamond 3) /\ gdesc C12_diamond 3 0.
Proof.
  split; [apply wf_graphb_sound; vm_compute; reflexivity|]. split; [vm_compute; auto|].
  apply desc_step with (c := 1); [vm_compute; auto|]. apply desc_child. vm_compute; auto.
Qed.

(** (iii) the top entity is the last unit *)
Theorem C12_emit_order_top_last : forall g top, wf_graph g -> exists m, emit_order g top = m ++ [top].
Proof. exact emit_order_top_last. Qed.
Print Assumptions C12_emit_order_top_last.

(** (iv) the emitted list does not depend on how often a template is instantiated: only the order of the FIRST
    instances of the distinct sub-templates of every template matters *)
Theorem C12_emit_order_multiplicity : forall g g' top, wf_graph g ->
  (forall p, dd [] (children g p) = dd [] (children g' p)) ->
  emit_order g top = emit_order g' top.
Proof. exact emit_order_multiplicity. Qed.
Print Assumptions C12_emit_order_multiplicity.
Theorem C12_emit_order_duplicate_instance : forall g g' top, wf_graph g ->
  (forall p, children g' p = children g p \/
             exists l1 c l2, children g p = l1 ++ l2 /\ children g' p = l1 ++ c :: l2 /\ In c l1) ->
  emit_order g top = emit_order g' top.
Proof. exact emit_order_duplicate_instance. Qed.
Print Assumptions C12_emit_order_duplicate_instance.
Example C12_emit_order_multiplicity_nonvacuous :
  let g' := [ mktmpl [76%N] [] [] []; mktmpl [77%N] [] [mkinst 0 []] [];
              mktmpl [78%N] [] [] [mkinst 0 []; mkinst 0 []; mkinst 0 []];
              mktmpl [84%N] [] [mkinst 1 []; mkinst 0 []; mkinst 0 []] [mkinst 2 []; mkinst 1 []; mkinst 2 []] ] in
  wf_graph C12_diamond /\ (forall p, dd [] (children C12_diamond p) = dd [] (children g' p)) /\ g' <> C12_diamond.
Proof.
  split; [apply wf_graphb_sound; vm_compute; reflexivity|]. split; [|discriminate].
  intros p. do 4 (destruct p as [|p]; [vm_compute; reflexivity|]).
  unfold children, tmpl. rewrite !nth_overflow by (cbn; lia). reflexivity.
Qed.

(** an accepted compilation: the units are the emitted list, their VHDL names are pairwise different
    (case-insensitively) and every instantiation passed the checks of Entity.__init__ *)
Theorem C12_emit_order_library : forall g top l, library g top = Some l ->
  l = emit_order g top /\ NoDup (map (unit_name g) l) /\
  forall p i, In p l -> In i (subblocks (tmpl g p)) -> inst_ok (t_ports (tmpl g (i_tmpl i))) (i_kw i) = true.
Proof. exact library_spec. Qed.
Print Assumptions C12_emit_order_library.
Example C12_emit_order_library_nonvacuous : library C12_diamond 3 = Some [0; 1; 2; 3].
Proof. vm_compute. reflexivity. Qed.
(** class names that differ only in case are rejected *)
Example C12_emit_order_library_case_collision :
  library [mktmpl [76%N; 101%N] [] [] []; mktmpl [108%N; 69%N] [] [] []; mktmpl [84%N] [] [mkinst 0 []; mkinst 1 []] []] 2 = None.
Proof. vm_compute. reflexivity. Qed.

(** the template caches: no architecture method runs twice in one compilation (every graph) ... *)
Theorem C12_emit_order_arch_runs_once : forall g top, NoDup (arch_runs g top).
Proof. exact arch_runs_nodup. Qed.
Print Assumptions C12_emit_order_arch_runs_once.
(** ... and the architectures that run are exactly those of the emitted templates, each once *)
Theorem C12_emit_order_elaborated_once_each : forall g top, wf_graph g ->
  NoDup (arch_runs g top) /\ forall x, In x (arch_runs g top) <-> In x (emit_order g top).
Proof. exact arch_runs_once_each. Qed.
Print Assumptions C12_emit_order_elaborated_once_each.
Example C12_emit_order_elaborated_nonvacuous : arch_runs C12_diamond 3 = [3; 1; 0; 2].
Proof. vm_compute. reflexivity. Qed.
(** ... and two instantiation requests get the same template iff they name the same class; the second request for
    a class creates nothing *)
Theorem C12_emit_order_template_shared : forall cache c1 c2, cache_wf cache ->
  let '(cache1, h1, _) := cache_step cache c1 in
  let '(_, h2, created2) := cache_step cache1 c2 in
  (h1 = h2 <-> c1 = c2) /\ (c1 = c2 -> created2 = false).
Proof. exact cache_step_shared. Qed.
Print Assumptions C12_emit_order_template_shared.
Example C12_emit_order_template_shared_nonvacuous :
  cache_wf [] /\ cache_wf (fst (fst (cache_step (fst (fst (cache_step [] 5))) 2))) /\
  cache_run [] [5; 2; 5; 5; 2] = ([0; 1; 0; 0; 1], 2).
Proof.
  split; [apply cache_wf_nil|]. split; [apply cache_step_wf, cache_step_wf, cache_wf_nil|vm_compute; reflexivity].
Qed.

(** (v) the port map of an instance: keyword order is irrelevant ... *)
Theorem C12_port_map_keyword_order : forall ports kw kw', NoDup (map fst kw) -> Permutation kw kw' ->
  port_map ports kw' = port_map ports kw.
Proof. exact port_map_perm. Qed.
Print Assumptions C12_port_map_keyword_order.
(** ... every declared formal exactly once, in declaration order ... *)
Theorem C12_port_map_formals_in_order : forall ports kw l, port_map ports kw = Some l ->
  map e_formal l = map p_name ports.
Proof. exact port_map_formals. Qed.
Print Assumptions C12_port_map_formals_in_order.
(** ... each with the actual given for its NAME and the conversion [fconv] decides ... *)
Theorem C12_port_map_each_actual : forall ports kw l, NoDup (map fst kw) -> port_map ports kw = Some l ->
  Forall2 (fun p e => e_formal e = p_name p /\ In (p_name p, e_actual e) kw /\ e_fconv e = fconv p (e_actual e)) ports l.
Proof. exact port_map_entries. Qed.
Print Assumptions C12_port_map_each_actual.
(** ... and every instantiation accepted by Entity.__init__ has one *)
Theorem C12_port_map_total : forall ports kw, inst_ok ports kw = true -> exists l, port_map ports kw = Some l.
Proof. exact port_map_total. Qed.
Print Assumptions C12_port_map_total.
Example C12_port_map_nonvacuous :
  let u2 := TVec KUns 2 in let bv4 := TVec KSlv 4 in
  let ports := [mkport 1 DIn u2; mkport 2 DIn TBit; mkport 3 DOut u2] in
  let kw := [(3, mkact 7 (SSlice 3 2) bv4 u2); (1, mkact 5 SWhole u2 u2); (2, mkact 6 (SElem 0) bv4 TBit)]%N in
  let kw' := [(2, mkact 6 (SElem 0) bv4 TBit); (3, mkact 7 (SSlice 3 2) bv4 u2); (1, mkact 5 SWhole u2 u2)]%N in
  NoDup (map fst kw) /\ Permutation kw kw' /\ inst_ok ports kw = true /\
  port_map ports kw = Some [mkpm 1 DIn None (mkact 5 SWhole u2 u2); mkpm 2 DIn None (mkact 6 (SElem 0) bv4 TBit);
                            mkpm 3 DOut (Some KSlv) (mkact 7 (SSlice 3 2) bv4 u2)]%N.
Proof.
  cbv zeta. split; [repeat constructor; cbn; intuition discriminate|].
  split; [|split; vm_compute; reflexivity].
  eapply perm_trans; [apply perm_skip, perm_swap|]. apply perm_swap.
Qed.
