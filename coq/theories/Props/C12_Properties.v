(** C12 - property theorems (statements only; proofs live in the library files) *)
From Coq Require Import ZArith NArith PArith List Bool.
From Cohdl Require Import Vhdl.Value Vhdl.Syntax Vhdl.Sem Vhdl.DefAssign Vhdl.DeadVars Equiv.Explore Equiv.VhdlTS Equiv.RefTS Equiv.Monitor Equiv.StoreTS.
Import ListNotations.

(** per-tree obligation: OK from the checker means the elaborated hierarchical design and the
    inlined design have equal traces for every input sequence of every length *)
Theorem C12_case_sound :
  forall d1 d2 mid alphabet fuel,
    conc_all_ok (auto_Ts d1) d1 = true -> conc_all_ok (auto_Ts d2) d2 = true ->
    is_ok (dcheck_s d1 d2 mid alphabet fuel) = true ->
    forall ins, Forall (fun i => In i alphabet) ins ->
      traceA (sstep d1 mid) (power_up_s d1) ins = traceA (sstep d2 mid) (power_up_s d2) ins.
Proof. exact dcheck_s_sound. Qed.
Print Assumptions C12_case_sound.
