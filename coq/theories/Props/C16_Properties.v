(** C16 - property theorems (statements only; proofs live in the library files) *)
From Coq Require Import ZArith NArith PArith List Bool.
From Cohdl Require Import Vhdl.Value Vhdl.Syntax Vhdl.Sem Vhdl.DefAssign Vhdl.DeadVars Equiv.Explore Equiv.VhdlTS Equiv.RefTS Equiv.Monitor Equiv.StoreTS Models.Coro Models.StdSpecs Models.Lower Models.LowerProofs.
Import ListNotations.

Theorem C16_case_sound :
  forall d mid stepB alphabet assume fuel initB,
    conc_all_ok (auto_Ts d) d = true ->
    is_ok (rcheck_s d mid stepB alphabet assume fuel initB) = true ->
    forall ins, admissible stepB alphabet assume initB ins ->
      traceA (sstep d mid) (power_up_s d) ins = traceB stepB initB ins.
Proof. exact rcheck_s_sound. Qed.
Print Assumptions C16_case_sound.

(** the explored system is the design with its dead compiler temporaries normalised after every
    clock; this theorem is what makes that exploration speak about the design itself *)
Theorem C16_normalisation_sound :
  forall T d mid, conc_all_ok T d = true -> forall ins s n, srel_s T s n ->
    traceA (sstep d mid) s ins = traceA (sstep_n d T mid) n ins.
Proof. exact norm_traces_s. Qed.
Print Assumptions C16_normalisation_sound.

(** ** all-size theorems about the AS-CODED models of the timing utilities (Models/TimingAll.v) *)
From Cohdl Require Import Models.Ring Models.TimingAll Models.TimingAllProofs.
Local Open Scope Z_scope.

(** DelayLine, every length n >= 1, every width, every input sequence: as coded = specification machine *)
Theorem C16_delay_line_model_is_spec_all_n : forall (n : nat) (w : BinNums.N) (i : Z) ins, (1 <= n)%nat ->
  traceB (dline_step w) (dline_init n i) ins = traceB (delay_step w) (repeat i n) ins.
Proof. exact dline_refines_delay. Qed.
Print Assumptions C16_delay_line_model_is_spec_all_n.

(** exact delay, every n >= 1: the output stream is the input stream preceded by n-1 copies of the initial value
    (outputs are sampled after the clock edge that registered the current input: the value sampled after edge t
    is the input of edge t-(n-1), it has passed through n registers) *)
Theorem C16_delay_line_exact_all_n : forall (n : nat) (w : BinNums.N) (i : Z) (vs : list value), (1 <= n)%nat ->
  traceB (dline_step w) (dline_init n i) (map (fun v => [v]) vs) =
  map (fun o => Ok [ouns w o]) (firstn (length vs) (repeat i (n - 1) ++ map vnum vs)).
Proof. exact delay_line_exact. Qed.
Print Assumptions C16_delay_line_exact_all_n.

Theorem C16_delay_line_exact_pointwise_all_n : forall (n : nat) (i : Z) (xs : list Z) (t : nat), (t < length xs)%nat ->
  nth t (firstn (length xs) (repeat i (n - 1) ++ xs)) 0 =
  if (t <? n - 1)%nat then i else nth (t - (n - 1)) xs 0.
Proof. exact delay_line_nth. Qed.
Print Assumptions C16_delay_line_exact_pointwise_all_n.

Example C16_delay_line_nonvacuous :
  (1 <= 3)%nat /\
  traceB (dline_step 4) (dline_init 3 9) (map (fun v => [v]) [VV KUns 4 1; VV KUns 4 2; VV KUns 4 3; VV KUns 4 4; VV KUns 4 5]) =
  [Ok [ouns 4 9]; Ok [ouns 4 9]; Ok [ouns 4 1]; Ok [ouns 4 2]; Ok [ouns 4 3]].
Proof. vm_compute. repeat split; repeat constructor. Qed.

(** continuous_counter, every constant limit: as coded = specification machine; exact period limit+1 *)
Theorem C16_counter_model_is_spec_all_limits : forall (w : BinNums.N) (limit : Z) ins, 0 <= limit ->
  traceB (ccounter_step w limit) [0] ins = traceB (counter_step w limit) [0] ins.
Proof. exact ccounter_refines. Qed.
Print Assumptions C16_counter_model_is_spec_all_limits.

Theorem C16_counter_period_exact_all_limits : forall (w : BinNums.N) (limit : Z) ins, 0 <= limit ->
  traceB (ccounter_step w limit) [0] ins =
  map (fun t => Ok [ouns w (Z.of_nat (S t) mod (limit + 1))]) (seq 0 (length ins)).
Proof. exact ccounter_closed_form. Qed.
Print Assumptions C16_counter_period_exact_all_limits.

Example C16_counter_nonvacuous :
  0 <= 2 /\ traceB (ccounter_step 2 2) [0] [[]; []; []; []; []] =
            [Ok [ouns 2 1]; Ok [ouns 2 2]; Ok [ouns 2 0]; Ok [ouns 2 1]; Ok [ouns 2 2]].
Proof. vm_compute. repeat split; discriminate. Qed.

(** ToggleSignal, all constant durations with first + second >= 1: as coded = specification machine; exact
    period first+second and exact duty: the level after clock t is [first_state] exactly while
    (t+1) mod (first+second) < first; rising/falling exactly at the level changes *)
Theorem C16_toggle_model_is_spec_all_durations : forall (first second : Z) (ds fs : bool) ins,
  0 <= first -> 0 <= second -> 1 <= first + second ->
  traceB (togglem_step first second ds fs) (togglem_init ds) ins =
  traceB (toggle_step first second ds fs) [0; zb ds] ins.
Proof. exact togglem_refines. Qed.
Print Assumptions C16_toggle_model_is_spec_all_durations.

Theorem C16_toggle_period_duty_exact_all_durations : forall (first second : Z) (ds fs : bool) ins,
  0 <= first -> 0 <= second -> 1 <= first + second ->
  traceB (togglem_step first second ds fs) (togglem_init ds) ins =
  map (fun t => let s := tg_state first second ds fs t in
                let s' := tg_state first second ds fs (S t) in
                Ok [obit s'; obit (negb s && s'); obit (s && negb s')]) (seq 0 (length ins)).
Proof. exact togglem_closed_form. Qed.
Print Assumptions C16_toggle_period_duty_exact_all_durations.

Example C16_toggle_nonvacuous :
  (0 <= 2 /\ 0 <= 1 /\ 1 <= 2 + 1) /\
  traceB (togglem_step 2 1 false true) (togglem_init false) [[]; []; []; []; []; []] =
  [Ok [obit true; obit true; obit false]; Ok [obit false; obit false; obit true];
   Ok [obit true; obit true; obit false]; Ok [obit true; obit false; obit false];
   Ok [obit false; obit false; obit true]; Ok [obit true; obit true; obit false]].
Proof. vm_compute. repeat split; discriminate. Qed.

(** ClockDivider, every constant duration: as coded = specification machine (all enable/disable sequences);
    exact period D and duty 1/D while not disabled; restart from power-up after disable + enable *)
Theorem C16_divider_model_is_spec_all_durations : forall (D : Z) (ds tas : bool) ins, 1 <= D ->
  traceB (dividerm_step D ds tas) (dividerm_init D ds tas) ins =
  traceB (divider_step D ds tas) [0; (if tas then D - 1 else 0); zb ds] ins.
Proof. exact dividerm_refines. Qed.
Print Assumptions C16_divider_model_is_spec_all_durations.

Theorem C16_divider_period_duty_exact_all_durations : forall (D : Z) (ds tas : bool) ins, 2 <= D ->
  Forall never_disabled ins ->
  traceB (dividerm_step D ds tas) (dividerm_init D ds tas) ins =
  map (fun t => let s := dv_state D ds tas t in
                let s' := dv_state D ds tas (S t) in
                Ok [obit s'; obit (negb s && s'); obit (s && negb s')]) (seq 0 (length ins)).
Proof. exact dividerm_closed_form. Qed.
Print Assumptions C16_divider_period_duty_exact_all_durations.

Theorem C16_divider_restart_all_durations : forall (D : Z) (ds tas : bool) c s ri fa en0 rest,
  traceB (dividerm_step D ds tas) [0; c; s; ri; fa] ([en0; VL true] :: [VL true; VL false] :: rest) =
  snd (dividerm_step D ds tas [0; c; s; ri; fa] [en0; VL true]) ::
  Ok [obit ds; obit false; obit false] ::
  traceB (dividerm_step D ds tas) (dividerm_init D ds tas) rest.
Proof. exact dividerm_restart. Qed.
Print Assumptions C16_divider_restart_all_durations.

Example C16_divider_nonvacuous :
  let run := [VL false; VL false] in
  (2 <= 3 /\ Forall never_disabled [run; run; run; run]) /\
  traceB (dividerm_step 3 false true) (dividerm_init 3 false true) [run; run; run; run] =
  [Ok [obit true; obit true; obit false]; Ok [obit false; obit false; obit true];
   Ok [obit false; obit false; obit false]; Ok [obit true; obit true; obit false]].
Proof. vm_compute. repeat split; try discriminate; repeat constructor. Qed.

(** tie to the code, every configuration at once: the two computed hypotheses are what every generated case file
    of harness/c16.py proves for its parsed design d (non-vacuity: each such case file) *)
Theorem C16_delay_line_code_matches_model_all_n : forall d mid alphabet fuel (n : nat) (w : BinNums.N) (i : Z), (1 <= n)%nat ->
  conc_all_ok (auto_Ts d) d = true ->
  is_ok (rcheck_s d mid (delay_step w) alphabet (fun _ _ => true) fuel (repeat i n)) = true ->
  forall ins, Forall (fun x => In x alphabet) ins ->
    traceA (sstep d mid) (power_up_s d) ins = traceB (dline_step w) (dline_init n i) ins.
Proof. exact dline_code_tie. Qed.
Print Assumptions C16_delay_line_code_matches_model_all_n.

Theorem C16_counter_code_matches_model_all_limits : forall d mid alphabet fuel (w : BinNums.N) (limit : Z), 0 <= limit ->
  conc_all_ok (auto_Ts d) d = true ->
  is_ok (rcheck_s d mid (counter_step w limit) alphabet (fun _ _ => true) fuel [0]) = true ->
  forall ins, Forall (fun x => In x alphabet) ins ->
    traceA (sstep d mid) (power_up_s d) ins = traceB (ccounter_step w limit) [0] ins.
Proof. exact ccounter_code_tie. Qed.
Print Assumptions C16_counter_code_matches_model_all_limits.

Theorem C16_toggle_code_matches_model_all_durations : forall d mid alphabet fuel (first second : Z) (ds fs : bool),
  0 <= first -> 0 <= second -> 1 <= first + second ->
  conc_all_ok (auto_Ts d) d = true ->
  is_ok (rcheck_s d mid (toggle_step first second ds fs) alphabet (fun _ _ => true) fuel [0; zb ds]) = true ->
  forall ins, Forall (fun x => In x alphabet) ins ->
    traceA (sstep d mid) (power_up_s d) ins = traceB (togglem_step first second ds fs) (togglem_init ds) ins.
Proof. exact togglem_code_tie. Qed.
Print Assumptions C16_toggle_code_matches_model_all_durations.

Theorem C16_divider_code_matches_model_all_durations : forall d mid alphabet fuel (D : Z) (ds tas : bool), 1 <= D ->
  conc_all_ok (auto_Ts d) d = true ->
  is_ok (rcheck_s d mid (divider_step D ds tas) alphabet (fun _ _ => true) fuel
           [0; (if tas then D - 1 else 0); zb ds]) = true ->
  forall ins, Forall (fun x => In x alphabet) ins ->
    traceA (sstep d mid) (power_up_s d) ins = traceB (dividerm_step D ds tas) (dividerm_init D ds tas) ins.
Proof. exact dividerm_code_tie. Qed.
Print Assumptions C16_divider_code_matches_model_all_durations.

(** ** wait_for in the Gallina model of the lowering, for ALL constant durations

    [Lower.lower] lowers [Wait n] the way std.wait_for / Waiter.wait_for are lowered: [await true] for n = 1,
    otherwise [counter <<= n - 1] in the current state and a new loop-head state
    [if counter /= 0 then counter <<= counter - 1 (stay) else <rest>] (the counter is a registered signal of
    the target machine).  [Lower.in_grammar] admits [Wait n] for every n >= 1 anywhere in a program of the
    C01 grammar (loops, branches, calls) except n = 1 as the very first action of the process; for all these
    programs and all input sequences the lowered machine has the trace of the coroutine semantics, in which the
    statement after [Wait n] runs exactly n clocks after the wait was reached. *)
Theorem C16_lower_wait_correct :
  forall p : stmt, in_grammar p = true ->
  forall ins, traceB (mstepZ (lower p)) minitZ ins = traceB (ref_step p) rinit ins.
Proof. exact lower_correct. Qed.
Print Assumptions C16_lower_wait_correct.

(** non-vacuity for every n >= 1: a wait after a statement is in the grammar *)
Theorem C16_lower_wait_all_n :
  forall n, (1 <= n)%Z ->
    in_grammar (Seq (Eff 1) (Seq (Wait n) (Eff 2))) = true /\
    forall ins, traceB (mstepZ (lower (Seq (Eff 1) (Seq (Wait n) (Eff 2))))) minitZ ins
              = traceB (ref_step (Seq (Eff 1) (Seq (Wait n) (Eff 2)))) rinit ins.
Proof. intros n H. split; [exact (wait_prog_in_grammar n H)|exact (wait_exact n H)]. Qed.
Print Assumptions C16_lower_wait_all_n.

(** run-time durations [wait_for(self.dur)] / [wait_for(self.dur, allow_zero=True)] ([WaitIn]): lowered to
    [if dur = 0 then <rest>] (allow_zero only), [counter <<= dur - 1] and the same loop.  For every program of
    [in_grammar_dur ds] and every input sequence whose duration input is >= 0 (it is an unsigned port) - and
    >= 1 when the program contains a wait_for(self.dur) without allow_zero ([ds = true]; the library leaves
    duration 0 undefined there and the counter wraps) - the lowered machine has the trace of the coroutine semantics. *)
Theorem C16_lower_wait_rt_correct :
  forall (ds : bool) (p : stmt), in_grammar_dur ds p = true ->
  forall ins, Forall (fun i => okd true ds (in_bits i)) ins ->
    traceB (mstepZ (lower p)) minitZ ins = traceB (ref_step p) rinit ins.
Proof. exact lower_correct_dur. Qed.
Print Assumptions C16_lower_wait_rt_correct.

Example C16_lower_wait_rt_nonvacuous :
  in_grammar_dur true (Seq (Eff 1) (Seq (WaitIn false) (Seq (Eff 2) (Seq (WaitIn true) (Eff 3))))) = true /\
  okd true true (in_bits [VL false; VL true; VV KUns 3 5]).
Proof. exact wait_rt_example. Qed.
Print Assumptions C16_lower_wait_rt_nonvacuous.

(** the excluded case is the known finding: wait_for(1) as the very first action resumes in the same clock
    in the code and in the model of the lowering; the coroutine semantics resumes one clock later *)
Theorem C16_lower_wait1_first_refuted :
  in_grammar wait1_first = false /\
  exists ins, traceB (mstepZ (lower wait1_first)) minitZ ins <> traceB (ref_step wait1_first) rinit ins.
Proof. exact lower_wait1_first_refuted. Qed.
Print Assumptions C16_lower_wait1_first_refuted.

(** ** run-time limits / durations and debounce: all-parameter theorems about the AS-CODED models of
    Models/TimingRt.v (cohdl/std/utility.py: debounce 630-658, continuous_counter 934-969 with a signal limit,
    ToggleSignal 1004-1049 and ClockDivider 1093-1137 with signal durations) *)
From Cohdl Require Import Base.Bits Models.TimingRt Models.TimingRtProofs.

(** debounce, EVERY period >= 1, both initial levels, every input sequence of every length: as coded (register
    [Unsigned.upto(period)] with wrapping +1/-1, start value period // 2) = specification machine *)
Theorem C16_debounce_model_is_spec_all_periods : forall (period : Z) (initial : bool) ins, 1 <= period ->
  traceB (dbm_step period) (dbm_init period initial) ins =
  traceB (debounce_step period) [period / 2; zb initial] ins.
Proof. exact dbm_refines. Qed.
Print Assumptions C16_debounce_model_is_spec_all_periods.

(** "starts at period/2": the start value fits the register for every period *)
Theorem C16_debounce_starts_at_half_all_periods : forall (period : Z) (initial : bool), 1 <= period ->
  dbm_init period initial = [period / 2; zb initial].
Proof. exact dbm_init_eq. Qed.
Print Assumptions C16_debounce_starts_at_half_all_periods.

(** the counter never leaves 0..period on any input sequence: the register width suffices, no wrap ever happens *)
Theorem C16_debounce_counter_bounded_all_periods : forall (period : Z) (initial : bool) ins, 1 <= period ->
  exists cnt out, runB (dbm_step period) (dbm_init period initial) ins = [cnt; out] /\ 0 <= cnt <= period.
Proof. exact dbm_counter_bounded. Qed.
Print Assumptions C16_debounce_counter_bounded_all_periods.

(** "output '1' exactly when the counter reaches the period and '0' when it reaches zero": in one clock from any
    state with the counter in 0..period the output is set iff input '1' and counter = period, cleared iff input
    '0' and counter = 0, unchanged otherwise; the counter moves one step towards the input, saturating *)
Theorem C16_debounce_step_exact_all_periods : forall (period cnt out : Z) (i : value), 1 <= period -> 0 <= cnt <= period ->
  let cnt' := if vbit i then Z.min (cnt + 1) period else Z.max (cnt - 1) 0 in
  let out' := if vbit i && (cnt =? period) then 1
              else if negb (vbit i) && (cnt =? 0) then 0 else out in
  dbm_step period [cnt; out] [i] = ([cnt'; out'], Ok [obit (out' =? 1)]).
Proof. exact dbm_step_exact. Qed.
Print Assumptions C16_debounce_step_exact_all_periods.

(** exact to the clock from power-up, every period: input held '1' - the output keeps its initial level for
    exactly period - period/2 clocks and is '1' from the next clock on; input held '0' - exactly period/2 clocks *)
Theorem C16_debounce_hold_high_exact_all_periods : forall (period : Z) (initial : bool) ins, 1 <= period ->
  Forall (is_bit true) ins ->
  traceB (dbm_step period) (dbm_init period initial) ins =
  map (fun t => Ok [obit (if period - period / 2 <? Z.of_nat (S t) then true else initial)]) (seq 0 (length ins)).
Proof. exact dbm_hold_high_exact. Qed.
Print Assumptions C16_debounce_hold_high_exact_all_periods.

Theorem C16_debounce_hold_low_exact_all_periods : forall (period : Z) (initial : bool) ins, 1 <= period ->
  Forall (is_bit false) ins ->
  traceB (dbm_step period) (dbm_init period initial) ins =
  map (fun t => Ok [obit (if period / 2 <? Z.of_nat (S t) then false else initial)]) (seq 0 (length ins)).
Proof. exact dbm_hold_low_exact. Qed.
Print Assumptions C16_debounce_hold_low_exact_all_periods.

(** non-vacuity: period 5 (3-bit register, start 2), input held '1': initial level for 3 clocks, then '1';
    then held '0': 5 more clocks at '1' (counter 5 -> 0), then '0' *)
Example C16_debounce_nonvacuous :
  let h := [VL true] in let l := [VL false] in
  (1 <= 5 /\ Forall (is_bit true) [h; h; h; h; h]) /\
  dbm_init 5 false = [2; 0] /\
  traceB (dbm_step 5) (dbm_init 5 false) [h; h; h; h; h; l; l; l; l; l; l; l] =
  map (fun b => Ok [obit b]) [false; false; false; true; true; true; true; true; true; true; false; false].
Proof. vm_compute. repeat split; try discriminate; repeat constructor. Qed.

(** continuous_counter with a RUN-TIME limit (a w-bit port), every width w >= 1, every sequence of w-bit limits
    of every length: as coded (counter type [Unsigned.upto(2**w - 1)], wrapping + 1, wrap on [>=]) = specification *)
Theorem C16_counter_rt_model_is_spec_all_widths : forall (w : BinNums.N) ins, (1 <= w)%N -> Forall (lim_ok w) ins ->
  traceB (ccrt_step w) [0] ins = traceB (counter_rt_step w) [0] ins.
Proof. exact ccrt_refines. Qed.
Print Assumptions C16_counter_rt_model_is_spec_all_widths.

Theorem C16_counter_rt_never_overflows : forall (w : BinNums.N) ins, (1 <= w)%N -> Forall (lim_ok w) ins ->
  exists c, runB (ccrt_step w) [0] ins = [c] /\ 0 <= c < pow2 w.
Proof. exact ccrt_counter_bounded. Qed.
Print Assumptions C16_counter_rt_never_overflows.

(** one clock: below the limit exactly + 1, at or above the limit back to 0 *)
Theorem C16_counter_rt_step_exact : forall (w : BinNums.N) (c : Z) (l : value), (1 <= w)%N -> 0 <= c < pow2 w ->
  0 <= vnum l < pow2 w ->
  let c' := if vnum l <=? c then 0 else c + 1 in
  ccrt_step w [c] [l] = ([c'], Ok [ouns w c']).
Proof. exact ccrt_step_exact. Qed.
Print Assumptions C16_counter_rt_step_exact.

(** "wraps within one step after the limit is lowered below the count": after ANY input prefix that left the
    count at c, a clock with limit <= c yields 0 in that very clock and the counter is back in its power-up state *)
Theorem C16_counter_rt_wraps_within_one_step : forall (w : BinNums.N) pre (l : value) rest (c : Z), (1 <= w)%N ->
  runB (ccrt_step w) [0] pre = [c] -> vnum l <= c ->
  traceB (ccrt_step w) [0] (pre ++ [l] :: rest) =
  traceB (ccrt_step w) [0] pre ++ Ok [ouns w 0] :: traceB (ccrt_step w) [0] rest.
Proof. exact ccrt_wraps_within_one_step. Qed.
Print Assumptions C16_counter_rt_wraps_within_one_step.

(** limit held at L: exact period L + 1, every 0 <= L < 2^w *)
Theorem C16_counter_rt_period_exact_const_limit : forall (w : BinNums.N) (l : value) (n : nat), (1 <= w)%N ->
  0 <= vnum l < pow2 w ->
  traceB (ccrt_step w) [0] (repeat [l] n) =
  map (fun t => Ok [ouns w (Z.of_nat (S t) mod (vnum l + 1))]) (seq 0 n).
Proof. exact ccrt_const_limit_period. Qed.
Print Assumptions C16_counter_rt_period_exact_const_limit.

(** non-vacuity: 3-bit limit; count to 4 under limit 6, lower the limit to 2: 0 in the next clock, then 1, 2, 0 *)
Example C16_counter_rt_nonvacuous :
  let L x := [VV KUns 3 x] in
  ((1 <= 3)%N /\ Forall (lim_ok 3) [L 6; L 6; L 6; L 6; L 2; L 2; L 2; L 2]) /\
  (runB (ccrt_step 3) [0] [L 6; L 6; L 6; L 6] = [4] /\ vnum (VV KUns 3 2) <= 4) /\
  traceB (ccrt_step 3) [0] [L 6; L 6; L 6; L 6; L 2; L 2; L 2; L 2] =
  map (fun x => Ok [ouns 3 x]) [1; 2; 3; 4; 0; 1; 2; 0].
Proof. vm_compute. repeat split; try discriminate; repeat constructor; discriminate. Qed.

(** ToggleSignal with run-time durations (ports of wf and ws bits), all widths, both polarities, every sequence
    of durations with first + second >= 1: as coded (concurrent [counter_end] in [Unsigned.upto(max_f+max_s-1)],
    whose intermediate sum may overflow and wrap back) = specification machine *)
Theorem C16_toggle_rt_model_is_spec_all_widths : forall (wf ws : BinNums.N) (ds fs : bool) ins,
  (1 <= wf)%N -> (1 <= ws)%N -> Forall (dur_ok wf ws) ins ->
  traceB (togglert_step wf ws ds fs) (togglert_init ds) ins = traceB (toggle_rt_step ds fs) [0; zb ds] ins.
Proof. exact togglert_refines. Qed.
Print Assumptions C16_toggle_rt_model_is_spec_all_widths.

Theorem C16_toggle_rt_counter_end_exact : forall wf ws f g, (1 <= wf)%N -> (1 <= ws)%N ->
  0 <= f < pow2 wf -> 0 <= g < pow2 ws -> 1 <= f + g ->
  tgrt_end wf ws f g = f + g - 1 /\ f + g - 1 < pow2 (tgrt_end_width wf ws).
Proof. exact tgrt_end_eq. Qed.
Print Assumptions C16_toggle_rt_counter_end_exact.

Example C16_toggle_rt_nonvacuous :
  let D := [VV KUns 1 1; VV KUns 1 1] in
  ((1 <= 1)%N /\ Forall (dur_ok 1 1) [D; D; D; D]) /\
  tgrt_end_width 1 1 = 1%N /\ tgrt_end 1 1 1 1 = 1 /\
  traceB (togglert_step 1 1 false true) (togglert_init false) [D; D; D; D] =
  [Ok [obit false; obit false; obit false]; Ok [obit true; obit true; obit false];
   Ok [obit false; obit false; obit true]; Ok [obit true; obit true; obit false]].
Proof. vm_compute. repeat split; try discriminate; repeat constructor; discriminate. Qed.

(** ClockDivider with a run-time duration (w-bit port), every width, every sequence of periods >= 1
    (default_state = False as in the specification machine): as coded = specification machine *)
Theorem C16_divider_rt_model_is_spec_all_widths_partial : forall (w : BinNums.N) ins, (1 <= w)%N -> Forall (per_ok w) ins ->
  traceB (dividerrt_step w false) (dividerrt_init false) ins = traceB divider_rt_step [0; 0] ins.
Proof. exact dividerrt_refines. Qed.
Print Assumptions C16_divider_rt_model_is_spec_all_widths_partial.
(* partial: default_state = True is not covered (the specification machine [divider_rt_step] of StdSpecs.v has
   no default_state parameter); full statement: forall ds, traceB (dividerrt_step w ds) (dividerrt_init ds) ins
   = traceB (divider_rt_step generalised by ds) [0; zb ds] ins *)

Example C16_divider_rt_nonvacuous :
  let P x := [VV KUns 2 x] in
  ((1 <= 2)%N /\ Forall (per_ok 2) [P 3; P 3; P 3; P 1; P 1]) /\
  traceB (dividerrt_step 2 false) (dividerrt_init false) [P 3; P 3; P 3; P 1; P 1] =
  [Ok [obit false; obit false]; Ok [obit false; obit false]; Ok [obit true; obit true];
   Ok [obit true; obit false]; Ok [obit true; obit false]].
Proof. vm_compute. repeat split; try discriminate; repeat constructor; discriminate. Qed.

(** tie to the code, every configuration at once (the computed hypotheses are what every generated case file of
    harness/c16.py proves for its parsed design) *)
Theorem C16_debounce_code_matches_model_all_periods : forall d mid alphabet fuel (period : Z) (initial : bool), 1 <= period ->
  conc_all_ok (auto_Ts d) d = true ->
  is_ok (rcheck_s d mid (debounce_step period) alphabet (fun _ _ => true) fuel [period / 2; zb initial]) = true ->
  forall ins, Forall (fun x => In x alphabet) ins ->
    traceA (sstep d mid) (power_up_s d) ins = traceB (dbm_step period) (dbm_init period initial) ins.
Proof. exact dbm_code_tie. Qed.
Print Assumptions C16_debounce_code_matches_model_all_periods.

Theorem C16_counter_rt_code_matches_model_all_widths : forall d mid alphabet fuel (w : BinNums.N), (1 <= w)%N ->
  Forall (lim_ok w) alphabet ->
  conc_all_ok (auto_Ts d) d = true ->
  is_ok (rcheck_s d mid (counter_rt_step w) alphabet (fun _ _ => true) fuel [0]) = true ->
  forall ins, Forall (fun x => In x alphabet) ins ->
    traceA (sstep d mid) (power_up_s d) ins = traceB (ccrt_step w) [0] ins.
Proof. exact ccrt_code_tie. Qed.
Print Assumptions C16_counter_rt_code_matches_model_all_widths.
