(** * C06 - every accepted design yields legal, well-typed, self-consistent VHDL.

    Static part: soundness of the typing rules against the executable semantics, the theorems about
    the model of [VhdlScope.complete_setup], the reference tables.  The rules themselves
    ([wt_design], [assoc_ok], [case_ok], [ports_ok], [sens_ok], [idents_ok], [decl_unique],
    [no_reserved], [no_hiding]) are evaluated by the harness inside Coq on every entity of every
    compiled design; the inclusions "VHDL-93 reserved words / predefined names used by the emitter are
    in the emitter's live table" are proved by files the harness regenerates from /repo on every run
    (gen/C06/T_*.v against gen/C06/Tables.v); both hold on the current tree (94f10ee). *)
From Coq Require Import ZArith NArith PArith List Bool String FMapPositive.
Import ListNotations.
From Cohdl Require Import Base.Bits Vhdl.Value Vhdl.NumStd Vhdl.Syntax Vhdl.Sem Vhdl.Typing Vhdl.Names
  Vhdl.TablesRef Vhdl.DefAssign Vhdl.Drivers.

(** ** typing *)

(** a well-typed expression evaluated in well-typed stores yields a value of its type, or one of the
    run-time conditions (division by zero, range); never ETypeError / EWidth / EUnbound *)
Theorem C06_wt_sound : forall G sg vr ev e h t,
  store_ok G.(te_sig) sg -> store_ok G.(te_var) vr -> typeof G h e = Some t ->
  res_ok (fun v => has_ty t v = true) (eval sg vr ev e).
Proof. exact wt_sound. Qed.
Print Assumptions C06_wt_sound.

Example C06_wt_sound_nonvacuous : exists G sg vr e t,
  store_ok G.(te_sig) sg /\ store_ok G.(te_var) vr /\ typeof G None e = Some t /\
  exists v, eval sg vr PS.empty e = Ok v /\ has_ty t v = true.
Proof. exact wt_sound_nonvacuous. Qed.
Print Assumptions C06_wt_sound_nonvacuous.

(** statements: execution of a well-typed statement keeps the variable store well-typed and raises no
    type / width / unbound error *)
Theorem C06_exec_sound : forall G sg ev, store_ok G.(te_sig) sg ->
  forall s vr pend, wt_stmt G s = true -> store_ok G.(te_var) vr ->
  res_ok (fun r => store_ok G.(te_var) (fst r)) (exec sg ev s vr pend).
Proof. exact exec_sound. Qed.
Print Assumptions C06_exec_sound.

(** one activation of a concurrent statement / process.
    _partial: the lift to a whole delta cycle ([Sem.delta]: [commit] re-applies the collected writes to
    the updated signal store, [settle], [vstep]) is not proved; it needs "[apply_write]'s error class
    depends only on the shape of the base value", which holds by the same case analysis. *)
Theorem C06_run_conc_sound_partial : forall G sg vr ev c,
  store_ok G.(te_sig) sg -> store_ok G.(te_var) vr -> wt_conc G c = true ->
  res_ok (fun r => store_ok G.(te_var) (fst r)) (run_conc sg vr ev c).
Proof. exact run_conc_sound. Qed.
Print Assumptions C06_run_conc_sound_partial.

Example C06_exec_sound_nonvacuous :
  let G := {| te_sig := PM.add 1%positive (TVec KUns 3) (PM.empty ty);
              te_var := PM.add 1%positive (TVec KUns 3) (PM.empty ty) |} in
  wt_stmt G (SSeq (SVar 1 [] (EBin OAdd (ESig 1) (ELit (VI 1))))
                  (SSig 1 [SelSlice 1 0] (ESlice (EVar 1) 2 1))) = true /\
  wt_conc G (CProc 1 [1%positive] (SIf (EEdge true 1) SNull SNull)) = false.
Proof. vm_compute. split; reflexivity. Qed.
Print Assumptions C06_exec_sound_nonvacuous.

(** unary minus on [unsigned] (what [UnaryOp.write] prints for [-a], [a : Unsigned]) has no type and
    evaluates to a type error *)
Example C06_rejects_uminus_unsigned :
  store_ok ex_G.(te_sig) ex_sg /\ store_ok ex_G.(te_var) (PM.empty value) /\
  typeof ex_G None (EUn UNeg (ESig 1%positive)) = None /\
  eval ex_sg (PM.empty value) PS.empty (EUn UNeg (ESig 1%positive)) = Err ETypeError.
Proof. exact wt_rejects_uminus_unsigned. Qed.
Print Assumptions C06_rejects_uminus_unsigned.

(** ** names *)
Local Open Scope string_scope.

(** [uniquify] models the CURRENT [VhdlScope.complete_setup]: a request is (raw name, fallback of the
    object's kind); strip, collapse runs of underscores, empty -> fallback, lower-case collision test,
    doubling then binary search.  The theorems hold for every normalisation ([Names.assign_distinct] ...),
    so they also cover the code as it was before 3102177 ([uniquify_strip]). *)
Theorem C06_uniquify_distinct : forall used reqs,
  NoDup (map lower (uniquify used reqs)) /\ forall n, In n (uniquify used reqs) -> ~ In (lower n) used.
Proof. exact uniquify_distinct. Qed.
Print Assumptions C06_uniquify_distinct.

(** the doubling loop [while taken: cnt *= 2] stops after at most [length used] iterations at the first
    free power of two; the structural bound of the model is never the reason to stop *)
Theorem C06_uniquify_terminates : forall used base, exists k,
  k <= List.length used /\ dbl used base 0 (S (List.length used)) = k /\
  taken used (base ++ str (pw2 k)) = false /\
  forall j, j < k -> taken used (base ++ str (pw2 j)) = true.
Proof. exact uniquify_terminates. Qed.
Print Assumptions C06_uniquify_terminates.

Theorem C06_uniquify_length : forall used reqs, List.length (uniquify used reqs) = List.length reqs.
Proof. exact uniquify_length. Qed.
Print Assumptions C06_uniquify_length.

(** every reference to the i-th object of a scope prints [name_of used reqs i]; two objects of one scope
    never get names that VHDL identifies *)
Theorem C06_same_object_same_name : forall used reqs i j,
  i < List.length reqs -> j < List.length reqs ->
  (lower (name_of used reqs i) = lower (name_of used reqs j) <-> i = j).
Proof. exact same_object_same_name. Qed.
Print Assumptions C06_same_object_same_name.

(** a sub-scope (process in architecture) never reuses a name of its parent *)
Theorem C06_uniquify_child_distinct : forall used parent child,
  let (p, c) := uniquify_child used parent child in
  NoDup (map lower (p ++ c)) /\ forall n, In n (p ++ c) -> ~ In (lower n) used.
Proof. exact uniquify_child_distinct. Qed.
Print Assumptions C06_uniquify_child_distinct.

(** enumeration literals are reserved before any name is assigned (60980b9): no object of the entity
    gets the name of a literal *)
Theorem C06_uniquify_avoids_literals : forall used lits reqs n l,
  In n (uniquify_module used lits reqs) -> In l lits -> lower n <> lower l.
Proof. exact uniquify_avoids_literals. Qed.
Print Assumptions C06_uniquify_avoids_literals.

(** the normalisation leaves no adjacent underscores (3102177) *)
Theorem C06_normalize_no_double_underscore : forall s b, no_double_us b (collapse_us b s) = true.
Proof. exact collapse_no_double_us. Qed.
Print Assumptions C06_normalize_no_double_underscore.

Example C06_uniquify_example :
  uniquify ["signal"; "foo"; "temp"; "temp1"; "temp2"; "temp3"]
           [("_Signal_", "sig"); ("Foo", "sig"); ("foo", "sig"); ("temp", "temp"); ("temp", "temp");
            ("x__y", "sig"); ("temp", "temp"); ("__", "var")]
  = ["Signal1"; "Foo1"; "foo2"; "temp4"; "temp5"; "x_y"; "temp6"; "var"]
  /\ uniquify_module ["signal"] ["state_0"; "GREEN"] [("state_0", "sig"); ("green", "sig")] = ["state_01"; "green1"].
Proof. vm_compute. split; reflexivity. Qed.
Print Assumptions C06_uniquify_example.

(** regression witness: the name assignment as it was before 3102177 produced an illegal and an empty
    identifier for requests the current one handles *)
Example C06_uniquify_before_fix_refuted :
  uniquify_strip ["signal"] ["x__y"; "__"] = ["x__y"; ""]
  /\ forallb ident_ok (uniquify_strip ["signal"] ["x__y"; "__"]) = false
  /\ forallb ident_ok (uniquify ["signal"] [("x__y", "sig"); ("__", "sig")]) = true.
Proof. vm_compute. repeat split. Qed.
Print Assumptions C06_uniquify_before_fix_refuted.

(** the naming rules do reject: a port [state_0] beside the enumeration literal [state_0] of a state type;
    a signal [to_integer] in a text that calls the function; a reserved word; a double underscore *)
Example C06_rules_reject :
  let n := {| en_entity := "E"; en_archname := "arch_E";
              en_fixed := ["cohdl_bool_to_std_logic"];
              en_arch := ["clk"; "state_0"; "to_integer"; "state_co"; "s_co"];
              en_lits := [["state_0"; "state_1"]];
              en_procs := [(["temp"], ["clk"; "temp"; "s_co"])];
              en_scoped := [("state_0", (4, 40)); ("to_integer", (12, 40)); ("temp", (20, 30))]%N;
              en_relied := [("std_logic", 4); ("to_integer", 25); ("rising_edge", 22)]%N |} in
  decl_unique n = false /\ no_hiding predefined_used_by_emitter n = false /\
  no_reserved vhdl93_reserved n = true /\ idents_ok n = true /\
  no_reserved vhdl93_reserved {| en_entity := "buffer"; en_archname := "a"; en_fixed := []; en_arch := []; en_lits := []; en_procs := []; en_scoped := []; en_relied := [] |} = false
  /\ no_hiding predefined_used_by_emitter
       {| en_entity := "E"; en_archname := "a"; en_fixed := []; en_arch := ["integer"]; en_lits := []; en_procs := [];
          en_scoped := [("integer", (5, 20))]%N; en_relied := [("integer", 5)]%N |} = true.
Proof. vm_compute. repeat split. Qed.
Print Assumptions C06_rules_reject.

(** ** reference tables *)

Theorem C06_reserved_ref_wellformed :
  List.length vhdl93_reserved = 97 /\ nodupb vhdl93_reserved = true /\
  forallb (fun w => String.eqb (lower w) w) (vhdl93_reserved ++ predefined_used_by_emitter) = true.
Proof. vm_compute. repeat split. Qed.
Print Assumptions C06_reserved_ref_wellformed.

(** ** re-exports (C08 / C07) *)

Theorem C06_def_assign_sound : forall T body sg ev v1 v2,
  def_assign T body = true -> agree_outside T v1 v2 ->
  match exec sg ev body v1 [], exec sg ev body v2 [] with
  | Ok (w1, p1), Ok (w2, p2) =>
      p1 = p2 /\
      (forall x, DefAssign.pmem x T = false -> PM.find x w1 = PM.find x w2) /\
      (exists D, da T body [] = Some D /\ forall x, DefAssign.pmem x D = true -> PM.find x w1 = PM.find x w2)
  | Err e1, Err e2 => e1 = e2
  | _, _ => False
  end.
Proof. exact def_assign_sound. Qed.
Print Assumptions C06_def_assign_sound.

Theorem C06_single_driver_commit_sound : forall d sg ev wss wss',
  drivers_disjoint d = true ->
  Forall2 (fun c ws => exists vr0 vr1, run_conc sg vr0 ev c = Ok (vr1, ws)) d.(d_conc) wss ->
  Permutation.Permutation wss wss' ->
  res_equiv (commit sg (List.concat wss)) (commit sg (List.concat wss')).
Proof. exact single_driver_commit_sound. Qed.
Print Assumptions C06_single_driver_commit_sound.
