(** C14 - property theorems (statements only; proofs live in the library files) *)
From Coq Require Import ZArith NArith PArith List Bool.
From Cohdl Require Import Vhdl.Value Vhdl.Syntax Vhdl.Sem Vhdl.DefAssign Vhdl.DeadVars Equiv.Explore Equiv.VhdlTS Equiv.RefTS Equiv.Monitor Equiv.StoreTS Models.StdSpecs.
Import ListNotations.

Theorem C14_case_sound :
  forall d mid stepB alphabet assume fuel initB,
    conc_all_ok (auto_Ts d) d = true ->
    is_ok (rcheck_s d mid stepB alphabet assume fuel initB) = true ->
    forall ins, admissible stepB alphabet assume initB ins ->
      traceA (sstep d mid) (power_up_s d) ins = traceB stepB initB ins.
Proof. exact rcheck_s_sound. Qed.
Print Assumptions C14_case_sound.

(** the explored system is the design with its dead compiler temporaries normalised after every
    clock; this theorem is what makes that exploration speak about the design itself *)
Theorem C14_normalisation_sound :
  forall T d mid, conc_all_ok T d = true -> forall ins s n, srel_s T s n ->
    traceA (sstep d mid) s ins = traceA (sstep_n d T mid) n ins.
Proof. exact norm_traces_s. Qed.
Print Assumptions C14_normalisation_sound.

(** ** all-size theorems about the AS-CODED models of std.Fifo / std.Stack (Models/Ring.v: memory of N cells,
    index registers of the coded width, [_next_index]/[_prev_index] as written).  [adm] = admissible under the
    documented preconditions with arbitrary data values; [seg n mem rd k] = the k cells from rd on, round a
    memory of n cells; [bseg pr mem idx k] = the k cells below idx. *)
From Cohdl Require Import Models.Ring Models.RingProofs.
Local Open Scope Z_scope.

(** [Fifo._next_index] is +1 modulo N for every N >= 2 (wrap at N, or natural overflow for powers of two) *)
Theorem C14_fifo_next_index_all_N : forall (N : nat) (i : Z), (2 <= N)%nat -> 0 <= i < Z.of_nat N ->
  fifo_next N i = (i + 1) mod Z.of_nat N.
Proof. exact fifo_next_index_mod. Qed.
Print Assumptions C14_fifo_next_index_all_N.

(** every N >= 2, every width, every admissible input sequence: the ring buffer shows the outputs
    [dout; empty; full] of the abstract queue of capacity N-1 at every clock *)
Theorem C14_fifo_ring_refines_queue_all_N : forall (N : nat) (w : BinNums.N), (2 <= N)%nat ->
  forall ins, adm (queue_step N w) (queue_assume N) [0] ins ->
    traceB (ring_step N w) (ring_init N) ins = traceB (queue_step N w) [0] ins.
Proof. exact ring_refines_queue. Qed.
Print Assumptions C14_fifo_ring_refines_queue_all_N.

(** invariant and abstraction function: indices in range, occupancy (wr - rd) mod N, content = cells rd .. wr *)
Theorem C14_fifo_ring_state_abstraction_all_N : forall (N : nat) (w : BinNums.N), (2 <= N)%nat ->
  forall ins, adm (queue_step N w) (queue_assume N) [0] ins ->
    exists dout rd wr mem,
      run (ring_step N w) (ring_init N) ins = dout :: rd :: wr :: mem /\
      length mem = N /\ 0 <= rd < Z.of_nat N /\ 0 <= wr < Z.of_nat N /\
      run (queue_step N w) [0] ins =
        dout :: seg (Z.of_nat N) mem rd (Z.to_nat ((wr - rd) mod Z.of_nat N)).
Proof. exact ring_state_abstraction. Qed.
Print Assumptions C14_fifo_ring_state_abstraction_all_N.

(** the component's own empty/full flags state the documented preconditions *)
Theorem C14_fifo_ring_preconditions_agree_all_N : forall (N : nat) (w : BinNums.N), (2 <= N)%nat ->
  forall ins, adm (ring_step N w) (ring_assume N) (ring_init N) ins <->
              adm (queue_step N w) (queue_assume N) [0] ins.
Proof. exact ring_preconditions_agree. Qed.
Print Assumptions C14_fifo_ring_preconditions_agree_all_N.

(** capacity, every N >= 2: N-1 pushes in a row are admissible, the buffer then holds exactly these N-1
    elements in push order and reports full (this is also the non-vacuity of the refinement for every N) *)
Theorem C14_fifo_ring_holds_N_minus_1_all_N : forall (N : nat) (w : BinNums.N), (2 <= N)%nat ->
  forall vs, length vs = (N - 1)%nat ->
    adm (ring_step N w) (ring_assume N) (ring_init N) (map (push_in w) vs) /\
    exists dout rd wr mem,
      run (ring_step N w) (ring_init N) (map (push_in w) vs) = dout :: rd :: wr :: mem /\
      seg (Z.of_nat N) mem rd (Z.to_nat ((wr - rd) mod Z.of_nat N)) = vs /\
      fifo_next N wr = rd.
Proof. exact ring_holds_N_minus_1. Qed.
Print Assumptions C14_fifo_ring_holds_N_minus_1_all_N.

(** a case theorem against the as-coded model and one against the abstract queue are interchangeable *)
Theorem C14_fifo_ring_case_transfer_all_N : forall (N : nat) (w : BinNums.N), (2 <= N)%nat ->
  forall (alphabet : list (list value)) (T : list (list value) -> list (res (list value))),
    (forall ins, admissible (ring_step N w) alphabet (ring_assume N) (ring_init N) ins ->
       T ins = traceB (ring_step N w) (ring_init N) ins) <->
    (forall ins, admissible (queue_step N w) alphabet (queue_assume N) [0] ins ->
       T ins = traceB (queue_step N w) [0] ins).
Proof. exact ring_case_transfer. Qed.
Print Assumptions C14_fifo_ring_case_transfer_all_N.

(** tie to the code: the two computed hypotheses are what every generated Fifo case file of harness/c14.py
    proves for its parsed design d (non-vacuity: each such case file); harness/c14.py additionally proves the
    conclusion directly, per configuration, by a second exploration against [ring_step N] *)
Theorem C14_fifo_code_matches_ring_all_N : forall d mid alphabet fuel (N : nat) (w : BinNums.N), (2 <= N)%nat ->
  conc_all_ok (auto_Ts d) d = true ->
  is_ok (rcheck_s d mid (queue_step N w) alphabet (queue_assume N) fuel [0]) = true ->
  forall ins, admissible (ring_step N w) alphabet (ring_assume N) (ring_init N) ins ->
    traceA (sstep d mid) (power_up_s d) ins = traceB (ring_step N w) (ring_init N) ins.
Proof. exact ring_code_tie. Qed.
Print Assumptions C14_fifo_code_matches_ring_all_N.

(** non-vacuity at N = 5: pushes, pops and both in one clock; the 7th clock fills the buffer (4 elements) *)
Definition C14_fifo_example_ins : list (list value) :=
  let pu v := [VL true; VL false; VV KUns 8 v] in
  let po := [VL false; VL true; VV KUns 8 0] in
  let both v := [VL true; VL true; VV KUns 8 v] in
  [pu 3; pu 7; both 9; po; pu 1; pu 2; pu 4; po; po; po; po].
Example C14_fifo_ring_nonvacuous :
  (2 <= 5)%nat /\
  adm (queue_step 5 8) (queue_assume 5) [0] C14_fifo_example_ins /\
  traceB (ring_step 5 8) (ring_init 5) C14_fifo_example_ins =
    [Ok [ouns 8 0; obit false; obit false]; Ok [ouns 8 0; obit false; obit false];
     Ok [ouns 8 3; obit false; obit false]; Ok [ouns 8 7; obit false; obit false];
     Ok [ouns 8 7; obit false; obit false]; Ok [ouns 8 7; obit false; obit false];
     Ok [ouns 8 7; obit false; obit true];
     Ok [ouns 8 9; obit false; obit false]; Ok [ouns 8 1; obit false; obit false];
     Ok [ouns 8 2; obit false; obit false]; Ok [ouns 8 4; obit true; obit false]].
Proof. vm_compute. repeat split; repeat constructor. Qed.

(** std.Stack, every N >= 1, both modes, every width, every admissible input sequence *)
Theorem C14_stack_model_refines_stack_all_N : forall (N : nat) (w sw : BinNums.N) (drop_old : bool), (1 <= N)%nat ->
  forall ins, adm (stack_step N w sw drop_old) (stack_assume N drop_old) [0] ins ->
    traceB (stackm_step N w sw drop_old) (stackm_init N) ins = traceB (stack_step N w sw drop_old) [0] ins.
Proof. exact stackm_refines_stack. Qed.
Print Assumptions C14_stack_model_refines_stack_all_N.

Theorem C14_stack_model_state_abstraction_all_N : forall (N : nat) (w sw : BinNums.N) (drop_old : bool), (1 <= N)%nat ->
  forall ins, adm (stack_step N w sw drop_old) (stack_assume N drop_old) [0] ins ->
    exists dout idx cnt mem,
      run (stackm_step N w sw drop_old) (stackm_init N) ins = dout :: idx :: cnt :: mem /\
      length mem = N /\
      (if drop_old then 0 <= idx < Z.of_nat N /\ 0 <= cnt <= Z.of_nat N
       else 0 <= idx <= Z.of_nat N /\ cnt = idx) /\
      run (stack_step N w sw drop_old) [0] ins =
        dout :: bseg (if drop_old then prd (Z.of_nat N) else prl) mem idx (Z.to_nat cnt).
Proof. exact stackm_state_abstraction. Qed.
Print Assumptions C14_stack_model_state_abstraction_all_N.

Theorem C14_stack_model_preconditions_agree_all_N : forall (N : nat) (w sw : BinNums.N) (drop_old : bool), (1 <= N)%nat ->
  forall ins, adm (stackm_step N w sw drop_old) (stackm_assume N drop_old) (stackm_init N) ins <->
              adm (stack_step N w sw drop_old) (stack_assume N drop_old) [0] ins.
Proof. exact stackm_preconditions_agree. Qed.
Print Assumptions C14_stack_model_preconditions_agree_all_N.

Theorem C14_stack_model_case_transfer_all_N : forall (N : nat) (w sw : BinNums.N) (drop_old : bool), (1 <= N)%nat ->
  forall (alphabet : list (list value)) (T : list (list value) -> list (res (list value))),
    (forall ins, admissible (stackm_step N w sw drop_old) alphabet (stackm_assume N drop_old) (stackm_init N) ins ->
       T ins = traceB (stackm_step N w sw drop_old) (stackm_init N) ins) <->
    (forall ins, admissible (stack_step N w sw drop_old) alphabet (stack_assume N drop_old) [0] ins ->
       T ins = traceB (stack_step N w sw drop_old) [0] ins).
Proof. exact stackm_case_transfer. Qed.
Print Assumptions C14_stack_model_case_transfer_all_N.

Theorem C14_stack_code_matches_model_all_N : forall d mid alphabet fuel (N : nat) (w sw : BinNums.N) (drop_old : bool), (1 <= N)%nat ->
  conc_all_ok (auto_Ts d) d = true ->
  is_ok (rcheck_s d mid (stack_step N w sw drop_old) alphabet (stack_assume N drop_old) fuel [0]) = true ->
  forall ins, admissible (stackm_step N w sw drop_old) alphabet (stackm_assume N drop_old) (stackm_init N) ins ->
    traceA (sstep d mid) (power_up_s d) ins = traceB (stackm_step N w sw drop_old) (stackm_init N) ins.
Proof. exact stackm_code_tie. Qed.
Print Assumptions C14_stack_code_matches_model_all_N.

(** non-vacuity at N = 3, DROP_OLD: four pushes (the fourth discards the oldest element 1), then three pops
    return 4, 3, 2; outputs [dout; empty; full; size] *)
Definition C14_stack_example_ins : list (list value) :=
  let pu v := [VL true; VL false; VL false; VV KUns 8 v] in
  let po := [VL false; VL true; VL false; VV KUns 8 0] in
  [pu 1; pu 2; pu 3; pu 4; po; po; po].
Example C14_stack_model_nonvacuous :
  (1 <= 3)%nat /\
  adm (stack_step 3 8 2 true) (stack_assume 3 true) [0] C14_stack_example_ins /\
  traceB (stackm_step 3 8 2 true) (stackm_init 3) C14_stack_example_ins =
    [Ok [ouns 8 0; obit false; obit false; ouns 2 1]; Ok [ouns 8 0; obit false; obit false; ouns 2 2];
     Ok [ouns 8 0; obit false; obit true; ouns 2 3]; Ok [ouns 8 0; obit false; obit true; ouns 2 3];
     Ok [ouns 8 4; obit false; obit false; ouns 2 2]; Ok [ouns 8 3; obit false; obit false; ouns 2 1];
     Ok [ouns 8 2; obit true; obit false; ouns 2 0]].
Proof. vm_compute. repeat split; repeat constructor. Qed.
