(** C19 - fixed-point arithmetic is exact and resize follows the selected styles
    (statements only; the model is Models/Fixed.v, the proofs are in Models/FixedProofs.v).

    A fixed point object is (left, right, raw); its value is raw * 2^right.  [wf k x] says
    that the width is >= 1 and raw lies in the range of the underlying Signed / Unsigned
    vector.  All theorems quantify over ALL formats and raw values (unbounded [Z]).
    They are theorems about the model (Models/Fixed.v mirrors the tree that contains the C19 fix
    commits); the model is tied to /repo by harness/c19.py. *)
From Coq Require Import ZArith List Bool Lia.
From Cohdl Require Import Models.Fixed Models.FixedProofs.
Import ListNotations.
Local Open Scope Z_scope.

(** + : result format [max l + 1 : min r], result raw = exact sum in units of 2^(min r) *)
Theorem C19_add_exact : forall k l1 r1 a l2 r2 b,
  wf k (l1, r1, a) -> wf k (l2, r2, b) ->
  let tr := Z.min r1 r2 in
  add k (l1, r1, a) (l2, r2, b) = Ok (Z.max l1 l2 + 1, tr, a * p2 (r1 - tr) + b * p2 (r2 - tr)).
Proof. intros k l1 r1 a l2 r2 b Ha Hb; destruct k; [apply add_exact_S | apply add_exact_U]; assumption. Qed.
Print Assumptions C19_add_exact.

Example C19_add_exact_nonvacuous :
  wf SFixed (1, 0, -2) /\ wf SFixed (3, -1, -16) /\ add SFixed (1, 0, -2) (3, -1, -16) = Ok (4, -1, -20).
Proof. repeat split; cbv; congruence. Qed.
Print Assumptions C19_add_exact_nonvacuous.

(** - : exact for SFixed; UFixed wraps modulo the result range 2^(width of the result) *)
Theorem C19_sub_exact : forall k l1 r1 a l2 r2 b,
  wf k (l1, r1, a) -> wf k (l2, r2, b) ->
  let tr := Z.min r1 r2 in
  let tl := Z.max l1 l2 + 1 in
  let d := a * p2 (r1 - tr) - b * p2 (r2 - tr) in
  sub k (l1, r1, a) (l2, r2, b)
  = Ok (tl, tr, match k with SFixed => d | UFixed => d mod p2 (tl - tr + 1) end).
Proof. intros k l1 r1 a l2 r2 b Ha Hb; destruct k; [apply add_exact_S | apply add_exact_U]; assumption. Qed.
Print Assumptions C19_sub_exact.

Example C19_sub_exact_nonvacuous :
  wf UFixed (1, 0, 1) /\ wf UFixed (1, 0, 3) /\ sub UFixed (1, 0, 1) (1, 0, 3) = Ok (2, 0, 6).
Proof. repeat split; cbv; congruence. Qed.
Print Assumptions C19_sub_exact_nonvacuous.

(** * : result format [l1 + l2 + 1 : r1 + r2], raw = exact product *)
Theorem C19_mul_exact : forall k l1 r1 a l2 r2 b,
  wf k (l1, r1, a) -> wf k (l2, r2, b) ->
  mul k (l1, r1, a) (l2, r2, b) = Ok (l1 + l2 + 1, r1 + r2, a * b).
Proof. intros k l1 r1 a l2 r2 b Ha Hb; destruct k; [apply mul_exact_S | apply mul_exact_U]; assumption. Qed.
Print Assumptions C19_mul_exact.

(** == between two objects, whenever it answers, compares the represented numbers
    (scaled to any common unit 2^s) *)
Theorem C19_eq_is_numeric : forall k l1 r1 a l2 r2 b t s,
  s <= r1 -> s <= r2 ->
  eq_fx k (l1, r1, a) (l2, r2, b) = Ok t ->
  (t = true <-> scaled (l1, r1, a) s = scaled (l2, r2, b) s).
Proof. exact eq_numeric. Qed.
Print Assumptions C19_eq_is_numeric.

Example C19_eq_is_numeric_nonvacuous : eq_fx SFixed (3, -1, 5) (3, -1, 5) = Ok true /\ eq_fx UFixed (3, -1, 5) (3, -1, 4) = Ok false.
Proof. split; reflexivity. Qed.
Print Assumptions C19_eq_is_numeric_nonvacuous.

(** == against a Python number m*2^e (exact rational): whenever it answers, the answer is the
    comparison of the represented numbers, for EVERY number (representable or not, in range or not) *)
Theorem C19_eq_number_is_numeric : forall k l r raw m e t,
  let s := Z.min e r in
  eq_num k (l, r, raw) m e = Ok t -> t = (m * p2 (e - s) =? raw * p2 (r - s)).
Proof. exact eq_num_numeric. Qed.
Print Assumptions C19_eq_number_is_numeric.

(** ... and it answers for every number inside the range and for every number off the grid of the
    format; the only rejection is the code's own: a multiple of 2^right outside the range
    (static_assert "value outside valid range of fixed point number" in the constructor) *)
Theorem C19_eq_number_answers : forall k l r raw m e,
  1 <= l - r + 1 ->
  let s := Z.min e r in
  let M := m * p2 (e - s) in let P := p2 (r - s) in
  eq_num k (l, r, raw) m e =
    if (min_raw k (l - r + 1) * P <=? M) && (M <=? max_raw k (l - r + 1) * P) then Ok (M =? raw * P)
    else if M mod P =? 0 then Err ERange else Ok false.
Proof. exact eq_num_answers. Qed.
Print Assumptions C19_eq_number_answers.

(** constructors: a number that is a value of the format is preserved (int / float as exact m*2^e) *)
Theorem C19_ctor_preserves : forall k l r m e q,
  1 <= l - r + 1 -> num_is m e r q -> min_raw k (l - r + 1) <= q <= max_raw k (l - r + 1) ->
  ctor_num k l r m e = Ok (l, r, q).
Proof. exact ctor_num_preserves. Qed.
Print Assumptions C19_ctor_preserves.

Example C19_ctor_preserves_nonvacuous : num_is 15 (-1) (-1) 15 /\ ctor_num SFixed 3 (-1) 15 (-1) = Ok (3, -1, 15).
Proof. split; reflexivity. Qed.
Print Assumptions C19_ctor_preserves_nonvacuous.

(** from an Unsigned vector whose type fits the format *)
Theorem C19_ctor_unsigned_preserves : forall k l r w val,
  1 <= l - r + 1 -> r <= 0 -> 1 <= w ->
  w - r <= (match k with SFixed => l - r | UFixed => l - r + 1 end) -> 0 <= val < p2 w ->
  ctor_vec k l r false w val = Ok (l, r, val * p2 (- r)).
Proof. intros k; destruct k; [exact ctor_vec_unsigned_S | exact ctor_vec_unsigned_U]. Qed.
Print Assumptions C19_ctor_unsigned_preserves.

(** from a Signed vector whose type fits the format *)
Theorem C19_ctor_signed_preserves : forall l r w val,
  1 <= l - r + 1 -> r <= 0 -> 1 <= w -> w - r <= l - r + 1 -> - p2 (w - 1) <= val < p2 (w - 1) ->
  ctor_vec SFixed l r true w val = Ok (l, r, val * p2 (- r)).
Proof. exact ctor_vec_signed_S. Qed.
Print Assumptions C19_ctor_signed_preserves.

(** from an object of a contained format (left >= source left, right <= source right; the
    code rejects every other pair of formats by two explicit assertions) *)
Theorem C19_ctor_format_preserves : forall k l r sl sr raw,
  wf k (sl, sr, raw) -> sl <= l -> r <= sr ->
  ctor_fix k l r (sl, sr, raw) = Ok (l, r, raw * p2 (sr - r)).
Proof. exact ctor_fix_contained. Qed.
Print Assumptions C19_ctor_format_preserves.

(** resize = round (floor | nearest even) then overflow (wrap | saturate): for EVERY well
    formed object, every target format [l:r] with l >= r, both round styles, both overflow
    styles.  The only guard is the one the code itself rejects:
      - 1 <= l - r + 1 : [SFixed[left:right]] / [UFixed[left:right]] assert left >= right
        (see C19_resize_rejects_malformed_target). *)
Theorem C19_resize_spec : forall k x l r rs os,
  wf k x -> 1 <= l - r + 1 ->
  resize k x l r rs os = Ok (spec_resize k x l r rs os).
Proof. exact resize_spec_full. Qed.
Print Assumptions C19_resize_spec.

Theorem C19_resize_rejects_malformed_target : forall k sl sr raw l r rs os,
  1 <= sl - sr + 1 -> l - r + 1 < 1 -> resize k (sl, sr, raw) l r rs os = Err EAssert.
Proof. exact resize_rejects_malformed. Qed.
Print Assumptions C19_resize_rejects_malformed_target.

(** regressions (also in the harness corpus): the inputs on which the tree before the C19 fix
    commits departed from the spec (rounding carry, source below the target LSB, 1 bit target,
    1 bit source, overflow >= width, negative all-ones, SFixed(Signed), T(other format),
    integers above 2^53, [SFixed[1:0](1) == 1.5]) now give the spec value *)
Example C19_regressions :
  resize SFixed (3, -1, 15) 3 0 Round Saturate = Ok (3, 0, 7) /\
  resize UFixed (2, -1, 15) 2 0 Round Saturate = Ok (2, 0, 7) /\
  resize SFixed (1, 0, 1) 5 3 Round Wrap = Ok (5, 3, 0) /\
  resize UFixed (1, 0, 1) 5 3 Truncate Wrap = Ok (5, 3, 0) /\
  resize SFixed (0, -1, 0) 0 0 Round Wrap = Ok (0, 0, 0) /\
  resize SFixed (0, 0, 0) (-1) (-1) Truncate Saturate = Ok (-1, -1, 0) /\
  resize UFixed (0, 0, 0) (-2) (-2) Truncate Saturate = Ok (-2, -2, 0) /\
  resize SFixed (1, 0, -1) (-1) (-1) Truncate Saturate = Ok (-1, -1, -1) /\
  resize SFixed (1, -2, -1) 0 (-1) Round Saturate = Ok (0, -1, 0) /\
  ctor_vec SFixed 3 (-1) true 3 (-2) = Ok (3, -1, -4) /\
  ctor_fix SFixed 4 (-2) (3, -1, -5) = Ok (4, -2, -10) /\
  ctor_fix UFixed 4 (-2) (3, -1, 5) = Ok (4, -2, 10) /\
  ctor_num SFixed 60 0 (2 ^ 59 + 1) 0 = Ok (60, 0, 2 ^ 59 + 1) /\
  eq_num SFixed (1, 0, 1) 3 (-1) = Ok false /\
  eq_num UFixed (0, 0, 0) 1 (-1) = Ok false.
Proof. exact regressions. Qed.
Print Assumptions C19_regressions.

(** the SPEC itself says what the property says *)
Theorem C19_spec_truncate_is_floor : forall sr r raw, sr < r ->
  let z := spec_round Truncate sr r raw in
  z * p2 (r - sr) <= raw < (z + 1) * p2 (r - sr).
Proof. exact spec_round_is_floor. Qed.
Print Assumptions C19_spec_truncate_is_floor.

Theorem C19_spec_round_is_nearest_even : forall sr r raw, sr < r ->
  let z := spec_round Round sr r raw in
  let d := z * p2 (r - sr) - raw in
  2 * Z.abs d <= p2 (r - sr) /\ (2 * Z.abs d = p2 (r - sr) -> Z.even z = true).
Proof. exact spec_round_is_nearest_even. Qed.
Print Assumptions C19_spec_round_is_nearest_even.

Theorem C19_spec_wrap_is_modular : forall k w z, 1 <= w ->
  min_raw k w <= spec_overflow k Wrap w z <= max_raw k w /\
  (spec_overflow k Wrap w z - z) mod p2 w = 0.
Proof. exact spec_wrap_congruent. Qed.
Print Assumptions C19_spec_wrap_is_modular.
