(** * C02 (placeholder while the proofs are being written) *)
From Coq Require Import ZArith NArith List Bool Lia.
From Cohdl Require Import Base.Bits Vhdl.Value Vhdl.NumStd Models.ExprRef.
