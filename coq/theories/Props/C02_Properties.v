(** * C02: operators and expressions compute their documented value at run time.

    [ExprRef.tyof] / [ExprRef.xeval] : the documented result type and value of an expression tree (Models/ExprRef.v,
    written from the property text).  The per-design obligations of harness/c02.py prove, for the text the compiler
    emitted on this run, [trace (parsed VHDL) = trace (expr_step tree)] over all operand valuations.  The theorems
    below are the all-widths half:
    - C02_type_width: every well-typed tree evaluates (where defined) to a value of exactly [tyof] type and width, in range;
    - C02_agrees_with_numeric_std_*: per operator family the documented value IS what numeric_std (Vhdl/NumStd.v)
      computes on the operand shape the backend emits, for all widths and all operand values;
      _partial / _refuted where the two genuinely differ (each replayed on the real compiler by harness/c02.py):
        * an int factor not representable at the vector's width (numeric_std converts it to that width first),
        * unary minus on Unsigned (numeric_std has no such operator),
        * a negative int next to an Unsigned (numeric_std's NATURAL subtype);
      shifts against SHIFT_LEFT / SHIFT_RIGHT (count = int or TO_INTEGER of an Unsigned, any count up to integer'high)
      and resize against RESIZE are covered; not covered here (checked per design only): bitwise operators on
      Signed, views, resize with zero padding of a Signed, Signed/int mixed arithmetic, division with an int operand;
    - C02_select_first_match, C02_chained_compare_is_conjunction, C02_concat_msb_left, C02_shift_right_kind. *)
From Coq Require Import ZArith NArith List Bool Lia.
From Cohdl Require Import Base.Bits Vhdl.Value Vhdl.NumStd Equiv.RefTS Models.ExprRef Models.ExprRefProofs.
From Cohdl Require Import Vhdl.Syntax Vhdl.Sem Models.ExprEmit Models.ExprEmitProofs Models.ExprEmitMore.
Import ListNotations.
Local Open Scope Z_scope.

Theorem C02_type_width : forall e t en, tyof e = Some t -> vok t (xeval en e) = true.
Proof. exact type_width. Qed.
Print Assumptions C02_type_width.

Example C02_type_width_nonvacuous : tyof ex_tree = Some (Ty KS 4) /\ xeval ex_env ex_tree = TV KS 4 (-2).
Proof. exact type_width_nonvacuous. Qed.
Print Assumptions C02_type_width_nonvacuous.

Theorem C02_agrees_with_numeric_std_arith_unsigned : forall op o wa wb a b,
  arith_op op = Some o -> (op = BAdd \/ op = BSub \/ op = BMul) -> rng KU wa a -> rng KU wb b ->
  eval_binop o (scalar_value KU wa a) (scalar_value KU wb b) = Ok (to_value (bin_eval op (TV KU wa a) (TV KU wb b))).
Proof. exact arith_agrees_UU. Qed.
Print Assumptions C02_agrees_with_numeric_std_arith_unsigned.

Theorem C02_agrees_with_numeric_std_arith_signed : forall op o wa wb a b,
  arith_op op = Some o -> (op = BAdd \/ op = BSub \/ op = BMul) -> rng KS wa a -> rng KS wb b ->
  eval_binop o (scalar_value KS wa a) (scalar_value KS wb b) = Ok (to_value (bin_eval op (TV KS wa a) (TV KS wb b))).
Proof. exact arith_agrees_SS. Qed.
Print Assumptions C02_agrees_with_numeric_std_arith_signed.

Example C02_arith_nonvacuous : rng KS 3 (-4) /\ rng KS 2 1 /\ rng KU 3 7 /\
  bin_eval BMul (TV KS 3 (-4)) (TV KS 2 1) = TV KS 5 (-4) /\ bin_eval BAdd (TV KU 3 7) (TV KU 2 3) = TV KU 3 2.
Proof. vm_compute. auto 10. Qed.
Print Assumptions C02_arith_nonvacuous.

Theorem C02_agrees_with_numeric_std_divmod_unsigned : forall op o wa wb a b,
  arith_op op = Some o -> (op = BTruncDiv \/ op = BMod \/ op = BRem) -> rng KU wa a -> rng KU wb b -> b <> 0 ->
  eval_binop o (scalar_value KU wa a) (scalar_value KU wb b) = Ok (to_value (bin_eval op (TV KU wa a) (TV KU wb b))).
Proof. exact divmod_agrees_UU. Qed.
Print Assumptions C02_agrees_with_numeric_std_divmod_unsigned.

Theorem C02_agrees_with_numeric_std_divmod_signed : forall op o wa wb a b,
  arith_op op = Some o -> (op = BTruncDiv \/ op = BMod \/ op = BRem) -> rng KS wa a -> rng KS wb b -> b <> 0 ->
  eval_binop o (scalar_value KS wa a) (scalar_value KS wb b) = Ok (to_value (bin_eval op (TV KS wa a) (TV KS wb b))).
Proof. exact divmod_agrees_SS. Qed.
Print Assumptions C02_agrees_with_numeric_std_divmod_signed.

Example C02_divmod_nonvacuous : rng KS 3 (-4) /\ rng KS 3 3 /\
  bin_eval BTruncDiv (TV KS 3 (-4)) (TV KS 3 3) = TV KS 3 (-1) /\ bin_eval BMod (TV KS 3 (-4)) (TV KS 3 3) = TV KS 3 2 /\
  bin_eval BRem (TV KS 3 (-4)) (TV KS 3 3) = TV KS 3 (-1) /\ bin_eval BTruncDiv (TV KS 3 (-4)) (TV KS 1 (-1)) = TV KS 3 (-4).
Proof. vm_compute. auto 10. Qed.
Print Assumptions C02_divmod_nonvacuous.

Theorem C02_division_by_zero_undefined_on_both_sides : forall op o k wa wb a,
  arith_op op = Some o -> (op = BTruncDiv \/ op = BMod \/ op = BRem) -> (k = KU \/ k = KS) ->
  bin_eval op (TV k wa a) (TV k wb 0) = TUndef /\ eval_binop o (scalar_value k wa a) (scalar_value k wb 0) = Err EDivZero.
Proof. exact div_by_zero_both_undefined. Qed.
Print Assumptions C02_division_by_zero_undefined_on_both_sides.

Theorem C02_agrees_with_numeric_std_compare_unsigned : forall op wa wb a b,
  eval_binop (cmp_op op) (scalar_value KU wa a) (scalar_value KU wb b) = Ok (to_value (cmp_eval op (TV KU wa a) (TV KU wb b))).
Proof. exact compare_agrees_UU. Qed.
Print Assumptions C02_agrees_with_numeric_std_compare_unsigned.

Theorem C02_agrees_with_numeric_std_compare_signed : forall op wa wb a b, rng KS wa a -> rng KS wb b ->
  eval_binop (cmp_op op) (scalar_value KS wa a) (scalar_value KS wb b) = Ok (to_value (cmp_eval op (TV KS wa a) (TV KS wb b))).
Proof. exact compare_agrees_SS. Qed.
Print Assumptions C02_agrees_with_numeric_std_compare_signed.

Theorem C02_agrees_with_numeric_std_compare_unsigned_int : forall op w a n, 0 <= n <= int_max ->
  eval_binop (cmp_op op) (scalar_value KU w a) (VI n) = Ok (to_value (cmp_eval op (TV KU w a) (TV KInt 0 n))).
Proof. exact compare_agrees_U_int. Qed.
Print Assumptions C02_agrees_with_numeric_std_compare_unsigned_int.

Theorem C02_agrees_with_numeric_std_neg_abs_signed : forall w a, rng KS w a ->
  eval_unop UNeg (scalar_value KS w a) = Ok (to_value (un_eval NNeg (TV KS w a))) /\
  eval_unop UAbs (scalar_value KS w a) = Ok (to_value (un_eval NAbs (TV KS w a))).
Proof. exact neg_abs_agrees_S. Qed.
Print Assumptions C02_agrees_with_numeric_std_neg_abs_signed.

Theorem C02_agrees_with_numeric_std_shift_unsigned : forall w a n, rng KU w a -> 0 <= n <= int_max ->
  eval_fn2 FShl (scalar_value KU w a) (VI n) = Ok (to_value (bin_eval BShl (TV KU w a) (TV KInt 0 n))) /\
  eval_fn2 FShr (scalar_value KU w a) (VI n) = Ok (to_value (bin_eval BShr (TV KU w a) (TV KInt 0 n))).
Proof. exact shift_agrees_U. Qed.
Print Assumptions C02_agrees_with_numeric_std_shift_unsigned.

Theorem C02_agrees_with_numeric_std_shift_signed : forall w a n, rng KS w a -> 0 <= n <= int_max ->
  eval_fn2 FShl (scalar_value KS w a) (VI n) = Ok (to_value (bin_eval BShl (TV KS w a) (TV KInt 0 n))) /\
  eval_fn2 FShr (scalar_value KS w a) (VI n) = Ok (to_value (bin_eval BShr (TV KS w a) (TV KInt 0 n))).
Proof. exact shift_agrees_S. Qed.
Print Assumptions C02_agrees_with_numeric_std_shift_signed.

Theorem C02_agrees_with_numeric_std_shift_count_unsigned : forall op k w a wc n,
  (op = BShl \/ op = BShr) -> (k = KU \/ k = KS) -> 0 <= n <= int_max ->
  eval_fn1 FToInteger (scalar_value KU wc n) = Ok (VI n) /\
  bin_eval op (TV k w a) (TV KU wc n) = bin_eval op (TV k w a) (TV KInt 0 n).
Proof. exact shift_count_unsigned. Qed.
Print Assumptions C02_agrees_with_numeric_std_shift_count_unsigned.

Example C02_shift_nonvacuous : rng KS 3 (-3) /\ rng KU 3 5 /\
  bin_eval BShl (TV KS 3 (-3)) (TV KInt 0 1) = TV KS 3 2 /\ bin_eval BShr (TV KS 3 (-3)) (TV KInt 0 7) = TV KS 3 (-1) /\
  bin_eval BShl (TV KU 3 5) (TV KU 2 3) = TV KU 3 0 /\ bin_eval BShr (TV KU 3 5) (TV KU 2 1) = TV KU 3 2.
Proof. vm_compute. auto 10. Qed.
Print Assumptions C02_shift_nonvacuous.

Theorem C02_agrees_with_numeric_std_resize : forall k w a n, (k = KU \/ k = KS) -> rng k w a -> (w <= n)%N -> Z.of_N n <= int_max ->
  eval_fn2 FResize (scalar_value k w a) (VI (Z.of_N n)) = Ok (to_value (xeval [] (XResize (XConst k w a) n 0))).
Proof. exact resize_agrees. Qed.
Print Assumptions C02_agrees_with_numeric_std_resize.

Theorem C02_agrees_with_numeric_std_resize_zeros_unsigned : forall w a n z, rng KU w a -> (w + z <= n)%N -> Z.of_N n <= int_max ->
  (do c <- eval_binop OConcat (VV KSlv w a) (VV KSlv z 0); do u <- eval_fn1 FConvUns c; eval_fn2 FResize u (VI (Z.of_N n)))
  = Ok (to_value (xeval [] (XResize (XConst KU w a) n z))).
Proof. exact resize_zeros_agrees_U. Qed.
Print Assumptions C02_agrees_with_numeric_std_resize_zeros_unsigned.

Example C02_resize_nonvacuous : rng KS 2 (-2) /\ xeval [] (XResize (XConst KS 2 (-2)) 4 0) = TV KS 4 (-2) /\
  xeval [] (XResize (XConst KU 2 3) 5 2) = TV KU 5 12.
Proof. vm_compute. auto. Qed.
Print Assumptions C02_resize_nonvacuous.

Theorem C02_agrees_with_numeric_std_mul_int_partial : forall w a n, rng KU w a -> 0 <= n < pow2 w -> n <= int_max ->
  eval_binop OMul (scalar_value KU w a) (VI n) = Ok (to_value (bin_eval BMul (TV KU w a) (TV KInt 0 n))).
Proof. exact mul_int_agrees_partial. Qed.
Print Assumptions C02_agrees_with_numeric_std_mul_int_partial.

Theorem C02_agrees_with_numeric_std_mul_int_refuted : exists w a n,
  rng KU w a /\ 0 <= n /\
  eval_binop OMul (scalar_value KU w a) (VI n) <> Ok (to_value (bin_eval BMul (TV KU w a) (TV KInt 0 n))).
Proof. exact mul_int_refuted. Qed.
Print Assumptions C02_agrees_with_numeric_std_mul_int_refuted.

Theorem C02_agrees_with_numeric_std_neg_unsigned_refuted : forall w a,
  eval_unop UNeg (scalar_value KU w a) = Err ETypeError /\
  (wf_scalar KU w = true -> un_eval NNeg (TV KU w a) = mk KU w (- a)).
Proof. exact neg_unsigned_refuted. Qed.
Print Assumptions C02_agrees_with_numeric_std_neg_unsigned_refuted.

Theorem C02_agrees_with_numeric_std_negative_int_refuted : forall w a n, n < 0 ->
  eval_binop OAdd (scalar_value KU w a) (VI n) = Err ERange /\ bin_eval BAdd (TV KU w a) (TV KInt 0 n) = mk KU w (a + n).
Proof. exact negative_int_refuted. Qed.
Print Assumptions C02_agrees_with_numeric_std_negative_int_refuted.

Theorem C02_select_first_match : forall z key v r d,
  sel_pick z ((key, v) :: r) d = (if z =? key then Some v else sel_pick z r d) /\
  (forall pre, Forall (fun p => fst p <> z) pre -> sel_pick z (pre ++ (z, v) :: r) d = Some v) /\
  (forall br, Forall (fun p => fst p <> z) br -> sel_pick z br d = d).
Proof. exact select_first_match. Qed.
Print Assumptions C02_select_first_match.

Example C02_select_nonvacuous :
  xeval [TV KU 2 1; TV KU 3 5] (XSel (XIn 0 (Ty KU 2)) [(0, XConst KU 3 7); (1, XIn 1 (Ty KU 3)); (1, XConst KU 3 0)] (Some (XConst KU 3 2)))
  = TV KU 3 5 /\
  xeval [TV KU 2 3; TV KU 3 5] (XSel (XIn 0 (Ty KU 2)) [(0, XConst KU 3 7); (1, XIn 1 (Ty KU 3))] (Some (XConst KU 3 2))) = TV KU 3 2.
Proof. vm_compute. auto. Qed.
Print Assumptions C02_select_nonvacuous.

Theorem C02_chained_compare_is_conjunction : forall en a o1 b o2 c,
  xeval en (XChain a [(o1, b); (o2, c)]) =
  match xeval en (XCmp o1 a b), xeval en (XCmp o2 b c) with
  | TV _ _ x, TV _ _ y => TV KBool 1 (zb (truthy x && truthy y))
  | _, _ => TUndef
  end.
Proof. exact chained_compare_is_conjunction. Qed.
Print Assumptions C02_chained_compare_is_conjunction.

Theorem C02_concat_msb_left : forall ka wa a kb wb b,
  is_vec ka = true -> is_vec kb = true -> rng ka wa a -> rng kb wb b ->
  exists z, bin_eval BConcat (TV ka wa a) (TV kb wb b) = TV KBV (wa + wb) z /\
            getslice z wb wa = pat ka wa a /\ getslice z 0 wb = pat kb wb b.
Proof. exact concat_msb_left. Qed.
Print Assumptions C02_concat_msb_left.

Example C02_concat_nonvacuous : rng KS 2 (-1) /\ rng KU 3 2 /\ bin_eval BConcat (TV KS 2 (-1)) (TV KU 3 2) = TV KBV 5 26.
Proof. vm_compute. auto. Qed.
Print Assumptions C02_concat_nonvacuous.

Theorem C02_shift_right_kind : forall w a n, 0 <= n ->
  (rng KU w a -> bin_eval BShr (TV KU w a) (TV KInt 0 n) = TV KU w (a / 2 ^ n) /\ 0 <= a / 2 ^ n <= a) /\
  (rng KS w a -> bin_eval BShr (TV KS w a) (TV KInt 0 n) = TV KS w (a / 2 ^ n) /\ (a < 0 <-> a / 2 ^ n < 0)).
Proof. exact shift_right_kind. Qed.
Print Assumptions C02_shift_right_kind.

Example C02_shift_right_signed_is_not_logical :
  bin_eval BShr (TV KS 3 (-4)) (TV KInt 0 1) = TV KS 3 (-2) /\
  bin_eval BShr (TV KU 3 4) (TV KInt 0 1) = TV KU 3 2 /\
  sval 3 (pat KS 3 (-4) / 2) = 2.
Proof. exact shift_right_signed_is_not_logical. Qed.
Print Assumptions C02_shift_right_signed_is_not_logical.

(** ** ALL EXPRESSION TREES: the expression the back end PRINTS (Models/ExprEmit.emit, a model of
    backend/vhdl/_vhdl_repr.py as coded, tied to the compiler by harness/c02_emit.py: syntactic equality with the
    emitted text of every generated expression) evaluates, under Vhdl.Sem / Vhdl.NumStd, to the documented value
    (ExprRef.xeval) - by induction on the tree, for all widths and all operand values.
    FULL STATEMENT: forall e ex t, emit pos e = Some ex -> tyof e = Some t -> in_emit_grammar e = true ->
      defined (xeval en e) = true -> store_matches pos en sg -> eval sg vr ev ex = Ok (to_value (xeval en e)).
    PROVED PART ([proved_part]): input ports of every non-Integer type, constants / int literals as operands, views,
    constant indices, slices (nested: folded), ~ - abs not, all six comparisons on every operand kind (int literal on
    either side, the operand swap, a negative literal against an Unsigned), + - * / mod rem on two Unsigned / two Signed
    operands of any widths, << >> by an int literal or by an Unsigned count.  MISSING: arithmetic with an int literal
    operand, & | ^, concatenation, resize (in [emit] and in the tie; agreement proved per operator above and per design). *)
Theorem C02_emit_correct_partial : forall pos en sg vr ev, store_matches pos en sg -> forall e ex t,
  emit pos e = Some ex -> tyof e = Some t -> in_emit_grammar e = true -> proved_part e = true ->
  defined (xeval en e) = true -> eval sg vr ev ex = Ok (to_value (xeval en e)).
Proof. exact emit_correct_partial. Qed.
Print Assumptions C02_emit_correct_partial.

Example C02_emit_correct_nonvacuous :
  store_matches ex_pos ex_en ex_sg /\
  (forall e, In e [ex_e1; ex_e2] ->
     (exists ex, emit ex_pos e = Some ex) /\ tyof e = Some (Ty KBool 1) /\ in_emit_grammar e = true /\
     proved_part e = true /\ defined (xeval ex_en e) = true) /\
  emit ex_pos ex_e1 =
    Some (EBin OGt (EBin OMul (EBin OAdd (EF1 FConvUns (EF1 FConvSlv (EF1 FConvSgn (ESlice (ESig 1) 1 0)))) (ESig 2)) (ESig 2))
               (ELit (VI 2))) /\
  xeval ex_en ex_e1 = TV KBool 1 0 /\ xeval ex_en ex_e2 = TV KBool 1 0.
Proof. exact emit_correct_nonvacuous. Qed.
Print Assumptions C02_emit_correct_nonvacuous.

(** format_value: whatever reference the front end built (root object, folded static slice / index, view), the printed
    conversion chain evaluates to the value the reference denotes *)
Theorem C02_emit_format_value_correct : forall sg vr ev o v, den sg vr ev o v -> eval sg vr ev (fmt o) = Ok (to_value v).
Proof. exact fmt_ok. Qed.
Print Assumptions C02_emit_format_value_correct.

(** every comparison the documented typing admits, on every pair of operand kinds *)
Theorem C02_emit_compare_agrees_all_kinds : forall op ka wa za kb wb zb',
  cmp_ok op (Ty ka wa) (Ty kb wb) = true -> rng ka wa za -> rng kb wb zb' ->
  (ka = KInt -> kb = KU -> 0 <= za <= int_max) -> (kb = KInt -> ka = KU -> 0 <= zb' <= int_max) ->
  eval_binop (cmp_binop op) (scalar_value ka wa za) (scalar_value kb wb zb') = Ok (VB (cmp_val op za zb')).
Proof. exact compare_agree. Qed.
Print Assumptions C02_emit_compare_agrees_all_kinds.

Example C02_emit_compare_nonvacuous : cmp_ok CLe (Ty KInt 0) (Ty KU 3) = true /\ rng KInt 0 7 /\ rng KU 3 7 /\
  cmp_val CLe 7 7 = true.
Proof. vm_compute. auto. Qed.
Print Assumptions C02_emit_compare_nonvacuous.

(** an int literal as the right operand of + - * / mod rem (Unsigned and Signed; covers "Signed/int mixed arithmetic" and
    "division with an int operand" listed as per-design-only in the header) *)
Theorem C02_emit_arith_int_literal_right : forall op o k w a z v,
  arith_op op = Some o -> (k = KU \/ k = KS) -> rng k w a -> arith_lit_ok op k w z = true ->
  bin_val op k w a KInt 0 z = Some v ->
  eval_binop o (scalar_value k w a) (VI (adjz op k w z))
  = Ok (scalar_value k (arith_width_int op w) (norm k (arith_width_int op w) v)).
Proof. exact arith_lit_right. Qed.
Print Assumptions C02_emit_arith_int_literal_right.

Example C02_emit_arith_int_literal_nonvacuous :
  rng KU 3 5 /\ arith_lit_ok BSub KU 3 (-2) = true /\ adjz BSub KU 3 (-2) = 6 /\ bin_val BSub KU 3 5 KInt 0 (-2) = Some 7 /\
  rng KS 3 (-4) /\ arith_lit_ok BTruncDiv KS 3 3 = true /\ bin_val BTruncDiv KS 3 (-4) KInt 0 3 = Some (-1).
Proof. vm_compute. auto 10. Qed.
Print Assumptions C02_emit_arith_int_literal_nonvacuous.


(** ** ALL EXPRESSION TREES, full statement (Models/ExprEmitMore.v): every tree inside [emit]'s grammar - the [proved_part]
    restriction of the partial theorem above is gone: arithmetic with an int literal on either side, & | ^, concatenation and
    resize (with and without zeros) are composed into the induction.  For every store matching the environment, every tree
    the model prints, every width and every operand valuation on which the documented value is defined, the printed
    expression evaluates under Vhdl.Sem to the documented value. *)
Theorem C02_emit_correct : forall pos en sg vr ev, store_matches pos en sg -> forall e ex t,
  emit pos e = Some ex -> tyof e = Some t -> in_emit_grammar e = true ->
  defined (xeval en e) = true -> eval sg vr ev ex = Ok (to_value (xeval en e)).
Proof. exact emit_correct_full. Qed.
Print Assumptions C02_emit_correct.

Example C02_emit_correct_more_nonvacuous :
  store_matches ex_pos ex_en ex_sg /\
  (forall e, In e [ex_m1; ex_m2; ex_m3; ex_m4] ->
     (exists ex, emit ex_pos e = Some ex) /\ (exists t, tyof e = Some t) /\ in_emit_grammar e = true /\
     proved_part2 e = true /\ proved_part e = false /\ defined (xeval ex_en e) = true) /\
  xeval ex_en ex_m1 = TV KBV 7 61 /\ xeval ex_en ex_m2 = TV KU 4 8 /\ xeval ex_en ex_m3 = TV KS 3 1 /\
  xeval ex_en ex_m4 = TV KU 6 4.
Proof. pose proof emit_correct_more_nonvacuous as H. intuition. Qed.
Print Assumptions C02_emit_correct_more_nonvacuous.
