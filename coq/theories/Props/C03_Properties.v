(** C03 - property theorems (statements only; proofs live in the library files) *)
From Coq Require Import ZArith NArith PArith List Bool.
From Cohdl Require Import Vhdl.Value Vhdl.Syntax Vhdl.Sem Vhdl.DefAssign Vhdl.DeadVars Equiv.Explore Equiv.VhdlTS Equiv.RefTS Equiv.Monitor Equiv.StoreTS Models.SeqRef.
Import ListNotations.

Theorem C03_case_sound :
  forall d mid stepB alphabet assume fuel initB,
    conc_all_ok (auto_Ts d) d = true ->
    is_ok (rcheck_s d mid stepB alphabet assume fuel initB) = true ->
    forall ins, admissible stepB alphabet assume initB ins ->
      traceA (sstep d mid) (power_up_s d) ins = traceB stepB initB ins.
Proof. exact rcheck_s_sound. Qed.
Print Assumptions C03_case_sound.

(** the explored system is the design with its dead compiler temporaries normalised after every
    clock; this theorem is what makes that exploration speak about the design itself *)
Theorem C03_normalisation_sound :
  forall T d mid, conc_all_ok T d = true -> forall ins s n, srel_s T s n ->
    traceA (sstep d mid) s ins = traceA (sstep_n d T mid) n ins.
Proof. exact norm_traces_s. Qed.
Print Assumptions C03_normalisation_sound.
