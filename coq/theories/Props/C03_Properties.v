(** C03 - property theorems (statements only; proofs live in the library files) *)
From Coq Require Import ZArith NArith PArith List Bool.
From Cohdl Require Import Vhdl.Value Vhdl.Syntax Vhdl.Sem Vhdl.DefAssign Vhdl.DeadVars Equiv.Explore Equiv.VhdlTS Equiv.RefTS Equiv.Monitor Equiv.StoreTS Models.SeqRef.
Import ListNotations.

Theorem C03_case_sound :
  forall d mid stepB alphabet assume fuel initB,
    conc_all_ok (auto_Ts d) d = true ->
    is_ok (rcheck_s d mid stepB alphabet assume fuel initB) = true ->
    forall ins, admissible stepB alphabet assume initB ins ->
      traceA (sstep d mid) (power_up_s d) ins = traceB stepB initB ins.
Proof. exact rcheck_s_sound. Qed.
Print Assumptions C03_case_sound.

(** the explored system is the design with its dead compiler temporaries normalised after every
    clock; this theorem is what makes that exploration speak about the design itself *)
Theorem C03_normalisation_sound :
  forall T d mid, conc_all_ok T d = true -> forall ins s n, srel_s T s n ->
    traceA (sstep d mid) s ins = traceA (sstep_n d T mid) n ins.
Proof. exact norm_traces_s. Qed.
Print Assumptions C03_normalisation_sound.

(** ** ALL PROGRAMS: the lowering model [Models/SeqLower.v] (how the compiler renders a clocked context
    body to VHDL statements; tied to the real compiler per case by harness/c03_lower.py) against the
    reference semantics [SeqRef].

    Full statement aimed at (NOT proved; the lift through the delta-cycle / settle / test-bench machinery,
    i.e. clock driving, [rising_edge] events, the buffer-to-port concurrent assignments and [power_up_s],
    is missing):

      forall its ds vts sinit vinit body, in_grammar its ds vts body = true -> decls_ok ds body = true ->
        forall ins, (inputs well typed for [its]) ->
          traceA (sstep (lower its ds vts sinit vinit body) false) (power_up_s (lower ...)) ins
          = traceB (seq_step ds body) (sinit ++ vinit) ins.

    Proved (hence [_partial]): the one-activation theorem - for EVERY body of the grammar, every store that is
    well typed for the declarations and every input vector, the lowered process run on a rising clock edge
    under [Vhdl.Sem] ([run_conc] = [exec] on the old signal store, writes collected) followed by [commit]
    leaves in the buffer signals exactly [finish ds (w_pend w) (w_pushed w)] and in the process variables
    exactly [w_vars w], where [w = sexec inp old body ...] - which is the next state of [seq_step ds body];
    every other signal is unchanged.  Grammar: targets [<<=] (whole signal), [^=], [@=]; expressions
    XIn XSig XVar XConst XAdd XSub XAnd XOr XXor XNot XEq XNe XLt XIte over Bit / Unsigned[w] / BitVector[w]
    objects; RSkip RAssign RSeq RIf.  Bit / slice targets, XBit, XSlice, XConcat are outside the grammar. *)
From Coq Require Import Lia.
From Cohdl Require Import Models.SeqLower Models.SeqLowerProofs.
Local Open Scope Z_scope.

Theorem C03_lower_correct_partial :
  forall its ds vts body sg ev inp old vr vars,
  in_grammar its ds vts body = true -> decls_ok ds body = true ->
  (forall k, (k < ni its)%nat ->
     PM.find (ipos k) sg = Some (ence (ity its k) (nth k inp 0)) /\ zokb (ity its k) (nth k inp 0) = true) ->
  (forall k, (k < ns ds)%nat ->
     PM.find (bpos its ds k) sg = Some (ence (sgty ds k) (nth k old 0)) /\ zokb (sgty ds k) (nth k old 0) = true) ->
  PM.find clkp sg = Some (VL true) -> PS.mem clkp ev = true ->
  length old = ns ds -> (nv vts <= length vars)%nat ->
  vrel vts (tmps_s its ds vts body) vr vars ->
  let w := sexec inp old body {| w_pend := old; w_vars := vars; w_pushed := [] |} in
  let sigs' := finish ds (w_pend w) (w_pushed w) 0 in
  exists vr' ws sg',
    run_conc sg vr ev (lower_proc its ds vts (pushed_in body) body) = Ok (vr', ws) /\
    commit sg ws = Ok sg' /\
    vrel vts (tmps_s its ds vts body) vr' (w_vars w) /\
    (forall k, (k < ns ds)%nat -> PM.find (bpos its ds k) sg' = Some (ence (sgty ds k) (nth k sigs' 0))) /\
    (forall p, (forall k, (k < ns ds)%nat -> p <> bpos its ds k) -> PM.find p sg' = PM.find p sg).
Proof. exact lower_activation_correct. Qed.
Print Assumptions C03_lower_correct_partial.

(** without a rising edge of the clock the lowered process changes nothing *)
Theorem C03_lower_idle :
  forall its ds vts pu sg ev body vr b,
  PM.find clkp sg = Some (VL b) -> (PS.mem clkp ev && Bool.eqb b true) = false ->
  run_conc sg vr ev (lower_proc its ds vts pu body) = Ok (vr, []).
Proof. exact lower_process_idle. Qed.
Print Assumptions C03_lower_idle.

(** the statement-level simulation the activation theorem rests on (any sub-statement, any point of the
    activation, any temporaries counter) *)
Theorem C03_lower_stm_correct :
  forall its ds vts pu sg ev inp old tys,
  (forall k, (k < ni its)%nat ->
     PM.find (ipos k) sg = Some (ence (ity its k) (nth k inp 0)) /\ zokb (ity its k) (nth k inp 0) = true) ->
  (forall k, (k < ns ds)%nat ->
     PM.find (bpos its ds k) sg = Some (ence (sgty ds k) (nth k old 0)) /\ zokb (sgty ds k) (nth k old 0) = true) ->
  forall s n w vr ws,
  wt_s its ds vts pu s = true -> pre tys (tmps_s its ds vts s) n ->
  vrel vts tys vr (w_vars w) -> prel its ds pu sg ws (w_pend w) (w_pushed w) -> st_ok ds vts w ->
  exists vr' ws', exec sg ev (lower_stm its ds vts n s) vr ws = Ok (vr', ws') /\
    vrel vts tys vr' (w_vars (sexec inp old s w)) /\
    prel its ds pu sg ws' (w_pend (sexec inp old s w)) (w_pushed (sexec inp old s w)) /\
    st_ok ds vts (sexec inp old s w).
Proof. exact lower_stm_ok. Qed.
Print Assumptions C03_lower_stm_correct.

(** non-vacuity: a body with a push, a variable, an if and an if-expression is in the grammar, its
    declarations pass [decls_ok], and the store hypotheses hold of the declared stores of the lowered design
    at a rising clock edge *)
Definition ex_its := [SBit; SUns 2%N].
Definition ex_ds := [{| s_ty := SBit; s_push := true; s_def := 0 |}; {| s_ty := SUns 2%N; s_push := false; s_def := 1 |}].
Definition ex_vts := [SUns 2%N].
Definition ex_body : stm :=
  RSeq (RAssign (TVar 0) (XAdd 2%N (XVar 0) (XConst 1)))
       (RIf (XIn 0) (RAssign (TPush 0) (XLt (XVar 0) (XIn 1)))
                    (RAssign (TSig 1) (XIte (XEq (XSig 1) (XConst 3)) (XConst 0) (XSub 2%N (XSig 1) (XVar 0))))).
Definition ex_d := lower ex_its ex_ds ex_vts [0; 1] [2] ex_body.
Definition ex_sg : store := PM.add clkp (VL true) (fst (decl_stores ex_d)).
Definition ex_vr : store := snd (decl_stores ex_d).

Example C03_lower_hyps_satisfiable :
  in_grammar ex_its ex_ds ex_vts ex_body = true /\ decls_ok ex_ds ex_body = true /\
  (forall k, (k < ni ex_its)%nat ->
     PM.find (ipos k) ex_sg = Some (ence (ity ex_its k) (nth k [0; 0] 0)) /\ zokb (ity ex_its k) (nth k [0; 0] 0) = true) /\
  (forall k, (k < ns ex_ds)%nat ->
     PM.find (bpos ex_its ex_ds k) ex_sg = Some (ence (sgty ex_ds k) (nth k [0; 1] 0)) /\ zokb (sgty ex_ds k) (nth k [0; 1] 0) = true) /\
  PM.find clkp ex_sg = Some (VL true) /\ PS.mem clkp (PS.add clkp PS.empty) = true /\
  vrel ex_vts (tmps_s ex_its ex_ds ex_vts ex_body) ex_vr [2].
Proof.
  split; [vm_compute; reflexivity|]. split; [vm_compute; reflexivity|].
  split. { intros k Hk. destruct k as [|[|k]]; [vm_compute; auto|vm_compute; auto|]. exfalso. cbn in Hk. lia. }
  split. { intros k Hk. destruct k as [|[|k]]; [vm_compute; auto|vm_compute; auto|]. exfalso. cbn in Hk. lia. }
  split; [vm_compute; reflexivity|]. split; [vm_compute; reflexivity|].
  split.
  - intros k Hk. destruct k as [|k]; [vm_compute; auto|]. exfalso. cbn in Hk. lia.
  - intros i Hi. destruct i as [|i]; [vm_compute; eexists; split; reflexivity|]. exfalso. cbn in Hi. lia.
Qed.

(** the same instance, computed: the lowered process and the reference agree (a sanity check of the statement) *)
Example C03_lower_instance :
  (do r <- run_conc ex_sg ex_vr (PS.add clkp PS.empty) (lower_proc ex_its ex_ds ex_vts (pushed_in ex_body) ex_body);
   do s <- commit ex_sg (snd r);
   Ok (map (fun k => PM.find (bpos ex_its ex_ds k) s) [0%nat; 1%nat], PM.find (vp 0) (fst r)))
  = Ok ([Some (VL false); Some (VV KUns 2%N 2)], Some (VV KUns 2%N 3)).
Proof. vm_compute. reflexivity. Qed.
