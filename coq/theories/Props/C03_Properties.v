(** C03 - property theorems *)
From Coq Require Import ZArith NArith PArith List Bool.
From Cohdl Require Import Vhdl.Value Vhdl.Syntax Vhdl.Sem Equiv.Explore Equiv.VhdlTS Equiv.RefTS Models.SeqRef.
Import ListNotations.

Theorem C03_case_sound :
  forall d mid stepB alphabet assume fuel initB,
    is_ok (rcheck d mid stepB alphabet assume fuel initB) = true ->
    forall ins, admissible stepB alphabet assume initB ins ->
      traceA (vstep d mid) (power_up d) ins = traceB stepB initB ins.
Proof. exact rcheck_sound. Qed.
Print Assumptions C03_case_sound.
