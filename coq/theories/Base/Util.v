(** small helpers used by generated case files *)
From Coq Require Import NArith List Bool.
Import ListNotations.

(** indices (from [i]) of the elements on which [p] is false *)
Fixpoint bad_from {A} (p : A -> bool) (l : list A) (i : N) : list N :=
  match l with
  | [] => []
  | x :: r => if p x then bad_from p r (N.succ i) else i :: bad_from p r (N.succ i)
  end.

Definition bad_indices {A} (p : A -> bool) (l : list A) : list N := bad_from p l 0%N.

Lemma bad_from_nil_forall {A} (p : A -> bool) l i : bad_from p l i = [] -> forall x, In x l -> p x = true.
Proof.
  revert i; induction l as [|y r IH]; intros i H x Hx; [contradiction|].
  cbn in H. destruct (p y) eqn:E; [|discriminate].
  destruct Hx as [<-|Hx]; [exact E|eapply IH; eauto].
Qed.

Lemma bad_indices_nil_forall {A} (p : A -> bool) l : bad_indices p l = [] -> forall x, In x l -> p x = true.
Proof. apply bad_from_nil_forall. Qed.
