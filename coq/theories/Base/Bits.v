(** * Bits: bit vectors as (width, Z), helpers shared by every model.

    A vector of width [w] is represented by its unsigned value
    [0 <= v < 2^w].  Widths are [N]; no [nat] numerals of data size. *)
From Coq Require Import ZArith List Bool Lia.
Import ListNotations.
Local Open Scope Z_scope.

Definition pow2 (w : N) : Z := 2 ^ (Z.of_N w).

(** reduce modulo 2^w (unsigned wrap) *)
Definition wrap (w : N) (z : Z) : Z := z mod pow2 w.

(** signed reading of an unsigned representation *)
Definition sval (w : N) (v : Z) : Z :=
  if (w =? 0)%N then 0
  else if v <? pow2 (w - 1) then v else v - pow2 w.

(** unsigned representation of a (possibly negative) number at width w *)
Definition urep (w : N) (z : Z) : Z := wrap w z.

Definition bitof (v : Z) (i : N) : bool := Z.testbit v (Z.of_N i).

(** bits [lo .. lo+len-1] of v *)
Definition getslice (v : Z) (lo len : N) : Z := (v / pow2 lo) mod pow2 len.

(** replace bits [lo .. lo+len-1] of v by x (x already < 2^len) *)
Definition setslice (v : Z) (lo len : N) (x : Z) : Z :=
  v - (getslice v lo len) * pow2 lo + (x mod pow2 len) * pow2 lo.

Definition ones (w : N) : Z := pow2 w - 1.

Lemma pow2_pos w : 0 < pow2 w.
Proof. unfold pow2. apply Z.pow_pos_nonneg; lia. Qed.

Lemma pow2_add a b : pow2 (a + b) = pow2 a * pow2 b.
Proof. unfold pow2. rewrite N2Z.inj_add. apply Z.pow_add_r; lia. Qed.

Lemma pow2_0 : pow2 0 = 1.
Proof. reflexivity. Qed.

Lemma pow2_succ w : pow2 (N.succ w) = 2 * pow2 w.
Proof. unfold pow2. rewrite N2Z.inj_succ. rewrite Z.pow_succ_r; lia. Qed.

Lemma pow2_le a b : (a <= b)%N -> pow2 a <= pow2 b.
Proof. intros H. unfold pow2. apply Z.pow_le_mono_r; lia. Qed.

Lemma wrap_range w z : 0 <= wrap w z < pow2 w.
Proof. unfold wrap. apply Z.mod_pos_bound, pow2_pos. Qed.

Lemma wrap_small w z : 0 <= z < pow2 w -> wrap w z = z.
Proof. intros H. unfold wrap. apply Z.mod_small; exact H. Qed.

Lemma wrap_wrap w z : wrap w (wrap w z) = wrap w z.
Proof. unfold wrap. apply Z.mod_mod. pose proof (pow2_pos w); lia. Qed.

Lemma wrap_add_l w a b : wrap w (wrap w a + b) = wrap w (a + b).
Proof. unfold wrap. rewrite Zplus_mod_idemp_l. reflexivity. Qed.

Lemma wrap_add_r w a b : wrap w (a + wrap w b) = wrap w (a + b).
Proof. unfold wrap. rewrite Zplus_mod_idemp_r. reflexivity. Qed.

Lemma wrap_mul_l w a b : wrap w (wrap w a * b) = wrap w (a * b).
Proof. unfold wrap. rewrite Zmult_mod_idemp_l. reflexivity. Qed.

Lemma wrap_mul_r w a b : wrap w (a * wrap w b) = wrap w (a * b).
Proof. unfold wrap. rewrite Zmult_mod_idemp_r. reflexivity. Qed.

Lemma wrap_sub_l w a b : wrap w (wrap w a - b) = wrap w (a - b).
Proof. unfold wrap. rewrite Zminus_mod_idemp_l. reflexivity. Qed.

Lemma wrap_sub_r w a b : wrap w (a - wrap w b) = wrap w (a - b).
Proof. unfold wrap. rewrite Zminus_mod_idemp_r. reflexivity. Qed.

Lemma wrap_narrow a b z : (a <= b)%N -> wrap a (wrap b z) = wrap a z.
Proof.
  intros H. unfold wrap.
  replace b with (a + (b - a))%N by lia. rewrite pow2_add.
  pose proof (pow2_pos a). pose proof (pow2_pos (b - a)).
  rewrite Z.rem_mul_r by lia.
  rewrite Z.add_mod by lia.
  rewrite (Z.mul_comm (pow2 a)), Z.mod_mul by lia.
  rewrite Z.add_0_r. rewrite !Z.mod_mod by lia. reflexivity.
Qed.

Lemma sval_range w v : (0 < w)%N -> 0 <= v < pow2 w ->
  - pow2 (w - 1) <= sval w v < pow2 (w - 1).
Proof.
  intros Hw Hv. unfold sval.
  destruct (N.eqb_spec w 0); [lia|].
  assert (E : pow2 w = 2 * pow2 (w - 1)).
  { replace w with (N.succ (w - 1)) at 1 by lia. apply pow2_succ. }
  destruct (Z.ltb_spec v (pow2 (w - 1))); lia.
Qed.

Lemma wrap_sval w v : 0 <= v < pow2 w -> wrap w (sval w v) = v.
Proof.
  intros Hv. unfold sval.
  destruct (N.eqb_spec w 0) as [->|Hw].
  - rewrite pow2_0 in Hv. unfold wrap. rewrite pow2_0. rewrite Z.mod_1_r. lia.
  - destruct (Z.ltb_spec v (pow2 (w - 1))).
    + apply wrap_small; exact Hv.
    + unfold wrap. replace (v - pow2 w) with (v + (-1) * pow2 w) by lia.
      rewrite Z.mod_add by (pose proof (pow2_pos w); lia).
      apply Z.mod_small; exact Hv.
Qed.

Lemma sval_wrap w z : (0 < w)%N -> - pow2 (w - 1) <= z < pow2 (w - 1) ->
  sval w (wrap w z) = z.
Proof.
  intros Hw Hz. unfold sval.
  destruct (N.eqb_spec w 0); [lia|].
  assert (E : pow2 w = 2 * pow2 (w - 1)).
  { replace w with (N.succ (w - 1)) at 1 by lia. apply pow2_succ. }
  pose proof (pow2_pos (w - 1)) as Hp.
  destruct (Z.ltb_spec z 0) as [Hneg|Hpos].
  - assert (Hw' : wrap w z = z + pow2 w).
    { unfold wrap. symmetry. apply Z.mod_unique with (q := -1); lia. }
    rewrite Hw'. destruct (Z.ltb_spec (z + pow2 w) (pow2 (w - 1))); lia.
  - rewrite wrap_small by lia.
    destruct (Z.ltb_spec z (pow2 (w - 1))); lia.
Qed.

Lemma getslice_range v lo len : 0 <= getslice v lo len < pow2 len.
Proof. unfold getslice. apply Z.mod_pos_bound, pow2_pos. Qed.

(** bit list (LSB first) <-> Z, used by serialisation models *)
Fixpoint bits_to_Z (l : list bool) : Z :=
  match l with
  | [] => 0
  | b :: r => (if b then 1 else 0) + 2 * bits_to_Z r
  end.

Fixpoint Z_to_bits (n : nat) (v : Z) : list bool :=
  match n with
  | O => []
  | S k => Z.odd v :: Z_to_bits k (v / 2)
  end.

Lemma Z_to_bits_length n v : length (Z_to_bits n v) = n.
Proof. revert v; induction n as [|n IH]; intros v; cbn; [reflexivity|]. rewrite IH; reflexivity. Qed.

Lemma bits_to_Z_range l : 0 <= bits_to_Z l < 2 ^ Z.of_nat (length l).
Proof.
  induction l as [|b r IH]; cbn [bits_to_Z length]; [cbn; lia|].
  rewrite Nat2Z.inj_succ, Z.pow_succ_r by lia. destruct b; lia.
Qed.

Lemma bits_Z_bits l : Z_to_bits (length l) (bits_to_Z l) = l.
Proof.
  induction l as [|b r IH]; cbn [bits_to_Z length Z_to_bits]; [reflexivity|].
  f_equal.
  - destruct b.
    + rewrite Z.odd_add_mul_2. reflexivity.
    + rewrite Z.add_0_l, Z.odd_mul, Z.odd_2. reflexivity.
  - replace ((if b then 1 else 0) + 2 * bits_to_Z r) with (bits_to_Z r * 2 + (if b then 1 else 0)) by lia.
    rewrite Z.div_add_l by lia. destruct b; cbn; rewrite Z.add_0_r; exact IH.
Qed.

Lemma Z_bits_Z n v : 0 <= v < 2 ^ Z.of_nat n -> bits_to_Z (Z_to_bits n v) = v.
Proof.
  revert v; induction n as [|n IH]; intros v Hv; cbn [Z_to_bits bits_to_Z].
  - cbn in Hv. lia.
  - rewrite Nat2Z.inj_succ, Z.pow_succ_r in Hv by lia.
    rewrite IH.
    + rewrite (Z.div_mod v 2) at 3 by lia. rewrite Zmod_odd. destruct (Z.odd v); lia.
    + split; [apply Z.div_pos; lia|]. apply Z.div_lt_upper_bound; lia.
Qed.
