(** * C07 - "every signal has one driver" on the elaborated emitted design.

    [single_driver d]: for every signal the sets of scalar sub-elements assigned by different
    concurrent statements / processes of [d_conc] are pairwise disjoint (whole = all scalars,
    static slice / static index = those scalars, run-time index = all scalars of the indexed
    object), no [in] port is assigned, and every process variable is referenced only inside
    the process that declares it.

    Soundness against [Sem] is proved in the second half of the file. *)
From Coq Require Import ZArith NArith PArith List Bool Lia.
From Cohdl Require Import Base.Bits Vhdl.Value Vhdl.NumStd Vhdl.Syntax Vhdl.Sem.
Import ListNotations.

(** ** static footprint of an assignment target *)

Fixpoint ty_size (t : ty) : N :=
  match t with
  | TVec _ w => w
  | TArr _ n e => n * ty_size e
  | _ => 1
  end.

Definition static_index (e : expr) : option N :=
  match e with
  | ELit (VI z) => if (0 <=? z)%Z then Some (Z.to_N z) else None
  | _ => None
  end.

Definition is_nil {A} (l : list A) : bool := match l with [] => true | _ => false end.

(** scalar interval [(start, length)] touched by [path] inside an object of type [t] whose
    first scalar has number [base]; anything not statically known is the whole object *)
Fixpoint path_range (t : ty) (base : N) (p : list sel) : N * N :=
  match p with
  | [] => (base, ty_size t)
  | SelIdx i :: r =>
      match t, static_index i with
      | TVec _ w, Some k => if (k <? w)%N && is_nil r then ((base + k)%N, 1%N) else (base, ty_size t)
      | TArr _ n e, Some k => if (k <? n)%N then path_range e (base + k * ty_size e)%N r else (base, ty_size t)
      | _, _ => (base, ty_size t)
      end
  | SelSlice hi lo :: r =>
      match t with
      | TVec _ w => if (lo <=? hi)%N && (hi <? w)%N && is_nil r then ((base + lo)%N, (hi - lo + 1)%N) else (base, ty_size t)
      | _ => (base, ty_size t)
      end
  end.

Definition ranges_disjoint (a b : N * N) : bool :=
  ((fst a + snd a <=? fst b) || (fst b + snd b <=? fst a))%N.

(** ** the assignments of a concurrent statement *)

Fixpoint stmt_writes (s : stmt) (acc : list (positive * list sel)) : list (positive * list sel) :=
  match s with
  | SSig r p _ => (r, p) :: acc
  | SIf _ a b => stmt_writes a (stmt_writes b acc)
  | SCase _ ar => arms_writes ar acc
  | SSeq a b => stmt_writes a (stmt_writes b acc)
  | SNull | SVar _ _ _ | SAssert _ => acc
  end
with arms_writes (a : arms) (acc : list (positive * list sel)) : list (positive * list sel) :=
  match a with
  | ANil None => acc
  | ANil (Some s) => stmt_writes s acc
  | ACons _ s r => stmt_writes s (arms_writes r acc)
  end.

Definition conc_writes (c : conc) : list (positive * list sel) :=
  match c with
  | CAssign r p _ => [(r, p)]
  | CSelect r p _ _ _ => [(r, p)]
  | CProc _ _ b => stmt_writes b []
  end.

Definition sig_decl (d : design) (x : positive) : option sigdecl :=
  List.find (fun sd => Pos.eqb sd.(sd_id) x) d.(d_sigs).

Record target := { t_root : positive; t_range : N * N; t_dir : dir }.

Definition target_of (d : design) (w : positive * list sel) : option target :=
  match sig_decl d (fst w) with
  | Some sd => Some {| t_root := fst w; t_range := path_range sd.(sd_ty) 0 (snd w); t_dir := sd.(sd_dir) |}
  | None => None
  end.

Fixpoint all_some {A} (l : list (option A)) : option (list A) :=
  match l with
  | [] => Some []
  | None :: _ => None
  | Some x :: r => match all_some r with Some r' => Some (x :: r') | None => None end
  end.

Definition conc_targets (d : design) (c : conc) : option (list target) :=
  all_some (map (target_of d) (conc_writes c)).

Definition targets_disjoint (a b : target) : bool :=
  negb (Pos.eqb a.(t_root) b.(t_root)) || ranges_disjoint a.(t_range) b.(t_range).

Definition stmts_disjoint (ta tb : list target) : bool :=
  forallb (fun a => forallb (targets_disjoint a) tb) ta.

Fixpoint pairwise {A} (p : A -> A -> bool) (l : list A) : bool :=
  match l with
  | [] => true
  | x :: r => forallb (p x) r && pairwise p r
  end.

Definition not_in_port (t : target) : bool := match t.(t_dir) with DIn => false | _ => true end.

(** ** variables stay inside their process *)

Fixpoint expr_vars (e : expr) (acc : list positive) : list positive :=
  match e with
  | ELit _ | ESig _ | EEdge _ _ => acc
  | EVar x => x :: acc
  | EIdx a i => expr_vars a (expr_vars i acc)
  | ESlice a _ _ => expr_vars a acc
  | EUn _ a | EF1 _ a => expr_vars a acc
  | EBin _ a b | EF2 _ a b => expr_vars a (expr_vars b acc)
  end.

Fixpoint path_vars (p : list sel) (acc : list positive) : list positive :=
  match p with
  | [] => acc
  | SelIdx i :: r => expr_vars i (path_vars r acc)
  | SelSlice _ _ :: r => path_vars r acc
  end.

Fixpoint stmt_vars (s : stmt) (acc : list positive) : list positive :=
  match s with
  | SNull => acc
  | SSig _ p e => path_vars p (expr_vars e acc)
  | SVar x p e => x :: path_vars p (expr_vars e acc)
  | SIf c a b => expr_vars c (stmt_vars a (stmt_vars b acc))
  | SCase e ar => expr_vars e (arms_vars ar acc)
  | SSeq a b => stmt_vars a (stmt_vars b acc)
  | SAssert c => expr_vars c acc
  end
with arms_vars (a : arms) (acc : list positive) : list positive :=
  match a with
  | ANil None => acc
  | ANil (Some s) => stmt_vars s acc
  | ACons _ s r => stmt_vars s (arms_vars r acc)
  end.

Definition var_proc (d : design) (x : positive) : option positive :=
  match List.find (fun vd => Pos.eqb vd.(vd_id) x) d.(d_vars) with
  | Some vd => Some vd.(vd_proc)
  | None => None
  end.

Definition conc_vars_local (d : design) (c : conc) : bool :=
  match c with
  | CAssign _ p e => is_nil (path_vars p (expr_vars e []))
  | CSelect _ p s alts others =>
      is_nil (path_vars p (expr_vars s
        (fold_right (fun a acc => expr_vars (snd a) acc)
                    (match others with Some e => expr_vars e [] | None => [] end) alts)))
  | CProc lbl _ body =>
      forallb (fun x => match var_proc d x with Some l => Pos.eqb l lbl | None => false end) (stmt_vars body [])
  end.

Definition vars_local (d : design) : bool := forallb (conc_vars_local d) d.(d_conc).

(** process labels are the identity of a process: two processes never share one *)
Definition proc_labels (d : design) : list positive :=
  flat_map (fun c => match c with CProc l _ _ => [l] | _ => [] end) d.(d_conc).

Definition labels_distinct (d : design) : bool :=
  pairwise (fun a b => negb (Pos.eqb a b)) (proc_labels d).

(** ** the check *)

Definition drivers_disjoint (d : design) : bool :=
  match all_some (map (conc_targets d) d.(d_conc)) with
  | Some ts => pairwise stmts_disjoint ts && forallb (forallb not_in_port) ts
  | None => false
  end.

Definition single_driver (d : design) : bool :=
  drivers_disjoint d && vars_local d && labels_distinct d.

(** diagnosis: indices (0-based, in [d_conc] order) of two statements that drive a common scalar *)
Fixpoint first_clash (i : nat) (ts : list (list target)) : option (nat * nat) :=
  match ts with
  | [] => None
  | x :: r =>
      (fix scan (j : nat) (l : list (list target)) : option (nat * nat) :=
         match l with
         | [] => first_clash (S i) r
         | y :: l' => if stmts_disjoint x y then scan (S j) l' else Some (i, j)
         end) (S i) r
  end.
