(** * C07 - "every signal has one driver" on the elaborated emitted design.

    [single_driver d]: for every signal the sets of scalar sub-elements assigned by different
    concurrent statements / processes of [d_conc] are pairwise disjoint (whole object = all of
    its scalars, static slice / static index = those scalars, run-time index = all scalars of
    the indexed object), every assigned name is a declared signal that is not an [in] port, and
    every process variable is referenced only inside the process that declares it.

    Disjointness is decided structurally on the target paths ([sel_disjoint]): two paths are
    disjoint if they select different static elements at some level, or - on the last level of
    a vector - a static element outside a static slice or two non-overlapping static slices.

    The second half of the file proves soundness against [Sem]: the result of one delta cycle
    does not depend on the order of the concurrent statements ([single_driver_sound]). *)
From Coq Require Import ZArith NArith PArith List Bool Lia Permutation.
From Cohdl Require Import Base.Bits Vhdl.Value Vhdl.NumStd Vhdl.Syntax Vhdl.Sem.
Import ListNotations.

(** ** static disjointness of assignment targets *)

Definition static_index (e : expr) : option N :=
  match e with
  | ELit (VI z) => if (0 <=? z)%Z then Some (Z.to_N z) else None
  | _ => None
  end.

Definition is_nil {A} (l : list A) : bool := match l with [] => true | _ => false end.

Fixpoint sel_disjoint (p q : list sel) : bool :=
  match p, q with
  | SelIdx i :: p', SelIdx j :: q' =>
      match static_index i, static_index j with
      | Some n, Some m => if (n =? m)%N then sel_disjoint p' q' else true
      | _, _ => false
      end
  | SelIdx i :: p', SelSlice hi lo :: q' =>
      match static_index i with
      | Some n => is_nil p' && is_nil q' && ((n <? lo) || (hi <? n))%N
      | None => false
      end
  | SelSlice hi lo :: p', SelIdx j :: q' =>
      match static_index j with
      | Some m => is_nil p' && is_nil q' && ((m <? lo) || (hi <? m))%N
      | None => false
      end
  | SelSlice hi lo :: p', SelSlice hi' lo' :: q' => is_nil p' && is_nil q' && ((hi <? lo') || (hi' <? lo))%N
  | _, _ => false
  end.

(** ** the assignments of a concurrent statement *)

Definition swrite := (positive * list sel)%type.

Fixpoint stmt_writes (s : stmt) (acc : list swrite) : list swrite :=
  match s with
  | SSig r p _ => (r, p) :: acc
  | SIf _ a b => stmt_writes a (stmt_writes b acc)
  | SCase _ ar => arms_writes ar acc
  | SSeq a b => stmt_writes a (stmt_writes b acc)
  | SNull | SVar _ _ _ | SAssert _ => acc
  end
with arms_writes (a : arms) (acc : list swrite) : list swrite :=
  match a with
  | ANil None => acc
  | ANil (Some s) => stmt_writes s acc
  | ACons _ s r => stmt_writes s (arms_writes r acc)
  end.

Definition conc_writes (c : conc) : list swrite :=
  match c with
  | CAssign r p _ => [(r, p)]
  | CSelect r p _ _ _ => [(r, p)]
  | CProc _ _ b => stmt_writes b []
  end.

Definition sw_disjoint (a b : swrite) : bool :=
  negb (Pos.eqb (fst a) (fst b)) || sel_disjoint (snd a) (snd b).

Definition stmts_disjoint (wa wb : list swrite) : bool :=
  forallb (fun a => forallb (sw_disjoint a) wb) wa.

Fixpoint pairwise {A} (p : A -> A -> bool) (l : list A) : bool :=
  match l with
  | [] => true
  | x :: r => forallb (p x) r && pairwise p r
  end.

Definition drivers_disjoint (d : design) : bool := pairwise stmts_disjoint (map conc_writes d.(d_conc)).

Definition sig_decl (d : design) (x : positive) : option sigdecl :=
  List.find (fun sd => Pos.eqb sd.(sd_id) x) d.(d_sigs).

(** every assigned name is a declared signal and no [in] port *)
Definition assignable (d : design) (w : swrite) : bool :=
  match sig_decl d (fst w) with
  | Some sd => match sd.(sd_dir) with DIn => false | _ => true end
  | None => false
  end.

Definition no_in_port_assigned (d : design) : bool :=
  forallb (fun c => forallb (assignable d) (conc_writes c)) d.(d_conc).

(** ** variables stay inside their process *)

Fixpoint expr_vars (e : expr) (acc : list positive) : list positive :=
  match e with
  | ELit _ | ESig _ | EEdge _ _ => acc
  | EVar x => x :: acc
  | EIdx a i => expr_vars a (expr_vars i acc)
  | ESlice a _ _ => expr_vars a acc
  | EUn _ a | EF1 _ a => expr_vars a acc
  | EBin _ a b | EF2 _ a b => expr_vars a (expr_vars b acc)
  end.

Fixpoint path_vars (p : list sel) (acc : list positive) : list positive :=
  match p with
  | [] => acc
  | SelIdx i :: r => expr_vars i (path_vars r acc)
  | SelSlice _ _ :: r => path_vars r acc
  end.

Fixpoint stmt_vars (s : stmt) (acc : list positive) : list positive :=
  match s with
  | SNull => acc
  | SSig _ p e => path_vars p (expr_vars e acc)
  | SVar x p e => x :: path_vars p (expr_vars e acc)
  | SIf c a b => expr_vars c (stmt_vars a (stmt_vars b acc))
  | SCase e ar => expr_vars e (arms_vars ar acc)
  | SSeq a b => stmt_vars a (stmt_vars b acc)
  | SAssert c => expr_vars c acc
  end
with arms_vars (a : arms) (acc : list positive) : list positive :=
  match a with
  | ANil None => acc
  | ANil (Some s) => stmt_vars s acc
  | ACons _ s r => stmt_vars s (arms_vars r acc)
  end.

Definition var_proc (d : design) (x : positive) : option positive :=
  match List.find (fun vd => Pos.eqb vd.(vd_id) x) d.(d_vars) with
  | Some vd => Some vd.(vd_proc)
  | None => None
  end.

(** the variables a concurrent statement refers to *)
Definition conc_vars (c : conc) : list positive :=
  match c with
  | CAssign _ p e => path_vars p (expr_vars e [])
  | CSelect _ p s alts others =>
      path_vars p (expr_vars s
        (fold_right (fun a acc => expr_vars (snd a) acc)
                    (match others with Some e => expr_vars e [] | None => [] end) alts))
  | CProc _ _ body => stmt_vars body []
  end.

Definition conc_vars_local (d : design) (c : conc) : bool :=
  match c with
  | CProc lbl _ _ =>
      forallb (fun x => match var_proc d x with Some l => Pos.eqb l lbl | None => false end) (conc_vars c)
  | _ => is_nil (conc_vars c)
  end.

Definition vars_local (d : design) : bool := forallb (conc_vars_local d) d.(d_conc).

(** process labels are the identity of a process: two processes never share one *)
Definition same_label (a b : conc) : bool :=
  match a, b with
  | CProc l _ _, CProc l' _ _ => Pos.eqb l l'
  | _, _ => false
  end.

Definition labels_distinct (d : design) : bool :=
  pairwise (fun a b => negb (same_label a b)) d.(d_conc).

(** ** the check *)

Definition single_driver (d : design) : bool :=
  drivers_disjoint d && no_in_port_assigned d && vars_local d && labels_distinct d.

(** root-level strengthening: no two statements assign the same SIGNAL (coverage statistic) *)
Definition conc_roots (c : conc) : list positive := map fst (conc_writes c).
Definition pmem (x : positive) (l : list positive) : bool := existsb (Pos.eqb x) l.
Definition lists_disjoint (a b : list positive) : bool := forallb (fun x => negb (pmem x b)) a.
Definition single_driver_roots (d : design) : bool := pairwise lists_disjoint (map conc_roots d.(d_conc)).

(** diagnosis: indices (0-based, in [d_conc] order) of two statements that drive a common scalar *)
Fixpoint first_clash (i : nat) (ts : list (list swrite)) : option (nat * nat) :=
  match ts with
  | [] => None
  | x :: r =>
      (fix scan (j : nat) (l : list (list swrite)) : option (nat * nat) :=
         match l with
         | [] => first_clash (S i) r
         | y :: l' => if stmts_disjoint x y then scan (S j) l' else Some (i, j)
         end) (S i) r
  end.

(** * Bit-level facts: writes to disjoint ranges of a vector commute *)
Section BitFacts.
Local Open Scope Z_scope.
Lemma pow2_split a b : (a <= b)%N -> pow2 b = pow2 a * pow2 (b - a).
Proof. intros H. rewrite <- pow2_add. f_equal. lia. Qed.

Lemma pow2_nz w : pow2 w <> 0.
Proof. pose proof (pow2_pos w). lia. Qed.

Lemma setslice_as_add v lo len x :
  setslice v lo len x = v + ((x mod pow2 len) - getslice v lo len) * pow2 lo.
Proof. unfold setslice. ring. Qed.

(** a write above does not change a slice below *)
Lemma getslice_setslice_low v lo1 n1 lo2 n2 y : (lo1 + n1 <= lo2)%N ->
  getslice (setslice v lo2 n2 y) lo1 n1 = getslice v lo1 n1.
Proof.
  intros H. rewrite setslice_as_add. set (K := y mod pow2 n2 - getslice v lo2 n2).
  unfold getslice.
  rewrite (pow2_split (lo1 + n1) lo2 H), pow2_add.
  replace (v + K * (pow2 lo1 * pow2 n1 * pow2 (lo2 - (lo1 + n1))))
    with (v + (K * pow2 (lo2 - (lo1 + n1)) * pow2 n1) * pow2 lo1) by ring.
  rewrite Z.div_add by apply pow2_nz.
  rewrite Z.mod_add by apply pow2_nz. reflexivity.
Qed.

(** a write below does not change a slice above *)
Lemma div_setslice_low v lo1 n1 x : setslice v lo1 n1 x / pow2 (lo1 + n1) = v / pow2 (lo1 + n1).
Proof.
  rewrite pow2_add. unfold setslice, getslice.
  pose proof (pow2_pos lo1) as HA. pose proof (pow2_pos n1) as HB.
  set (A := pow2 lo1) in *. set (B := pow2 n1) in *.
  rewrite <- (Z.div_div v A B) by lia.
  pose proof (Z.div_mod v A ltac:(lia)) as E1. pose proof (Z.mod_pos_bound v A HA) as R1.
  pose proof (Z.div_mod (v / A) B ltac:(lia)) as E2. pose proof (Z.mod_pos_bound (v / A) B HB) as R2.
  pose proof (Z.mod_pos_bound x B HB) as R3.
  set (s := v / A / B) in *. set (t := (v / A) mod B) in *. set (r := v mod A) in *. set (x' := x mod B) in *.
  symmetry. apply (Z.div_unique_pos _ _ s (A * x' + r)).
  - split; [nia|]. nia.
  - rewrite E1 at 1. rewrite E2. ring.
Qed.

Lemma getslice_setslice_high v lo1 n1 x lo2 n2 : (lo1 + n1 <= lo2)%N ->
  getslice (setslice v lo1 n1 x) lo2 n2 = getslice v lo2 n2.
Proof.
  intros H. unfold getslice.
  rewrite (pow2_split (lo1 + n1) lo2 H).
  rewrite <- !Z.div_div by (try apply pow2_nz; apply pow2_pos).
  rewrite div_setslice_low. reflexivity.
Qed.

Lemma setslice_comm_lt v lo1 n1 x lo2 n2 y : (lo1 + n1 <= lo2)%N ->
  setslice (setslice v lo1 n1 x) lo2 n2 y = setslice (setslice v lo2 n2 y) lo1 n1 x.
Proof.
  intros H. rewrite (setslice_as_add (setslice v lo1 n1 x)), (setslice_as_add (setslice v lo2 n2 y)).
  rewrite getslice_setslice_high by exact H. rewrite getslice_setslice_low by exact H.
  rewrite !setslice_as_add. ring.
Qed.

Lemma setslice_comm v lo1 n1 x lo2 n2 y : (lo1 + n1 <= lo2 \/ lo2 + n2 <= lo1)%N ->
  setslice (setslice v lo1 n1 x) lo2 n2 y = setslice (setslice v lo2 n2 y) lo1 n1 x.
Proof. intros [H|H]; [apply setslice_comm_lt, H | symmetry; apply setslice_comm_lt, H]. Qed.

End BitFacts.

Lemma nth_error_list_set_eq {A} (l : list A) n a b :
  nth_error l n = Some a -> nth_error (list_set l n b) n = Some b.
Proof. revert n. induction l as [|y l IH]; intros [|n] H; simpl in *; try discriminate; auto. Qed.

Lemma nth_error_list_set_neq {A} (l : list A) n m b :
  n <> m -> nth_error (list_set l n b) m = nth_error l m.
Proof.
  revert n m. induction l as [|y l IH]; intros [|n] [|m] H; simpl; auto; try congruence.
Qed.

Lemma list_set_twice {A} (l : list A) n a b : list_set (list_set l n a) n b = list_set l n b.
Proof. revert n. induction l as [|y l IH]; intros [|n]; simpl; auto. f_equal. apply IH. Qed.

Lemma list_set_comm {A} (l : list A) n m a b : n <> m ->
  list_set (list_set l n a) m b = list_set (list_set l m b) n a.
Proof.
  revert n m. induction l as [|y l IH]; intros [|n] [|m] H; simpl; auto; try congruence.
  f_equal. apply IH. congruence.
Qed.

(** ** disjointness of resolved paths *)
Fixpoint rp_disjoint (p q : list rsel) : bool :=
  match p, q with
  | RIdx n :: p', RIdx m :: q' => if (n =? m)%N then rp_disjoint p' q' else true
  | RIdx n :: p', RSlice hi lo :: q' => is_nil p' && is_nil q' && ((n <? lo) || (hi <? n))%N
  | RSlice hi lo :: p', RIdx m :: q' => is_nil p' && is_nil q' && ((m <? lo) || (hi <? m))%N
  | RSlice hi lo :: p', RSlice hi' lo' :: q' => is_nil p' && is_nil q' && ((hi <? lo') || (hi' <? lo))%N
  | _, _ => false
  end.

Lemma rp_disjoint_sym p : forall q, rp_disjoint p q = rp_disjoint q p.
Proof.
  induction p as [|[n|hi lo] p IH]; intros [|[m|hi' lo'] q]; simpl; auto.
  - rewrite N.eqb_sym. destruct (m =? n)%N; auto.
  - rewrite (andb_comm (is_nil p)). reflexivity.
  - rewrite (andb_comm (is_nil p)). reflexivity.
  - rewrite (andb_comm (is_nil p)), (orb_comm (hi <? lo')%N). reflexivity.
Qed.

Lemma rp_disjoint_nonnil p q : rp_disjoint p q = true -> p <> [] /\ q <> [].
Proof. destruct p as [|[]], q as [|[]]; simpl; try discriminate; intros _; split; discriminate. Qed.

(** ** writes into a vector: a plan (range, bits) that does not depend on the old bits *)
Definition vv_plan (k : vkind) (w : N) (p : list rsel) (x : value) : res (N * N * Z) :=
  match p, x with
  | [RIdx n], VL b => if (n <? w)%N then Ok (n, 1%N, if b then 1%Z else 0%Z) else Err ERange
  | [RSlice hi lo], VV k' w' v' =>
      if negb (vkind_eqb k k') then Err ETypeError
      else if negb ((lo <=? hi)%N && (hi <? w)%N) then Err ERange
      else if negb (w' =? hi - lo + 1)%N then Err EWidth
      else Ok (lo, w', v')
  | _, _ => Err ETypeError
  end.

Lemma aw_vv k w v p x : p <> [] ->
  apply_write (VV k w v) p x =
  match vv_plan k w p x with
  | Ok (lo, len, z) => Ok (VV k w (setslice v lo len z))
  | Err e => Err e
  end.
Proof.
  intros Hp. destruct p as [|[n|hi lo] [|s r]]; try congruence; destruct x; simpl; try reflexivity.
  - destruct (n <? w)%N; reflexivity.
  - destruct (negb (vkind_eqb k k0)); [reflexivity|].
    destruct (negb ((lo <=? hi)%N && (hi <? w)%N)); [reflexivity|].
    destruct (negb (w0 =? hi - lo + 1)%N); reflexivity.
Qed.

Lemma plan_disjoint k w p q x y lo1 n1 z1 lo2 n2 z2 :
  rp_disjoint p q = true ->
  vv_plan k w p x = Ok (lo1, n1, z1) -> vv_plan k w q y = Ok (lo2, n2, z2) ->
  (lo1 + n1 <= lo2 \/ lo2 + n2 <= lo1)%N.
Proof.
  intros D P Q.
  destruct p as [|[n|hi lo] [|s r]]; destruct x; simpl in P; try discriminate;
  destruct q as [|[m|hi' lo'] [|s' r']]; destruct y; simpl in Q; try discriminate; simpl in D; try discriminate.
  all: repeat match goal with
       | H : (if ?c then _ else _) = Ok _ |- _ => destruct c eqn:?; try discriminate
       end.
  all: inversion P; inversion Q; subst; clear P Q.
  all: repeat match goal with
       | H : negb _ = false |- _ => apply negb_false_iff in H
       | H : (_ && _)%bool = true |- _ => apply andb_prop in H; destruct H
       end.
  all: repeat match goal with
       | H : (_ =? _)%N = true |- _ => apply N.eqb_eq in H
       | H : (_ =? _)%N = false |- _ => apply N.eqb_neq in H
       | H : (_ <=? _)%N = true |- _ => apply N.leb_le in H
       | H : (_ <? _)%N = true |- _ => apply N.ltb_lt in H
       | H : (_ || _)%bool = true |- _ => apply orb_prop in H; destruct H
       end; try lia.
  destruct (lo1 =? lo2)%N eqn:E; [discriminate|]. apply N.eqb_neq in E. lia.
Qed.

Definition comm_spec (base : value) (p : list rsel) (x : value) (q : list rsel) (y : value) : Prop :=
  match apply_write base p x, apply_write base q y with
  | Ok b1, Ok b2 => exists b, apply_write b1 q y = Ok b /\ apply_write b2 p x = Ok b
  | Err _, Ok b2 => exists e, apply_write b2 p x = Err e
  | Ok b1, Err _ => exists e, apply_write b1 q y = Err e
  | Err _, Err _ => True
  end.

Lemma aw_comm_vv k w v p q x y : rp_disjoint p q = true -> comm_spec (VV k w v) p x q y.
Proof.
  intros D. destruct (rp_disjoint_nonnil _ _ D) as [Hp Hq]. unfold comm_spec.
  rewrite (aw_vv k w v p x Hp), (aw_vv k w v q y Hq).
  destruct (vv_plan k w p x) as [[[lo1 n1] z1]|e1] eqn:P; destruct (vv_plan k w q y) as [[[lo2 n2] z2]|e2] eqn:Q.
  - exists (VV k w (setslice (setslice v lo1 n1 z1) lo2 n2 z2)).
    rewrite (aw_vv k w _ q y Hq), Q, (aw_vv k w _ p x Hp), P. split; [reflexivity|].
    f_equal. f_equal. symmetry. apply setslice_comm. eapply plan_disjoint; eauto.
  - exists e2. rewrite (aw_vv k w _ q y Hq), Q. reflexivity.
  - exists e1. rewrite (aw_vv k w _ p x Hp), P. reflexivity.
  - exact I.
Qed.

Definition is_scalar (v : value) : bool := match v with VV _ _ _ | VA _ => false | _ => true end.

Lemma aw_scalar base p x : is_scalar base = true -> p <> [] -> exists e, apply_write base p x = Err e.
Proof.
  intros S Hp. destruct p as [|[n|hi lo] r]; [congruence| |]; destruct base; try discriminate; simpl; eexists; reflexivity.
Qed.

Lemma aw_comm : forall p q base x y, rp_disjoint p q = true -> comm_spec base p x q y.
Proof.
  induction p as [|s p IH]; intros q base x y D; [discriminate|].
  destruct (rp_disjoint_nonnil _ _ D) as [Hp Hq].
  destruct (is_scalar base) eqn:S.
  { unfold comm_spec. destruct (aw_scalar base (s :: p) x S Hp) as [e1 ->].
    destruct (aw_scalar base q y S Hq) as [e2 ->]. exact I. }
  destruct base as [| k w v | | | | l]; try discriminate; [apply aw_comm_vv, D|].
  destruct s as [n|hi lo]; destruct q as [|[m|hi' lo'] q']; simpl in D; try discriminate.
  - (* element / element *)
    destruct (n =? m)%N eqn:E.
    + apply N.eqb_eq in E. subst m. unfold comm_spec. cbn [apply_write].
      destruct (nth_error l (N.to_nat n)) as [el|] eqn:Hn; [|exact I].
      specialize (IH q' el x y D). unfold comm_spec in IH.
      destruct (apply_write el p x) as [e1|] eqn:A1; destruct (apply_write el q' y) as [e2|] eqn:A2; simpl.
      * destruct IH as (b & H1 & H2). exists (VA (list_set l (N.to_nat n) b)).
        cbn [apply_write]. rewrite !(nth_error_list_set_eq l _ el) by exact Hn. rewrite H1, H2. simpl.
        rewrite !list_set_twice. split; reflexivity.
      * destruct IH as (e0 & H1). exists e0. cbn [apply_write].
        rewrite (nth_error_list_set_eq l _ el) by exact Hn. rewrite H1. reflexivity.
      * destruct IH as (e0 & H1). exists e0. cbn [apply_write].
        rewrite (nth_error_list_set_eq l _ el) by exact Hn. rewrite H1. reflexivity.
      * exact I.
    + apply N.eqb_neq in E.
      assert (N1 : N.to_nat n <> N.to_nat m) by lia. assert (N2 : N.to_nat m <> N.to_nat n) by lia.
      unfold comm_spec. cbn [apply_write].
      destruct (nth_error l (N.to_nat n)) as [el1|] eqn:H1; destruct (nth_error l (N.to_nat m)) as [el2|] eqn:H2.
      * destruct (apply_write el1 p x) as [e1|] eqn:A1; destruct (apply_write el2 q' y) as [e2|] eqn:A2; simpl.
        -- exists (VA (list_set (list_set l (N.to_nat n) e1) (N.to_nat m) e2)). cbn [apply_write].
           rewrite (nth_error_list_set_neq l _ _ e1 N1), (nth_error_list_set_neq l _ _ e2 N2), H1, H2, A1, A2. simpl.
           split; [reflexivity|]. rewrite (list_set_comm l _ _ e1 e2 N1). reflexivity.
        -- eexists. cbn [apply_write]. rewrite (nth_error_list_set_neq l _ _ e1 N1), H2, A2. reflexivity.
        -- eexists. cbn [apply_write]. rewrite (nth_error_list_set_neq l _ _ e2 N2), H1, A1. reflexivity.
        -- exact I.
      * destruct (apply_write el1 p x) as [e1|] eqn:A1; simpl; [|exact I].
        eexists. cbn [apply_write]. rewrite (nth_error_list_set_neq l _ _ e1 N1), H2. reflexivity.
      * destruct (apply_write el2 q' y) as [e2|] eqn:A2; simpl; [|exact I].
        eexists. cbn [apply_write]. rewrite (nth_error_list_set_neq l _ _ e2 N2), H1. reflexivity.
      * exact I.
  - (* element / slice: a slice of an array is a type error, before and after *)
    unfold comm_spec. cbn [apply_write].
    destruct (nth_error l (N.to_nat n)) as [el|]; [|exact I].
    destruct (apply_write el p x); simpl; [|exact I]. eexists. reflexivity.
  - unfold comm_spec. cbn [apply_write].
    destruct (nth_error l (N.to_nat m)) as [el|]; [|exact I].
    destruct (apply_write el q' y); simpl; [|exact I]. eexists. reflexivity.
  - unfold comm_spec. cbn [apply_write]. exact I.
Qed.

(** * Soundness against [Sem] *)

Definition res_equiv (a b : res store) : Prop :=
  match a, b with
  | Ok s, Ok s' => PM.Equal s s'
  | Err _, Err _ => True
  | _, _ => False
  end.

Lemma res_equiv_refl a : res_equiv a a.
Proof. destruct a; simpl; [intros y; reflexivity | exact I]. Qed.

Lemma res_equiv_trans a b c : res_equiv a b -> res_equiv b c -> res_equiv a c.
Proof.
  destruct a, b, c; simpl; try tauto. intros H1 H2 y. rewrite (H1 y). apply H2.
Qed.

Lemma res_equiv_sym a b : res_equiv a b -> res_equiv b a.
Proof. destruct a, b; simpl; try tauto. intros H y. symmetry. apply H. Qed.

Lemma lookup_equal s s' x : PM.Equal s s' -> lookup s x = lookup s' x.
Proof. intros H. unfold lookup. rewrite (H x). reflexivity. Qed.

Lemma add_equal s s' x (v : value) : PM.Equal s s' -> PM.Equal (PM.add x v s) (PM.add x v s').
Proof.
  intros H y. destruct (Pos.eq_dec y x) as [E|N].
  - subst y. rewrite !PM.gss. reflexivity.
  - rewrite !PM.gso by exact N. apply H.
Qed.

Lemma add_comm s x y (v w : value) : x <> y ->
  PM.Equal (PM.add x v (PM.add y w s)) (PM.add y w (PM.add x v s)).
Proof.
  intros N z. destruct (Pos.eq_dec z x) as [E|Nx]; [subst z|].
  - rewrite PM.gss. rewrite PM.gso by exact N. rewrite PM.gss. reflexivity.
  - rewrite (PM.gso _ _ Nx). destruct (Pos.eq_dec z y) as [E|Ny]; [subst z|].
    + rewrite !PM.gss. reflexivity.
    + rewrite !(PM.gso _ _ Ny). rewrite (PM.gso _ _ Nx). reflexivity.
Qed.

Lemma add_add s x (v w : value) : PM.Equal (PM.add x v (PM.add x w s)) (PM.add x v s).
Proof.
  intros z. destruct (Pos.eq_dec z x) as [E|N]; [subst z; rewrite !PM.gss; reflexivity|].
  rewrite !(PM.gso _ _ N). reflexivity.
Qed.

Lemma commit_equal ws : forall s s', PM.Equal s s' -> res_equiv (commit s ws) (commit s' ws).
Proof.
  induction ws as [|[[root rp] x] ws IH]; intros s s' H; simpl.
  - exact H.
  - rewrite (lookup_equal s s' root H). destruct (lookup s' root) as [base|e]; simpl; [|exact I].
    destruct (apply_write base rp x) as [nv|e]; simpl; [|exact I].
    apply IH. apply add_equal. exact H.
Qed.

Definition wroot (w : write) : positive := fst (fst w).
Definition wpath (w : write) : list rsel := snd (fst w).

Lemma commit_cons r p x ws s :
  commit s ((r, p, x) :: ws) =
  match PM.find r s with
  | Some b => match apply_write b p x with Ok nv => commit (PM.add r nv s) ws | Err e => Err e end
  | None => Err EUnbound
  end.
Proof. simpl. unfold lookup. destruct (PM.find r s); simpl; [|reflexivity]. destruct (apply_write v p x); reflexivity. Qed.

(** two writes to different signals *)
Lemma commit_swap2 (w1 w2 : write) rest s :
  wroot w1 <> wroot w2 ->
  res_equiv (commit s (w1 :: w2 :: rest)) (commit s (w2 :: w1 :: rest)).
Proof.
  destruct w1 as [[r1 p1] x1], w2 as [[r2 p2] x2]. unfold wroot; simpl fst. intros N.
  assert (N' : r2 <> r1) by (intros E; apply N; symmetry; exact E).
  rewrite (commit_cons r1), (commit_cons r2 p2 x2 ((r1, p1, x1) :: rest)).
  destruct (PM.find r1 s) as [b1|] eqn:F1; destruct (PM.find r2 s) as [b2|] eqn:F2.
  - destruct (apply_write b1 p1 x1) as [n1|e1] eqn:A1; destruct (apply_write b2 p2 x2) as [n2|e2] eqn:A2;
      rewrite ?commit_cons, ?(PM.gso _ _ N), ?(PM.gso _ _ N'), ?F1, ?F2, ?A1, ?A2; try exact I.
    apply commit_equal. apply add_comm. exact N'.
  - destruct (apply_write b1 p1 x1) as [n1|e1] eqn:A1;
      rewrite ?commit_cons, ?(PM.gso _ _ N), ?(PM.gso _ _ N'), ?F1, ?F2; exact I.
  - destruct (apply_write b2 p2 x2) as [n2|e2] eqn:A2;
      rewrite ?commit_cons, ?(PM.gso _ _ N), ?(PM.gso _ _ N'), ?F1, ?F2; exact I.
  - exact I.
Qed.

(** two writes to disjoint scalars of the same signal *)
Lemma commit_swap2_same r p x q y rest s :
  rp_disjoint p q = true ->
  res_equiv (commit s ((r, p, x) :: (r, q, y) :: rest)) (commit s ((r, q, y) :: (r, p, x) :: rest)).
Proof.
  intros D. rewrite (commit_cons r p x), (commit_cons r q y ((r, p, x) :: rest)).
  destruct (PM.find r s) as [base|] eqn:F; [|exact I].
  pose proof (aw_comm p q base x y D) as C. unfold comm_spec in C.
  destruct (apply_write base p x) as [b1|e1] eqn:A1; destruct (apply_write base q y) as [b2|e2] eqn:A2;
    rewrite ?commit_cons, ?PM.gss.
  - destruct C as (b & H1 & H2). rewrite H1, H2.
    apply commit_equal. intros z. rewrite (add_add s r b b1 z), (add_add s r b b2 z). reflexivity.
  - destruct C as (e & H1). rewrite H1. exact I.
  - destruct C as (e & H1). rewrite H1. exact I.
  - exact I.
Qed.

Definition wdisjb (w1 w2 : write) : bool :=
  negb (Pos.eqb (wroot w1) (wroot w2)) || rp_disjoint (wpath w1) (wpath w2).

Lemma wdisjb_sym w1 w2 : wdisjb w1 w2 = wdisjb w2 w1.
Proof. unfold wdisjb. rewrite Pos.eqb_sym, rp_disjoint_sym. reflexivity. Qed.

Lemma commit_swap_w (w1 w2 : write) rest s : wdisjb w1 w2 = true ->
  res_equiv (commit s (w1 :: w2 :: rest)) (commit s (w2 :: w1 :: rest)).
Proof.
  unfold wdisjb. destruct (Pos.eqb (wroot w1) (wroot w2)) eqn:E; simpl; intros H.
  - apply Pos.eqb_eq in E. destruct w1 as [[r1 p1] x1], w2 as [[r2 p2] x2]. unfold wroot, wpath in *; simpl in *.
    subst r2. apply commit_swap2_same, H.
  - apply commit_swap2. intros E'. rewrite E', Pos.eqb_refl in E. discriminate.
Qed.

Lemma commit_app a b s :
  commit s (a ++ b) = match commit s a with Ok s1 => commit s1 b | Err e => Err e end.
Proof.
  revert s. induction a as [|[[r p] x] a IH]; intros s; [reflexivity|].
  rewrite <- app_comm_cons, !commit_cons.
  destruct (PM.find r s) as [b0|]; [|reflexivity].
  destruct (apply_write b0 p x); [apply IH | reflexivity].
Qed.

(** equivalent continuations stay equivalent behind a common prefix *)
Lemma commit_prefix p l l' :
  (forall s, res_equiv (commit s l) (commit s l')) ->
  forall s, res_equiv (commit s (p ++ l)) (commit s (p ++ l')).
Proof.
  intros H s. rewrite !commit_app. destruct (commit s p); [apply H | exact I].
Qed.

Definition blocks_disjoint (a b : list write) : Prop :=
  forall w1 w2, In w1 a -> In w2 b -> wdisjb w1 w2 = true.

Lemma blocks_disjoint_sym a b : blocks_disjoint a b -> blocks_disjoint b a.
Proof. intros H w1 w2 H1 H2. rewrite wdisjb_sym. apply H; assumption. Qed.

(** one write moves behind a block it is disjoint from *)
Lemma commit_move1 w b : (forall v, In v b -> wdisjb w v = true) ->
  forall rest s, res_equiv (commit s (w :: b ++ rest)) (commit s (b ++ w :: rest)).
Proof.
  induction b as [|v b IH]; intros H rest s; [apply res_equiv_refl|].
  eapply res_equiv_trans; [apply (commit_swap_w w v (b ++ rest) s); apply H; left; reflexivity|].
  change (v :: w :: b ++ rest) with ([v] ++ (w :: b ++ rest)).
  change ((v :: b) ++ w :: rest) with ([v] ++ (b ++ w :: rest)).
  apply commit_prefix. intros s'. apply IH. intros v' Hv. apply H. right. exact Hv.
Qed.

(** the two-statement swap lemma *)
Lemma commit_swap_blocks a : forall b rest, blocks_disjoint a b ->
  forall s, res_equiv (commit s (a ++ b ++ rest)) (commit s (b ++ a ++ rest)).
Proof.
  induction a as [|w a IH]; intros b rest H s; [apply res_equiv_refl|].
  eapply res_equiv_trans.
  - change ((w :: a) ++ b ++ rest) with ([w] ++ (a ++ b ++ rest)).
    apply (commit_prefix [w] (a ++ b ++ rest) (b ++ a ++ rest)). intros s'. apply IH.
    intros w1 w2 H1 H2. apply H; [right; exact H1 | exact H2].
  - simpl. apply (commit_move1 w b). intros v Hv. apply H; [left; reflexivity | exact Hv].
Qed.

(** lift to arbitrary permutations: the per-statement write lists carry the position of their
    statement as a tag; lists with different tags are disjoint *)
Definition tagged_disjoint (l : list (nat * list write)) : Prop :=
  forall i j a b, In (i, a) l -> In (j, b) l -> i <> j -> blocks_disjoint a b.

Lemma commit_perm_tagged l l' s :
  NoDup (map fst l) -> tagged_disjoint l -> Permutation l l' ->
  res_equiv (commit s (List.concat (map snd l))) (commit s (List.concat (map snd l'))).
Proof.
  intros ND TD P. apply Permutation_Permutation_transp in P. revert s ND TD.
  induction P as [l | x y l1 l2 | l1 l2 l3 P1 IH1 P2 IH2]; intros s ND TD.
  - apply res_equiv_refl.
  - rewrite !map_app, !List.concat_app. simpl. apply commit_prefix. intros s'.
    destruct x as [i a], y as [j b]. simpl.
    apply commit_swap_blocks. apply (TD j i b a).
    + apply in_or_app. right. left. reflexivity.
    + apply in_or_app. right. right. left. reflexivity.
    + rewrite map_app in ND. simpl in ND. apply NoDup_remove_2 in ND.
      intros E. subst j. apply ND. apply in_or_app. right. left. reflexivity.
  - assert (P1' : Permutation l1 l2) by (apply Permutation_Permutation_transp; exact P1).
    eapply res_equiv_trans; [apply IH1; assumption|]. apply IH2.
    + eapply Permutation_NoDup; [apply Permutation_map, P1' | exact ND].
    + intros i j a b Hi Hj. apply TD; eapply Permutation_in; try (apply Permutation_sym; exact P1'); assumption.
Qed.

Fixpoint tag_from {A} (k : nat) (l : list A) : list (nat * A) :=
  match l with
  | [] => []
  | x :: r => (k, x) :: tag_from (S k) r
  end.

Lemma tag_from_ge {A} (l : list A) : forall k i a, In (i, a) (tag_from k l) -> k <= i.
Proof.
  induction l as [|x l IH]; intros k i a H; simpl in H; [contradiction|].
  destruct H as [E|H]; [inversion E; lia | apply IH in H; lia].
Qed.

Lemma tag_from_snd {A} (l : list A) : forall k, map snd (tag_from k l) = l.
Proof. induction l as [|x l IH]; intros k; simpl; [reflexivity | rewrite IH; reflexivity]. Qed.

Lemma tag_from_nodup {A} (l : list A) : forall k, NoDup (map fst (tag_from k l)).
Proof.
  induction l as [|x l IH]; intros k; simpl; constructor; [|apply IH].
  intros H. apply in_map_iff in H. destruct H as ([i a] & E & H). simpl in E. subst i.
  apply tag_from_ge in H. lia.
Qed.

Lemma tag_from_pairwise {A} (P : A -> A -> bool) (l : list A) : forall k,
  pairwise P l = true ->
  forall i j a b, In (i, a) (tag_from k l) -> In (j, b) (tag_from k l) -> i < j -> P a b = true.
Proof.
  induction l as [|x l IH]; intros k H i j a b Hi Hj Hlt; simpl in *; [contradiction|].
  apply andb_prop in H. destruct H as [Hx Hl].
  destruct Hi as [Ei|Hi]; destruct Hj as [Ej|Hj].
  - inversion Ei; inversion Ej; lia.
  - inversion Ei; subst. rewrite forallb_forall in Hx. apply Hx.
    assert (X : In b (map snd (tag_from (S i) l))) by (apply in_map_iff; exists (j, b); auto).
    rewrite tag_from_snd in X. exact X.
  - inversion Ej; subst. apply tag_from_ge in Hi. lia.
  - apply (IH (S k) Hl i j); assumption.
Qed.

Theorem commit_perm wss wss' s :
  tagged_disjoint (tag_from 0 wss) -> Permutation wss wss' ->
  res_equiv (commit s (List.concat wss)) (commit s (List.concat wss')).
Proof.
  intros TD P. rewrite <- (tag_from_snd wss 0) in P.
  apply Permutation_sym in P. apply Permutation_map_inv in P. destruct P as (l' & E & P).
  rewrite <- (tag_from_snd wss 0) at 1. rewrite E.
  apply commit_perm_tagged; [apply tag_from_nodup | exact TD | exact P].
Qed.

(** ** from static to resolved disjointness *)

Lemma resolve_idx sg vr ev i r rp k :
  static_index i = Some k -> resolve sg vr ev (SelIdx i :: r) = Ok rp ->
  exists r', rp = RIdx k :: r' /\ resolve sg vr ev r = Ok r'.
Proof.
  intros S H. destruct i as [v| | | | | | | | |]; try discriminate. destruct v; try discriminate.
  simpl in S. destruct (0 <=? z)%Z eqn:Z; [|discriminate]. inversion S; subst k.
  cbn [resolve eval] in H. simpl in H. rewrite Z in H.
  destruct (resolve sg vr ev r) as [r'|]; simpl in H; [|discriminate].
  inversion H; subst. exists r'. auto.
Qed.

Lemma resolve_slice sg vr ev hi lo r rp :
  resolve sg vr ev (SelSlice hi lo :: r) = Ok rp ->
  exists r', rp = RSlice hi lo :: r' /\ resolve sg vr ev r = Ok r'.
Proof.
  cbn [resolve]. destruct (resolve sg vr ev r) as [r'|]; simpl; [|discriminate].
  intros H; inversion H; subst. exists r'. auto.
Qed.

Lemma resolve_nil sg vr ev r r' : is_nil r = true -> resolve sg vr ev r = Ok r' -> is_nil r' = true.
Proof. destruct r; [|discriminate]. simpl. intros _ H; inversion H; reflexivity. Qed.

Lemma sel_rp_disjoint p : forall q sg vr ev sg' vr' ev' rp rq,
  sel_disjoint p q = true ->
  resolve sg vr ev p = Ok rp -> resolve sg' vr' ev' q = Ok rq -> rp_disjoint rp rq = true.
Proof.
  induction p as [|[i|hi lo] p IH]; intros [|[j|hi' lo'] q] sg vr ev sg' vr' ev' rp rq D Hp Hq;
    simpl in D; try discriminate.
  - destruct (static_index i) as [n|] eqn:Si; [|discriminate].
    destruct (static_index j) as [m|] eqn:Sj; [|discriminate].
    destruct (resolve_idx _ _ _ _ _ _ _ Si Hp) as (p' & -> & Hp').
    destruct (resolve_idx _ _ _ _ _ _ _ Sj Hq) as (q' & -> & Hq').
    simpl. destruct (n =? m)%N; [|reflexivity]. eapply IH; eauto.
  - destruct (static_index i) as [n|] eqn:Si; [|discriminate].
    destruct (resolve_idx _ _ _ _ _ _ _ Si Hp) as (p' & -> & Hp').
    destruct (resolve_slice _ _ _ _ _ _ _ Hq) as (q' & -> & Hq').
    apply andb_prop in D. destruct D as [D D3]. apply andb_prop in D. destruct D as [D1 D2].
    simpl. rewrite (resolve_nil _ _ _ _ _ D1 Hp'), (resolve_nil _ _ _ _ _ D2 Hq'), D3. reflexivity.
  - destruct (static_index j) as [m|] eqn:Sj; [|discriminate].
    destruct (resolve_slice _ _ _ _ _ _ _ Hp) as (p' & -> & Hp').
    destruct (resolve_idx _ _ _ _ _ _ _ Sj Hq) as (q' & -> & Hq').
    apply andb_prop in D. destruct D as [D D3]. apply andb_prop in D. destruct D as [D1 D2].
    simpl. rewrite (resolve_nil _ _ _ _ _ D1 Hp'), (resolve_nil _ _ _ _ _ D2 Hq'), D3. reflexivity.
  - destruct (resolve_slice _ _ _ _ _ _ _ Hp) as (p' & -> & Hp').
    destruct (resolve_slice _ _ _ _ _ _ _ Hq) as (q' & -> & Hq').
    apply andb_prop in D. destruct D as [D D3]. apply andb_prop in D. destruct D as [D1 D2].
    simpl. rewrite (resolve_nil _ _ _ _ _ D1 Hp'), (resolve_nil _ _ _ _ _ D2 Hq'), D3. reflexivity.
Qed.

(** ** every write a statement produces comes from one of its static assignments *)

Fixpoint stmt_writes_acc (s : stmt) :
  forall acc x, In x (stmt_writes s acc) <-> In x (stmt_writes s []) \/ In x acc
with arms_writes_acc (a : arms) :
  forall acc x, In x (arms_writes a acc) <-> In x (arms_writes a []) \/ In x acc.
Proof.
  - destruct s as [|r p e|r p e|c a b|e ar|a b|c]; intros acc x; simpl; try tauto.
    + rewrite (stmt_writes_acc a), (stmt_writes_acc a (stmt_writes b [])), (stmt_writes_acc b acc). tauto.
    + apply arms_writes_acc.
    + rewrite (stmt_writes_acc a), (stmt_writes_acc a (stmt_writes b [])), (stmt_writes_acc b acc). tauto.
  - destruct a as [[s|]|chs s r]; intros acc x; simpl.
    + apply stmt_writes_acc.
    + tauto.
    + rewrite (stmt_writes_acc s), (stmt_writes_acc s (arms_writes r [])), (arms_writes_acc r acc). tauto.
Qed.

(** [w] was produced by the static assignment [(root, path)] of [ws], its path resolved under
    some variable store *)
Definition prov (sg : store) (ev : PS.t) (ws : list swrite) (w : write) : Prop :=
  exists path vr0, In (wroot w, path) ws /\ resolve sg vr0 ev path = Ok (wpath w).

Lemma prov_incl sg ev ws ws' w : (forall x, In x ws -> In x ws') -> prov sg ev ws w -> prov sg ev ws' w.
Proof. intros H (path & vr0 & Hin & R). exists path, vr0. auto. Qed.

Fixpoint exec_prov (s : stmt) :
  forall sg ev vr pend vr' pend', exec sg ev s vr pend = Ok (vr', pend') ->
  forall w, In w pend' -> In w pend \/ prov sg ev (stmt_writes s []) w
with exec_arms_prov (a : arms) :
  forall sg ev v vr pend vr' pend', exec_arms sg ev v a vr pend = Ok (vr', pend') ->
  forall w, In w pend' -> In w pend \/ prov sg ev (arms_writes a []) w.
Proof.
  - destruct s as [|r p e|r p e|c a b|e ar|a b|c]; intros sg ev vr pend vr' pend' H w Hw; simpl in H.
    + inversion H; subst. auto.
    + destruct (eval sg vr ev e); simpl in H; [|discriminate].
      destruct (resolve sg vr ev p) as [rp|] eqn:R; simpl in H; [|discriminate].
      destruct (lookup sg r); simpl in H; [|discriminate].
      destruct (apply_write _ _ _); simpl in H; [|discriminate].
      inversion H; subst. destruct Hw as [E|Hw]; [|auto]. subst w. right.
      exists p. eexists. split; [left; reflexivity | exact R].
    + destruct (eval sg vr ev e); simpl in H; [|discriminate].
      destruct (resolve sg vr ev p); simpl in H; [|discriminate].
      destruct (lookup vr r); simpl in H; [|discriminate].
      destruct (apply_write _ _ _); simpl in H; [|discriminate].
      inversion H; subst. auto.
    + destruct (eval sg vr ev c) as [cv|]; simpl in H; [|discriminate].
      destruct cv as [| | [|] | | |]; try discriminate.
      * destruct (exec_prov a _ _ _ _ _ _ H w Hw) as [X|X]; [auto|].
        right. eapply prov_incl; [|exact X]. intros y Hy. simpl. apply stmt_writes_acc. auto.
      * destruct (exec_prov b _ _ _ _ _ _ H w Hw) as [X|X]; [auto|].
        right. eapply prov_incl; [|exact X]. intros y Hy. simpl. apply stmt_writes_acc. auto.
    + destruct (eval sg vr ev e) as [v|]; simpl in H; [|discriminate].
      apply (exec_arms_prov ar _ _ _ _ _ _ _ H w Hw).
    + destruct (exec sg ev a vr pend) as [[vr1 pend1]|] eqn:E1; simpl in H; [|discriminate].
      destruct (exec_prov b _ _ _ _ _ _ H w Hw) as [X|X].
      * destruct (exec_prov a _ _ _ _ _ _ E1 w X) as [Y|Y]; [auto|].
        right. eapply prov_incl; [|exact Y]. intros y Hy. simpl. apply stmt_writes_acc. auto.
      * right. eapply prov_incl; [|exact X]. intros y Hy. simpl. apply stmt_writes_acc. auto.
    + destruct (eval sg vr ev c) as [cv|]; simpl in H; [|discriminate].
      destruct cv; try discriminate. inversion H; subst. auto.
  - destruct a as [[s|]|chs s r]; intros sg ev v vr pend vr' pend' H w Hw; simpl in H.
    + apply (exec_prov s _ _ _ _ _ _ H w Hw).
    + inversion H; subst. auto.
    + destruct (existsb (choice_eqb v) chs).
      * destruct (exec_prov s _ _ _ _ _ _ H w Hw) as [X|X]; [auto|].
        right. eapply prov_incl; [|exact X]. intros y Hy. simpl. apply stmt_writes_acc. auto.
      * destruct (exec_arms_prov r _ _ _ _ _ _ _ H w Hw) as [X|X]; [auto|].
        right. eapply prov_incl; [|exact X]. intros y Hy. simpl. apply stmt_writes_acc. auto.
Qed.

Lemma run_conc_prov sg vr ev c vr' ws :
  run_conc sg vr ev c = Ok (vr', ws) -> forall w, In w ws -> prov sg ev (conc_writes c) w.
Proof.
  destruct c as [r p e|r p s alts others|lbl sens body]; simpl; intros H w Hw.
  - destruct (eval sg vr ev e); simpl in H; [|discriminate].
    destruct (resolve sg vr ev p) as [rp|] eqn:R; simpl in H; [|discriminate].
    destruct (lookup sg r); simpl in H; [|discriminate].
    destruct (apply_write _ _ _); simpl in H; [|discriminate].
    inversion H; subst. destruct Hw as [E|[]]. subst w. exists p. eexists. split; [left; reflexivity | exact R].
  - destruct (eval sg vr ev s); simpl in H; [|discriminate].
    destruct (select_alt _ _ _); [|discriminate].
    destruct (eval sg vr ev e); simpl in H; [|discriminate].
    destruct (resolve sg vr ev p) as [rp|] eqn:R; simpl in H; [|discriminate].
    destruct (lookup sg r); simpl in H; [|discriminate].
    destruct (apply_write _ _ _); simpl in H; [|discriminate].
    inversion H; subst. destruct Hw as [E|[]]. subst w. exists p. eexists. split; [left; reflexivity | exact R].
  - destruct (exec sg ev body vr []) as [[vr1 pend1]|] eqn:E; simpl in H; [|discriminate].
    inversion H; subst. apply in_rev in Hw.
    destruct (exec_prov body _ _ _ _ _ _ E w Hw) as [[]|X]. exact X.
Qed.

(** statically disjoint statements produce disjoint write lists *)
Lemma prov_disjoint sg ev wa wb a b :
  stmts_disjoint wa wb = true ->
  (forall w, In w a -> prov sg ev wa w) -> (forall w, In w b -> prov sg ev wb w) ->
  blocks_disjoint a b.
Proof.
  intros S Ha Hb w1 w2 H1 H2.
  destruct (Ha _ H1) as (p1 & vr1 & I1 & R1). destruct (Hb _ H2) as (p2 & vr2 & I2 & R2).
  unfold stmts_disjoint in S. rewrite forallb_forall in S. specialize (S _ I1).
  rewrite forallb_forall in S. specialize (S _ I2). unfold sw_disjoint in S. simpl in S.
  unfold wdisjb. destruct (Pos.eqb (wroot w1) (wroot w2)); simpl in *; [|reflexivity].
  eapply sel_rp_disjoint; eauto.
Qed.

Lemma forall2_tagged {A B} (R : A -> B -> Prop) (l : list A) (l' : list B) :
  Forall2 R l l' -> forall k i b, In (i, b) (tag_from k l') -> exists a, In (i, a) (tag_from k l) /\ R a b.
Proof.
  induction 1 as [|a b l l' H F IH]; intros k i b0 Hin; simpl in *; [contradiction|].
  destruct Hin as [E|Hin].
  - inversion E; subst. exists a. auto.
  - destruct (IH _ _ _ Hin) as (a0 & Ha & Hr). exists a0. auto.
Qed.

(** [single_driver_sound], commit level: whatever variable stores the statements ran with
    (so also under the threading of [Sem.run_all]), the write lists they produce can be handed
    to [Sem.commit] in any statement order. *)
Theorem single_driver_commit_sound d sg ev wss wss' :
  drivers_disjoint d = true ->
  Forall2 (fun c ws => exists vr0 vr1, run_conc sg vr0 ev c = Ok (vr1, ws)) d.(d_conc) wss ->
  Permutation wss wss' ->
  res_equiv (commit sg (List.concat wss)) (commit sg (List.concat wss')).
Proof.
  intros S F P. apply commit_perm; [|exact P].
  intros i j a b Hi Hj Hne.
  destruct (forall2_tagged _ _ _ F _ _ _ Hi) as (ci & Hci & (vi0 & vi1 & Ri)).
  destruct (forall2_tagged _ _ _ F _ _ _ Hj) as (cj & Hcj & (vj0 & vj1 & Rj)).
  assert (Pi := run_conc_prov _ _ _ _ _ _ Ri). assert (Pj := run_conc_prov _ _ _ _ _ _ Rj).
  assert (T : forall k (l : list conc) i c, In (i, c) (tag_from k l) -> In (i, conc_writes c) (tag_from k (map conc_writes l))).
  { intros k l. revert k. induction l as [|x l IH]; intros k i0 c H; simpl in *; [contradiction|].
    destruct H as [E|H]; [inversion E; subst; left; reflexivity | right; apply IH, H]. }
  unfold drivers_disjoint in S.
  destruct (Nat.lt_ge_cases i j) as [L|G].
  - eapply prov_disjoint; [|exact Pi|exact Pj].
    apply (tag_from_pairwise stmts_disjoint _ 0 S i j); auto.
  - apply blocks_disjoint_sym. eapply prov_disjoint; [|exact Pj|exact Pi].
    apply (tag_from_pairwise stmts_disjoint _ 0 S j i); auto. lia.
Qed.

(** * Frame property of the variable store *)

Definition agree (P : positive -> Prop) (a b : store) : Prop := forall x, P x -> PM.find x a = PM.find x b.

Lemma agree_sub (P Q : positive -> Prop) a b : (forall x, Q x -> P x) -> agree P a b -> agree Q a b.
Proof. intros H A x Hx. apply A, H, Hx. Qed.

Lemma agree_add P a b x (v : value) : agree P a b -> agree P (PM.add x v a) (PM.add x v b).
Proof.
  intros A y Hy. destruct (Pos.eq_dec y x) as [E|N]; [subst; rewrite !PM.gss; reflexivity|].
  rewrite !(PM.gso _ _ N). apply A, Hy.
Qed.

Lemma expr_vars_acc e : forall acc x, In x (expr_vars e acc) <-> In x (expr_vars e []) \/ In x acc.
Proof.
  induction e; intros acc y; simpl; try tauto.
  - rewrite IHe1, (IHe1 (expr_vars e2 [])), IHe2. tauto.
  - apply IHe.
  - apply IHe.
  - rewrite IHe1, (IHe1 (expr_vars e2 [])), IHe2. tauto.
  - apply IHe.
  - rewrite IHe1, (IHe1 (expr_vars e2 [])), IHe2. tauto.
Qed.

Lemma path_vars_acc p : forall acc x, In x (path_vars p acc) <-> In x (path_vars p []) \/ In x acc.
Proof.
  induction p as [|[i|hi lo] p IH]; intros acc x; simpl; [tauto| |apply IH].
  rewrite expr_vars_acc, (expr_vars_acc i (path_vars p [])), IH. tauto.
Qed.

Fixpoint stmt_vars_acc (s : stmt) :
  forall acc x, In x (stmt_vars s acc) <-> In x (stmt_vars s []) \/ In x acc
with arms_vars_acc (a : arms) :
  forall acc x, In x (arms_vars a acc) <-> In x (arms_vars a []) \/ In x acc.
Proof.
  - destruct s as [|r p e|r p e|c a b|e ar|a b|c]; intros acc x; simpl.
    + tauto.
    + rewrite path_vars_acc, (path_vars_acc p (expr_vars e [])), expr_vars_acc. tauto.
    + rewrite path_vars_acc, (path_vars_acc p (expr_vars e [])), expr_vars_acc. tauto.
    + rewrite expr_vars_acc, (expr_vars_acc c (stmt_vars a (stmt_vars b []))),
        (stmt_vars_acc a), (stmt_vars_acc a (stmt_vars b [])), (stmt_vars_acc b acc). tauto.
    + rewrite expr_vars_acc, (expr_vars_acc e (arms_vars ar [])), (arms_vars_acc ar acc). tauto.
    + rewrite (stmt_vars_acc a), (stmt_vars_acc a (stmt_vars b [])), (stmt_vars_acc b acc). tauto.
    + apply expr_vars_acc.
  - destruct a as [[s|]|chs s r]; intros acc x; simpl.
    + apply stmt_vars_acc.
    + tauto.
    + rewrite (stmt_vars_acc s), (stmt_vars_acc s (arms_vars r [])), (arms_vars_acc r acc). tauto.
Qed.

Lemma lookup_agree (P : positive -> Prop) a b x : P x -> agree P a b -> lookup a x = lookup b x.
Proof. intros Hx A. unfold lookup. rewrite (A x Hx). reflexivity. Qed.

Lemma eval_agree (P : positive -> Prop) sg ev a b e :
  (forall x, In x (expr_vars e []) -> P x) -> agree P a b -> eval sg a ev e = eval sg b ev e.
Proof.
  intros H A. induction e; simpl in *; try reflexivity.
  - apply (lookup_agree P); [apply H; left; reflexivity | exact A].
  - rewrite IHe1, IHe2; [reflexivity| |]; intros y Hy; apply H, expr_vars_acc; auto.
  - rewrite IHe; [reflexivity|exact H].
  - rewrite IHe; [reflexivity|exact H].
  - rewrite IHe1, IHe2; [reflexivity| |]; intros y Hy; apply H, expr_vars_acc; auto.
  - rewrite IHe; [reflexivity|exact H].
  - rewrite IHe1, IHe2; [reflexivity| |]; intros y Hy; apply H, expr_vars_acc; auto.
Qed.

Lemma resolve_agree (P : positive -> Prop) sg ev a b p :
  (forall x, In x (path_vars p []) -> P x) -> agree P a b -> resolve sg a ev p = resolve sg b ev p.
Proof.
  intros H A. induction p as [|[i|hi lo] p IH]; simpl in *; [reflexivity| |].
  - rewrite (eval_agree P sg ev a b i), IH; [reflexivity| | |exact A]; intros y Hy; apply H, expr_vars_acc; auto.
  - rewrite IH; [reflexivity|exact H].
Qed.

(** results of running a statement under two variable stores *)
Definition out_rel (P : positive -> Prop) (r1 r2 : res (store * list write)) : Prop :=
  match r1, r2 with
  | Ok (a, p1), Ok (b, p2) => p1 = p2 /\ agree P a b
  | Err e1, Err e2 => e1 = e2
  | _, _ => False
  end.

Lemma out_rel_same P (r : res (store * list write)) : out_rel P r r.
Proof. destruct r as [[a p]|e]; simpl; [split; [reflexivity | intros x _; reflexivity] | reflexivity]. Qed.

Fixpoint exec_agree (s : stmt) :
  forall (P : positive -> Prop) sg ev a b pend,
  (forall x, In x (stmt_vars s []) -> P x) -> agree P a b ->
  out_rel P (exec sg ev s a pend) (exec sg ev s b pend)
with exec_arms_agree (ar : arms) :
  forall (P : positive -> Prop) sg ev v a b pend,
  (forall x, In x (arms_vars ar []) -> P x) -> agree P a b ->
  out_rel P (exec_arms sg ev v ar a pend) (exec_arms sg ev v ar b pend).
Proof.
  - destruct s as [|r p e|r p e|c s1 s2|e ar|s1 s2|c]; intros P sg ev a b pend H A; simpl in H |- *.
    + split; [reflexivity | exact A].
    + rewrite <- (eval_agree P sg ev a b e), <- (resolve_agree P sg ev a b p); try exact A;
        try (intros y Hy; apply H; apply path_vars_acc; auto).
      destruct (eval sg a ev e); simpl; [|reflexivity].
      destruct (resolve sg a ev p); simpl; [|reflexivity].
      destruct (lookup sg r); simpl; [|reflexivity].
      destruct (apply_write _ _ _); simpl; [|reflexivity]. split; [reflexivity | exact A].
    + rewrite <- (eval_agree P sg ev a b e), <- (resolve_agree P sg ev a b p), <- (lookup_agree P a b r); try exact A;
        try (intros y Hy; apply H; right; apply path_vars_acc; auto); try (apply H; left; reflexivity).
      destruct (eval sg a ev e); simpl; [|reflexivity].
      destruct (resolve sg a ev p); simpl; [|reflexivity].
      destruct (lookup a r); simpl; [|reflexivity].
      destruct (apply_write _ _ _); simpl; [|reflexivity]. split; [reflexivity | apply agree_add, A].
    + rewrite <- (eval_agree P sg ev a b c); try exact A; [|intros y Hy; apply H, expr_vars_acc; auto].
      destruct (eval sg a ev c) as [cv|]; simpl; [|reflexivity].
      destruct cv as [| | [|] | | |]; try reflexivity.
      * apply exec_agree; [|exact A]. intros y Hy. apply H, expr_vars_acc. right. apply stmt_vars_acc. auto.
      * apply exec_agree; [|exact A]. intros y Hy. apply H, expr_vars_acc. right. apply stmt_vars_acc. auto.
    + rewrite <- (eval_agree P sg ev a b e); try exact A; [|intros y Hy; apply H, expr_vars_acc; auto].
      destruct (eval sg a ev e) as [v|]; simpl; [|reflexivity].
      apply exec_arms_agree; [|exact A]. intros y Hy. apply H, expr_vars_acc. auto.
    + pose proof (exec_agree s1 P sg ev a b pend) as I1.
      destruct (exec sg ev s1 a pend) as [[a1 p1]|e1]; destruct (exec sg ev s1 b pend) as [[b1 p2]|e2]; simpl in *;
        try (exfalso; apply I1; [intros y Hy; apply H, stmt_vars_acc; auto | exact A]).
      * destruct I1 as [E A1]; [intros y Hy; apply H, stmt_vars_acc; auto | exact A |]. subst p2.
        apply exec_agree; [|exact A1]. intros y Hy. apply H, stmt_vars_acc. auto.
      * apply I1; [intros y Hy; apply H, stmt_vars_acc; auto | exact A].
    + rewrite <- (eval_agree P sg ev a b c); try exact A; [|exact H].
      destruct (eval sg a ev c) as [cv|]; simpl; [|reflexivity].
      destruct cv; try reflexivity. split; [reflexivity | exact A].
  - destruct ar as [[s|]|chs s r]; intros P sg ev v a b pend H A; simpl in H |- *.
    + apply exec_agree; assumption.
    + split; [reflexivity | exact A].
    + destruct (existsb (choice_eqb v) chs).
      * apply exec_agree; [|exact A]. intros y Hy. apply H, stmt_vars_acc. auto.
      * apply exec_arms_agree; [|exact A]. intros y Hy. apply H, stmt_vars_acc. auto.
Qed.

Fixpoint exec_unchanged (s : stmt) :
  forall sg ev a pend a' pend', exec sg ev s a pend = Ok (a', pend') ->
  forall x, ~ In x (stmt_vars s []) -> PM.find x a' = PM.find x a
with exec_arms_unchanged (ar : arms) :
  forall sg ev v a pend a' pend', exec_arms sg ev v ar a pend = Ok (a', pend') ->
  forall x, ~ In x (arms_vars ar []) -> PM.find x a' = PM.find x a.
Proof.
  - destruct s as [|r p e|r p e|c s1 s2|e ar|s1 s2|c]; intros sg ev a pend a' pend' H x Hx; simpl in H, Hx.
    + inversion H; reflexivity.
    + destruct (eval sg a ev e); simpl in H; [|discriminate].
      destruct (resolve sg a ev p); simpl in H; [|discriminate].
      destruct (lookup sg r); simpl in H; [|discriminate].
      destruct (apply_write _ _ _); simpl in H; [|discriminate]. inversion H; reflexivity.
    + destruct (eval sg a ev e); simpl in H; [|discriminate].
      destruct (resolve sg a ev p); simpl in H; [|discriminate].
      destruct (lookup a r); simpl in H; [|discriminate].
      destruct (apply_write _ _ _); simpl in H; [|discriminate]. inversion H; subst.
      apply PM.gso. intros E. apply Hx. left. symmetry. exact E.
    + destruct (eval sg a ev c) as [cv|]; simpl in H; [|discriminate].
      destruct cv as [| | [|] | | |]; try discriminate.
      * apply (exec_unchanged s1 _ _ _ _ _ _ H). intros I. apply Hx, expr_vars_acc. right. apply stmt_vars_acc. auto.
      * apply (exec_unchanged s2 _ _ _ _ _ _ H). intros I. apply Hx, expr_vars_acc. right. apply stmt_vars_acc. auto.
    + destruct (eval sg a ev e) as [v|]; simpl in H; [|discriminate].
      apply (exec_arms_unchanged ar _ _ _ _ _ _ _ H). intros I. apply Hx, expr_vars_acc. auto.
    + destruct (exec sg ev s1 a pend) as [[a1 p1]|] eqn:E1; simpl in H; [|discriminate].
      rewrite (exec_unchanged s2 _ _ _ _ _ _ H), (exec_unchanged s1 _ _ _ _ _ _ E1); [reflexivity| |];
        intros I; apply Hx, stmt_vars_acc; auto.
    + destruct (eval sg a ev c) as [cv|]; simpl in H; [|discriminate].
      destruct cv; try discriminate. inversion H; reflexivity.
  - destruct ar as [[s|]|chs s r]; intros sg ev v a pend a' pend' H x Hx; simpl in H, Hx.
    + apply (exec_unchanged s _ _ _ _ _ _ H), Hx.
    + inversion H; reflexivity.
    + destruct (existsb (choice_eqb v) chs).
      * apply (exec_unchanged s _ _ _ _ _ _ H). intros I. apply Hx, stmt_vars_acc. auto.
      * apply (exec_arms_unchanged r _ _ _ _ _ _ _ H). intros I. apply Hx, stmt_vars_acc. auto.
Qed.

(** the alternative a selected assignment evaluates is one of the listed ones *)
Lemma select_alt_vars v alts others e :
  select_alt v alts others = Some e ->
  forall x, In x (expr_vars e []) ->
  In x (fold_right (fun a acc => expr_vars (snd a) acc)
                   (match others with Some e => expr_vars e [] | None => [] end) alts).
Proof.
  induction alts as [|[chs e0] alts IH]; simpl; intros H x Hx.
  - destruct others; [inversion H; subst; exact Hx | discriminate].
  - apply expr_vars_acc. destruct (existsb (choice_eqb v) chs).
    + inversion H; subst. auto.
    + right. apply IH; assumption.
Qed.

Lemma run_conc_agree (P : positive -> Prop) sg ev a b c :
  (forall x, In x (conc_vars c) -> P x) -> agree P a b ->
  out_rel P (run_conc sg a ev c) (run_conc sg b ev c).
Proof.
  intros H A. destruct c as [r p e|r p s alts others|lbl sens body]; simpl in H |- *.
  - rewrite <- (eval_agree P sg ev a b e), <- (resolve_agree P sg ev a b p); try exact A;
      try (intros z0 Hz0; apply H; apply path_vars_acc; auto).
    destruct (eval sg a ev e); simpl; [|reflexivity].
    destruct (resolve sg a ev p); simpl; [|reflexivity].
    destruct (lookup sg r); simpl; [|reflexivity].
    destruct (apply_write _ _ _); simpl; [|reflexivity]. split; [reflexivity | exact A].
  - rewrite <- (eval_agree P sg ev a b s); try exact A;
      [|intros z0 Hz0; apply H, path_vars_acc; right; apply expr_vars_acc; auto].
    destruct (eval sg a ev s) as [v|]; simpl; [|reflexivity].
    destruct (select_alt v alts others) as [e|] eqn:S; [|reflexivity].
    rewrite <- (eval_agree P sg ev a b e), <- (resolve_agree P sg ev a b p); try exact A;
      try solve [intros z0 Hz0; apply H; apply path_vars_acc; auto].
    + destruct (eval sg a ev e); simpl; [|reflexivity].
      destruct (resolve sg a ev p); simpl; [|reflexivity].
      destruct (lookup sg r); simpl; [|reflexivity].
      destruct (apply_write _ _ _); simpl; [|reflexivity]. split; [reflexivity | exact A].
    + intros z0 Hz0. apply H, path_vars_acc. right. apply expr_vars_acc. right.
      eapply select_alt_vars; eauto.
  - pose proof (exec_agree body P sg ev a b [] H A) as I.
    destruct (exec sg ev body a []) as [[a1 p1]|e1]; destruct (exec sg ev body b []) as [[b1 p2]|e2]; simpl in *; try tauto.
    destruct I as [E A1]. subst. auto.
Qed.

Lemma run_conc_unchanged sg ev a c a' ws :
  run_conc sg a ev c = Ok (a', ws) -> forall x, ~ In x (conc_vars c) -> PM.find x a' = PM.find x a.
Proof.
  destruct c as [r p e|r p s alts others|lbl sens body]; simpl; intros H x Hx.
  - destruct (eval sg a ev e); simpl in H; [|discriminate].
    destruct (resolve sg a ev p); simpl in H; [|discriminate].
    destruct (lookup sg r); simpl in H; [|discriminate].
    destruct (apply_write _ _ _); simpl in H; [|discriminate]. inversion H; reflexivity.
  - destruct (eval sg a ev s); simpl in H; [|discriminate].
    destruct (select_alt _ _ _); [|discriminate].
    destruct (eval sg a ev e); simpl in H; [|discriminate].
    destruct (resolve sg a ev p); simpl in H; [|discriminate].
    destruct (lookup sg r); simpl in H; [|discriminate].
    destruct (apply_write _ _ _); simpl in H; [|discriminate]. inversion H; reflexivity.
  - destruct (exec sg ev body a []) as [[a1 p1]|] eqn:E; simpl in H; [|discriminate].
    inversion H; subst. apply (exec_unchanged body _ _ _ _ _ _ E), Hx.
Qed.

(** * One delta cycle does not depend on the order of the concurrent statements *)

Definition delta_equiv (r1 r2 : res (store * store * PS.t)) : Prop :=
  match r1, r2 with
  | Ok (s1, v1, e1), Ok (s2, v2, e2) => PM.Equal s1 s2 /\ PM.Equal v1 v2 /\ PS.Equal e1 e2
  | Err _, Err _ => True
  | _, _ => False
  end.

Section Delta.
Variables (sg : store) (ev : PS.t) (init : bool).

Definition R (vr : store) (cs : prepared) : res (store * list write) := run_all sg vr ev init cs [].

Lemma run_all_acc cs : forall vr acc,
  run_all sg vr ev init cs acc =
  match run_all sg vr ev init cs [] with Ok (v, ws) => Ok (v, rev acc ++ ws) | Err e => Err e end.
Proof.
  induction cs as [|[sens c] cs IH]; intros vr acc; simpl.
  - rewrite app_nil_r. reflexivity.
  - destruct (triggered init ev sens); [|apply IH].
    destruct (run_conc sg vr ev c) as [[v1 w1]|e]; simpl; [|reflexivity].
    rewrite (IH v1 (rev_append w1 acc)), (IH v1 (rev_append w1 [])).
    destruct (run_all sg v1 ev init cs []) as [[v ws]|e]; [|reflexivity].
    rewrite !rev_append_rev, app_nil_r, rev_app_distr, !rev_involutive, <- app_assoc. reflexivity.
Qed.

Lemma R_cons sens c cs vr :
  R vr ((sens, c) :: cs) =
  if triggered init ev sens then
    match run_conc sg vr ev c with
    | Ok (v1, w1) => match R v1 cs with Ok (v, ws) => Ok (v, w1 ++ ws) | Err e => Err e end
    | Err e => Err e
    end
  else R vr cs.
Proof.
  unfold R. simpl. destruct (triggered init ev sens); [|reflexivity].
  destruct (run_conc sg vr ev c) as [[v1 w1]|e]; simpl; [|reflexivity].
  rewrite run_all_acc. destruct (run_all sg v1 ev init cs []) as [[v ws]|e]; [|reflexivity].
  rewrite rev_append_rev, app_nil_r, rev_involutive. reflexivity.
Qed.

Definition same_roots (w1 w2 : list write) : Prop :=
  forall r, (exists w, In w w1 /\ wroot w = r) <-> (exists w, In w w2 /\ wroot w = r).

Definition out_equiv (r1 r2 : res (store * list write)) : Prop :=
  match r1, r2 with
  | Ok (v1, w1), Ok (v2, w2) =>
      PM.Equal v1 v2 /\ (forall s, res_equiv (commit s w1) (commit s w2)) /\ same_roots w1 w2
  | Err _, Err _ => True
  | _, _ => False
  end.

Lemma out_equiv_refl r : out_equiv r r.
Proof.
  destruct r as [[v w]|e]; simpl; [|exact I]. split; [intros y; reflexivity|]. split; [intros s; apply res_equiv_refl|].
  intros r; tauto.
Qed.

Lemma out_equiv_trans a b c : out_equiv a b -> out_equiv b c -> out_equiv a c.
Proof.
  destruct a as [[v1 w1]|e1], b as [[v2 w2]|e2], c as [[v3 w3]|e3]; simpl; try tauto.
  intros (A1 & A2 & A3) (B1 & B2 & B3). split; [intros y; rewrite (A1 y); apply B1|]. split.
  - intros s. eapply res_equiv_trans; [apply A2 | apply B2].
  - intros r. rewrite (A3 r). apply B3.
Qed.

Definition all_vars (x : positive) : Prop := True.

Lemma R_equal cs : forall v1 v2, PM.Equal v1 v2 -> out_rel all_vars (R v1 cs) (R v2 cs).
Proof.
  induction cs as [|[sens c] cs IH]; intros v1 v2 E.
  - unfold R; simpl. split; [reflexivity | intros x _; apply E].
  - rewrite !R_cons. destruct (triggered init ev sens); [|apply IH, E].
    pose proof (run_conc_agree all_vars sg ev v1 v2 c (fun _ _ => I) (fun x _ => E x)) as C.
    destruct (run_conc sg v1 ev c) as [[a1 w1]|e1]; destruct (run_conc sg v2 ev c) as [[a2 w2]|e2]; simpl in C; try tauto.
    destruct C as [Ew A]. subst w2.
    specialize (IH a1 a2 (fun x => A x I)).
    destruct (R a1 cs) as [[b1 u1]|f1]; destruct (R a2 cs) as [[b2 u2]|f2]; simpl in *; try tauto.
    destruct IH as [Eu B]. subst. auto.
Qed.

Lemma R_cons_congr sc l1 l2 :
  (forall vr, out_equiv (R vr l1) (R vr l2)) -> forall vr, out_equiv (R vr (sc :: l1)) (R vr (sc :: l2)).
Proof.
  intros H vr. destruct sc as [sens c]. rewrite !R_cons. destruct (triggered init ev sens); [|apply H].
  destruct (run_conc sg vr ev c) as [[v1 w1]|e]; [|exact I].
  specialize (H v1). destruct (R v1 l1) as [[a u1]|f1]; destruct (R v1 l2) as [[b u2]|f2]; simpl in *; try tauto.
  destruct H as (E & C & S). split; [exact E|]. split.
  - intros s. apply commit_prefix. exact C.
  - intros r. split; intros (w & Hin & Hr); apply in_app_or in Hin; destruct Hin as [Hin|Hin].
    + exists w. split; [apply in_or_app; left; exact Hin | exact Hr].
    + destruct (proj1 (S r)) as (w' & Hin' & Hr'); [exists w; auto|]. exists w'. split; [apply in_or_app; right; exact Hin' | exact Hr'].
    + exists w. split; [apply in_or_app; left; exact Hin | exact Hr].
    + destruct (proj2 (S r)) as (w' & Hin' & Hr'); [exists w; auto|]. exists w'. split; [apply in_or_app; right; exact Hin' | exact Hr'].
Qed.

Lemma R_prefix_congr p l1 l2 :
  (forall vr, out_equiv (R vr l1) (R vr l2)) -> forall vr, out_equiv (R vr (p ++ l1)) (R vr (p ++ l2)).
Proof. induction p as [|sc p IH]; intros H; [exact H|]. simpl. apply R_cons_congr, IH, H. Qed.

(** two statements that assign disjoint scalars and share no variable *)
Definition indep (cx cy : conc) : Prop :=
  (stmts_disjoint (conc_writes cx) (conc_writes cy) = true \/ stmts_disjoint (conc_writes cy) (conc_writes cx) = true)
  /\ (forall x, In x (conc_vars cx) -> In x (conc_vars cy) -> False).

Lemma indep_sym a b : indep a b -> indep b a.
Proof. intros [[H|H] V]; split; auto; intros x Hx Hy; apply (V x); assumption. Qed.

Lemma indep_blocks cx cy vr1 vr2 vx wx vy wy :
  indep cx cy -> run_conc sg vr1 ev cx = Ok (vx, wx) -> run_conc sg vr2 ev cy = Ok (vy, wy) ->
  blocks_disjoint wx wy.
Proof.
  intros [[D|D] _] Hx Hy.
  - eapply prov_disjoint; [exact D | eapply run_conc_prov; eauto | eapply run_conc_prov; eauto].
  - apply blocks_disjoint_sym. eapply prov_disjoint; [exact D | eapply run_conc_prov; eauto | eapply run_conc_prov; eauto].
Qed.

Lemma R_swap sx cx sy cy rest : indep cx cy ->
  forall vr, out_equiv (R vr ((sx, cx) :: (sy, cy) :: rest)) (R vr ((sy, cy) :: (sx, cx) :: rest)).
Proof.
  intros I vr. destruct I as [D V].
  assert (Ind : indep cx cy) by (split; assumption).
  rewrite (R_cons sx cx ((sy, cy) :: rest) vr), (R_cons sy cy ((sx, cx) :: rest) vr).
  destruct (triggered init ev sx) eqn:Tx; destruct (triggered init ev sy) eqn:Ty.
  2:{ (* only x *) rewrite (R_cons sx cx rest vr), Tx.
      destruct (run_conc sg vr ev cx) as [[vx wx]|e]; [|exact I]. rewrite (R_cons sy cy rest vx), Ty. apply out_equiv_refl. }
  2:{ (* only y *) rewrite (R_cons sy cy rest vr), Ty.
      destruct (run_conc sg vr ev cy) as [[vy wy]|e]; [|exact I]. rewrite (R_cons sx cx rest vy), Tx. apply out_equiv_refl. }
  2:{ rewrite (R_cons sy cy rest vr), Ty, (R_cons sx cx rest vr), Tx. apply out_equiv_refl. }
  (* both run *)
  destruct (run_conc sg vr ev cx) as [[vx wx]|ex] eqn:Hx; destruct (run_conc sg vr ev cy) as [[vy wy]|ey] eqn:Hy.
  - (* x and y succeed from vr *)
    assert (Ay : agree (fun z => In z (conc_vars cy)) vr vx).
    { intros z Hz. symmetry. apply (run_conc_unchanged _ _ _ _ _ _ Hx). intros Hzx. apply (V z); assumption. }
    assert (Ax : agree (fun z => In z (conc_vars cx)) vr vy).
    { intros z Hz. symmetry. apply (run_conc_unchanged _ _ _ _ _ _ Hy). intros Hzy. apply (V z); assumption. }
    pose proof (run_conc_agree _ sg ev vr vx cy (fun _ H => H) Ay) as Cy. rewrite Hy in Cy.
    pose proof (run_conc_agree _ sg ev vr vy cx (fun _ H => H) Ax) as Cx. rewrite Hx in Cx.
    rewrite (R_cons sy cy rest vx), Ty, (R_cons sx cx rest vy), Tx.
    destruct (run_conc sg vx ev cy) as [[vxy wy']|] eqn:Hxy; simpl in Cy; [|contradiction].
    destruct (run_conc sg vy ev cx) as [[vyx wx']|] eqn:Hyx; simpl in Cx; [|contradiction].
    destruct Cy as [<- Ayy]. destruct Cx as [<- Axx].
    assert (E : PM.Equal vxy vyx).
    { intros z. destruct (in_dec Pos.eq_dec z (conc_vars cx)) as [Zx|Zx].
      - assert (Zy : ~ In z (conc_vars cy)) by (intros Zy; apply (V z); assumption).
        rewrite (run_conc_unchanged _ _ _ _ _ _ Hxy z Zy). apply Axx, Zx.
      - destruct (in_dec Pos.eq_dec z (conc_vars cy)) as [Zy|Zy].
        + rewrite (run_conc_unchanged _ _ _ _ _ _ Hyx z Zx). symmetry. apply Ayy, Zy.
        + rewrite (run_conc_unchanged _ _ _ _ _ _ Hxy z Zy), (run_conc_unchanged _ _ _ _ _ _ Hx z Zx),
            (run_conc_unchanged _ _ _ _ _ _ Hyx z Zx), (run_conc_unchanged _ _ _ _ _ _ Hy z Zy). reflexivity. }
    pose proof (R_equal rest vxy vyx E) as Q.
    destruct (R vxy rest) as [[a u1]|f1]; destruct (R vyx rest) as [[b u2]|f2]; simpl in Q |- *; try tauto.
    destruct Q as [<- Q]. split; [intros z; apply Q; exact I0 || exact I|]. split.
    + intros s. apply commit_swap_blocks. eapply indep_blocks; eauto.
    + intros r. split; intros (w & Hin & Hr); exists w; (split; [|exact Hr]);
        repeat (apply in_app_or in Hin; destruct Hin as [Hin|Hin]); repeat rewrite in_app_iff; auto.
  - (* y fails from vr, hence also after x *)
    assert (Ay : agree (fun z => In z (conc_vars cy)) vr vx).
    { intros z Hz. symmetry. apply (run_conc_unchanged _ _ _ _ _ _ Hx). intros Hzx. apply (V z); assumption. }
    pose proof (run_conc_agree _ sg ev vr vx cy (fun _ H => H) Ay) as Cy. rewrite Hy in Cy.
    rewrite (R_cons sy cy rest vx), Ty.
    destruct (run_conc sg vx ev cy) as [[? ?]|]; simpl in Cy; [contradiction | exact I].
  - (* x fails from vr, hence also after y *)
    assert (Ax : agree (fun z => In z (conc_vars cx)) vr vy).
    { intros z Hz. symmetry. apply (run_conc_unchanged _ _ _ _ _ _ Hy). intros Hzy. apply (V z); assumption. }
    pose proof (run_conc_agree _ sg ev vr vy cx (fun _ H => H) Ax) as Cx. rewrite Hx in Cx.
    rewrite (R_cons sx cx rest vy), Tx.
    destruct (run_conc sg vy ev cx) as [[? ?]|]; simpl in Cx; [contradiction | exact I].
  - exact I.
Qed.

Definition tagged_indep (l : list (nat * conc)) : Prop :=
  forall i j a b, In (i, a) l -> In (j, b) l -> i <> j -> indep a b.

Definition prep (l : list (nat * conc)) : prepared := prepare (map snd l).

Lemma prep_app l1 l2 : prep (l1 ++ l2) = prep l1 ++ prep l2.
Proof. unfold prep, prepare. rewrite !map_app. reflexivity. Qed.

Lemma R_perm_tagged l l' :
  NoDup (map fst l) -> tagged_indep l -> Permutation l l' ->
  forall vr, out_equiv (R vr (prep l)) (R vr (prep l')).
Proof.
  intros ND TD P. apply Permutation_Permutation_transp in P. revert ND TD.
  induction P as [l | x y l1 l2 | l1 l2 l3 P1 IH1 P2 IH2]; intros ND TD vr.
  - apply out_equiv_refl.
  - rewrite !prep_app. apply R_prefix_congr. intros vr'.
    destruct x as [i a], y as [j b]. unfold prep, prepare. simpl.
    apply R_swap. apply (TD j i b a).
    + apply in_or_app. right. left. reflexivity.
    + apply in_or_app. right. right. left. reflexivity.
    + rewrite map_app in ND. simpl in ND. apply NoDup_remove_2 in ND.
      intros E. subst j. apply ND. apply in_or_app. right. left. reflexivity.
  - assert (P1' : Permutation l1 l2) by (apply Permutation_Permutation_transp; exact P1).
    eapply out_equiv_trans; [apply IH1; assumption|]. apply IH2.
    + eapply Permutation_NoDup; [apply Permutation_map, P1' | exact ND].
    + intros i j a b Hi Hj. apply TD; eapply Permutation_in; try (apply Permutation_sym; exact P1'); assumption.
Qed.

Definition differs (old new : store) (r : positive) : bool :=
  match PM.find r old, PM.find r new with
  | Some a, Some b => negb (value_eqb a b)
  | _, _ => false
  end.

Lemma changed_spec old new ws : forall acc r,
  PS.In r (changed old new ws acc) <->
  PS.In r acc \/ ((exists w, In w ws /\ wroot w = r) /\ differs old new r = true).
Proof.
  induction ws as [|[[root p] x] ws IH]; intros acc r; simpl.
  - split; [auto | intros [H|[(w & [] & _) _]]; exact H].
  - rewrite IH. fold (differs old new root).
    split.
    + intros [H|[(w & Hin & Hr) Hd]].
      * destruct (differs old new root) eqn:Dr.
        -- apply PS.add_spec in H. destruct H as [E|H]; [|auto]. subst r.
           right. split; [|exact Dr]. exists (root, p, x). split; [left; reflexivity | reflexivity].
        -- auto.
      * right. split; [|exact Hd]. exists w. auto.
    + intros [H|[(w & [E|Hin] & Hr) Hd]].
      * left. destruct (differs old new root); [apply PS.add_spec; auto | exact H].
      * subst w. unfold wroot in Hr. simpl in Hr. subst r. left. rewrite Hd. apply PS.add_spec. auto.
      * right. split; [|exact Hd]. exists w. auto.
Qed.

Lemma delta_out cs cs' vr :
  out_equiv (R vr cs) (R vr cs') -> delta_equiv (delta cs sg vr ev init) (delta cs' sg vr ev init).
Proof.
  unfold delta, R.
  destruct (run_all sg vr ev init cs []) as [[v1 w1]|e1]; destruct (run_all sg vr ev init cs' []) as [[v2 w2]|e2];
    simpl; try tauto.
  intros (E & C & S). specialize (C sg).
  destruct (commit sg w1) as [s1|]; destruct (commit sg w2) as [s2|]; simpl in *; try tauto.
  split; [exact C|]. split; [exact E|].
  intros r. rewrite !changed_spec.
  assert (D : differs sg s1 r = differs sg s2 r) by (unfold differs; rewrite (C r); reflexivity).
  rewrite D, (S r). tauto.
Qed.

End Delta.

(** ** from the static check to independence of any two statements *)

Lemma forallb_map_eq {A B} (f : A -> B) (p : B -> bool) l : forallb p (map f l) = forallb (fun x => p (f x)) l.
Proof. induction l as [|x l IH]; simpl; [reflexivity | rewrite IH; reflexivity]. Qed.

Lemma pairwise_map {A B} (f : A -> B) (P : B -> B -> bool) l :
  pairwise P (map f l) = pairwise (fun a b => P (f a) (f b)) l.
Proof. induction l as [|x l IH]; simpl; [reflexivity | rewrite forallb_map_eq, IH; reflexivity]. Qed.

Lemma vars_indep d a b :
  conc_vars_local d a = true -> conc_vars_local d b = true -> same_label a b = false ->
  forall x, In x (conc_vars a) -> In x (conc_vars b) -> False.
Proof.
  intros La Lb S x Ha Hb.
  destruct a as [r p e|r p s alts others|la sa ba].
  - unfold conc_vars_local in La. destruct (conc_vars (CAssign r p e)); [destruct Ha | simpl in La; discriminate].
  - unfold conc_vars_local in La. destruct (conc_vars (CSelect r p s alts others)); [destruct Ha | simpl in La; discriminate].
  - destruct b as [r p e|r p s alts others|lb sb bb].
    + unfold conc_vars_local in Lb. destruct (conc_vars (CAssign r p e)); [destruct Hb | simpl in Lb; discriminate].
    + unfold conc_vars_local in Lb. destruct (conc_vars (CSelect r p s alts others)); [destruct Hb | simpl in Lb; discriminate].
    + unfold conc_vars_local in La, Lb. rewrite forallb_forall in La, Lb.
      specialize (La x Ha). specialize (Lb x Hb).
      destruct (var_proc d x) as [l|]; [|discriminate].
      apply Pos.eqb_eq in La. apply Pos.eqb_eq in Lb. subst. simpl in S. rewrite Pos.eqb_refl in S. discriminate.
Qed.

Lemma same_label_sym a b : same_label a b = same_label b a.
Proof. destruct a, b; simpl; auto. apply Pos.eqb_sym. Qed.

Lemma tag_from_in {A} (l : list A) k i a : In (i, a) (tag_from k l) -> In a l.
Proof.
  intros H. assert (X : In a (map snd (tag_from k l))) by (apply in_map_iff; exists (i, a); auto).
  rewrite tag_from_snd in X. exact X.
Qed.

Lemma single_driver_indep d : single_driver d = true -> tagged_indep (tag_from 0 d.(d_conc)).
Proof.
  unfold single_driver. intros H.
  apply andb_prop in H. destruct H as [H HL]. apply andb_prop in H. destruct H as [H HV].
  apply andb_prop in H. destruct H as [HD _].
  unfold drivers_disjoint in HD. rewrite pairwise_map in HD. unfold labels_distinct in HL.
  unfold vars_local in HV. rewrite forallb_forall in HV.
  assert (Lt : forall i j a b, In (i, a) (tag_from 0 (d_conc d)) -> In (j, b) (tag_from 0 (d_conc d)) -> i < j -> indep a b).
  { intros i j a b Hi Hj L. split.
    - left. apply (tag_from_pairwise _ _ 0 HD i j a b Hi Hj L).
    - apply (vars_indep d); [apply HV; eapply tag_from_in; eauto | apply HV; eapply tag_from_in; eauto |].
      pose proof (tag_from_pairwise _ _ 0 HL i j a b Hi Hj L) as X. apply negb_true_iff in X. exact X. }
  intros i j a b Hi Hj Hne. destruct (Nat.lt_ge_cases i j) as [L|G].
  - eapply Lt; eauto.
  - apply indep_sym. eapply Lt; eauto. lia.
Qed.

(** [single_driver_sound]: under [single_driver d = true] one delta cycle - the variable store
    threaded through the processes, the committed signal store and the set of changed signals -
    does not depend on the order in which the concurrent statements are listed.  Stores are
    compared extensionally; two runs that both end in a run-time error are identified. *)
Theorem single_driver_sound d cs' sg vr ev init :
  single_driver d = true -> Permutation d.(d_conc) cs' ->
  delta_equiv (delta (prepare d.(d_conc)) sg vr ev init) (delta (prepare cs') sg vr ev init).
Proof.
  intros S P. apply delta_out.
  rewrite <- (tag_from_snd d.(d_conc) 0) in P.
  apply Permutation_sym in P. apply Permutation_map_inv in P. destruct P as (l' & E & P).
  rewrite <- (tag_from_snd d.(d_conc) 0) at 1. rewrite E.
  apply (R_perm_tagged sg ev init); [apply tag_from_nodup | apply single_driver_indep, S | exact P].
Qed.

(** non-vacuity: two processes and two concurrent assignments to disjoint scalars of one signal *)
Definition example_design : design :=
  {| d_sigs := [ {| sd_id := 1; sd_ty := TLogic; sd_dir := DIn; sd_init := VL false; sd_hasdef := false |};
                 {| sd_id := 2; sd_ty := TVec KSlv 4; sd_dir := DOut; sd_init := VV KSlv 4 0; sd_hasdef := false |};
                 {| sd_id := 3; sd_ty := TLogic; sd_dir := DLocal; sd_init := VL false; sd_hasdef := false |} ];
     d_vars := [ {| vd_id := 1; vd_proc := 1; vd_ty := TLogic; vd_init := VL false; vd_hasdef := false |} ];
     d_conc := [ CProc 1 [1%positive] (SSeq (SVar 1 [] (ESig 1)) (SSig 3 [] (EVar 1)));
                 CAssign 2 [SelSlice 3 2] (ELit (VV KSlv 2 1));
                 CAssign 2 [SelIdx (ELit (VI 1))] (ESig 3) ];
     d_clk := None; d_inputs := [1%positive]; d_outputs := [2%positive] |}.

Definition with_conc (d : design) (cs : list conc) : design :=
  {| d_sigs := d.(d_sigs); d_vars := d.(d_vars); d_conc := cs; d_clk := d.(d_clk);
     d_inputs := d.(d_inputs); d_outputs := d.(d_outputs) |}.

Example single_driver_examples :
  single_driver example_design = true /\ single_driver_roots example_design = false
  (* a second driver of signal 3 that also reads the process variable *)
  /\ single_driver (with_conc example_design (CAssign 3 [] (EVar 1) :: example_design.(d_conc))) = false
  (* overlapping scalars *)
  /\ drivers_disjoint (with_conc example_design [CAssign 2 [SelSlice 3 1] (ELit (VV KSlv 3 1)); CAssign 2 [SelIdx (ELit (VI 1))] (ESig 3)]) = false
  (* run-time index next to another statement *)
  /\ drivers_disjoint (with_conc example_design [CAssign 2 [SelIdx (EF1 FToInteger (ESig 2))] (ESig 3); CAssign 2 [SelIdx (ELit (VI 1))] (ESig 3)]) = false
  (* an [in] port is assigned *)
  /\ no_in_port_assigned (with_conc example_design [CAssign 1 [] (ESig 3)]) = false.
Proof. vm_compute. repeat split. Qed.

Lemma single_driver_nonvacuous : exists d, single_driver d = true /\ single_driver_roots d = false.
Proof. exists example_design. vm_compute. split; reflexivity. Qed.
