(** * C07 - "every signal has one driver" on the elaborated emitted design.

    [single_driver d]: for every signal the sets of scalar sub-elements assigned by different
    concurrent statements / processes of [d_conc] are pairwise disjoint (whole = all scalars,
    static slice / static index = those scalars, run-time index = all scalars of the indexed
    object), no [in] port is assigned, and every process variable is referenced only inside
    the process that declares it.

    Soundness against [Sem] is proved in the second half of the file. *)
From Coq Require Import ZArith NArith PArith List Bool Lia.
From Cohdl Require Import Base.Bits Vhdl.Value Vhdl.NumStd Vhdl.Syntax Vhdl.Sem.
Import ListNotations.

(** ** static footprint of an assignment target *)

Fixpoint ty_size (t : ty) : N :=
  match t with
  | TVec _ w => w
  | TArr _ n e => n * ty_size e
  | _ => 1
  end.

Definition static_index (e : expr) : option N :=
  match e with
  | ELit (VI z) => if (0 <=? z)%Z then Some (Z.to_N z) else None
  | _ => None
  end.

Definition is_nil {A} (l : list A) : bool := match l with [] => true | _ => false end.

(** scalar interval [(start, length)] touched by [path] inside an object of type [t] whose
    first scalar has number [base]; anything not statically known is the whole object *)
Fixpoint path_range (t : ty) (base : N) (p : list sel) : N * N :=
  match p with
  | [] => (base, ty_size t)
  | SelIdx i :: r =>
      match t, static_index i with
      | TVec _ w, Some k => if (k <? w)%N && is_nil r then ((base + k)%N, 1%N) else (base, ty_size t)
      | TArr _ n e, Some k => if (k <? n)%N then path_range e (base + k * ty_size e)%N r else (base, ty_size t)
      | _, _ => (base, ty_size t)
      end
  | SelSlice hi lo :: r =>
      match t with
      | TVec _ w => if (lo <=? hi)%N && (hi <? w)%N && is_nil r then ((base + lo)%N, (hi - lo + 1)%N) else (base, ty_size t)
      | _ => (base, ty_size t)
      end
  end.

Definition ranges_disjoint (a b : N * N) : bool :=
  ((fst a + snd a <=? fst b) || (fst b + snd b <=? fst a))%N.

(** ** the assignments of a concurrent statement *)

Fixpoint stmt_writes (s : stmt) (acc : list (positive * list sel)) : list (positive * list sel) :=
  match s with
  | SSig r p _ => (r, p) :: acc
  | SIf _ a b => stmt_writes a (stmt_writes b acc)
  | SCase _ ar => arms_writes ar acc
  | SSeq a b => stmt_writes a (stmt_writes b acc)
  | SNull | SVar _ _ _ | SAssert _ => acc
  end
with arms_writes (a : arms) (acc : list (positive * list sel)) : list (positive * list sel) :=
  match a with
  | ANil None => acc
  | ANil (Some s) => stmt_writes s acc
  | ACons _ s r => stmt_writes s (arms_writes r acc)
  end.

Definition conc_writes (c : conc) : list (positive * list sel) :=
  match c with
  | CAssign r p _ => [(r, p)]
  | CSelect r p _ _ _ => [(r, p)]
  | CProc _ _ b => stmt_writes b []
  end.

Definition sig_decl (d : design) (x : positive) : option sigdecl :=
  List.find (fun sd => Pos.eqb sd.(sd_id) x) d.(d_sigs).

Record target := { t_root : positive; t_range : N * N; t_dir : dir }.

Definition target_of (d : design) (w : positive * list sel) : option target :=
  match sig_decl d (fst w) with
  | Some sd => Some {| t_root := fst w; t_range := path_range sd.(sd_ty) 0 (snd w); t_dir := sd.(sd_dir) |}
  | None => None
  end.

Fixpoint all_some {A} (l : list (option A)) : option (list A) :=
  match l with
  | [] => Some []
  | None :: _ => None
  | Some x :: r => match all_some r with Some r' => Some (x :: r') | None => None end
  end.

Definition conc_targets (d : design) (c : conc) : option (list target) :=
  all_some (map (target_of d) (conc_writes c)).

Definition targets_disjoint (a b : target) : bool :=
  negb (Pos.eqb a.(t_root) b.(t_root)) || ranges_disjoint a.(t_range) b.(t_range).

Definition stmts_disjoint (ta tb : list target) : bool :=
  forallb (fun a => forallb (targets_disjoint a) tb) ta.

Fixpoint pairwise {A} (p : A -> A -> bool) (l : list A) : bool :=
  match l with
  | [] => true
  | x :: r => forallb (p x) r && pairwise p r
  end.

Definition not_in_port (t : target) : bool := match t.(t_dir) with DIn => false | _ => true end.

(** ** variables stay inside their process *)

Fixpoint expr_vars (e : expr) (acc : list positive) : list positive :=
  match e with
  | ELit _ | ESig _ | EEdge _ _ => acc
  | EVar x => x :: acc
  | EIdx a i => expr_vars a (expr_vars i acc)
  | ESlice a _ _ => expr_vars a acc
  | EUn _ a | EF1 _ a => expr_vars a acc
  | EBin _ a b | EF2 _ a b => expr_vars a (expr_vars b acc)
  end.

Fixpoint path_vars (p : list sel) (acc : list positive) : list positive :=
  match p with
  | [] => acc
  | SelIdx i :: r => expr_vars i (path_vars r acc)
  | SelSlice _ _ :: r => path_vars r acc
  end.

Fixpoint stmt_vars (s : stmt) (acc : list positive) : list positive :=
  match s with
  | SNull => acc
  | SSig _ p e => path_vars p (expr_vars e acc)
  | SVar x p e => x :: path_vars p (expr_vars e acc)
  | SIf c a b => expr_vars c (stmt_vars a (stmt_vars b acc))
  | SCase e ar => expr_vars e (arms_vars ar acc)
  | SSeq a b => stmt_vars a (stmt_vars b acc)
  | SAssert c => expr_vars c acc
  end
with arms_vars (a : arms) (acc : list positive) : list positive :=
  match a with
  | ANil None => acc
  | ANil (Some s) => stmt_vars s acc
  | ACons _ s r => stmt_vars s (arms_vars r acc)
  end.

Definition var_proc (d : design) (x : positive) : option positive :=
  match List.find (fun vd => Pos.eqb vd.(vd_id) x) d.(d_vars) with
  | Some vd => Some vd.(vd_proc)
  | None => None
  end.

Definition conc_vars_local (d : design) (c : conc) : bool :=
  match c with
  | CAssign _ p e => is_nil (path_vars p (expr_vars e []))
  | CSelect _ p s alts others =>
      is_nil (path_vars p (expr_vars s
        (fold_right (fun a acc => expr_vars (snd a) acc)
                    (match others with Some e => expr_vars e [] | None => [] end) alts)))
  | CProc lbl _ body =>
      forallb (fun x => match var_proc d x with Some l => Pos.eqb l lbl | None => false end) (stmt_vars body [])
  end.

Definition vars_local (d : design) : bool := forallb (conc_vars_local d) d.(d_conc).

(** process labels are the identity of a process: two processes never share one *)
Definition proc_labels (d : design) : list positive :=
  flat_map (fun c => match c with CProc l _ _ => [l] | _ => [] end) d.(d_conc).

Definition labels_distinct (d : design) : bool :=
  pairwise (fun a b => negb (Pos.eqb a b)) (proc_labels d).

(** ** the check *)

Definition drivers_disjoint (d : design) : bool :=
  match all_some (map (conc_targets d) d.(d_conc)) with
  | Some ts => pairwise stmts_disjoint ts && forallb (forallb not_in_port) ts
  | None => false
  end.

Definition single_driver (d : design) : bool :=
  drivers_disjoint d && vars_local d && labels_distinct d.

(** diagnosis: indices (0-based, in [d_conc] order) of two statements that drive a common scalar *)
Fixpoint first_clash (i : nat) (ts : list (list target)) : option (nat * nat) :=
  match ts with
  | [] => None
  | x :: r =>
      (fix scan (j : nat) (l : list (list target)) : option (nat * nat) :=
         match l with
         | [] => first_clash (S i) r
         | y :: l' => if stmts_disjoint x y then scan (S j) l' else Some (i, j)
         end) (S i) r
  end.

(** * Soundness against [Sem]: the order of the concurrent statements does not matter

    [Sem.delta] runs the triggered statements in the order of [d_conc], concatenates their
    write lists in that order and hands them to [Sem.commit].  We prove that the result of
    [commit] is the same for every order of the per-statement write lists as long as no two
    statements assign the same signal ([commit_perm]: the two-statement swap lemma
    [commit_swap_blocks], lifted to arbitrary permutations through adjacent transpositions),
    and that the writes a statement can produce stay inside its static footprint
    ([run_conc_roots]).  Results are compared up to [PM.Equal] (extensional equality of the
    stores); two runs that both end in a run-time error are identified. *)
From Coq Require Import Permutation.

Definition res_equiv (a b : res store) : Prop :=
  match a, b with
  | Ok s, Ok s' => PM.Equal s s'
  | Err _, Err _ => True
  | _, _ => False
  end.

Lemma res_equiv_refl a : res_equiv a a.
Proof. destruct a; simpl; [intros y; reflexivity | exact I]. Qed.

Lemma res_equiv_trans a b c : res_equiv a b -> res_equiv b c -> res_equiv a c.
Proof.
  destruct a, b, c; simpl; try tauto. intros H1 H2 y. rewrite (H1 y). apply H2.
Qed.

Lemma res_equiv_sym a b : res_equiv a b -> res_equiv b a.
Proof. destruct a, b; simpl; try tauto. intros H y. symmetry. apply H. Qed.

Lemma lookup_equal s s' x : PM.Equal s s' -> lookup s x = lookup s' x.
Proof. intros H. unfold lookup. rewrite (H x). reflexivity. Qed.

Lemma add_equal s s' x (v : value) : PM.Equal s s' -> PM.Equal (PM.add x v s) (PM.add x v s').
Proof.
  intros H y. destruct (Pos.eq_dec y x) as [E|N].
  - subst y. rewrite !PM.gss. reflexivity.
  - rewrite !PM.gso by exact N. apply H.
Qed.

Lemma add_comm s x y (v w : value) : x <> y ->
  PM.Equal (PM.add x v (PM.add y w s)) (PM.add y w (PM.add x v s)).
Proof.
  intros N z. destruct (Pos.eq_dec z x) as [E|Nx]; [subst z|].
  - rewrite PM.gss. rewrite PM.gso by exact N. rewrite PM.gss. reflexivity.
  - rewrite (PM.gso _ _ Nx). destruct (Pos.eq_dec z y) as [E|Ny]; [subst z|].
    + rewrite !PM.gss. reflexivity.
    + rewrite !(PM.gso _ _ Ny). rewrite (PM.gso _ _ Nx). reflexivity.
Qed.

Lemma commit_equal ws : forall s s', PM.Equal s s' -> res_equiv (commit s ws) (commit s' ws).
Proof.
  induction ws as [|[[root rp] x] ws IH]; intros s s' H; simpl.
  - exact H.
  - rewrite (lookup_equal s s' root H). destruct (lookup s' root) as [base|e]; simpl; [|exact I].
    destruct (apply_write base rp x) as [nv|e]; simpl; [|exact I].
    apply IH. apply add_equal. exact H.
Qed.

Definition wroot (w : write) : positive := fst (fst w).

Lemma commit_cons r p x ws s :
  commit s ((r, p, x) :: ws) =
  match PM.find r s with
  | Some b => match apply_write b p x with Ok nv => commit (PM.add r nv s) ws | Err e => Err e end
  | None => Err EUnbound
  end.
Proof. simpl. unfold lookup. destruct (PM.find r s); simpl; [|reflexivity]. destruct (apply_write v p x); reflexivity. Qed.

(** a write to another root can be moved in front *)
Lemma commit_swap2 (w1 w2 : write) rest s :
  wroot w1 <> wroot w2 ->
  res_equiv (commit s (w1 :: w2 :: rest)) (commit s (w2 :: w1 :: rest)).
Proof.
  destruct w1 as [[r1 p1] x1], w2 as [[r2 p2] x2]. unfold wroot; simpl fst. intros N.
  assert (N' : r2 <> r1) by (intros E; apply N; symmetry; exact E).
  rewrite (commit_cons r1), (commit_cons r2 p2 x2 ((r1, p1, x1) :: rest)).
  destruct (PM.find r1 s) as [b1|] eqn:F1; destruct (PM.find r2 s) as [b2|] eqn:F2.
  - destruct (apply_write b1 p1 x1) as [n1|e1] eqn:A1; destruct (apply_write b2 p2 x2) as [n2|e2] eqn:A2;
      rewrite ?commit_cons, ?(PM.gso _ _ N), ?(PM.gso _ _ N'), ?F1, ?F2, ?A1, ?A2; try exact I.
    apply commit_equal. apply add_comm. exact N'.
  - destruct (apply_write b1 p1 x1) as [n1|e1] eqn:A1;
      rewrite ?commit_cons, ?(PM.gso _ _ N), ?(PM.gso _ _ N'), ?F1, ?F2; exact I.
  - destruct (apply_write b2 p2 x2) as [n2|e2] eqn:A2;
      rewrite ?commit_cons, ?(PM.gso _ _ N), ?(PM.gso _ _ N'), ?F1, ?F2; exact I.
  - exact I.
Qed.

Lemma commit_app a b s :
  commit s (a ++ b) = match commit s a with Ok s1 => commit s1 b | Err e => Err e end.
Proof.
  revert s. induction a as [|[[r p] x] a IH]; intros s; [reflexivity|].
  rewrite <- app_comm_cons, !commit_cons.
  destruct (PM.find r s) as [b0|]; [|reflexivity].
  destruct (apply_write b0 p x); [apply IH | reflexivity].
Qed.

(** equivalent continuations stay equivalent behind a common prefix *)
Lemma commit_prefix p l l' :
  (forall s, res_equiv (commit s l) (commit s l')) ->
  forall s, res_equiv (commit s (p ++ l)) (commit s (p ++ l')).
Proof.
  intros H s. rewrite !commit_app. destruct (commit s p); [apply H | exact I].
Qed.

Definition touches (r : positive) (ws : list write) : bool := existsb (fun w => Pos.eqb (wroot w) r) ws.

Definition roots_disjoint (a b : list write) : Prop :=
  forall r, touches r a = true -> touches r b = false.

Lemma touches_false r ws : touches r ws = false -> forall w, In w ws -> wroot w <> r.
Proof.
  unfold touches. intros H w Hin E. 
  assert (X : existsb (fun w => Pos.eqb (wroot w) r) ws = true).
  { apply existsb_exists. exists w. split; [exact Hin | apply Pos.eqb_eq, E]. }
  congruence.
Qed.

(** one write moves behind a block that does not touch its root *)
Lemma commit_move1 w b : touches (wroot w) b = false ->
  forall rest s, res_equiv (commit s (w :: b ++ rest)) (commit s (b ++ w :: rest)).
Proof.
  induction b as [|v b IH]; intros H rest s; [apply res_equiv_refl|].
  simpl in H. apply orb_false_iff in H. destruct H as [Hv Hb].
  assert (N : wroot w <> wroot v). { intros E. rewrite E, Pos.eqb_refl in Hv. discriminate. }
  eapply res_equiv_trans; [apply (commit_swap2 w v (b ++ rest) s N)|].
  change (v :: w :: b ++ rest) with ([v] ++ (w :: b ++ rest)).
  change ((v :: b) ++ w :: rest) with ([v] ++ (b ++ w :: rest)).
  apply commit_prefix. intros s'. apply IH. exact Hb.
Qed.

(** the two-statement swap lemma *)
Lemma commit_swap_blocks a : forall b rest, roots_disjoint a b ->
  forall s, res_equiv (commit s (a ++ b ++ rest)) (commit s (b ++ a ++ rest)).
Proof.
  induction a as [|w a IH]; intros b rest H s; [apply res_equiv_refl|].
  assert (Hw : touches (wroot w) b = false).
  { apply H. simpl. rewrite Pos.eqb_refl. reflexivity. }
  assert (Ha : roots_disjoint a b).
  { intros r Hr. apply H. simpl. rewrite Hr. apply orb_true_r. }
  eapply res_equiv_trans.
  - change ((w :: a) ++ b ++ rest) with ([w] ++ (a ++ b ++ rest)).
    apply (commit_prefix [w] (a ++ b ++ rest) (b ++ a ++ rest)). intros s'. apply IH. exact Ha.
  - simpl. apply (commit_move1 w b Hw (a ++ rest) s).
Qed.

(** lift: at most one statement assigns each signal  =>  any order of the statements' write lists *)
Definition owners_of (r : positive) (wss : list (list write)) : nat := length (filter (touches r) wss).

Lemma owners_transp wss wss' : Permutation_transp wss wss' -> forall r, owners_of r wss = owners_of r wss'.
Proof.
  induction 1; intros r; [reflexivity | | rewrite IHPermutation_transp1; apply IHPermutation_transp2].
  unfold owners_of. rewrite !filter_app, !app_length. simpl.
  destruct (touches r x), (touches r y); simpl; lia.
Qed.

Theorem commit_perm wss wss' s :
  (forall r, owners_of r wss <= 1) ->
  Permutation wss wss' ->
  res_equiv (commit s (List.concat wss)) (commit s (List.concat wss')).
Proof.
  intros H P. apply Permutation_Permutation_transp in P. revert s H.
  induction P as [l | x y l1 l2 | l1 l2 l3 P1 IH1 P2 IH2]; intros s H.
  - apply res_equiv_refl.
  - rewrite !List.concat_app. simpl. apply commit_prefix. intros s'.
    apply commit_swap_blocks. intros r Hy.
    specialize (H r). unfold owners_of in H. rewrite filter_app, app_length in H. simpl in H.
    rewrite Hy in H. destruct (touches r x); [simpl in H; lia | reflexivity].
  - eapply res_equiv_trans; [apply IH1, H|]. apply IH2.
    intros r. rewrite <- (owners_transp _ _ P1 r). apply H.
Qed.

(** ** the writes a statement can produce stay inside its static footprint *)

Fixpoint stmt_writes_acc (s : stmt) :
  forall acc x, In x (stmt_writes s acc) <-> In x (stmt_writes s []) \/ In x acc
with arms_writes_acc (a : arms) :
  forall acc x, In x (arms_writes a acc) <-> In x (arms_writes a []) \/ In x acc.
Proof.
  - destruct s as [|r p e|r p e|c a b|e ar|a b|c]; intros acc x; simpl; try tauto.
    + rewrite (stmt_writes_acc a), (stmt_writes_acc a (stmt_writes b [])), (stmt_writes_acc b acc). tauto.
    + apply arms_writes_acc.
    + rewrite (stmt_writes_acc a), (stmt_writes_acc a (stmt_writes b [])), (stmt_writes_acc b acc). tauto.
  - destruct a as [[s|]|chs s r]; intros acc x; simpl.
    + apply stmt_writes_acc.
    + tauto.
    + rewrite (stmt_writes_acc s), (stmt_writes_acc s (arms_writes r [])), (arms_writes_acc r acc). tauto.
Qed.

Definition stmt_roots (s : stmt) : list positive := map fst (stmt_writes s []).
Definition arms_roots (a : arms) : list positive := map fst (arms_writes a []).

Lemma in_roots_acc s acc r :
  In r (map fst (stmt_writes s acc)) <-> In r (stmt_roots s) \/ In r (map fst acc).
Proof.
  unfold stmt_roots. rewrite !in_map_iff. split.
  - intros (x & E & H). apply stmt_writes_acc in H. destruct H; [left | right]; exists x; auto.
  - intros [(x & E & H)|(x & E & H)]; exists x; split; auto; apply stmt_writes_acc; auto.
Qed.

Lemma in_aroots_acc a acc r :
  In r (map fst (arms_writes a acc)) <-> In r (arms_roots a) \/ In r (map fst acc).
Proof.
  unfold arms_roots. rewrite !in_map_iff. split.
  - intros (x & E & H). apply arms_writes_acc in H. destruct H; [left | right]; exists x; auto.
  - intros [(x & E & H)|(x & E & H)]; exists x; split; auto; apply arms_writes_acc; auto.
Qed.

Fixpoint exec_roots (s : stmt) :
  forall sg ev vr pend vr' pend', exec sg ev s vr pend = Ok (vr', pend') ->
  forall w, In w pend' -> In w pend \/ In (wroot w) (stmt_roots s)
with exec_arms_roots (a : arms) :
  forall sg ev v vr pend vr' pend', exec_arms sg ev v a vr pend = Ok (vr', pend') ->
  forall w, In w pend' -> In w pend \/ In (wroot w) (arms_roots a).
Proof.
  - destruct s as [|r p e|r p e|c a b|e ar|a b|c]; intros sg ev vr pend vr' pend' H w Hw; simpl in H.
    + inversion H; subst. auto.
    + destruct (eval sg vr ev e); simpl in H; [|discriminate].
      destruct (resolve sg vr ev p); simpl in H; [|discriminate].
      destruct (lookup sg r); simpl in H; [|discriminate].
      destruct (apply_write _ _ _); simpl in H; [|discriminate].
      inversion H; subst. destruct Hw as [E|Hw]; [|auto]. subst w. right. left. reflexivity.
    + destruct (eval sg vr ev e); simpl in H; [|discriminate].
      destruct (resolve sg vr ev p); simpl in H; [|discriminate].
      destruct (lookup vr r); simpl in H; [|discriminate].
      destruct (apply_write _ _ _); simpl in H; [|discriminate].
      inversion H; subst. auto.
    + destruct (eval sg vr ev c) as [cv|]; simpl in H; [|discriminate].
      destruct cv as [| | [|] | | |]; try discriminate.
      * destruct (exec_roots a _ _ _ _ _ _ H w Hw) as [X|X]; [auto|].
        right. unfold stmt_roots. simpl. apply in_roots_acc. auto.
      * destruct (exec_roots b _ _ _ _ _ _ H w Hw) as [X|X]; [auto|].
        right. unfold stmt_roots. simpl. apply in_roots_acc. right. exact X.
    + destruct (eval sg vr ev e) as [v|]; simpl in H; [|discriminate].
      apply (exec_arms_roots ar _ _ _ _ _ _ _ H w Hw).
    + destruct (exec sg ev a vr pend) as [[vr1 pend1]|] eqn:E1; simpl in H; [|discriminate].
      destruct (exec_roots b _ _ _ _ _ _ H w Hw) as [X|X].
      * destruct (exec_roots a _ _ _ _ _ _ E1 w X) as [Y|Y]; [auto|].
        right. unfold stmt_roots. simpl. apply in_roots_acc. auto.
      * right. unfold stmt_roots. simpl. apply in_roots_acc. right. exact X.
    + destruct (eval sg vr ev c) as [cv|]; simpl in H; [|discriminate].
      destruct cv; try discriminate. inversion H; subst. auto.
  - destruct a as [[s|]|chs s r]; intros sg ev v vr pend vr' pend' H w Hw; simpl in H.
    + apply (exec_roots s _ _ _ _ _ _ H w Hw).
    + inversion H; subst. auto.
    + destruct (existsb (choice_eqb v) chs).
      * destruct (exec_roots s _ _ _ _ _ _ H w Hw) as [X|X]; [auto|].
        right. unfold arms_roots. simpl. apply in_roots_acc. auto.
      * destruct (exec_arms_roots r _ _ _ _ _ _ _ H w Hw) as [X|X]; [auto|].
        right. unfold arms_roots. simpl. apply in_roots_acc. right. exact X.
Qed.

Definition conc_roots (c : conc) : list positive := map fst (conc_writes c).

Lemma run_conc_roots sg vr ev c vr' ws :
  run_conc sg vr ev c = Ok (vr', ws) -> forall w, In w ws -> In (wroot w) (conc_roots c).
Proof.
  destruct c as [r p e|r p s alts others|lbl sens body]; simpl; intros H w Hw.
  - destruct (eval sg vr ev e); simpl in H; [|discriminate].
    destruct (resolve sg vr ev p); simpl in H; [|discriminate].
    destruct (lookup sg r); simpl in H; [|discriminate].
    destruct (apply_write _ _ _); simpl in H; [|discriminate].
    inversion H; subst. destruct Hw as [E|[]]. subst w. left. reflexivity.
  - destruct (eval sg vr ev s); simpl in H; [|discriminate].
    destruct (select_alt _ _ _); [|discriminate].
    destruct (eval sg vr ev e); simpl in H; [|discriminate].
    destruct (resolve sg vr ev p); simpl in H; [|discriminate].
    destruct (lookup sg r); simpl in H; [|discriminate].
    destruct (apply_write _ _ _); simpl in H; [|discriminate].
    inversion H; subst. destruct Hw as [E|[]]. subst w. left. reflexivity.
  - destruct (exec sg ev body vr []) as [[vr1 pend1]|] eqn:E; simpl in H; [|discriminate].
    inversion H; subst. apply in_rev in Hw.
    destruct (exec_roots body _ _ _ _ _ _ E w Hw) as [[]|X]. exact X.
Qed.

(** root-level strengthening of [drivers_disjoint]: no two statements assign the same signal *)
Definition pmem (x : positive) (l : list positive) : bool := existsb (Pos.eqb x) l.
Definition lists_disjoint (a b : list positive) : bool := forallb (fun x => negb (pmem x b)) a.
Definition single_driver_roots (d : design) : bool := pairwise lists_disjoint (map conc_roots d.(d_conc)).

Lemma touches_within r ws roots :
  (forall w, In w ws -> In (wroot w) roots) -> touches r ws = true -> In r roots.
Proof.
  intros H T. unfold touches in T. apply existsb_exists in T. destruct T as (w & Hin & E).
  apply Pos.eqb_eq in E. subst r. apply H, Hin.
Qed.

Lemma owners_le_1 (rs : list (list positive)) : forall wss,
  pairwise lists_disjoint rs = true ->
  Forall2 (fun roots ws => forall w, In w ws -> In (wroot w) roots) rs wss ->
  forall r, owners_of r wss <= 1.
Proof.
  induction rs as [|roots rs IH]; intros wss P F r; inversion F as [|? ws ? wss' Hw F']; subst.
  - unfold owners_of. simpl. lia.
  - simpl in P. apply andb_prop in P. destruct P as [P1 P2].
    specialize (IH _ P2 F' r). unfold owners_of in *. simpl.
    destruct (touches r ws) eqn:T; [|exact IH]. simpl.
    assert (Hr : In r roots) by (eapply touches_within; eauto).
    assert (Z : filter (touches r) wss' = []).
    { clear IH P2 F Hw T. revert wss' F'. induction rs as [|roots' rs IH']; intros wss' F'; inversion F' as [|? ws' ? wss'' Hw' F'']; subst.
      - reflexivity.
      - simpl in P1. apply andb_prop in P1. destruct P1 as [Pa Pb]. simpl.
        destruct (touches r ws') eqn:T'.
        + exfalso. assert (Hr' : In r roots') by (eapply touches_within; eauto).
          unfold lists_disjoint in Pa. rewrite forallb_forall in Pa. specialize (Pa r Hr).
          assert (X : pmem r roots' = true) by (apply existsb_exists; exists r; split; [exact Hr' | apply Pos.eqb_refl]).
          rewrite X in Pa. discriminate.
        + apply IH'; assumption. }
    rewrite Z. simpl. lia.
Qed.

(** [single_driver_sound], partial: proved for designs in which different concurrent statements
    assign different SIGNALS ([single_driver_roots], what cohdl's root-level usage check aims
    at).  Whatever variable stores the statements ran with ([vr0], so also under the threading
    of [Sem.run_all]), the write lists they produce can be handed to [Sem.commit] in any
    statement order: the committed store is the same (or both orders end in a run-time error).
    MISSING for the full statement: (1) statements that assign disjoint scalars of one signal
    (accepted by [single_driver]; needs commutation of [setslice] on disjoint ranges),
    (2) independence of the variable store threading from the order (follows from
    [vars_local], frame property of [exec], not proved here). *)
Theorem single_driver_sound_partial d sg ev wss wss' :
  single_driver_roots d = true ->
  Forall2 (fun c ws => exists vr0 vr1, run_conc sg vr0 ev c = Ok (vr1, ws)) d.(d_conc) wss ->
  Permutation wss wss' ->
  res_equiv (commit sg (List.concat wss)) (commit sg (List.concat wss')).
Proof.
  intros S F P. apply commit_perm; [|exact P].
  apply (owners_le_1 (map conc_roots d.(d_conc))); [exact S|].
  clear S P. induction F as [|c ws cs wss0 H F IH]; simpl; constructor; [|exact IH].
  destruct H as (vr0 & vr1 & H). apply (run_conc_roots _ _ _ _ _ _ H).
Qed.

(** non-vacuity: two processes and a concurrent assignment on three different signals *)
Example single_driver_roots_example :
  let d := {| d_sigs := [ {| sd_id := 1; sd_ty := TLogic; sd_dir := DIn; sd_init := VL false; sd_hasdef := false |};
                          {| sd_id := 2; sd_ty := TVec KSlv 4; sd_dir := DOut; sd_init := VV KSlv 4 0; sd_hasdef := false |};
                          {| sd_id := 3; sd_ty := TLogic; sd_dir := DLocal; sd_init := VL false; sd_hasdef := false |} ];
              d_vars := [ {| vd_id := 1; vd_proc := 1; vd_ty := TLogic; vd_init := VL false; vd_hasdef := false |} ];
              d_conc := [ CProc 1 [1%positive] (SSeq (SVar 1 [] (ESig 1)) (SSig 3 [] (EVar 1)));
                          CAssign 2 [SelSlice 3 2] (ELit (VV KSlv 2 1));
                          CAssign 2 [SelIdx (ELit (VI 1))] (ESig 3) ];
              d_clk := None; d_inputs := [1%positive]; d_outputs := [2%positive] |} in
  single_driver d = true /\ single_driver_roots d = false
  /\ single_driver {| d_sigs := d.(d_sigs); d_vars := d.(d_vars);
                      d_conc := CAssign 3 [] (EVar 1) :: d.(d_conc);
                      d_clk := None; d_inputs := []; d_outputs := [] |} = false
  /\ single_driver_roots {| d_sigs := d.(d_sigs); d_vars := d.(d_vars);
                            d_conc := [ CProc 1 [1%positive] (SSig 3 [] (ESig 1)); CAssign 2 [] (ELit (VV KSlv 4 1)) ];
                            d_clk := None; d_inputs := []; d_outputs := [] |} = true.
Proof. vm_compute. repeat split. Qed.

Lemma single_driver_nonvacuous : exists d, single_driver d = true /\ single_driver_roots d = false.
Proof.
  eexists. pose proof single_driver_roots_example as H. cbv zeta in H. destruct H as (A & B & _).
  split; [exact A | exact B].
Qed.
