(** * C06 - static typing of the emitted VHDL subset.

    [typeof] follows the std_logic_1164 / numeric_std signatures exactly as
    [NumStd.eval_*] implements them (result widths included).  Integer literals
    are universal integers ([TInt]); a bare bit-string literal carries the vector
    kind the reader resolved for it; an enumeration literal ([VE k], which does not
    name its type) and an array aggregate take their type from the context
    ([hint]: the other operand of a comparison, the assignment target).

    Second half of the file: soundness against [Sem] ([wt_sound], [exec_sound],
    [run_conc_sound]). *)
From Coq Require Import ZArith NArith PArith List Bool Lia FMapPositive.
From Cohdl Require Import Base.Bits Vhdl.Value Vhdl.NumStd Vhdl.Syntax Vhdl.Sem.
Import ListNotations.
Local Open Scope Z_scope.

(** ** types *)

Fixpoint ty_eqb (a b : ty) : bool :=
  match a, b with
  | TLogic, TLogic | TBool, TBool | TInt, TInt => true
  | TVec k w, TVec k' w' => vkind_eqb k k' && (w =? w')%N
  | TEnum i n, TEnum i' n' => Pos.eqb i i' && (n =? n')%N
  | TArr i n e, TArr i' n' e' => Pos.eqb i i' && (n =? n')%N && ty_eqb e e'
  | _, _ => false
  end.

Definition ty_is (o : option ty) (t : ty) : bool :=
  match o with Some t' => ty_eqb t' t | None => false end.

Record tenv := { te_sig : PM.t ty; te_var : PM.t ty }.

Definition mk_tenv (d : design) : tenv :=
  {| te_sig := fold_left (fun m s => PM.add s.(sd_id) s.(sd_ty) m) d.(d_sigs) (PM.empty ty);
     te_var := fold_left (fun m v => PM.add v.(vd_id) v.(vd_ty) m) d.(d_vars) (PM.empty ty) |}.

(** ** literals *)

Definition scalar_ty (v : value) : option ty :=
  match v with
  | VL _ => Some TLogic
  | VB _ => Some TBool
  | VI _ => Some TInt
  | VV k w x => if (0 <=? x) && (x <? pow2 w) then Some (TVec k w) else None
  | _ => None
  end.

Definition lit_ty (hint : option ty) (v : value) : option ty :=
  match v with
  | VE _ =>
      match hint with
      | Some t => if has_ty t v then Some t else None
      | None => None
      end
  | VA l =>
      match hint with
      | Some t => if has_ty t v then Some t else None
      | None =>
          match l with
          | x :: _ =>
              match scalar_ty x with
              | Some te => let t := TArr 1%positive (N.of_nat (length l)) te in
                           if has_ty t v then Some t else None
              | None => None
              end
          | [] => None
          end
      end
  | _ => scalar_ty v
  end.

(** ** operator signatures (mirror of [NumStd]) *)

Definition is_cmp (op : binop) : bool :=
  match op with OEq | ONe | OLt | OLe | OGt | OGe => true | _ => false end.

Definition is_num (k : vkind) : bool := match k with KSlv => false | _ => true end.

Definition arith_ty (op : binop) (a b : ty) : option ty :=
  match a, b with
  | TVec k wa, TVec k' wb =>
      if is_num k && vkind_eqb k k' then
        Some (TVec k (match op with
                      | OAdd | OSub => N.max wa wb
                      | OMul => wa + wb
                      | ODiv => wa
                      | _ => wb
                      end)%N)
      else None
  | TVec k wa, TInt => if is_num k then Some (TVec k (match op with OMul => wa + wa | _ => wa end)%N) else None
  | TInt, TVec k wb => if is_num k then Some (TVec k (match op with OMul => wb + wb | _ => wb end)%N) else None
  | TInt, TInt => Some TInt
  | _, _ => None
  end.

Definition logic_ty (a b : ty) : option ty :=
  match a, b with
  | TLogic, TLogic => Some TLogic
  | TBool, TBool => Some TBool
  | TVec k wa, TVec k' wb => if vkind_eqb k k' && (wa =? wb)%N then Some (TVec k wa) else None
  | _, _ => None
  end.

Definition concat_ty (a b : ty) : option ty :=
  match a, b with
  | TVec k wa, TVec k' wb => if vkind_eqb k k' then Some (TVec k (wa + wb)%N) else None
  | TVec k wa, TLogic => Some (TVec k (wa + 1)%N)
  | TLogic, TVec k wb => Some (TVec k (1 + wb)%N)
  | TLogic, TLogic => Some (TVec KSlv 2%N)
  | _, _ => None
  end.

Definition cmp_ty (op : binop) (a b : ty) : option ty :=
  match a, b with
  | TVec KSlv wa, TVec KSlv wb => if is_eqop op && (wa =? wb)%N then Some TBool else None
  | TVec k _, TVec k' _ => if is_num k && vkind_eqb k k' then Some TBool else None
  | TVec k _, TInt | TInt, TVec k _ => if is_num k then Some TBool else None
  | TInt, TInt | TLogic, TLogic | TBool, TBool => Some TBool
  | TEnum i n, TEnum i' n' => if Pos.eqb i i' && (n =? n')%N then Some TBool else None
  | _, _ => None
  end.

Definition binop_ty (op : binop) (a b : ty) : option ty :=
  match op with
  | OAdd | OSub | OMul | ODiv | OMod | ORem => arith_ty op a b
  | OAnd | OOr | OXor => logic_ty a b
  | OConcat => concat_ty a b
  | _ => cmp_ty op a b
  end.

Definition unop_ty (op : unop) (a : ty) : option ty :=
  match op, a with
  | UNot, TLogic | UNot, TBool | UNot, TVec _ _ => Some a
  | UNeg, TVec KSgn _ | UAbs, TVec KSgn _ => Some a
  | UNeg, TInt | UAbs, TInt => Some TInt
  | _, _ => None
  end.

Definition fn1_ty (f : fn1) (a : ty) : option ty :=
  match f, a with
  | FToInteger, TVec k _ => if is_num k then Some TInt else None
  | FBoolToSl, TBool => Some TLogic
  | FConvUns, TVec _ w => Some (TVec KUns w)
  | FConvSgn, TVec _ w => Some (TVec KSgn w)
  | FConvSlv, TVec _ w => Some (TVec KSlv w)
  | FQualUns, TVec KUns _ | FQualSgn, TVec KSgn _ | FQualSlv, TVec KSlv _ => Some a
  | _, _ => None
  end.

(** a width argument must be a static natural (the result subtype depends on it) *)
Definition static_nat (e : expr) : option N :=
  match e with
  | ELit (VI n) => if nat_ok n then Some (Z.to_N n) else None
  | _ => None
  end.

Definition fn2_ty (f : fn2) (a : ty) (b : ty) (bw : option N) : option ty :=
  match f, a, b with
  | FResize, TVec k _, TInt => if is_num k then option_map (TVec k) bw else None
  | FShl, TVec k w, TInt | FShr, TVec k w, TInt => if is_num k then Some (TVec k w) else None
  | FToUnsigned, TInt, TInt => option_map (TVec KUns) bw
  | FToSigned, TInt, TInt => option_map (TVec KSgn) bw
  | _, _, _ => None
  end.

(** a static index must lie inside the object; a run-time index is checked when it is evaluated *)
Definition idx_static_ok (i : expr) (n : N) : bool :=
  match i with
  | ELit (VI z) => (0 <=? z) && (z <? Z.of_N n)
  | _ => true
  end.

(** ** expressions *)

Fixpoint typeof (G : tenv) (hint : option ty) (e : expr) {struct e} : option ty :=
  match e with
  | ELit v => lit_ty hint v
  | ESig x => PM.find x G.(te_sig)
  | EVar x => PM.find x G.(te_var)
  | EIdx a i =>
      match typeof G None i with
      | Some TInt =>
          match typeof G None a with
          | Some (TVec _ w) => if idx_static_ok i w then Some TLogic else None
          | Some (TArr _ n el) => if idx_static_ok i n then Some el else None
          | _ => None
          end
      | _ => None
      end
  | ESlice a hi lo =>
      match typeof G None a with
      | Some (TVec k w) => if (lo <=? hi)%N && (hi <? w)%N then Some (TVec k (hi - lo + 1)%N) else None
      | _ => None
      end
  | EUn op a =>
      match typeof G None a with Some ta => unop_ty op ta | None => None end
  | EBin op a b =>
      if is_cmp op then
        (* an enumeration literal on either side takes the type of the other operand *)
        let ta0 := typeof G None a in
        match typeof G ta0 b with
        | Some tb =>
            match (match ta0 with Some _ => ta0 | None => typeof G (Some tb) a end) with
            | Some ta => binop_ty op ta tb
            | None => None
            end
        | None => None
        end
      else
        match typeof G None a, typeof G None b with
        | Some ta, Some tb => binop_ty op ta tb
        | _, _ => None
        end
  | EF1 f a =>
      match typeof G None a with Some ta => fn1_ty f ta | None => None end
  | EF2 f a b =>
      match typeof G None a, typeof G None b with
      | Some ta, Some tb => fn2_ty f ta tb (static_nat b)
      | _, _ => None
      end
  | EEdge _ x =>
      match PM.find x G.(te_sig) with Some TLogic => Some TBool | _ => None end
  end.

(** ** assignment targets: type of the designated sub-element *)

Fixpoint path_ty (G : tenv) (t : ty) (p : list sel) {struct p} : option ty :=
  match p with
  | [] => Some t
  | SelIdx i :: r =>
      match typeof G None i with
      | Some TInt =>
          match t with
          | TVec _ w => match r with [] => if idx_static_ok i w then Some TLogic else None | _ => None end
          | TArr _ n el => if idx_static_ok i n then path_ty G el r else None
          | _ => None
          end
      | _ => None
      end
  | SelSlice hi lo :: r =>
      match t, r with
      | TVec k w, [] => if (lo <=? hi)%N && (hi <? w)%N then Some (TVec k (hi - lo + 1)%N) else None
      | _, _ => None
      end
  end.

Definition wt_assign (G : tenv) (M : PM.t ty) (root : positive) (path : list sel) (e : expr) : bool :=
  match PM.find root M with
  | Some t =>
      match path_ty G t path with
      | Some pt => ty_is (typeof G (Some pt) e) pt
      | None => false
      end
  | None => false
  end.

(** a choice of a case statement / selected assignment has the selector's type; a bit-string
    choice is a bare literal (its vector kind is the selector's), so only the length counts *)
Definition choice_ok (t : ty) (c : value) : bool :=
  match t, c with
  | TVec _ w, VV _ w' x => (w =? w')%N && (0 <=? x) && (x <? pow2 w)
  | TVec _ _, _ => false
  | TArr _ _ _, _ => false
  | _, _ => has_ty t c
  end.

(** ** statements *)

Fixpoint wt_stmt (G : tenv) (s : stmt) {struct s} : bool :=
  match s with
  | SNull => true
  | SSig root path e => wt_assign G G.(te_sig) root path e
  | SVar root path e => wt_assign G G.(te_var) root path e
  | SIf c a b => ty_is (typeof G None c) TBool && wt_stmt G a && wt_stmt G b
  | SCase e ar =>
      match typeof G None e with
      | Some t => wt_arms G t ar
      | None => false
      end
  | SSeq a b => wt_stmt G a && wt_stmt G b
  | SAssert c => ty_is (typeof G None c) TBool
  end
with wt_arms (G : tenv) (t : ty) (a : arms) {struct a} : bool :=
  match a with
  | ANil None => true
  | ANil (Some s) => wt_stmt G s
  | ACons chs s r => forallb (choice_ok t) chs && wt_stmt G s && wt_arms G t r
  end.

Definition wt_conc (G : tenv) (c : conc) : bool :=
  match c with
  | CAssign root path e => wt_assign G G.(te_sig) root path e
  | CSelect root path s alts others =>
      match typeof G None s, PM.find root G.(te_sig) with
      | Some t, Some rt =>
          match path_ty G rt path with
          | Some pt =>
              forallb (fun a => forallb (choice_ok t) (fst a) && ty_is (typeof G (Some pt) (snd a)) pt) alts
              && match others with Some e => ty_is (typeof G (Some pt) e) pt | None => true end
          | None => false
          end
      | _, _ => false
      end
  | CProc _ sens body =>
      forallb (fun x => match PM.find x G.(te_sig) with Some _ => true | None => false end) sens
      && wt_stmt G body
  end.

(** ** case statements: choices pairwise distinct, [others] present *)

Fixpoint distinct_choices (l : list value) : bool :=
  match l with
  | [] => true
  | x :: r => negb (existsb (choice_eqb x) r) && distinct_choices r
  end.

Fixpoint arms_choices (a : arms) : list value :=
  match a with ANil _ => [] | ACons chs _ r => chs ++ arms_choices r end.

Fixpoint arms_has_others (a : arms) : bool :=
  match a with ANil (Some _) => true | ANil None => false | ACons _ _ r => arms_has_others r end.

Fixpoint case_ok_stmt (s : stmt) {struct s} : bool :=
  match s with
  | SNull | SSig _ _ _ | SVar _ _ _ | SAssert _ => true
  | SIf _ a b | SSeq a b => case_ok_stmt a && case_ok_stmt b
  | SCase _ ar => distinct_choices (arms_choices ar) && arms_has_others ar && case_ok_arms ar
  end
with case_ok_arms (a : arms) {struct a} : bool :=
  match a with
  | ANil None => true
  | ANil (Some s) => case_ok_stmt s
  | ACons _ s r => case_ok_stmt s && case_ok_arms r
  end.

Definition case_ok_conc (c : conc) : bool :=
  match c with
  | CAssign _ _ _ => true
  | CSelect _ _ _ alts others =>
      distinct_choices (flat_map fst alts) && match others with Some _ => true | None => false end
  | CProc _ _ body => case_ok_stmt body
  end.

Definition case_ok (d : design) : bool := forallb case_ok_conc d.(d_conc).

(** ** ports: an [out] port is never read, an [in] port never assigned *)

Fixpoint stmt_reads (s : stmt) (acc : list positive) {struct s} : list positive :=
  match s with
  | SNull => acc
  | SSig _ p e | SVar _ p e => reads_path p (reads_expr e acc)
  | SIf c a b => reads_expr c (stmt_reads a (stmt_reads b acc))
  | SCase e ar => reads_expr e (arms_reads ar acc)
  | SSeq a b => stmt_reads a (stmt_reads b acc)
  | SAssert c => reads_expr c acc
  end
with arms_reads (a : arms) (acc : list positive) {struct a} : list positive :=
  match a with
  | ANil None => acc
  | ANil (Some s) => stmt_reads s acc
  | ACons _ s r => stmt_reads s (arms_reads r acc)
  end.

Fixpoint stmt_sig_writes (s : stmt) (acc : list positive) {struct s} : list positive :=
  match s with
  | SSig r _ _ => r :: acc
  | SIf _ a b | SSeq a b => stmt_sig_writes a (stmt_sig_writes b acc)
  | SCase _ ar => arms_sig_writes ar acc
  | SNull | SVar _ _ _ | SAssert _ => acc
  end
with arms_sig_writes (a : arms) (acc : list positive) {struct a} : list positive :=
  match a with
  | ANil None => acc
  | ANil (Some s) => stmt_sig_writes s acc
  | ACons _ s r => stmt_sig_writes s (arms_sig_writes r acc)
  end.

(** signals read by a concurrent statement (for a process: by its body and its sensitivity list) *)
Definition conc_reads (c : conc) : list positive :=
  match c with
  | CProc _ sens body => sens ++ stmt_reads body []
  | _ => conc_sens c
  end.

Definition conc_sig_writes (c : conc) : list positive :=
  match c with
  | CAssign r _ _ | CSelect r _ _ _ _ => [r]
  | CProc _ _ body => stmt_sig_writes body []
  end.

Definition pmem (x : positive) (l : list positive) : bool := existsb (Pos.eqb x) l.

Definition ids_with_dir (d : design) (dr : dir) : list positive :=
  map sd_id (filter (fun s => match s.(sd_dir), dr with DIn, DIn | DOut, DOut | DLocal, DLocal => true | _, _ => false end)
                    d.(d_sigs)).

Definition ports_ok (d : design) : bool :=
  let outs := ids_with_dir d DOut in
  let ins := ids_with_dir d DIn in
  forallb (fun c => forallb (fun x => negb (pmem x outs)) (conc_reads c)
                    && forallb (fun x => negb (pmem x ins)) (conc_sig_writes c)) d.(d_conc).

(** ** sensitivity lists.  Reads that happen only under a clock-edge test need no entry: the
    guarded branch can only run in a delta in which the tested clock has an event. *)

Definition is_edge (e : expr) : option positive :=
  match e with EEdge _ x => Some x | _ => None end.

Fixpoint unguarded_reads (s : stmt) (acc : list positive) {struct s} : list positive :=
  match s with
  | SNull => acc
  | SSig _ p e | SVar _ p e => reads_path p (reads_expr e acc)
  | SIf c a b =>
      match is_edge c with
      | Some clk => clk :: unguarded_reads b acc
      | None => reads_expr c (unguarded_reads a (unguarded_reads b acc))
      end
  | SCase e ar => reads_expr e (arms_unguarded ar acc)
  | SSeq a b => unguarded_reads a (unguarded_reads b acc)
  | SAssert c => reads_expr c acc
  end
with arms_unguarded (a : arms) (acc : list positive) {struct a} : list positive :=
  match a with
  | ANil None => acc
  | ANil (Some s) => unguarded_reads s acc
  | ACons _ s r => unguarded_reads s (arms_unguarded r acc)
  end.

Definition sens_ok_conc (c : conc) : bool :=
  match c with
  | CProc _ sens body =>
      match sens with [] => false | _ => forallb (fun x => pmem x sens) (unguarded_reads body []) end
  | _ => true
  end.

Definition sens_ok (d : design) : bool := forallb sens_ok_conc d.(d_conc).

(** ** declarations and the whole design *)

Definition decls_ok (d : design) : bool :=
  forallb (fun s => has_ty s.(sd_ty) s.(sd_init)) d.(d_sigs)
  && forallb (fun v => has_ty v.(vd_ty) v.(vd_init)) d.(d_vars).

Definition wt_design (d : design) : bool :=
  let G := mk_tenv d in
  decls_ok d && forallb (wt_conc G) d.(d_conc).

(** indices (in [d_conc]) of the ill-typed concurrent statements - for the harness' diagnosis *)
Fixpoint bad_from_nat {A} (p : A -> bool) (l : list A) (i : N) : list N :=
  match l with
  | [] => []
  | x :: r => if p x then bad_from_nat p r (i + 1)%N else i :: bad_from_nat p r (i + 1)%N
  end.

Definition ill_typed_conc (d : design) : list N := bad_from_nat (wt_conc (mk_tenv d)) d.(d_conc) 0%N.

(** port association of an instance: the actual has exactly the formal's type ([conv] = the
    vector kind of a conversion written on the formal side of an [out] port) *)
Record assoc := { as_formal : ty; as_dir : dir; as_conv : option vkind; as_actual : expr }.

Fixpoint expr_path (e : expr) (acc : list sel) : option (bool * positive * list sel) :=
  match e with
  | ESig x => Some (true, x, acc)
  | EVar x => Some (false, x, acc)
  | EIdx a i => expr_path a (SelIdx i :: acc)
  | ESlice a hi lo => expr_path a (SelSlice hi lo :: acc)
  | _ => None
  end.

Definition assoc_ok (G : tenv) (a : assoc) : bool :=
  match a.(as_dir) with
  | DOut =>
      (* the actual is a signal name (with static/run-time selection) of the formal's type *)
      match expr_path a.(as_actual) [] with
      | Some (true, x, p) =>
          match PM.find x G.(te_sig) with
          | Some t =>
              match path_ty G t p, a.(as_conv), a.(as_formal) with
              | Some pt, None, ft => ty_eqb pt ft
              | Some (TVec k w), Some k', TVec _ w' => vkind_eqb k k' && (w =? w')%N
              | _, _, _ => false
              end
          | None => false
          end
      | _ => false
      end
  | _ => ty_is (typeof G (Some a.(as_formal)) a.(as_actual)) a.(as_formal)
  end.
