(** * C06 - static typing of the emitted VHDL subset.

    [typeof] follows the std_logic_1164 / numeric_std signatures exactly as
    [NumStd.eval_*] implements them (result widths included).  Integer literals
    are universal integers ([TInt]); a bare bit-string literal carries the vector
    kind the reader resolved for it; an enumeration literal ([VE k], which does not
    name its type) and an array aggregate take their type from the context
    ([hint]: the other operand of a comparison, the assignment target).

    Second half of the file: soundness against [Sem] ([wt_sound], [exec_sound],
    [run_conc_sound]). *)
From Coq Require Import ZArith NArith PArith List Bool Lia FMapPositive.
From Cohdl Require Import Base.Bits Vhdl.Value Vhdl.NumStd Vhdl.Syntax Vhdl.Sem.
Import ListNotations.
Local Open Scope Z_scope.

(** ** types *)

Fixpoint ty_eqb (a b : ty) : bool :=
  match a, b with
  | TLogic, TLogic | TBool, TBool | TInt, TInt => true
  | TVec k w, TVec k' w' => vkind_eqb k k' && (w =? w')%N
  | TEnum i n, TEnum i' n' => Pos.eqb i i' && (n =? n')%N
  | TArr i n e, TArr i' n' e' => Pos.eqb i i' && (n =? n')%N && ty_eqb e e'
  | _, _ => false
  end.

Definition ty_is (o : option ty) (t : ty) : bool :=
  match o with Some t' => ty_eqb t' t | None => false end.

Record tenv := { te_sig : PM.t ty; te_var : PM.t ty }.

Definition mk_tenv (d : design) : tenv :=
  {| te_sig := fold_left (fun m s => PM.add s.(sd_id) s.(sd_ty) m) d.(d_sigs) (PM.empty ty);
     te_var := fold_left (fun m v => PM.add v.(vd_id) v.(vd_ty) m) d.(d_vars) (PM.empty ty) |}.

(** ** literals *)

Definition scalar_ty (v : value) : option ty :=
  match v with
  | VL _ => Some TLogic
  | VB _ => Some TBool
  | VI _ => Some TInt
  | VV k w x => if (0 <=? x) && (x <? pow2 w) then Some (TVec k w) else None
  | _ => None
  end.

Definition lit_ty (hint : option ty) (v : value) : option ty :=
  match v with
  | VE _ =>
      match hint with
      | Some t => if has_ty t v then Some t else None
      | None => None
      end
  | VA l =>
      match hint with
      | Some t => if has_ty t v then Some t else None
      | None =>
          match l with
          | x :: _ =>
              match scalar_ty x with
              | Some te => let t := TArr 1%positive (N.of_nat (length l)) te in
                           if has_ty t v then Some t else None
              | None => None
              end
          | [] => None
          end
      end
  | _ => scalar_ty v
  end.

(** ** operator signatures (mirror of [NumStd]) *)

Definition is_cmp (op : binop) : bool :=
  match op with OEq | ONe | OLt | OLe | OGt | OGe => true | _ => false end.

Definition is_num (k : vkind) : bool := match k with KSlv => false | _ => true end.

Definition arith_ty (op : binop) (a b : ty) : option ty :=
  match a, b with
  | TVec k wa, TVec k' wb =>
      if is_num k && vkind_eqb k k' then
        Some (TVec k (match op with
                      | OAdd | OSub => N.max wa wb
                      | OMul => wa + wb
                      | ODiv => wa
                      | _ => wb
                      end)%N)
      else None
  | TVec k wa, TInt => if is_num k then Some (TVec k (match op with OMul => wa + wa | _ => wa end)%N) else None
  | TInt, TVec k wb => if is_num k then Some (TVec k (match op with OMul => wb + wb | _ => wb end)%N) else None
  | TInt, TInt => Some TInt
  | _, _ => None
  end.

Definition logic_ty (a b : ty) : option ty :=
  match a, b with
  | TLogic, TLogic => Some TLogic
  | TBool, TBool => Some TBool
  | TVec k wa, TVec k' wb => if vkind_eqb k k' && (wa =? wb)%N then Some (TVec k wa) else None
  | _, _ => None
  end.

Definition concat_ty (a b : ty) : option ty :=
  match a, b with
  | TVec k wa, TVec k' wb => if vkind_eqb k k' then Some (TVec k (wa + wb)%N) else None
  | TVec k wa, TLogic => Some (TVec k (wa + 1)%N)
  | TLogic, TVec k wb => Some (TVec k (1 + wb)%N)
  | TLogic, TLogic => Some (TVec KSlv 2%N)
  | _, _ => None
  end.

Definition cmp_ty (op : binop) (a b : ty) : option ty :=
  match a, b with
  | TVec KSlv wa, TVec KSlv wb => if is_eqop op && (wa =? wb)%N then Some TBool else None
  | TVec k _, TVec k' _ => if is_num k && vkind_eqb k k' then Some TBool else None
  | TVec k _, TInt | TInt, TVec k _ => if is_num k then Some TBool else None
  | TInt, TInt | TLogic, TLogic | TBool, TBool => Some TBool
  | TEnum i n, TEnum i' n' => if Pos.eqb i i' && (n =? n')%N then Some TBool else None
  | _, _ => None
  end.

Definition binop_ty (op : binop) (a b : ty) : option ty :=
  match op with
  | OAdd | OSub | OMul | ODiv | OMod | ORem => arith_ty op a b
  | OAnd | OOr | OXor => logic_ty a b
  | OConcat => concat_ty a b
  | _ => cmp_ty op a b
  end.

Definition unop_ty (op : unop) (a : ty) : option ty :=
  match op, a with
  | UNot, TLogic | UNot, TBool | UNot, TVec _ _ => Some a
  | UNeg, TVec KSgn _ | UAbs, TVec KSgn _ => Some a
  | UNeg, TInt | UAbs, TInt => Some TInt
  | _, _ => None
  end.

Definition fn1_ty (f : fn1) (a : ty) : option ty :=
  match f, a with
  | FToInteger, TVec k _ => if is_num k then Some TInt else None
  | FBoolToSl, TBool => Some TLogic
  | FConvUns, TVec _ w => Some (TVec KUns w)
  | FConvSgn, TVec _ w => Some (TVec KSgn w)
  | FConvSlv, TVec _ w => Some (TVec KSlv w)
  | FQualUns, TVec KUns _ | FQualSgn, TVec KSgn _ | FQualSlv, TVec KSlv _ => Some a
  | _, _ => None
  end.

(** a width argument must be a static natural (the result subtype depends on it) *)
Definition static_nat (e : expr) : option N :=
  match e with
  | ELit (VI n) => if nat_ok n then Some (Z.to_N n) else None
  | _ => None
  end.

Definition fn2_ty (f : fn2) (a : ty) (b : ty) (bw : option N) : option ty :=
  match f, a, b with
  | FResize, TVec k _, TInt => if is_num k then option_map (TVec k) bw else None
  | FShl, TVec k w, TInt | FShr, TVec k w, TInt => if is_num k then Some (TVec k w) else None
  | FToUnsigned, TInt, TInt => option_map (TVec KUns) bw
  | FToSigned, TInt, TInt => option_map (TVec KSgn) bw
  | _, _, _ => None
  end.

(** a static index must lie inside the object; a run-time index is checked when it is evaluated *)
Definition idx_static_ok (i : expr) (n : N) : bool :=
  match i with
  | ELit (VI z) => (0 <=? z) && (z <? Z.of_N n)
  | _ => true
  end.

(** ** expressions *)

Fixpoint typeof (G : tenv) (hint : option ty) (e : expr) {struct e} : option ty :=
  match e with
  | ELit v => lit_ty hint v
  | ESig x => PM.find x G.(te_sig)
  | EVar x => PM.find x G.(te_var)
  | EIdx a i =>
      match typeof G None i with
      | Some TInt =>
          match typeof G None a with
          | Some (TVec _ w) => if idx_static_ok i w then Some TLogic else None
          | Some (TArr _ n el) => if idx_static_ok i n then Some el else None
          | _ => None
          end
      | _ => None
      end
  | ESlice a hi lo =>
      match typeof G None a with
      | Some (TVec k w) => if (lo <=? hi)%N && (hi <? w)%N then Some (TVec k (hi - lo + 1)%N) else None
      | _ => None
      end
  | EUn op a =>
      match typeof G None a with Some ta => unop_ty op ta | None => None end
  | EBin op a b =>
      if is_cmp op then
        (* an enumeration literal on either side takes the type of the other operand *)
        let ta0 := typeof G None a in
        match typeof G ta0 b with
        | Some tb =>
            match (match ta0 with Some _ => ta0 | None => typeof G (Some tb) a end) with
            | Some ta => binop_ty op ta tb
            | None => None
            end
        | None => None
        end
      else
        match typeof G None a, typeof G None b with
        | Some ta, Some tb => binop_ty op ta tb
        | _, _ => None
        end
  | EF1 f a =>
      match typeof G None a with Some ta => fn1_ty f ta | None => None end
  | EF2 f a b =>
      match typeof G None a, typeof G None b with
      | Some ta, Some tb => fn2_ty f ta tb (static_nat b)
      | _, _ => None
      end
  | EEdge _ x =>
      match PM.find x G.(te_sig) with Some TLogic => Some TBool | _ => None end
  end.

(** ** assignment targets: type of the designated sub-element *)

Fixpoint path_ty (G : tenv) (t : ty) (p : list sel) {struct p} : option ty :=
  match p with
  | [] => Some t
  | SelIdx i :: r =>
      match typeof G None i with
      | Some TInt =>
          match t with
          | TVec _ w => match r with [] => if idx_static_ok i w then Some TLogic else None | _ => None end
          | TArr _ n el => if idx_static_ok i n then path_ty G el r else None
          | _ => None
          end
      | _ => None
      end
  | SelSlice hi lo :: r =>
      match t, r with
      | TVec k w, [] => if (lo <=? hi)%N && (hi <? w)%N then Some (TVec k (hi - lo + 1)%N) else None
      | _, _ => None
      end
  end.

Definition wt_assign (G : tenv) (M : PM.t ty) (root : positive) (path : list sel) (e : expr) : bool :=
  match PM.find root M with
  | Some t =>
      match path_ty G t path with
      | Some pt => ty_is (typeof G (Some pt) e) pt
      | None => false
      end
  | None => false
  end.

(** a choice of a case statement / selected assignment has the selector's type; a bit-string
    choice is a bare literal (its vector kind is the selector's), so only the length counts *)
Definition choice_ok (t : ty) (c : value) : bool :=
  match t, c with
  | TVec _ w, VV _ w' x => (w =? w')%N && (0 <=? x) && (x <? pow2 w)
  | TVec _ _, _ => false
  | TArr _ _ _, _ => false
  | _, _ => has_ty t c
  end.

(** ** statements *)

Fixpoint wt_stmt (G : tenv) (s : stmt) {struct s} : bool :=
  match s with
  | SNull => true
  | SSig root path e => wt_assign G G.(te_sig) root path e
  | SVar root path e => wt_assign G G.(te_var) root path e
  | SIf c a b => ty_is (typeof G None c) TBool && wt_stmt G a && wt_stmt G b
  | SCase e ar =>
      match typeof G None e with
      | Some t => wt_arms G t ar
      | None => false
      end
  | SSeq a b => wt_stmt G a && wt_stmt G b
  | SAssert c => ty_is (typeof G None c) TBool
  end
with wt_arms (G : tenv) (t : ty) (a : arms) {struct a} : bool :=
  match a with
  | ANil None => true
  | ANil (Some s) => wt_stmt G s
  | ACons chs s r => forallb (choice_ok t) chs && wt_stmt G s && wt_arms G t r
  end.

Definition wt_conc (G : tenv) (c : conc) : bool :=
  match c with
  | CAssign root path e => wt_assign G G.(te_sig) root path e
  | CSelect root path s alts others =>
      match typeof G None s, PM.find root G.(te_sig) with
      | Some t, Some rt =>
          match path_ty G rt path with
          | Some pt =>
              forallb (fun a => forallb (choice_ok t) (fst a) && ty_is (typeof G (Some pt) (snd a)) pt) alts
              && match others with Some e => ty_is (typeof G (Some pt) e) pt | None => true end
          | None => false
          end
      | _, _ => false
      end
  | CProc _ sens body =>
      forallb (fun x => match PM.find x G.(te_sig) with Some _ => true | None => false end) sens
      && wt_stmt G body
  end.

(** ** case statements: choices pairwise distinct, [others] present *)

Fixpoint distinct_choices (l : list value) : bool :=
  match l with
  | [] => true
  | x :: r => negb (existsb (choice_eqb x) r) && distinct_choices r
  end.

Fixpoint arms_choices (a : arms) : list value :=
  match a with ANil _ => [] | ACons chs _ r => chs ++ arms_choices r end.

Fixpoint arms_has_others (a : arms) : bool :=
  match a with ANil (Some _) => true | ANil None => false | ACons _ _ r => arms_has_others r end.

Fixpoint case_ok_stmt (s : stmt) {struct s} : bool :=
  match s with
  | SNull | SSig _ _ _ | SVar _ _ _ | SAssert _ => true
  | SIf _ a b | SSeq a b => case_ok_stmt a && case_ok_stmt b
  | SCase _ ar => distinct_choices (arms_choices ar) && arms_has_others ar && case_ok_arms ar
  end
with case_ok_arms (a : arms) {struct a} : bool :=
  match a with
  | ANil None => true
  | ANil (Some s) => case_ok_stmt s
  | ACons _ s r => case_ok_stmt s && case_ok_arms r
  end.

Definition case_ok_conc (c : conc) : bool :=
  match c with
  | CAssign _ _ _ => true
  | CSelect _ _ _ alts others =>
      distinct_choices (flat_map fst alts) && match others with Some _ => true | None => false end
  | CProc _ _ body => case_ok_stmt body
  end.

Definition case_ok (d : design) : bool := forallb case_ok_conc d.(d_conc).

(** ** ports: an [out] port is never read, an [in] port never assigned *)

Fixpoint stmt_reads (s : stmt) (acc : list positive) {struct s} : list positive :=
  match s with
  | SNull => acc
  | SSig _ p e | SVar _ p e => reads_path p (reads_expr e acc)
  | SIf c a b => reads_expr c (stmt_reads a (stmt_reads b acc))
  | SCase e ar => reads_expr e (arms_reads ar acc)
  | SSeq a b => stmt_reads a (stmt_reads b acc)
  | SAssert c => reads_expr c acc
  end
with arms_reads (a : arms) (acc : list positive) {struct a} : list positive :=
  match a with
  | ANil None => acc
  | ANil (Some s) => stmt_reads s acc
  | ACons _ s r => stmt_reads s (arms_reads r acc)
  end.

Fixpoint stmt_sig_writes (s : stmt) (acc : list positive) {struct s} : list positive :=
  match s with
  | SSig r _ _ => r :: acc
  | SIf _ a b | SSeq a b => stmt_sig_writes a (stmt_sig_writes b acc)
  | SCase _ ar => arms_sig_writes ar acc
  | SNull | SVar _ _ _ | SAssert _ => acc
  end
with arms_sig_writes (a : arms) (acc : list positive) {struct a} : list positive :=
  match a with
  | ANil None => acc
  | ANil (Some s) => stmt_sig_writes s acc
  | ACons _ s r => stmt_sig_writes s (arms_sig_writes r acc)
  end.

(** signals read by a concurrent statement (for a process: by its body and its sensitivity list) *)
Definition conc_reads (c : conc) : list positive :=
  match c with
  | CProc _ sens body => sens ++ stmt_reads body []
  | _ => conc_sens c
  end.

Definition conc_sig_writes (c : conc) : list positive :=
  match c with
  | CAssign r _ _ | CSelect r _ _ _ _ => [r]
  | CProc _ _ body => stmt_sig_writes body []
  end.

Definition pmem (x : positive) (l : list positive) : bool := existsb (Pos.eqb x) l.

Definition ids_with_dir (d : design) (dr : dir) : list positive :=
  map sd_id (filter (fun s => match s.(sd_dir), dr with DIn, DIn | DOut, DOut | DLocal, DLocal => true | _, _ => false end)
                    d.(d_sigs)).

Definition ports_ok (d : design) : bool :=
  let outs := ids_with_dir d DOut in
  let ins := ids_with_dir d DIn in
  forallb (fun c => forallb (fun x => negb (pmem x outs)) (conc_reads c)
                    && forallb (fun x => negb (pmem x ins)) (conc_sig_writes c)) d.(d_conc).

(** ** sensitivity lists.  Reads that happen only under a clock-edge test need no entry: the
    guarded branch can only run in a delta in which the tested clock has an event. *)

(** the clocks of a guard that is an edge test or a disjunction of edge tests *)
Fixpoint edge_clocks (e : expr) : option (list positive) :=
  match e with
  | EEdge _ x => Some [x]
  | EBin OOr a b =>
      match edge_clocks a, edge_clocks b with
      | Some ca, Some cb => Some (ca ++ cb)
      | _, _ => None
      end
  | _ => None
  end.

Fixpoint unguarded_reads (s : stmt) (acc : list positive) {struct s} : list positive :=
  match s with
  | SNull => acc
  | SSig _ p e | SVar _ p e => reads_path p (reads_expr e acc)
  | SIf c a b =>
      match edge_clocks c with
      | Some clks => clks ++ unguarded_reads b acc
      | None => reads_expr c (unguarded_reads a (unguarded_reads b acc))
      end
  | SCase e ar => reads_expr e (arms_unguarded ar acc)
  | SSeq a b => unguarded_reads a (unguarded_reads b acc)
  | SAssert c => reads_expr c acc
  end
with arms_unguarded (a : arms) (acc : list positive) {struct a} : list positive :=
  match a with
  | ANil None => acc
  | ANil (Some s) => unguarded_reads s acc
  | ACons _ s r => unguarded_reads s (arms_unguarded r acc)
  end.

Definition sens_ok_conc (c : conc) : bool :=
  match c with
  | CProc _ sens body =>
      match sens with [] => false | _ => forallb (fun x => pmem x sens) (unguarded_reads body []) end
  | _ => true
  end.

Definition sens_ok (d : design) : bool := forallb sens_ok_conc d.(d_conc).

(** ** declarations and the whole design *)

Definition decls_ok (d : design) : bool :=
  forallb (fun s => has_ty s.(sd_ty) s.(sd_init)) d.(d_sigs)
  && forallb (fun v => has_ty v.(vd_ty) v.(vd_init)) d.(d_vars).

Definition wt_design (d : design) : bool :=
  let G := mk_tenv d in
  decls_ok d && forallb (wt_conc G) d.(d_conc).

(** indices (in [d_conc]) of the ill-typed concurrent statements - for the harness' diagnosis *)
Fixpoint bad_from_nat {A} (p : A -> bool) (l : list A) (i : N) : list N :=
  match l with
  | [] => []
  | x :: r => if p x then bad_from_nat p r (i + 1)%N else i :: bad_from_nat p r (i + 1)%N
  end.

Definition ill_typed_conc (d : design) : list N := bad_from_nat (wt_conc (mk_tenv d)) d.(d_conc) 0%N.

(** port association of an instance: the actual has exactly the formal's type ([conv] = the
    vector kind of a conversion written on the formal side of an [out] port) *)
Record assoc := { as_formal : ty; as_dir : dir; as_conv : option vkind; as_actual : expr }.

Fixpoint expr_path (e : expr) (acc : list sel) : option (bool * positive * list sel) :=
  match e with
  | ESig x => Some (true, x, acc)
  | EVar x => Some (false, x, acc)
  | EIdx a i => expr_path a (SelIdx i :: acc)
  | ESlice a hi lo => expr_path a (SelSlice hi lo :: acc)
  | _ => None
  end.

Definition assoc_ok (G : tenv) (a : assoc) : bool :=
  match a.(as_dir) with
  | DOut =>
      (* the actual is a signal name (with static/run-time selection) of the formal's type *)
      match expr_path a.(as_actual) [] with
      | Some (true, x, p) =>
          match PM.find x G.(te_sig) with
          | Some t =>
              match path_ty G t p, a.(as_conv), a.(as_formal) with
              | Some pt, None, ft => ty_eqb pt ft
              | Some (TVec k w), Some k', TVec _ w' => vkind_eqb k k' && (w =? w')%N
              | _, _, _ => false
              end
          | None => false
          end
      | _ => false
      end
  | _ => ty_is (typeof G (Some a.(as_formal)) a.(as_actual)) a.(as_formal)
  end.

(** * Soundness of the static typing against the executable semantics ([Sem]) *)


Definition runtime_err (e : err) : bool := match e with EDivZero | ERange => true | _ => false end.
Definition store_ok (M : PM.t ty) (st : store) : Prop :=
  forall x t, PM.find x M = Some t -> exists v, PM.find x st = Some v /\ has_ty t v = true.
Definition res_ok {A} (P : A -> Prop) (r : res A) : Prop :=
  match r with Ok a => P a | Err e => runtime_err e = true end.

(** ** generic facts *)

Lemma res_ok_bind {A B} (P : A -> Prop) (Q : B -> Prop) (r : res A) (f : A -> res B) :
  res_ok P r -> (forall a, r = Ok a -> P a -> res_ok Q (f a)) -> res_ok Q (bind r f).
Proof. destruct r as [a|e]; cbn [res_ok bind]; intros H K; [apply K; [reflexivity|exact H]|exact H]. Qed.

Lemma res_ok_weaken {A} (P Q : A -> Prop) (r : res A) :
  res_ok P r -> (forall a, P a -> Q a) -> res_ok Q r.
Proof. destruct r as [a|e]; cbn [res_ok]; intros H K; [apply K; exact H|exact H]. Qed.

(** ** inversion of [has_ty] *)

Lemma has_ty_logic v : has_ty TLogic v = true -> exists b, v = VL b.
Proof. destruct v; cbn [has_ty]; try discriminate. eauto. Qed.

Lemma has_ty_bool v : has_ty TBool v = true -> exists b, v = VB b.
Proof. destruct v; cbn [has_ty]; try discriminate. eauto. Qed.

Lemma has_ty_int v : has_ty TInt v = true -> exists z, v = VI z.
Proof. destruct v; cbn [has_ty]; try discriminate. eauto. Qed.

Lemma has_ty_vec k w v : has_ty (TVec k w) v = true -> exists x, v = VV k w x /\ 0 <= x < pow2 w.
Proof.
  destruct v as [|k' w' x| | | |]; cbn [has_ty]; try discriminate.
  rewrite !andb_true_iff, vkind_eqb_ok, N.eqb_eq, Z.leb_le, Z.ltb_lt.
  intros [[[Hk Hw] H0] H1]. subst k' w'. exists x. split; [reflexivity|lia].
Qed.

Lemma has_ty_enum i n v : has_ty (TEnum i n) v = true -> exists k, v = VE k.
Proof. destruct v; cbn [has_ty]; try discriminate. eauto. Qed.

Lemma has_ty_arr i n e v : has_ty (TArr i n e) v = true ->
  exists l, v = VA l /\ N.of_nat (length l) = n /\ forallb (has_ty e) l = true.
Proof.
  destruct v as [| | | | |l]; cbn [has_ty]; try discriminate.
  rewrite andb_true_iff, N.eqb_eq. intros [H1 H2]. exists l. auto.
Qed.

Lemma has_ty_vec_intro k w x : 0 <= x < pow2 w -> has_ty (TVec k w) (VV k w x) = true.
Proof.
  intros H. cbn [has_ty]. rewrite !andb_true_iff. split; [split; [split|]|].
  - apply vkind_eqb_ok; reflexivity.
  - apply N.eqb_refl.
  - apply Z.leb_le; lia.
  - apply Z.ltb_lt; lia.
Qed.

Lemma has_ty_arr_intro i e l : forallb (has_ty e) l = true -> has_ty (TArr i (N.of_nat (length l)) e) (VA l) = true.
Proof. intros H. cbn [has_ty]. rewrite N.eqb_refl. exact H. Qed.

Ltac inv_ty :=
  repeat match goal with
  | H : has_ty TLogic ?v = true |- _ => apply has_ty_logic in H; destruct H as [? ->]
  | H : has_ty TBool ?v = true |- _ => apply has_ty_bool in H; destruct H as [? ->]
  | H : has_ty TInt ?v = true |- _ => apply has_ty_int in H; destruct H as [? ->]
  | H : has_ty (TVec _ _) ?v = true |- _ => apply has_ty_vec in H; destruct H as [? [-> ?]]
  | H : has_ty (TEnum _ _) ?v = true |- _ => apply has_ty_enum in H; destruct H as [? ->]
  | H : has_ty (TArr _ _ _) ?v = true |- _ => apply has_ty_arr in H; destruct H as [? [-> [? ?]]]
  end.

Ltac dif H E := match type of H with (if ?c then _ else _) = _ => destruct c eqn:E; [|discriminate H] end.

(** ** range facts *)

Lemma lt_pow2_shiftr x n : 0 <= n -> 0 <= x -> (x < 2 ^ n <-> Z.shiftr x n = 0).
Proof.
  intros Hn Hx. rewrite Z.shiftr_div_pow2 by lia.
  assert (0 < 2 ^ n) by (apply Z.pow_pos_nonneg; lia).
  rewrite Z.div_small_iff by lia. lia.
Qed.

Lemma logic_z_range op w a b : 0 <= a < pow2 w -> 0 <= b < pow2 w -> 0 <= logic_z op a b < pow2 w.
Proof.
  intros Ha Hb. unfold pow2 in *.
  assert (Hn : 0 <= Z.of_N w) by lia.
  assert (Sa : Z.shiftr a (Z.of_N w) = 0) by (apply lt_pow2_shiftr; lia).
  assert (Sb : Z.shiftr b (Z.of_N w) = 0) by (apply lt_pow2_shiftr; lia).
  assert (Hnn : 0 <= logic_z op a b).
  { destruct op; cbn [logic_z];
      first [ apply Z.land_nonneg; lia | apply Z.lor_nonneg; lia | apply Z.lxor_nonneg; split; lia ]. }
  split; [exact Hnn|]. apply lt_pow2_shiftr; [lia|exact Hnn|].
  destruct op; cbn [logic_z]; rewrite ?Z.shiftr_land, ?Z.shiftr_lor, ?Z.shiftr_lxor, Sa, Sb; reflexivity.
Qed.

Lemma concat_range wa wb va vb : 0 <= va < pow2 wa -> 0 <= vb < pow2 wb -> 0 <= va * pow2 wb + vb < pow2 (wa + wb).
Proof. intros Ha Hb. rewrite pow2_add. pose proof (pow2_pos wb). nia. Qed.

Lemma pow2_pred n : n <> 0%N -> pow2 n = 2 * pow2 (n - 1).
Proof. intros H. replace n with (N.succ (n - 1)) at 1 by lia. apply pow2_succ. Qed.

Lemma sresize_range w v n : 0 <= sresize w v n < pow2 n.
Proof.
  unfold sresize. destruct (N.eqb_spec n 0) as [->|Hn].
  - rewrite pow2_0. lia.
  - destruct (w <=? n)%N.
    + apply wrap_range.
    + pose proof (pow2_pred n Hn). pose proof (wrap_range (n - 1) v). pose proof (pow2_pos (n - 1)).
      destruct (bitof v (w - 1)); lia.
Qed.

(** ** operators *)

Lemma mk_int_ok z : res_ok (fun v => has_ty TInt v = true) (mk_int z).
Proof. unfold mk_int. destruct (_ && _); reflexivity. Qed.

Ltac fin :=
  repeat match goal with
  | |- res_ok _ (if ?c then _ else _) => destruct c
  | |- res_ok _ (Err _) => reflexivity
  | |- res_ok _ (mk_int _) => apply mk_int_ok
  | |- res_ok _ (Ok _) => cbn [res_ok]
  | |- has_ty _ (mkU _ _) = true => unfold mkU; apply has_ty_vec_intro, wrap_range
  | |- has_ty _ (mkS _ _) = true => unfold mkS; apply has_ty_vec_intro, wrap_range
  end.

Definition is_arith (op : binop) : bool :=
  match op with OAdd | OSub | OMul | ODiv | OMod | ORem => true | _ => false end.

Lemma arith_sound op ta tb t a b : is_arith op = true -> arith_ty op ta tb = Some t ->
  has_ty ta a = true -> has_ty tb b = true -> res_ok (fun v => has_ty t v = true) (arith op a b).
Proof.
  intros Hop H Ha Hb.
  destruct ta as [| | |ka wa| |], tb as [| | |kb wb| |]; cbn [arith_ty] in H; try discriminate H; inv_ty;
    repeat match goal with k : vkind |- _ => destruct k end;
    cbn [is_num vkind_eqb andb] in H; try discriminate H;
    destruct op; try discriminate Hop; injection H as <-; cbn [arith]; fin.
Qed.

Lemma logic_sound op ta tb t a b : logic_ty ta tb = Some t ->
  has_ty ta a = true -> has_ty tb b = true -> res_ok (fun v => has_ty t v = true) (logic op a b).
Proof.
  intros H Ha Hb.
  destruct ta as [| | |ka wa| |], tb as [| | |kb wb| |]; cbn [logic_ty] in H; try discriminate H; inv_ty.
  - injection H as <-. reflexivity.
  - injection H as <-. reflexivity.
  - dif H E. injection H as <-. apply andb_true_iff in E. destruct E as [Ek Ew].
    apply vkind_eqb_ok in Ek. apply N.eqb_eq in Ew. subst kb wb.
    cbn [logic]. replace (vkind_eqb ka ka) with true by (symmetry; apply vkind_eqb_ok; reflexivity).
    rewrite N.eqb_refl. cbn [res_ok]. apply has_ty_vec_intro, logic_z_range; assumption.
Qed.

Lemma concat_sound ta tb t a b : concat_ty ta tb = Some t ->
  has_ty ta a = true -> has_ty tb b = true -> res_ok (fun v => has_ty t v = true) (concat a b).
Proof.
  intros H Ha Hb.
  destruct ta as [| | |ka wa| |], tb as [| | |kb wb| |]; cbn [concat_ty] in H; try discriminate H; inv_ty.
  - injection H as <-. cbn [concat res_ok]. apply has_ty_vec_intro. change (pow2 2) with 4.
    match goal with |- context[if ?x then 2 else 0] => destruct x end;
    match goal with |- context[if ?y then 1 else 0] => destruct y end; lia.
  - injection H as <-. cbn [concat res_ok]. apply has_ty_vec_intro.
    rewrite pow2_add. change (pow2 1) with 2.
    match goal with |- context[if ?x then _ else 0] => destruct x end; lia.
  - injection H as <-. cbn [concat res_ok]. apply has_ty_vec_intro.
    rewrite pow2_add. change (pow2 1) with 2.
    match goal with |- context[if ?x then 1 else 0] => destruct x end; lia.
  - dif H E. injection H as <-. cbn [concat]. rewrite E. cbn [res_ok].
    apply has_ty_vec_intro, concat_range; assumption.
Qed.

Lemma cmp_sound op ta tb t a b : is_cmp op = true -> cmp_ty op ta tb = Some t ->
  has_ty ta a = true -> has_ty tb b = true -> res_ok (fun v => has_ty t v = true) (compare op a b).
Proof.
  intros Hop H Ha Hb.
  destruct ta as [| | |ka wa|ia na|], tb as [| | |kb wb|ib nb|]; cbn [cmp_ty] in H; try discriminate H;
    repeat match goal with k : vkind |- _ => destruct k end;
    cbn [cmp_ty is_num vkind_eqb andb] in H; try discriminate H; inv_ty;
    try (injection H as <-; destruct op; try discriminate Hop; cbn [compare is_eqop]; fin; reflexivity).
  - (* slv = slv *)
    destruct (is_eqop op) eqn:Eo; cbn [andb] in H; [|discriminate H]. dif H E. injection H as <-.
    cbn [compare]. rewrite Eo. reflexivity.
  - (* enum *)
    dif H E. injection H as <-. reflexivity.
Qed.

Lemma binop_sound op ta tb t a b : binop_ty op ta tb = Some t ->
  has_ty ta a = true -> has_ty tb b = true -> res_ok (fun v => has_ty t v = true) (eval_binop op a b).
Proof.
  intros H Ha Hb. destruct op; cbn [binop_ty eval_binop] in *;
  first [ eapply arith_sound; [|exact H|exact Ha|exact Hb]; reflexivity
        | exact (logic_sound _ _ _ _ _ _ H Ha Hb)
        | exact (concat_sound _ _ _ _ _ H Ha Hb)
        | eapply cmp_sound; [|exact H|exact Ha|exact Hb]; reflexivity ].
Qed.

Lemma unop_sound op ta t a : unop_ty op ta = Some t -> has_ty ta a = true ->
  res_ok (fun v => has_ty t v = true) (eval_unop op a).
Proof.
  intros H Ha.
  destruct op, ta as [| | |k w| |]; cbn [unop_ty] in H; try discriminate H;
    repeat match goal with k : vkind |- _ => destruct k end; try discriminate H;
    injection H as <-; inv_ty; cbn [eval_unop]; fin; try reflexivity;
    apply has_ty_vec_intro; unfold ones; lia.
Qed.

Lemma fn1_sound f ta t a : fn1_ty f ta = Some t -> has_ty ta a = true ->
  res_ok (fun v => has_ty t v = true) (eval_fn1 f a).
Proof.
  intros H Ha.
  destruct f, ta as [| | |k w| |]; cbn [fn1_ty] in H; try discriminate H;
    repeat match goal with k : vkind |- _ => destruct k end; cbn [is_num] in H; try discriminate H;
    injection H as <-; inv_ty; cbn [eval_fn1]; fin; try reflexivity;
    apply has_ty_vec_intro; assumption.
Qed.

Lemma fn2_sound f ta tb bw t a b : fn2_ty f ta tb bw = Some t ->
  has_ty ta a = true -> has_ty tb b = true ->
  (forall n, bw = Some n -> exists z, b = VI z /\ nat_ok z = true /\ n = Z.to_N z) ->
  res_ok (fun v => has_ty t v = true) (eval_fn2 f a b).
Proof.
  intros H Ha Hb Hbw.
  destruct f, ta as [| | |k w| |], tb as [| | |k' w'| |]; cbn [fn2_ty] in H; try discriminate H;
    repeat match goal with k : vkind |- _ => destruct k end; cbn [is_num] in H; try discriminate H; inv_ty.
  all: try (injection H as <-; cbn [eval_fn2]; fin; fail).
  all: destruct bw as [n|]; cbn [option_map] in H; try discriminate H; injection H as <-;
       destruct (Hbw n eq_refl) as [z [Ez [Hz En]]]; injection Ez as Ez; subst;
       cbn [eval_fn2]; fin; apply has_ty_vec_intro; first [apply wrap_range | apply sresize_range].
Qed.

Lemma index_vec_sound k w a n : has_ty (TVec k w) a = true -> has_ty TInt n = true ->
  res_ok (fun v => has_ty TLogic v = true) (index_val a n).
Proof. intros Ha Hn. inv_ty. cbn [index_val]. fin. reflexivity. Qed.

Lemma forallb_nth_error {A} (p : A -> bool) l n x : forallb p l = true -> nth_error l n = Some x -> p x = true.
Proof. intros H E. apply nth_error_In in E. rewrite forallb_forall in H. apply H. exact E. Qed.

Lemma index_arr_sound i m e a n : has_ty (TArr i m e) a = true -> has_ty TInt n = true ->
  res_ok (fun v => has_ty e v = true) (index_val a n).
Proof.
  intros Ha Hn. inv_ty. cbn [index_val].
  match goal with |- context[nth_error ?l ?k] => destruct (nth_error l k) eqn:E end; fin.
  eapply forallb_nth_error; eauto.
Qed.

Lemma slice_sound k w hi lo a : has_ty (TVec k w) a = true -> ((lo <=? hi)%N && (hi <? w)%N) = true ->
  res_ok (fun v => has_ty (TVec k (hi - lo + 1)) v = true) (slice_val a hi lo).
Proof.
  intros Ha H. inv_ty. cbn [slice_val]. rewrite H. cbn [res_ok].
  apply has_ty_vec_intro, getslice_range.
Qed.

Lemma lit_ty_sound h v t : lit_ty h v = Some t -> has_ty t v = true.
Proof.
  intros H. destruct v as [b|k w x|b|z|k|l]; cbn [lit_ty scalar_ty] in H.
  - injection H as <-. reflexivity.
  - dif H E. injection H as <-. apply andb_true_iff in E. destruct E as [E1 E2].
    apply Z.leb_le in E1. apply Z.ltb_lt in E2. apply has_ty_vec_intro. lia.
  - injection H as <-. reflexivity.
  - injection H as <-. reflexivity.
  - destruct h as [t0|]; [|discriminate H]. dif H E. injection H as <-. exact E.
  - destruct h as [t0|].
    + dif H E. injection H as <-. exact E.
    + destruct l as [|x r]; [discriminate H|]. destruct (scalar_ty x) as [te|]; [|discriminate H].
      cbv zeta in H. dif H E. injection H as <-. exact E.
Qed.

Lemma lookup_sound M st x t : store_ok M st -> PM.find x M = Some t ->
  res_ok (fun v => has_ty t v = true) (lookup st x).
Proof. intros Hst H. unfold lookup. destruct (Hst x t H) as [v [-> Hv]]. exact Hv. Qed.

Lemma static_nat_inv b n : static_nat b = Some n ->
  exists z, b = ELit (VI z) /\ nat_ok z = true /\ n = Z.to_N z.
Proof.
  destruct b as [v| | | | | | | | |]; cbn [static_nat]; try discriminate.
  destruct v as [| | |z| |]; try discriminate.
  destruct (nat_ok z) eqn:E; [|discriminate]. intros [= <-]. eauto.
Qed.

(** ** 1. expressions *)

Theorem wt_sound : forall G sg vr ev e h t,
  store_ok G.(te_sig) sg -> store_ok G.(te_var) vr -> typeof G h e = Some t ->
  res_ok (fun v => has_ty t v = true) (eval sg vr ev e).
Proof.
  intros G sg vr ev e h t Hsg Hvr. revert h t.
  induction e as [v|x|x|a IHa i IHi|a IHa hi lo|op a IHa|op a IHa b IHb|f a IHa|f a IHa b IHb|r x];
    intros h t Ht; cbn [typeof eval] in Ht |- *.
  - cbn [res_ok]. eapply lit_ty_sound; eauto.
  - eapply lookup_sound; eauto.
  - eapply lookup_sound; eauto.
  - destruct (typeof G None i) as [ti|] eqn:Ei; [|discriminate Ht].
    destruct ti; try discriminate Ht.
    destruct (typeof G None a) as [ta|] eqn:Ea; [|discriminate Ht].
    apply (res_ok_bind (fun v => has_ty ta v = true)); [exact (IHa None ta Ea)|]. intros xa _ Hxa.
    apply (res_ok_bind (fun v => has_ty TInt v = true)); [exact (IHi None TInt Ei)|]. intros xn _ Hxn.
    destruct ta as [| | |k w| |id n el]; try discriminate Ht.
    + dif Ht E. injection Ht as <-. eapply index_vec_sound; eauto.
    + dif Ht E. injection Ht as <-. eapply index_arr_sound; eauto.
  - destruct (typeof G None a) as [ta|] eqn:Ea; [|discriminate Ht].
    apply (res_ok_bind (fun v => has_ty ta v = true)); [exact (IHa None ta Ea)|]. intros xa _ Hxa.
    destruct ta as [| | |k w| |]; try discriminate Ht.
    dif Ht E. injection Ht as <-. eapply slice_sound; eassumption.
  - destruct (typeof G None a) as [ta|] eqn:Ea; [|discriminate Ht].
    apply (res_ok_bind (fun v => has_ty ta v = true)); [exact (IHa None ta Ea)|]. intros xa _ Hxa.
    eapply unop_sound; eauto.
  - assert (K : exists ha hb ta tb, typeof G ha a = Some ta /\ typeof G hb b = Some tb /\ binop_ty op ta tb = Some t).
    { destruct (is_cmp op).
      - destruct (typeof G None a) as [ta0|] eqn:Ea0.
        + destruct (typeof G (Some ta0) b) as [tb|] eqn:Eb; [|discriminate Ht].
          exists None, (Some ta0), ta0, tb. auto.
        + destruct (typeof G None b) as [tb|] eqn:Eb; [|discriminate Ht].
          destruct (typeof G (Some tb) a) as [ta|] eqn:Ea; [|discriminate Ht].
          exists (Some tb), None, ta, tb. auto.
      - destruct (typeof G None a) as [ta|] eqn:Ea; [|discriminate Ht].
        destruct (typeof G None b) as [tb|] eqn:Eb; [|discriminate Ht].
        exists None, None, ta, tb. auto. }
    destruct K as [ha [hb [ta [tb [Ea [Eb Hop]]]]]].
    apply (res_ok_bind (fun v => has_ty ta v = true)); [exact (IHa ha ta Ea)|]. intros xa _ Hxa.
    apply (res_ok_bind (fun v => has_ty tb v = true)); [exact (IHb hb tb Eb)|]. intros xb _ Hxb.
    eapply binop_sound; eauto.
  - destruct (typeof G None a) as [ta|] eqn:Ea; [|discriminate Ht].
    apply (res_ok_bind (fun v => has_ty ta v = true)); [exact (IHa None ta Ea)|]. intros xa _ Hxa.
    eapply fn1_sound; eauto.
  - destruct (typeof G None a) as [ta|] eqn:Ea; [|discriminate Ht].
    destruct (typeof G None b) as [tb|] eqn:Eb; [|discriminate Ht].
    apply (res_ok_bind (fun v => has_ty ta v = true)); [exact (IHa None ta Ea)|]. intros xa _ Hxa.
    apply (res_ok_bind (fun v => has_ty tb v = true)); [exact (IHb None tb Eb)|]. intros xb Exb Hxb.
    eapply fn2_sound; eauto.
    intros n Hn. apply static_nat_inv in Hn. destruct Hn as [z [-> [Hz ->]]].
    cbn [eval] in Exb. injection Exb as <-. eauto.
  - destruct (PM.find x (te_sig G)) as [tx|] eqn:Ex; [|discriminate Ht].
    destruct tx; try discriminate Ht. injection Ht as <-.
    apply (res_ok_bind (fun v => has_ty TLogic v = true)); [eapply lookup_sound; eauto|]. intros xv _ Hxv.
    inv_ty. reflexivity.
Qed.

(** ** 2. assignment targets and statements *)

Lemma ty_eqb_eq a b : ty_eqb a b = true -> a = b.
Proof.
  revert b. induction a as [| | |k w|i n|i n e IH]; intros b; destruct b; cbn [ty_eqb]; try discriminate; try reflexivity.
  - rewrite andb_true_iff, vkind_eqb_ok, N.eqb_eq. intros [-> ->]; reflexivity.
  - rewrite andb_true_iff, Pos.eqb_eq, N.eqb_eq. intros [-> ->]; reflexivity.
  - rewrite !andb_true_iff, Pos.eqb_eq, N.eqb_eq. intros [[-> ->] H]. f_equal. apply IH; exact H.
Qed.

Lemma ty_is_eq o t : ty_is o t = true -> o = Some t.
Proof. destruct o as [t'|]; cbn [ty_is]; [|discriminate]. intros H. apply ty_eqb_eq in H. congruence. Qed.

Lemma vkind_eqb_refl k : vkind_eqb k k = true.
Proof. apply vkind_eqb_ok; reflexivity. Qed.

Lemma has_ty_shape_eqb : forall t a b, has_ty t a = true -> has_ty t b = true -> shape_eqb a b = true.
Proof.
  induction t as [| | |k w|i n|i n e IH]; intros a b Ha Hb.
  - inv_ty; reflexivity.
  - inv_ty; reflexivity.
  - inv_ty; reflexivity.
  - inv_ty. cbn [shape_eqb]. rewrite vkind_eqb_refl, N.eqb_refl. reflexivity.
  - inv_ty; reflexivity.
  - apply has_ty_arr in Ha. destruct Ha as [l [-> [Hl Hf]]].
    apply has_ty_arr in Hb. destruct Hb as [l' [-> [Hl' Hf']]].
    assert (Hlen : length l = length l') by lia. clear Hl Hl'.
    cbn [shape_eqb].
    revert l' Hf' Hlen. induction l as [|x r IHr]; intros [|y r'] Hf' Hlen; cbn [length] in Hlen; try discriminate Hlen.
    + reflexivity.
    + cbn [forallb] in Hf, Hf'. apply andb_true_iff in Hf. apply andb_true_iff in Hf'.
      destruct Hf as [Hx Hr], Hf' as [Hy Hr'].
      rewrite (IH x y Hx Hy). cbn [andb]. apply IHr; try assumption. lia.
Qed.

Lemma list_set_length {A} (l : list A) n x : length (list_set l n x) = length l.
Proof.
  revert n; induction l as [|y r IH]; intros [|n]; cbn [list_set length]; try reflexivity.
  rewrite IH; reflexivity.
Qed.

Lemma list_set_forallb {A} (p : A -> bool) l n x :
  forallb p l = true -> p x = true -> forallb p (list_set l n x) = true.
Proof.
  revert n; induction l as [|y r IH]; intros [|n] Hl Hx; cbn [list_set forallb] in *; try reflexivity.
  - apply andb_true_iff in Hl. destruct Hl as [_ Hr]. rewrite Hx, Hr. reflexivity.
  - apply andb_true_iff in Hl. destruct Hl as [Hy Hr]. rewrite Hy, IH by assumption. reflexivity.
Qed.

Lemma setslice_arith v A B C x : 0 < A -> 0 < B -> 0 < C -> 0 <= v < A * B * C ->
  0 <= v - ((v / A) mod B) * A + (x mod B) * A < A * B * C.
Proof.
  intros HA HB HC Hv.
  pose proof (Z.div_mod v A ltac:(lia)) as E1. pose proof (Z.mod_pos_bound v A HA) as B1.
  pose proof (Z.div_mod (v / A) B ltac:(lia)) as E2. pose proof (Z.mod_pos_bound (v / A) B HB) as B2.
  pose proof (Z.mod_pos_bound x B HB) as B3.
  assert (Hq : 0 <= v / A) by (apply Z.div_pos; lia).
  assert (Hq2 : 0 <= v / A / B) by (apply Z.div_pos; lia).
  remember (v / A) as q eqn:Eq. remember (v mod A) as r0 eqn:Er0.
  remember (q / B) as q2 eqn:Eq2. remember (q mod B) as m eqn:Em. remember (x mod B) as x' eqn:Ex'.
  clear Eq Er0 Eq2 Em Ex'.
  assert (HAB : 0 < A * B) by nia.
  assert (Hlt : q2 < C).
  { destruct (Z.lt_ge_cases q2 C) as [|Hge]; [assumption|]. exfalso.
    assert (A * B * C <= A * B * q2) by (apply Z.mul_le_mono_nonneg_l; lia). nia. }
  assert (H1 : x' * A <= (B - 1) * A) by (apply Z.mul_le_mono_nonneg_r; lia).
  assert (H2 : A * B * (q2 + 1) <= A * B * C) by (apply Z.mul_le_mono_nonneg_l; lia).
  assert (H3 : 0 <= A * B * q2) by (apply Z.mul_nonneg_nonneg; lia).
  assert (H4 : 0 <= x' * A) by (apply Z.mul_nonneg_nonneg; lia).
  subst v q. nia.
Qed.

Lemma setslice_range v lo len x w : 0 <= v < pow2 w -> (lo + len <= w)%N ->
  0 <= setslice v lo len x < pow2 w.
Proof.
  intros Hv Hw. unfold setslice, getslice.
  assert (E : pow2 w = pow2 lo * pow2 len * pow2 (w - lo - len)).
  { rewrite <- !pow2_add. f_equal. lia. }
  rewrite E in *. apply setslice_arith; try apply pow2_pos. exact Hv.
Qed.

Lemma write_sound G sg vr ev : store_ok G.(te_sig) sg -> store_ok G.(te_var) vr ->
  forall p t pt x, path_ty G t p = Some pt -> has_ty pt x = true ->
  res_ok (fun rp => forall base, has_ty t base = true ->
                    res_ok (fun nv => has_ty t nv = true) (apply_write base rp x))
         (resolve sg vr ev p).
Proof.
  intros Hsg Hvr. induction p as [|s r IH]; intros t pt x Hp Hx.
  - cbn [path_ty] in Hp. injection Hp as <-. cbn [resolve res_ok]. intros base Hb. cbn [apply_write].
    rewrite (has_ty_shape_eqb t base x Hb Hx). exact Hx.
  - destruct s as [i|hi lo]; cbn [path_ty] in Hp; cbn [resolve].
    + destruct (typeof G None i) as [ti|] eqn:Ei; [|discriminate Hp]. destruct ti; try discriminate Hp.
      apply (res_ok_bind (fun v => has_ty TInt v = true)); [exact (wt_sound G sg vr ev i None TInt Hsg Hvr Ei)|].
      intros n _ Hn. apply has_ty_int in Hn. destruct Hn as [z ->].
      destruct (0 <=? z); [|reflexivity].
      destruct t as [| | |k w| |id m el]; try discriminate Hp.
      * destruct r as [|s' r']; [|discriminate Hp]. dif Hp E. injection Hp as <-.
        cbn [resolve bind res_ok]. intros base Hb.
        apply has_ty_vec in Hb. destruct Hb as [v [-> Hv]].
        apply has_ty_logic in Hx. destruct Hx as [b ->].
        cbn [apply_write]. destruct (N.ltb_spec (Z.to_N z) w) as [Hlt|Hge]; [|reflexivity].
        cbn [res_ok]. apply has_ty_vec_intro. unfold setbit. apply setslice_range; [exact Hv|lia].
      * dif Hp E.
        apply (res_ok_bind (fun rp => forall base, has_ty el base = true ->
                 res_ok (fun nv => has_ty el nv = true) (apply_write base rp x))); [exact (IH el pt x Hp Hx)|].
        intros rp _ Hrp. cbn [res_ok]. intros base Hb.
        apply has_ty_arr in Hb. destruct Hb as [l [-> [Hl Hf]]].
        cbn [apply_write]. destruct (nth_error l (N.to_nat (Z.to_N z))) as [elv|] eqn:En; [|reflexivity].
        apply (res_ok_bind (fun nv => has_ty el nv = true)); [apply Hrp; eapply forallb_nth_error; eauto|].
        intros nv _ Hnv. cbn [res_ok has_ty]. rewrite list_set_length.
        apply andb_true_iff. split; [apply N.eqb_eq; exact Hl|apply list_set_forallb; assumption].
    + destruct t as [| | |k w| |]; try discriminate Hp.
      destruct r as [|s' r']; [|discriminate Hp]. dif Hp E. injection Hp as <-.
      cbn [resolve bind res_ok]. intros base Hb.
      apply has_ty_vec in Hb. destruct Hb as [v [-> Hv]].
      apply has_ty_vec in Hx. destruct Hx as [v' [-> Hv']].
      cbn [apply_write].
      replace (vkind_eqb k k) with true by (symmetry; apply vkind_eqb_ok; reflexivity).
      rewrite E, N.eqb_refl. cbn [negb res_ok].
      apply andb_true_iff in E. destruct E as [E1 E2]. apply N.leb_le in E1. apply N.ltb_lt in E2.
      apply has_ty_vec_intro, setslice_range; [exact Hv|lia].
Qed.

Lemma apply_write_sound G sg vr ev t p pt base x rp :
  store_ok G.(te_sig) sg -> store_ok G.(te_var) vr ->
  path_ty G t p = Some pt -> resolve sg vr ev p = Ok rp ->
  has_ty t base = true -> has_ty pt x = true ->
  res_ok (fun nv => has_ty t nv = true) (apply_write base rp x).
Proof.
  intros Hsg Hvr Hp Hr Hb Hx.
  pose proof (write_sound G sg vr ev Hsg Hvr p t pt x Hp Hx) as W.
  rewrite Hr in W. exact (W base Hb).
Qed.

Lemma wt_assign_inv G M root path e : wt_assign G M root path e = true ->
  exists t pt, PM.find root M = Some t /\ path_ty G t path = Some pt /\ typeof G (Some pt) e = Some pt.
Proof.
  unfold wt_assign. destruct (PM.find root M) as [t|] eqn:Er; [|discriminate].
  destruct (path_ty G t path) as [pt|] eqn:Ep; [|discriminate].
  intros H. apply ty_is_eq in H. exists t, pt. split; [reflexivity|]. split; [exact Ep|exact H].
Qed.

Lemma assign_sound G sg vr ev M st root path e B (Q : B -> Prop) (k : value -> list rsel -> value -> res B) t pt :
  store_ok G.(te_sig) sg -> store_ok G.(te_var) vr -> store_ok M st ->
  PM.find root M = Some t -> path_ty G t path = Some pt -> typeof G (Some pt) e = Some pt ->
  (forall x rp nv, has_ty t nv = true -> res_ok Q (k x rp nv)) ->
  res_ok Q (do x <- eval sg vr ev e; do rp <- resolve sg vr ev path; do base <- lookup st root;
            do nv <- apply_write base rp x; k x rp nv).
Proof.
  intros Hsg Hvr Hst Hroot Hp He Hk.
  apply (res_ok_bind (fun v => has_ty pt v = true)); [exact (wt_sound G sg vr ev e (Some pt) pt Hsg Hvr He)|].
  intros x _ Hx.
  eapply res_ok_bind; [exact (write_sound G sg vr ev Hsg Hvr path t pt x Hp Hx)|].
  intros rp _ Hrp.
  apply (res_ok_bind (fun v => has_ty t v = true)); [exact (lookup_sound M st root t Hst Hroot)|].
  intros base _ Hb.
  apply (res_ok_bind (fun v => has_ty t v = true)); [exact (Hrp base Hb)|].
  intros nv _ Hnv. apply Hk. exact Hnv.
Qed.

Lemma store_ok_add M st root t nv : store_ok M st -> PM.find root M = Some t -> has_ty t nv = true ->
  store_ok M (PM.add root nv st).
Proof.
  intros Hst Hroot Hnv x t' Hx. destruct (Pos.eq_dec x root) as [->|Hne].
  - rewrite PM.gss. rewrite Hroot in Hx. injection Hx as <-. eauto.
  - rewrite PM.gso by exact Hne. apply Hst. exact Hx.
Qed.

Section Exec.
  Variable G : tenv.
  Variables (sg : store) (ev : PS.t).
  Hypothesis Hsg : store_ok G.(te_sig) sg.

  Definition stmt_ok (s : stmt) : Prop :=
    forall vr pend, wt_stmt G s = true -> store_ok G.(te_var) vr ->
      res_ok (fun r => store_ok G.(te_var) (fst r)) (exec sg ev s vr pend).

  Definition arms_ok (a : arms) : Prop :=
    forall t v vr pend, wt_arms G t a = true -> store_ok G.(te_var) vr ->
      res_ok (fun r => store_ok G.(te_var) (fst r)) (exec_arms sg ev v a vr pend).

  Fixpoint exec_sound_stmt (s : stmt) {struct s} : stmt_ok s
  with exec_sound_arms (a : arms) {struct a} : arms_ok a.
  Proof.
    - destruct s as [|root path e|root path e|c a b|e ar|a b|c]; unfold stmt_ok; intros vr pend Hwt Hvr;
        cbn [wt_stmt] in Hwt; cbn [exec].
      + exact Hvr.
      + apply wt_assign_inv in Hwt. destruct Hwt as [t [pt [Hroot [Hp He]]]].
        apply (assign_sound G sg vr ev (te_sig G) sg root path e _ _
                 (fun x rp _ => Ok (vr, (root, rp, x) :: pend)) t pt Hsg Hvr Hsg Hroot Hp He).
        intros x rp nv _. exact Hvr.
      + apply wt_assign_inv in Hwt. destruct Hwt as [t [pt [Hroot [Hp He]]]].
        apply (assign_sound G sg vr ev (te_var G) vr root path e _ _
                 (fun _ _ nv => Ok (PM.add root nv vr, pend)) t pt Hsg Hvr Hvr Hroot Hp He).
        intros x rp nv Hnv. cbn [res_ok fst]. eapply store_ok_add; eauto.
      + apply andb_true_iff in Hwt. destruct Hwt as [Hwt Hb]. apply andb_true_iff in Hwt. destruct Hwt as [Hc Ha].
        apply ty_is_eq in Hc.
        apply (res_ok_bind (fun v => has_ty TBool v = true)); [exact (wt_sound G sg vr ev c None TBool Hsg Hvr Hc)|].
        intros cv _ Hcv. apply has_ty_bool in Hcv. destruct Hcv as [[|] ->].
        * exact (exec_sound_stmt a vr pend Ha Hvr).
        * exact (exec_sound_stmt b vr pend Hb Hvr).
      + destruct (typeof G None e) as [t|] eqn:Ee; [|discriminate Hwt].
        apply (res_ok_bind (fun v => has_ty t v = true)); [exact (wt_sound G sg vr ev e None t Hsg Hvr Ee)|].
        intros v _ _. exact (exec_sound_arms ar t v vr pend Hwt Hvr).
      + apply andb_true_iff in Hwt. destruct Hwt as [Ha Hb].
        apply (res_ok_bind (fun r => store_ok G.(te_var) (fst r))); [exact (exec_sound_stmt a vr pend Ha Hvr)|].
        intros r _ Hr. exact (exec_sound_stmt b (fst r) (snd r) Hb Hr).
      + apply ty_is_eq in Hwt.
        apply (res_ok_bind (fun v => has_ty TBool v = true)); [exact (wt_sound G sg vr ev c None TBool Hsg Hvr Hwt)|].
        intros cv _ Hcv. apply has_ty_bool in Hcv. destruct Hcv as [bb ->]. exact Hvr.
    - destruct a as [[s|]|chs s r]; unfold arms_ok; intros t v vr pend Hwt Hvr;
        cbn [wt_arms] in Hwt; cbn [exec_arms].
      + exact (exec_sound_stmt s vr pend Hwt Hvr).
      + exact Hvr.
      + apply andb_true_iff in Hwt. destruct Hwt as [Hwt Hr]. apply andb_true_iff in Hwt. destruct Hwt as [_ Hs].
        destruct (existsb (choice_eqb v) chs).
        * exact (exec_sound_stmt s vr pend Hs Hvr).
        * exact (exec_sound_arms r t v vr pend Hr Hvr).
  Qed.
End Exec.

Theorem exec_sound : forall G sg ev, store_ok G.(te_sig) sg ->
  forall s vr pend, wt_stmt G s = true -> store_ok G.(te_var) vr ->
  res_ok (fun r => store_ok G.(te_var) (fst r)) (exec sg ev s vr pend).
Proof. intros G sg ev Hsg s vr pend Hwt Hvr. exact (exec_sound_stmt G sg ev Hsg s vr pend Hwt Hvr). Qed.

(** ** 3. concurrent statements *)

Lemma select_alt_typed G pt v alts others e :
  forallb (fun a => forallb (choice_ok v) (fst a) && ty_is (typeof G (Some pt) (snd a)) pt) alts = true ->
  match others with Some e => ty_is (typeof G (Some pt) e) pt | None => true end = true ->
  forall x, select_alt x alts others = Some e -> typeof G (Some pt) e = Some pt.
Proof.
  intros Ha Ho x. induction alts as [|[chs e'] r IH]; cbn [select_alt].
  - intros ->. apply ty_is_eq. exact Ho.
  - cbn [forallb fst snd] in Ha. apply andb_true_iff in Ha. destruct Ha as [Ha Hr].
    apply andb_true_iff in Ha. destruct Ha as [_ He'].
    destruct (existsb (choice_eqb x) chs).
    + intros [= <-]. apply ty_is_eq. exact He'.
    + apply IH. exact Hr.
Qed.

Theorem run_conc_sound : forall G sg vr ev c,
  store_ok G.(te_sig) sg -> store_ok G.(te_var) vr -> wt_conc G c = true ->
  res_ok (fun r => store_ok G.(te_var) (fst r)) (run_conc sg vr ev c).
Proof.
  intros G sg vr ev c Hsg Hvr Hwt. destruct c as [root path e|root path s alts others|lbl sens body];
    cbn [wt_conc] in Hwt; cbn [run_conc].
  - apply wt_assign_inv in Hwt. destruct Hwt as [t [pt [Hroot [Hp He]]]].
    apply (assign_sound G sg vr ev (te_sig G) sg root path e _ _
             (fun x rp _ => Ok (vr, [(root, rp, x)])) t pt Hsg Hvr Hsg Hroot Hp He).
    intros x rp nv _. exact Hvr.
  - destruct (typeof G None s) as [t|] eqn:Es; [|discriminate Hwt].
    destruct (PM.find root (te_sig G)) as [rt|] eqn:Hroot; [|discriminate Hwt].
    destruct (path_ty G rt path) as [pt|] eqn:Hp; [|discriminate Hwt].
    apply andb_true_iff in Hwt. destruct Hwt as [Ha Ho].
    apply (res_ok_bind (fun v => has_ty t v = true)); [exact (wt_sound G sg vr ev s None t Hsg Hvr Es)|].
    intros v _ _. destruct (select_alt v alts others) as [e|] eqn:Esel; [|reflexivity].
    pose proof (select_alt_typed G pt t alts others e Ha Ho v Esel) as He.
    apply (assign_sound G sg vr ev (te_sig G) sg root path e _ _
             (fun x rp _ => Ok (vr, [(root, rp, x)])) rt pt Hsg Hvr Hsg Hroot Hp He).
    intros x rp nv _. exact Hvr.
  - apply andb_true_iff in Hwt. destruct Hwt as [_ Hb].
    apply (res_ok_bind (fun r => store_ok G.(te_var) (fst r))); [exact (exec_sound G sg ev Hsg body vr [] Hb Hvr)|].
    intros r _ Hr. exact Hr.
Qed.

(** ** 4. non-vacuity *)

Lemma store_ok_empty st : store_ok (PM.empty ty) st.
Proof. intros x t H. rewrite PM.gempty in H. discriminate H. Qed.

Lemma store_ok_add2 M st x t v : store_ok M st -> has_ty t v = true -> store_ok (PM.add x t M) (PM.add x v st).
Proof.
  intros Hst Hv y t' Hy. destruct (Pos.eq_dec y x) as [->|Hne].
  - rewrite PM.gss in Hy |- *. injection Hy as <-. eauto.
  - rewrite PM.gso in Hy |- * by exact Hne. apply Hst. exact Hy.
Qed.

Definition ex_G : tenv :=
  {| te_sig := PM.add 2%positive (TVec KUns 3) (PM.add 1%positive (TVec KUns 3) (PM.empty ty));
     te_var := PM.empty ty |}.
Definition ex_sg : store :=
  PM.add 2%positive (VV KUns 3 6) (PM.add 1%positive (VV KUns 3 5) (PM.empty value)).

Lemma ex_sg_ok : store_ok ex_G.(te_sig) ex_sg.
Proof. unfold ex_G, ex_sg; cbn [te_sig]. repeat apply store_ok_add2; try reflexivity. apply store_ok_empty. Qed.

Example wt_sound_nonvacuous : exists G sg vr e t,
  store_ok G.(te_sig) sg /\ store_ok G.(te_var) vr /\ typeof G None e = Some t /\
  exists v, eval sg vr PS.empty e = Ok v /\ has_ty t v = true.
Proof.
  exists ex_G, ex_sg, (PM.empty value), (EBin OAdd (ESig 1%positive) (ESig 2%positive)), (TVec KUns 3).
  split; [exact ex_sg_ok|]. split; [apply store_ok_empty|]. split; [reflexivity|].
  exists (VV KUns 3 3). split; reflexivity.
Qed.

Example wt_rejects_uminus_unsigned :
  store_ok ex_G.(te_sig) ex_sg /\ store_ok ex_G.(te_var) (PM.empty value) /\
  typeof ex_G None (EUn UNeg (ESig 1%positive)) = None /\
  eval ex_sg (PM.empty value) PS.empty (EUn UNeg (ESig 1%positive)) = Err ETypeError.
Proof.
  split; [exact ex_sg_ok|]. split; [apply store_ok_empty|]. split; reflexivity.
Qed.

