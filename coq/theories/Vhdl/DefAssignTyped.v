(** * Definite assignment with the declared signal types (property C08).

    [DefAssign.def_assign] treats the [when others] arm of every [case] as an execution path.
    The emitter closes every [case] with [when others => null], also when the listed choices
    already cover every two-valued value of the selector (a [select_with] without default over all
    four patterns of a 2-bit signal, the state register of a coroutine).  In the two-valued model
    that arm is not an execution path.

    [prune S body] rewrites [case x is ... when chs_n => s_n; when others => o] into
    [... when others => s_n] whenever [x] is a signal whose declared shape [S x] is enumerable and
    the choices cover all of its values.  [prune_exec]: with signals that hold values of their
    declared shape, the pruned statement executes exactly like the original.  Hence
    [def_assign T (prune S body) = true] gives the conclusion of [def_assign_sound] for [body]
    itself ([def_assign_typed_sound]). *)
From Coq Require Import ZArith NArith PArith List Bool FMapPositive Lia.
From Cohdl Require Import Base.Bits Vhdl.Value Vhdl.NumStd Vhdl.Syntax Vhdl.Sem Vhdl.DefAssign.
Import ListNotations.

Definition sigshape := positive -> option shp.

(** all values of an enumerable shape (std_logic and vectors up to 8 bits) *)
Definition enum_shape (sh : shp) : option (list value) :=
  match sh with
  | ShL => Some [VL true; VL false]
  | ShV k w => if (w <=? 8)%N
               then Some (map (fun n => VV k w (Z.of_nat n)) (seq 0 (N.to_nat (2 ^ w))))
               else None
  | _ => None
  end.

Fixpoint arm_choices (a : arms) : list value :=
  match a with
  | ANil _ => []
  | ACons chs _ r => chs ++ arm_choices r
  end.

Definition covers (sh : shp) (a : arms) : bool :=
  match enum_shape sh with
  | Some vs => forallb (fun v => existsb (choice_eqb v) (arm_choices a)) vs
  | None => false
  end.

(** the last listed arm becomes the [others] arm *)
Fixpoint close_arms (a : arms) : arms :=
  match a with
  | ANil o => ANil o
  | ACons chs s r =>
      match r with
      | ANil _ => ANil (Some s)
      | ACons _ _ _ => ACons chs s (close_arms r)
      end
  end.

Fixpoint prune (S : sigshape) (s : stmt) {struct s} : stmt :=
  match s with
  | SIf c a b => SIf c (prune S a) (prune S b)
  | SSeq a b => SSeq (prune S a) (prune S b)
  | SCase e ar =>
      let ar' := prune_arms S ar in
      match e with
      | ESig x =>
          match S x with
          | Some sh => if covers sh ar then SCase e (close_arms ar') else SCase e ar'
          | None => SCase e ar'
          end
      | _ => SCase e ar'
      end
  | _ => s
  end
with prune_arms (S : sigshape) (a : arms) {struct a} : arms :=
  match a with
  | ANil None => ANil None
  | ANil (Some s) => ANil (Some (prune S s))
  | ACons chs s r => ACons chs (prune S s) (prune_arms S r)
  end.

(** signals hold a value of their declared (enumerable) shape: the two-valued modelling assumption *)
Definition sig_ok (S : sigshape) (sg : store) : Prop :=
  forall x sh vs, S x = Some sh -> enum_shape sh = Some vs ->
    exists v, PM.find x sg = Some v /\ In v vs.

Lemma arm_choices_prune S a : arm_choices (prune_arms S a) = arm_choices a.
Proof.
  induction a as [[s|]|chs s r IH]; cbn [prune_arms arm_choices]; try reflexivity.
  rewrite IH. reflexivity.
Qed.

Lemma close_exec sg ev v a vr pend :
  existsb (choice_eqb v) (arm_choices a) = true ->
  exec_arms sg ev v (close_arms a) vr pend = exec_arms sg ev v a vr pend.
Proof.
  induction a as [o|chs s r IH]; cbn [arm_choices]; intros H.
  - discriminate.
  - rewrite existsb_app in H. cbn [close_arms]. destruct r as [o|chs' s' r'].
    + cbn [arm_choices existsb] in H. rewrite orb_false_r in H.
      cbn [exec_arms]. rewrite H. reflexivity.
    + cbn [exec_arms]. destruct (existsb (choice_eqb v) chs) eqn:E; [reflexivity|].
      cbn [orb] in H. apply IH in H. cbn [exec_arms] in H. exact H.
Qed.

Definition stmt_same (S : sigshape) (s : stmt) : Prop :=
  forall sg ev vr pend, sig_ok S sg -> exec sg ev (prune S s) vr pend = exec sg ev s vr pend.
Definition arms_same (S : sigshape) (a : arms) : Prop :=
  forall sg ev v vr pend, sig_ok S sg ->
    exec_arms sg ev v (prune_arms S a) vr pend = exec_arms sg ev v a vr pend.

Fixpoint prune_same_stmt (S : sigshape) (s : stmt) {struct s} : stmt_same S s
with prune_same_arms (S : sigshape) (a : arms) {struct a} : arms_same S a.
Proof.
  - destruct s as [|root path e|root path e|c a b|e ar|a b|c]; unfold stmt_same; intros sg ev vr pend Hok;
      try reflexivity.
    + (* SIf *) cbn [prune exec]. destruct (eval sg vr ev c) as [cv|]; cbn [bind]; [|reflexivity].
      destruct cv as [| | [|] | | |]; try reflexivity.
      * apply (prune_same_stmt S a); assumption.
      * apply (prune_same_stmt S b); assumption.
    + (* SCase *)
      assert (Hplain : exec sg ev (SCase e (prune_arms S ar)) vr pend = exec sg ev (SCase e ar) vr pend).
      { cbn [exec]. destruct (eval sg vr ev e) as [v|]; cbn [bind]; [|reflexivity].
        apply (prune_same_arms S ar); assumption. }
      cbn [prune]. destruct e as [lit|x|x|? ?|? ? ?|? ?|? ?|? ? ?|? ? ?|? ?]; try exact Hplain.
      destruct (S x) as [sh|] eqn:ES; [|exact Hplain].
      destruct (covers sh ar) eqn:EC; [|exact Hplain].
      unfold covers in EC. destruct (enum_shape sh) as [vs|] eqn:EE; [|discriminate].
      destruct (Hok x sh vs ES EE) as [v [Hf Hin]].
      rewrite forallb_forall in EC. specialize (EC v Hin).
      cbn [exec eval]. unfold lookup. rewrite Hf. cbn [bind].
      rewrite close_exec by (rewrite arm_choices_prune; exact EC).
      apply (prune_same_arms S ar); assumption.
    + (* SSeq *) cbn [prune exec]. rewrite (prune_same_stmt S a sg ev vr pend Hok).
      destruct (exec sg ev a vr pend) as [[w p]|]; cbn [bind fst snd]; [|reflexivity].
      apply (prune_same_stmt S b); assumption.
  - destruct a as [[s|]|chs s r]; unfold arms_same; intros sg ev v vr pend Hok; cbn [prune_arms exec_arms].
    + apply (prune_same_stmt S s); assumption.
    + reflexivity.
    + destruct (existsb (choice_eqb v) chs).
      * apply (prune_same_stmt S s); assumption.
      * apply (prune_same_arms S r); assumption.
Qed.

Theorem prune_exec : forall S s sg ev vr pend, sig_ok S sg ->
  exec sg ev (prune S s) vr pend = exec sg ev s vr pend.
Proof. intros. apply prune_same_stmt. assumption. Qed.

Definition def_assign_typed (S : sigshape) (T : list positive) (body : stmt) : bool :=
  def_assign T (prune S body).

(** the conclusion of [def_assign_sound], for the ORIGINAL body *)
Theorem def_assign_typed_sound : forall S T body sg ev v1 v2,
  sig_ok S sg -> def_assign_typed S T body = true -> agree_outside T v1 v2 ->
  match exec sg ev body v1 [], exec sg ev body v2 [] with
  | Ok (w1, p1), Ok (w2, p2) =>
      p1 = p2 /\
      (forall x, pmem x T = false -> PM.find x w1 = PM.find x w2) /\
      (exists D, da T (prune S body) [] = Some D /\ forall x, pmem x D = true -> PM.find x w1 = PM.find x w2)
  | Err e1, Err e2 => e1 = e2
  | _, _ => False
  end.
Proof.
  intros S T body sg ev v1 v2 Hok Hd Hs.
  rewrite <- (prune_exec S body sg ev v1 [] Hok), <- (prune_exec S body sg ev v2 [] Hok).
  apply def_assign_sound; assumption.
Qed.

(** declared shapes of a design's signals *)
Definition shape_of_ty (t : ty) : option shp :=
  match t with
  | TLogic => Some ShL
  | TVec k w => Some (ShV k w)
  | _ => None
  end.

Fixpoint sig_shapes (l : list sigdecl) (x : positive) : option shp :=
  match l with
  | [] => None
  | sd :: r => if Pos.eqb sd.(sd_id) x then shape_of_ty sd.(sd_ty) else sig_shapes r x
  end.

(** non-vacuity: the exhaustive select of a 2-bit signal is accepted, a partial one is not, and a store
    satisfying [sig_ok] exists *)
Example typed_nonvacuous :
  let S := sig_shapes [ {| sd_id := 1; sd_ty := TVec KSlv 2; sd_dir := DIn; sd_init := VV KSlv 2 0; sd_hasdef := false |} ] in
  let full := SSeq (SCase (ESig 1) (ACons [VV KSlv 2 0] (SVar 1 [] (ESig 2))
                                   (ACons [VV KSlv 2 1] (SVar 1 [] (ESig 2))
                                   (ACons [VV KSlv 2 2; VV KSlv 2 3] (SVar 1 [] (ESig 2)) (ANil (Some SNull))))))
                   (SSig 3 [] (EVar 1)) in
  let part := SSeq (SCase (ESig 1) (ACons [VV KSlv 2 0] (SVar 1 [] (ESig 2))
                                   (ACons [VV KSlv 2 1] (SVar 1 [] (ESig 2)) (ANil (Some SNull)))))
                   (SSig 3 [] (EVar 1)) in
  def_assign [1%positive] full = false /\ def_assign_typed S [1%positive] full = true /\
  def_assign_typed S [1%positive] part = false /\
  sig_ok S (PM.add 1%positive (VV KSlv 2 2) (PM.empty value)).
Proof.
  cbv zeta. split; [vm_compute; reflexivity|]. split; [vm_compute; reflexivity|]. split; [vm_compute; reflexivity|].
  intros x sh vs HS HE. cbn [sig_shapes sd_id sd_ty] in HS.
  destruct (Pos.eqb 1 x) eqn:E; [|discriminate]. apply Pos.eqb_eq in E. subst x.
  cbn [shape_of_ty] in HS. injection HS as <-. vm_compute in HE. injection HE as <-.
  exists (VV KSlv 2 2). split; [reflexivity|]. cbn. tauto.
Qed.
