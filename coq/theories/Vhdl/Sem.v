(** * Event-driven (delta-cycle) semantics of the emitted VHDL subset.

    Total functions; every run-time error of the language (and non-settling
    delta cycles) is an explicit [Err] value.  A synchronous test bench step
    ([cycle]) packages a design as a transition system for [Equiv.Explore]. *)
From Coq Require Import ZArith NArith PArith List Bool FMapPositive FSetPositive.
From Cohdl Require Import Base.Bits Vhdl.Value Vhdl.NumStd Vhdl.Syntax.
Import ListNotations.
Local Open Scope Z_scope.

Module PM := PositiveMap.
Module PS := PositiveSet.

Definition store := PM.t value.

Definition lookup (m : store) (x : positive) : res value :=
  match PM.find x m with Some v => Ok v | None => Err EUnbound end.

(** ** Expressions *)

Definition index_val (a : value) (n : value) : res value :=
  match a, n with
  | VV k w v, VI i => if (0 <=? i) && (i <? Z.of_N w) then Ok (VL (bitof v (Z.to_N i))) else Err ERange
  | VA l, VI i =>
      if (0 <=? i) then match nth_error l (Z.to_nat i) with Some x => Ok x | None => Err ERange end
      else Err ERange
  | _, _ => Err ETypeError
  end.

Definition slice_val (a : value) (hi lo : N) : res value :=
  match a with
  | VV k w v =>
      if (lo <=? hi)%N && (hi <? w)%N then Ok (VV k (hi - lo + 1) (getslice v lo (hi - lo + 1)))
      else Err ERange
  | _ => Err ETypeError
  end.

Fixpoint eval (sg vr : store) (ev : PS.t) (e : expr) : res value :=
  match e with
  | ELit v => Ok v
  | ESig x => lookup sg x
  | EVar x => lookup vr x
  | EIdx a i => do x <- eval sg vr ev a; do n <- eval sg vr ev i; index_val x n
  | ESlice a hi lo => do x <- eval sg vr ev a; slice_val x hi lo
  | EUn op a => do x <- eval sg vr ev a; eval_unop op x
  | EBin op a b => do x <- eval sg vr ev a; do y <- eval sg vr ev b; eval_binop op x y
  | EF1 f a => do x <- eval sg vr ev a; eval_fn1 f x
  | EF2 f a b => do x <- eval sg vr ev a; do y <- eval sg vr ev b; eval_fn2 f x y
  | EEdge r x =>
      do v <- lookup sg x;
      match v with
      | VL b => Ok (VB (PS.mem x ev && Bool.eqb b r))
      | _ => Err ETypeError
      end
  end.

(** ** Targets *)

Inductive rsel := RIdx (n : N) | RSlice (hi lo : N).

Fixpoint resolve (sg vr : store) (ev : PS.t) (p : list sel) : res (list rsel) :=
  match p with
  | [] => Ok []
  | SelIdx i :: r =>
      do n <- eval sg vr ev i;
      match n with
      | VI z => if 0 <=? z then (do r' <- resolve sg vr ev r; Ok (RIdx (Z.to_N z) :: r')) else Err ERange
      | _ => Err ETypeError
      end
  | SelSlice hi lo :: r => do r' <- resolve sg vr ev r; Ok (RSlice hi lo :: r')
  end.

Fixpoint shape_eqb (a b : value) {struct a} : bool :=
  match a, b with
  | VL _, VL _ | VB _, VB _ | VI _, VI _ | VE _, VE _ => true
  | VV k w _, VV k' w' _ => vkind_eqb k k' && (w =? w')%N
  | VA l, VA l' =>
      (fix go (l l' : list value) {struct l} : bool :=
         match l, l' with
         | [], [] => true
         | x :: r, y :: r' => shape_eqb x y && go r r'
         | _, _ => false
         end) l l'
  | _, _ => false
  end.

Fixpoint list_set {A} (l : list A) (n : nat) (x : A) : list A :=
  match l, n with
  | [], _ => []
  | _ :: r, O => x :: r
  | y :: r, S k => y :: list_set r k x
  end.

Definition setbit (v : Z) (n : N) (b : bool) : Z := setslice v n 1 (if b then 1 else 0).

Fixpoint apply_write (base : value) (p : list rsel) (x : value) {struct p} : res value :=
  match p with
  | [] => if shape_eqb base x then Ok x else
            match base, x with VV _ _ _, VV _ _ _ => Err EWidth | _, _ => Err ETypeError end
  | RIdx n :: r =>
      match base with
      | VV k w v =>
          match r, x with
          | [], VL b => if (n <? w)%N then Ok (VV k w (setbit v n b)) else Err ERange
          | _, _ => Err ETypeError
          end
      | VA l =>
          match nth_error l (N.to_nat n) with
          | Some el => do el' <- apply_write el r x; Ok (VA (list_set l (N.to_nat n) el'))
          | None => Err ERange
          end
      | _ => Err ETypeError
      end
  | RSlice hi lo :: r =>
      match base with
      | VV k w v =>
          match r, x with
          | [], VV k' w' v' =>
              if negb (vkind_eqb k k') then Err ETypeError
              else if negb ((lo <=? hi)%N && (hi <? w)%N) then Err ERange
              else if negb (w' =? hi - lo + 1)%N then Err EWidth
              else Ok (VV k w (setslice v lo w' v'))
          | _, _ => Err ETypeError
          end
      | _ => Err ETypeError
      end
  end.

(** ** Sequential statements.  A process reads the *old* signal store [sg];
    signal assignments are collected as writes and committed after the delta;
    variable assignments act at once. *)

Definition write := (positive * list rsel * value)%type.

Definition choice_eqb (v c : value) : bool :=
  match v, c with
  | VV _ w x, VV _ w' x' => (w =? w')%N && (x =? x')
  | _, _ => value_eqb v c
  end.

Fixpoint exec (sg : store) (ev : PS.t) (s : stmt) (vr : store) (pend : list write) {struct s}
  : res (store * list write) :=
  match s with
  | SNull => Ok (vr, pend)
  | SSig root path e =>
      do x <- eval sg vr ev e;
      do rp <- resolve sg vr ev path;
      do base <- lookup sg root;
      do _ <- apply_write base rp x;
      Ok (vr, (root, rp, x) :: pend)
  | SVar root path e =>
      do x <- eval sg vr ev e;
      do rp <- resolve sg vr ev path;
      do base <- lookup vr root;
      do nv <- apply_write base rp x;
      Ok (PM.add root nv vr, pend)
  | SIf c a b =>
      do cv <- eval sg vr ev c;
      match cv with
      | VB true => exec sg ev a vr pend
      | VB false => exec sg ev b vr pend
      | _ => Err ETypeError
      end
  | SCase e arms =>
      do v <- eval sg vr ev e;
      exec_arms sg ev v arms vr pend
  | SSeq a b =>
      do r <- exec sg ev a vr pend;
      exec sg ev b (fst r) (snd r)
  | SAssert c =>
      do cv <- eval sg vr ev c;
      match cv with VB _ => Ok (vr, pend) | _ => Err ETypeError end
  end
with exec_arms (sg : store) (ev : PS.t) (v : value) (a : arms) (vr : store) (pend : list write) {struct a}
  : res (store * list write) :=
  match a with
  | ANil None => Ok (vr, pend)
  | ANil (Some s) => exec sg ev s vr pend
  | ACons chs s r => if existsb (choice_eqb v) chs then exec sg ev s vr pend else exec_arms sg ev v r vr pend
  end.

(** ** Signals read (the implicit sensitivity list of a concurrent statement) *)

Fixpoint reads_expr (e : expr) (acc : list positive) : list positive :=
  match e with
  | ELit _ | EVar _ => acc
  | ESig x | EEdge _ x => x :: acc
  | EIdx a i => reads_expr a (reads_expr i acc)
  | ESlice a _ _ => reads_expr a acc
  | EUn _ a | EF1 _ a => reads_expr a acc
  | EBin _ a b | EF2 _ a b => reads_expr a (reads_expr b acc)
  end.

Fixpoint reads_path (p : list sel) (acc : list positive) : list positive :=
  match p with
  | [] => acc
  | SelIdx i :: r => reads_expr i (reads_path r acc)
  | SelSlice _ _ :: r => reads_path r acc
  end.

Definition conc_sens (c : conc) : list positive :=
  match c with
  | CAssign _ path e => reads_path path (reads_expr e [])
  | CSelect _ path s alts others =>
      reads_path path (reads_expr s
        (fold_right (fun a acc => reads_expr (snd a) acc)
                    (match others with Some e => reads_expr e [] | None => [] end) alts))
  | CProc _ sens _ => sens
  end.

Definition prepared := list (list positive * conc).
Definition prepare (cs : list conc) : prepared := map (fun c => (conc_sens c, c)) cs.

(** ** One delta cycle *)

Definition triggered (init : bool) (ev : PS.t) (sens : list positive) : bool :=
  init || existsb (fun x => PS.mem x ev) sens.

Fixpoint select_alt (v : value) (alts : list (list value * expr)) (others : option expr) : option expr :=
  match alts with
  | [] => others
  | (chs, e) :: r => if existsb (choice_eqb v) chs then Some e else select_alt v r others
  end.

Definition run_conc (sg vr : store) (ev : PS.t) (c : conc) : res (store * list write) :=
  match c with
  | CAssign root path e =>
      do x <- eval sg vr ev e;
      do rp <- resolve sg vr ev path;
      do base <- lookup sg root;
      do _ <- apply_write base rp x;
      Ok (vr, [(root, rp, x)])
  | CSelect root path s alts others =>
      do v <- eval sg vr ev s;
      match select_alt v alts others with
      | None => Err ERange
      | Some e =>
          do x <- eval sg vr ev e;
          do rp <- resolve sg vr ev path;
          do base <- lookup sg root;
          do _ <- apply_write base rp x;
          Ok (vr, [(root, rp, x)])
      end
  | CProc _ _ body =>
      do r <- exec sg ev body vr [];
      Ok (fst r, rev (snd r))
  end.

(** all triggered statements run against the same old store; writes are kept in
    statement order *)
Fixpoint run_all (sg vr : store) (ev : PS.t) (init : bool) (cs : prepared) (acc : list write)
  : res (store * list write) :=
  match cs with
  | [] => Ok (vr, rev acc)
  | (sens, c) :: r =>
      if triggered init ev sens then
        do o <- run_conc sg vr ev c;
        run_all sg (fst o) ev init r (rev_append (snd o) acc)
      else run_all sg vr ev init r acc
  end.

Fixpoint commit (sg : store) (ws : list write) : res store :=
  match ws with
  | [] => Ok sg
  | (root, rp, x) :: r =>
      do base <- lookup sg root;
      do nv <- apply_write base rp x;
      commit (PM.add root nv sg) r
  end.

Fixpoint changed (old new : store) (ws : list write) (acc : PS.t) : PS.t :=
  match ws with
  | [] => acc
  | (root, _, _) :: r =>
      let c := match PM.find root old, PM.find root new with
               | Some a, Some b => negb (value_eqb a b)
               | _, _ => false
               end in
      changed old new r (if c then PS.add root acc else acc)
  end.

Definition delta (cs : prepared) (sg vr : store) (ev : PS.t) (init : bool)
  : res (store * store * PS.t) :=
  do o <- run_all sg vr ev init cs [];
  do sg' <- commit sg (snd o);
  Ok (sg', fst o, changed sg sg' (snd o) PS.empty).

Fixpoint settle (fuel : nat) (cs : prepared) (sg vr : store) (ev : PS.t) : res (store * store) :=
  if PS.is_empty ev then Ok (sg, vr)
  else match fuel with
       | O => Err EFuel
       | S f =>
           do o <- delta cs sg vr ev false;
           let '(sg', vr', ev') := o in settle f cs sg' vr' ev'
       end.

(** ** The synchronous test bench *)

Definition vstate := (list value * list value)%type.   (* signals, variables, in declaration order *)

Definition to_store (ids : list positive) (vals : list value) : store :=
  fold_left (fun m p => PM.add (fst p) (snd p) m) (combine ids vals) (PM.empty value).

Definition of_store (ids : list positive) (m : store) : list value :=
  map (fun x => match PM.find x m with Some v => v | None => VI 0 end) ids.

Definition sig_ids (d : design) : list positive := map sd_id d.(d_sigs).
Definition var_ids (d : design) : list positive := map vd_id d.(d_vars).

(** drive a list of signals; events are the ones whose value changed *)
Fixpoint drive (sg : store) (ids : list positive) (vals : list value) (ev : PS.t) : res (store * PS.t) :=
  match ids, vals with
  | [], [] => Ok (sg, ev)
  | x :: r, v :: r' =>
      do old <- lookup sg x;
      if shape_eqb old v then
        drive (PM.add x v sg) r r' (if value_eqb old v then ev else PS.add x ev)
      else Err ETypeError
  | _, _ => Err EWidth
  end.

Definition settle_fuel : nat := 64.

Definition clock_phase (cs : prepared) (clk : positive) (lvl : bool) (st : store * store) : res (store * store) :=
  do o <- drive (fst st) [clk] [VL lvl] PS.empty;
  settle settle_fuel cs (fst o) (snd st) (snd o).

(** one clock of the test bench: apply inputs while the clock is low, let the
    design settle, raise the clock, settle, lower it, settle, sample *)
Definition cycle_stores (d : design) (cs : prepared) (st : store * store) (inp : list value)
  : res (store * store * (store * store)) :=
  do o <- drive (fst st) d.(d_inputs) inp PS.empty;
  do s1 <- settle settle_fuel cs (fst o) (snd st) (snd o);
  match d.(d_clk) with
  | None => Ok (s1, s1)
  | Some clk =>
      do s2 <- clock_phase cs clk true s1;
      do s3 <- clock_phase cs clk false s2;
      Ok (s1, s3)
  end.

Definition pack (d : design) (st : store * store) : vstate :=
  (of_store (sig_ids d) (fst st), of_store (var_ids d) (snd st)).
Definition unpack (d : design) (s : vstate) : store * store :=
  (to_store (sig_ids d) (fst s), to_store (var_ids d) (snd s)).

Definition outputs (d : design) (st : store * store) : list value := of_store d.(d_outputs) (fst st).

(** [mid] = also observe the outputs after the inputs settled and before the
    clock edge (needed to see asynchronous resets and combinational paths) *)
Definition cycle (d : design) (cs : prepared) (mid : bool) (s : vstate) (inp : list value)
  : res (vstate * list value) :=
  do o <- cycle_stores d cs (unpack d s) inp;
  let '(s1, s3) := o in
  Ok (pack d s3, (if mid then outputs d s1 else []) ++ outputs d s3).

(** power-up: every statement runs once, then the design settles *)
Definition power_up_from (d : design) (cs : prepared) (s : vstate) : res vstate :=
  let st := unpack d s in
  do o <- delta cs (fst st) (snd st) PS.empty true;
  let '(sg', vr', ev') := o in
  do s' <- settle settle_fuel cs sg' vr' ev';
  Ok (pack d s').

Definition decl_state (d : design) : vstate :=
  (map sd_init d.(d_sigs), map vd_init d.(d_vars)).

Definition power_up (d : design) : res vstate :=
  power_up_from d (prepare d.(d_conc)) (decl_state d).

(** the design as a total transition system: state = [res vstate] (errors are
    absorbing), output = [res (list value)] *)
Definition vstep_with (cs : prepared) (d : design) (mid : bool)
  : res vstate -> list value -> res vstate * res (list value) :=
  fun s inp =>
    match s with
    | Err e => (Err e, Err e)
    | Ok s0 =>
        match cycle d cs mid s0 inp with
        | Ok (s', out) => (Ok s', Ok out)
        | Err e => (Err e, Err e)
        end
    end.

Definition vstep (d : design) (mid : bool) : res vstate -> list value -> res vstate * res (list value) :=
  vstep_with (prepare d.(d_conc)) d mid.
