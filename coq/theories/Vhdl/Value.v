(** * Values of the emitted VHDL subset (two-valued logic) *)
From Coq Require Import ZArith NArith PArith List Bool Lia.
From Cohdl Require Import Base.Bits.
Import ListNotations.
Local Open Scope Z_scope.

Inductive vkind := KSlv | KUns | KSgn.

Inductive value :=
| VL (b : bool)                    (* std_logic '0' / '1' *)
| VV (k : vkind) (w : N) (v : Z)   (* std_logic_vector / unsigned / signed, 0 <= v < 2^w *)
| VB (b : bool)                    (* boolean *)
| VI (z : Z)                       (* integer *)
| VE (k : N)                       (* enumeration literal (position) *)
| VA (l : list value).             (* one-dimensional array *)

Inductive err :=
| ETypeError      (* operator / function applied to operands of a wrong type *)
| EWidth          (* vector length mismatch *)
| EDivZero        (* DIV, MOD or REM by zero *)
| ERange          (* integer / natural range violation, index out of range *)
| EMultiDrv       (* two drivers for one signal *)
| EFuel           (* delta cycles did not settle *)
| EUnbound        (* reference to an undeclared object *)
| EUninit.        (* read of a poisoned (never assigned) intermediate *)

Inductive res (A : Type) := Ok (a : A) | Err (e : err).
Arguments Ok {A} a.
Arguments Err {A} e.

Definition bind {A B} (r : res A) (f : A -> res B) : res B :=
  match r with Ok a => f a | Err e => Err e end.
Notation "'do' x <- r ; k" := (bind r (fun x => k)) (at level 200, x name, r at level 100, k at level 200).
Notation "'do' ' p <- r ; k" := (bind r (fun x => let 'p := x in k)) (at level 200, p pattern, r at level 100, k at level 200).

Definition vkind_eqb (a b : vkind) : bool :=
  match a, b with KSlv, KSlv | KUns, KUns | KSgn, KSgn => true | _, _ => false end.

Lemma vkind_eqb_ok a b : vkind_eqb a b = true <-> a = b.
Proof. destruct a, b; cbn; split; congruence. Qed.

Fixpoint value_eqb (a b : value) {struct a} : bool :=
  match a, b with
  | VL x, VL y => Bool.eqb x y
  | VV k w v, VV k' w' v' => vkind_eqb k k' && (w =? w')%N && (v =? v')
  | VB x, VB y => Bool.eqb x y
  | VI x, VI y => x =? y
  | VE x, VE y => (x =? y)%N
  | VA l, VA l' =>
      (fix go (l l' : list value) {struct l} : bool :=
         match l, l' with
         | [], [] => true
         | x :: r, y :: r' => value_eqb x y && go r r'
         | _, _ => false
         end) l l'
  | _, _ => false
  end.

Definition values_eqb : list value -> list value -> bool :=
  fix go (l l' : list value) {struct l} : bool :=
    match l, l' with
    | [], [] => true
    | x :: r, y :: r' => value_eqb x y && go r r'
    | _, _ => false
    end.

Lemma value_eqb_VA l l' : value_eqb (VA l) (VA l') = values_eqb l l'.
Proof. reflexivity. Qed.

Section ValueInd.
  Variable P : value -> Prop.
  Hypothesis HL : forall b, P (VL b).
  Hypothesis HV : forall k w v, P (VV k w v).
  Hypothesis HB : forall b, P (VB b).
  Hypothesis HI : forall z, P (VI z).
  Hypothesis HE : forall k, P (VE k).
  Hypothesis HA : forall l, Forall P l -> P (VA l).
  Fixpoint value_ind' (v : value) : P v :=
    match v with
    | VL b => HL b | VV k w x => HV k w x | VB b => HB b | VI z => HI z | VE k => HE k
    | VA l => HA l ((fix go (l : list value) : Forall P l :=
                       match l with [] => Forall_nil _ | x :: r => Forall_cons _ (value_ind' x) (go r) end) l)
    end.
End ValueInd.

Lemma value_eqb_ok : forall a b, value_eqb a b = true <-> a = b.
Proof.
  induction a as [x|k w v|x|x|x|l IH] using value_ind'; intros b; destruct b; cbn [value_eqb];
    try (split; [discriminate|congruence]).
  - rewrite Bool.eqb_true_iff. split; congruence.
  - rewrite !andb_true_iff, vkind_eqb_ok, N.eqb_eq, Z.eqb_eq. split; [intros [[-> ->] ->]; reflexivity|intros [= -> -> ->]; auto].
  - rewrite Bool.eqb_true_iff. split; congruence.
  - rewrite Z.eqb_eq. split; congruence.
  - rewrite N.eqb_eq. split; congruence.
  - fold (values_eqb l l0).
    assert (H : values_eqb l l0 = true <-> l = l0).
    { revert l0. induction IH as [|x r Hx _ IHr]; intros [|y r']; cbn; try (split; [discriminate|congruence]).
      - split; reflexivity.
      - rewrite andb_true_iff, Hx, IHr. split; [intros [-> ->]; reflexivity|intros [= -> ->]; auto]. }
    rewrite H. split; congruence.
Qed.

Lemma values_eqb_ok l l' : values_eqb l l' = true <-> l = l'.
Proof.
  revert l'. induction l as [|x r IH]; intros [|y r']; cbn; try (split; [discriminate|congruence]).
  - split; reflexivity.
  - rewrite andb_true_iff, value_eqb_ok, IH. split; [intros [-> ->]; reflexivity|intros [= -> ->]; auto].
Qed.

(** a cheap hash of a state vector (soundness of the checker never depends on it);
    only shifts, xor and masks on numbers below 2^28, which are fast under vm_compute *)
Definition hmask : Z := 268435455.
Definition hmix (h x : Z) : Z := Z.land (Z.lxor (Z.lxor (Z.shiftl h 5) (Z.shiftr h 3)) x) hmask.

Fixpoint value_hash (v : value) : Z :=
  match v with
  | VL b => if b then 3 else 2
  | VV _ w x => hmix (Z.of_N w) (Z.land x hmask)
  | VB b => if b then 13 else 11
  | VI z => hmix 17 (Z.land z hmask)
  | VE k => hmix 19 (Z.of_N k)
  | VA l => fold_left (fun h x => hmix h (value_hash x)) l 23
  end.

Definition values_hash (l : list value) : positive :=
  Z.to_pos (1 + fold_left (fun h x => hmix h (value_hash x)) l 7).
