(** * NumStd: the operations of std_logic_1164 / numeric_std that CoHDL emits,
    on two-valued values.  Errors (division by zero, natural/integer range
    violations, operand type or length mismatch) are explicit error values. *)
From Coq Require Import ZArith NArith List Bool Lia.
From Cohdl Require Import Base.Bits Vhdl.Value.
Import ListNotations.
Local Open Scope Z_scope.

Inductive binop :=
| OAdd | OSub | OMul | ODiv | OMod | ORem
| OAnd | OOr | OXor | OConcat
| OEq | ONe | OLt | OLe | OGt | OGe.

Inductive unop := UNot | UNeg | UAbs.

(** one-argument functions / conversions *)
Inductive fn1 :=
| FToInteger | FBoolToSl
| FConvUns | FConvSgn | FConvSlv      (* type conversions unsigned(x) ... *)
| FQualUns | FQualSgn | FQualSlv.     (* qualified expressions unsigned'(x) ... *)

Inductive fn2 := FResize | FShl | FShr | FToUnsigned | FToSigned.

Definition int_min : Z := - 2147483648.
Definition int_max : Z := 2147483647.
Definition mk_int (z : Z) : res value :=
  if (int_min <=? z) && (z <=? int_max) then Ok (VI z) else Err ERange.
Definition nat_ok (z : Z) : bool := (0 <=? z) && (z <=? int_max).

Definition mkU (w : N) (z : Z) : value := VV KUns w (wrap w z).
Definition mkS (w : N) (z : Z) : value := VV KSgn w (wrap w z).

(** numeric_std RESIZE for signed: keeps the sign bit and the low n-1 bits when truncating *)
Definition sresize (w : N) (v : Z) (n : N) : Z :=
  if (n =? 0)%N then 0
  else if (w <=? n)%N then wrap n (sval w v)
  else (if bitof v (w - 1) then pow2 (n - 1) else 0) + wrap (n - 1) v.

(** TO_SIGNED(z, w) / TO_UNSIGNED(z, w): truncating (numeric_std only warns) *)
Definition to_s (w : N) (z : Z) : Z := sval w (wrap w z).
Definition to_u (w : N) (z : Z) : Z := wrap w z.

Definition arith (op : binop) (a b : value) : res value :=
  match op, a, b with
  (* unsigned x unsigned *)
  | OAdd, VV KUns wa va, VV KUns wb vb => Ok (mkU (N.max wa wb) (va + vb))
  | OSub, VV KUns wa va, VV KUns wb vb => Ok (mkU (N.max wa wb) (va - vb))
  | OMul, VV KUns wa va, VV KUns wb vb => Ok (mkU (wa + wb) (va * vb))
  | ODiv, VV KUns wa va, VV KUns wb vb => if vb =? 0 then Err EDivZero else Ok (mkU wa (va / vb))
  | OMod, VV KUns wa va, VV KUns wb vb => if vb =? 0 then Err EDivZero else Ok (mkU wb (va mod vb))
  | ORem, VV KUns wa va, VV KUns wb vb => if vb =? 0 then Err EDivZero else Ok (mkU wb (va mod vb))
  (* unsigned x natural *)
  | OAdd, VV KUns wa va, VI n => if nat_ok n then Ok (mkU wa (va + n)) else Err ERange
  | OSub, VV KUns wa va, VI n => if nat_ok n then Ok (mkU wa (va - n)) else Err ERange
  | OMul, VV KUns wa va, VI n => if nat_ok n then Ok (mkU (wa + wa) (va * to_u wa n)) else Err ERange
  | ODiv, VV KUns wa va, VI n => if nat_ok n then (if n =? 0 then Err EDivZero else Ok (mkU wa (va / n))) else Err ERange
  | OMod, VV KUns wa va, VI n => if nat_ok n then (if n =? 0 then Err EDivZero else Ok (mkU wa (va mod n))) else Err ERange
  | ORem, VV KUns wa va, VI n => if nat_ok n then (if n =? 0 then Err EDivZero else Ok (mkU wa (va mod n))) else Err ERange
  (* natural x unsigned *)
  | OAdd, VI n, VV KUns wb vb => if nat_ok n then Ok (mkU wb (n + vb)) else Err ERange
  | OSub, VI n, VV KUns wb vb => if nat_ok n then Ok (mkU wb (n - vb)) else Err ERange
  | OMul, VI n, VV KUns wb vb => if nat_ok n then Ok (mkU (wb + wb) (to_u wb n * vb)) else Err ERange
  | ODiv, VI n, VV KUns wb vb => if nat_ok n then (if vb =? 0 then Err EDivZero else Ok (mkU wb (n / vb))) else Err ERange
  | OMod, VI n, VV KUns wb vb => if nat_ok n then (if vb =? 0 then Err EDivZero else Ok (mkU wb (n mod vb))) else Err ERange
  | ORem, VI n, VV KUns wb vb => if nat_ok n then (if vb =? 0 then Err EDivZero else Ok (mkU wb (n mod vb))) else Err ERange
  (* signed x signed *)
  | OAdd, VV KSgn wa va, VV KSgn wb vb => Ok (mkS (N.max wa wb) (sval wa va + sval wb vb))
  | OSub, VV KSgn wa va, VV KSgn wb vb => Ok (mkS (N.max wa wb) (sval wa va - sval wb vb))
  | OMul, VV KSgn wa va, VV KSgn wb vb => Ok (mkS (wa + wb) (sval wa va * sval wb vb))
  | ODiv, VV KSgn wa va, VV KSgn wb vb => if vb =? 0 then Err EDivZero else Ok (mkS wa (Z.quot (sval wa va) (sval wb vb)))
  | ORem, VV KSgn wa va, VV KSgn wb vb => if vb =? 0 then Err EDivZero else Ok (mkS wb (Z.rem (sval wa va) (sval wb vb)))
  | OMod, VV KSgn wa va, VV KSgn wb vb => if vb =? 0 then Err EDivZero else Ok (mkS wb (Z.modulo (sval wa va) (sval wb vb)))
  (* signed x integer *)
  | OAdd, VV KSgn wa va, VI n => Ok (mkS wa (sval wa va + n))
  | OSub, VV KSgn wa va, VI n => Ok (mkS wa (sval wa va - n))
  | OMul, VV KSgn wa va, VI n => Ok (mkS (wa + wa) (sval wa va * to_s wa n))
  | ODiv, VV KSgn wa va, VI n => if n =? 0 then Err EDivZero else Ok (mkS wa (Z.quot (sval wa va) n))
  | ORem, VV KSgn wa va, VI n => if n =? 0 then Err EDivZero else Ok (mkS wa (Z.rem (sval wa va) n))
  | OMod, VV KSgn wa va, VI n => if n =? 0 then Err EDivZero else Ok (mkS wa (Z.modulo (sval wa va) n))
  (* integer x signed *)
  | OAdd, VI n, VV KSgn wb vb => Ok (mkS wb (n + sval wb vb))
  | OSub, VI n, VV KSgn wb vb => Ok (mkS wb (n - sval wb vb))
  | OMul, VI n, VV KSgn wb vb => Ok (mkS (wb + wb) (to_s wb n * sval wb vb))
  | ODiv, VI n, VV KSgn wb vb => if vb =? 0 then Err EDivZero else Ok (mkS wb (Z.quot n (sval wb vb)))
  | ORem, VI n, VV KSgn wb vb => if vb =? 0 then Err EDivZero else Ok (mkS wb (Z.rem n (sval wb vb)))
  | OMod, VI n, VV KSgn wb vb => if vb =? 0 then Err EDivZero else Ok (mkS wb (Z.modulo n (sval wb vb)))
  (* integer x integer *)
  | OAdd, VI x, VI y => mk_int (x + y)
  | OSub, VI x, VI y => mk_int (x - y)
  | OMul, VI x, VI y => mk_int (x * y)
  | ODiv, VI x, VI y => if y =? 0 then Err EDivZero else mk_int (Z.quot x y)
  | ORem, VI x, VI y => if y =? 0 then Err EDivZero else mk_int (Z.rem x y)
  | OMod, VI x, VI y => if y =? 0 then Err EDivZero else mk_int (Z.modulo x y)
  | _, _, _ => Err ETypeError
  end.

Definition logic_b (op : binop) (x y : bool) : bool :=
  match op with OAnd => x && y | OOr => x || y | _ => xorb x y end.

Definition logic_z (op : binop) (x y : Z) : Z :=
  match op with OAnd => Z.land x y | OOr => Z.lor x y | _ => Z.lxor x y end.

Definition logic (op : binop) (a b : value) : res value :=
  match a, b with
  | VL x, VL y => Ok (VL (logic_b op x y))
  | VB x, VB y => Ok (VB (logic_b op x y))
  | VV k wa va, VV k' wb vb =>
      if vkind_eqb k k' then
        if (wa =? wb)%N then Ok (VV k wa (logic_z op va vb)) else Err EWidth
      else Err ETypeError
  | _, _ => Err ETypeError
  end.

Definition concat (a b : value) : res value :=
  match a, b with
  | VV k wa va, VV k' wb vb =>
      if vkind_eqb k k' then Ok (VV k (wa + wb) (va * pow2 wb + vb)) else Err ETypeError
  | VV k wa va, VL y => Ok (VV k (wa + 1) (va * 2 + (if y then 1 else 0)))
  | VL x, VV k wb vb => Ok (VV k (1 + wb) ((if x then pow2 wb else 0) + vb))
  | VL x, VL y => Ok (VV KSlv 2 ((if x then 2 else 0) + (if y then 1 else 0)))
  | _, _ => Err ETypeError
  end.

Definition cmp_z (op : binop) (x y : Z) : bool :=
  match op with
  | OEq => x =? y | ONe => negb (x =? y)
  | OLt => x <? y | OLe => x <=? y | OGt => y <? x | _ => y <=? x
  end.

Definition is_eqop (op : binop) : bool := match op with OEq | ONe => true | _ => false end.

Definition compare (op : binop) (a b : value) : res value :=
  match a, b with
  | VV KUns wa va, VV KUns wb vb => Ok (VB (cmp_z op va vb))
  | VV KUns wa va, VI n => if nat_ok n then Ok (VB (cmp_z op va n)) else Err ERange
  | VI n, VV KUns wb vb => if nat_ok n then Ok (VB (cmp_z op n vb)) else Err ERange
  | VV KSgn wa va, VV KSgn wb vb => Ok (VB (cmp_z op (sval wa va) (sval wb vb)))
  | VV KSgn wa va, VI n => Ok (VB (cmp_z op (sval wa va) n))
  | VI n, VV KSgn wb vb => Ok (VB (cmp_z op n (sval wb vb)))
  | VV KSlv wa va, VV KSlv wb vb =>
      if is_eqop op then
        let e := (wa =? wb)%N && (va =? vb) in
        Ok (VB (match op with OEq => e | _ => negb e end))
      else Err ETypeError
  | VI x, VI y => Ok (VB (cmp_z op x y))
  | VL x, VL y =>
      if is_eqop op then Ok (VB (match op with OEq => Bool.eqb x y | _ => negb (Bool.eqb x y) end))
      else Ok (VB (cmp_z op (if x then 1 else 0) (if y then 1 else 0)))
  | VB x, VB y =>
      if is_eqop op then Ok (VB (match op with OEq => Bool.eqb x y | _ => negb (Bool.eqb x y) end))
      else Ok (VB (cmp_z op (if x then 1 else 0) (if y then 1 else 0)))
  | VE x, VE y => Ok (VB (cmp_z op (Z.of_N x) (Z.of_N y)))
  | _, _ => Err ETypeError
  end.

Definition eval_binop (op : binop) (a b : value) : res value :=
  match op with
  | OAdd | OSub | OMul | ODiv | OMod | ORem => arith op a b
  | OAnd | OOr | OXor => logic op a b
  | OConcat => concat a b
  | _ => compare op a b
  end.

Definition eval_unop (op : unop) (a : value) : res value :=
  match op, a with
  | UNot, VL x => Ok (VL (negb x))
  | UNot, VB x => Ok (VB (negb x))
  | UNot, VV k w v => Ok (VV k w (ones w - v))
  | UNeg, VV KSgn w v => Ok (mkS w (- sval w v))
  | UNeg, VI z => mk_int (- z)
  | UAbs, VV KSgn w v => Ok (mkS w (Z.abs (sval w v)))
  | UAbs, VI z => mk_int (Z.abs z)
  | _, _ => Err ETypeError
  end.

Definition eval_fn1 (f : fn1) (a : value) : res value :=
  match f, a with
  | FToInteger, VV KUns w v => if v <=? int_max then Ok (VI v) else Err ERange
  | FToInteger, VV KSgn w v => mk_int (sval w v)
  | FBoolToSl, VB b => Ok (VL b)
  | FConvUns, VV _ w v => Ok (VV KUns w v)
  | FConvSgn, VV _ w v => Ok (VV KSgn w v)
  | FConvSlv, VV _ w v => Ok (VV KSlv w v)
  (* a qualified expression only fixes the type of a literal / aggregate; applied
     to an already typed operand the types must agree *)
  | FQualUns, VV KUns w v => Ok a
  | FQualSgn, VV KSgn w v => Ok a
  | FQualSlv, VV KSlv w v => Ok a
  | _, _ => Err ETypeError
  end.

(** shifts; counts of at least the width are short-cut so that evaluation never
    builds 2^n for a huge n (the mathematical value is unchanged, see [shl_z_spec]) *)
Definition shl_z (w : N) (v n : Z) : Z := if Z.of_N w <=? n then 0 else v * 2 ^ n.
Definition shr_z (w : N) (v n : Z) : Z := if Z.of_N w <=? n then (if v <? 0 then -1 else 0) else v / 2 ^ n.

Definition eval_fn2 (f : fn2) (a b : value) : res value :=
  match f, a, b with
  | FResize, VV KUns w v, VI n => if nat_ok n then Ok (VV KUns (Z.to_N n) (wrap (Z.to_N n) v)) else Err ERange
  | FResize, VV KSgn w v, VI n => if nat_ok n then Ok (VV KSgn (Z.to_N n) (sresize w v (Z.to_N n))) else Err ERange
  | FShl, VV KUns w v, VI n => if nat_ok n then Ok (mkU w (shl_z w v n)) else Err ERange
  | FShl, VV KSgn w v, VI n => if nat_ok n then Ok (mkS w (shl_z w v n)) else Err ERange
  | FShr, VV KUns w v, VI n => if nat_ok n then Ok (mkU w (shr_z w v n)) else Err ERange
  | FShr, VV KSgn w v, VI n => if nat_ok n then Ok (mkS w (shr_z w (sval w v) n)) else Err ERange
  | FToUnsigned, VI z, VI n => if nat_ok z && nat_ok n then Ok (mkU (Z.to_N n) z) else Err ERange
  | FToSigned, VI z, VI n => if nat_ok n then Ok (mkS (Z.to_N n) z) else Err ERange
  | _, _, _ => Err ETypeError
  end.

(** well-formedness of values: vectors are in range *)
Fixpoint wfv (v : value) : Prop :=
  match v with
  | VV _ w x => 0 <= x < pow2 w
  | VA l => (fix go (l : list value) : Prop := match l with [] => True | x :: r => wfv x /\ go r end) l
  | _ => True
  end.

Lemma mkU_wf w z : wfv (mkU w z).
Proof. cbn. apply wrap_range. Qed.
Lemma mkS_wf w z : wfv (mkS w z).
Proof. cbn. apply wrap_range. Qed.
