(** * DeadVars: a verified state-space reduction.

    Process variables that are compiler temporaries are assigned before they are
    read in every activation ([DefAssign.def_assign]); their value at the end of a
    clock step therefore cannot influence anything later.  [vstep_norm] is [vstep]
    followed by overwriting those variables with a canonical value of their own
    shape; [norm_traces] shows that, when [dead_ok T d] holds, the normalised system
    has exactly the traces of the original one.  The reachability checker explores
    the (much smaller) normalised system. *)
From Coq Require Import ZArith NArith PArith List Bool FMapPositive FSetPositive Lia.
From Cohdl Require Import Base.Bits Vhdl.Value Vhdl.NumStd Vhdl.Syntax Vhdl.Sem Vhdl.DefAssign Equiv.Explore.
Import ListNotations.

(** canonical value of the shape of [v] *)
Fixpoint canon (v : value) : value :=
  match v with
  | VL _ => VL false | VB _ => VB false | VI _ => VI 0%Z | VE _ => VE 0%N
  | VV k w _ => VV k w 0%Z
  | VA l => VA (map canon l)
  end.

Lemma canon_shape v : shape_eqb v (canon v) = true.
Proof.
  apply shape_eqb_iff. induction v as [x|k w z|x|x|x|l IH] using value_ind'; cbn; try reflexivity.
  f_equal. rewrite map_map. induction IH as [|y r Hy _ IHr]; cbn; [reflexivity|]. rewrite Hy, IHr. reflexivity.
Qed.

(** ** the side condition *)
Definition conc_ok (T : list positive) (c : conc) : bool :=
  match c with
  | CAssign _ path e => expr_ok T [] e && path_ok T [] path
  | CSelect _ path s alts others =>
      expr_ok T [] s && path_ok T [] path && forallb (fun a => expr_ok T [] (snd a)) alts
      && match others with Some e => expr_ok T [] e | None => true end
  | CProc _ _ body => def_assign T body
  end.

Fixpoint nodupb (l : list positive) : bool :=
  match l with [] => true | x :: r => negb (pmem x r) && nodupb r end.

Definition dead_ok (T : list positive) (d : design) : bool :=
  forallb (conc_ok T) d.(d_conc) && nodupb (var_ids d).

(** the largest admissible set: every variable that passes on its own *)
Definition auto_T (d : design) : list positive :=
  filter (fun x => forallb (conc_ok [x]) d.(d_conc)) (var_ids d).

(** ** stores that agree outside T *)
Notation agree := agree_outside.

Lemma agree_refl T v : agree T v v.
Proof. intros x. destruct (PM.find x v); [|exact I]. split; [apply shape_eqb_refl|reflexivity]. Qed.

Definition rrel (T : list positive) (r1 r2 : res (store * list write)) : Prop :=
  match r1, r2 with
  | Ok (a, p), Ok (b, q) => p = q /\ agree T a b
  | Err e1, Err e2 => e1 = e2
  | _, _ => False
  end.

Lemma select_alt_ok T v alts others e :
  forallb (fun a => expr_ok T [] (snd a)) alts = true ->
  match others with Some e => expr_ok T [] e | None => true end = true ->
  select_alt v alts others = Some e -> expr_ok T [] e = true.
Proof.
  induction alts as [|[chs a] r IH]; cbn; intros Ha Ho Hs.
  - subst. exact Ho.
  - apply andb_true_iff in Ha. destruct Ha as [Ha Hr].
    destruct (existsb (choice_eqb v) chs); [injection Hs as <-; exact Ha|auto].
Qed.

Lemma run_conc_agree T sg ev c v1 v2 :
  conc_ok T c = true -> agree T v1 v2 -> rrel T (run_conc sg v1 ev c) (run_conc sg v2 ev c).
Proof.
  intros Hok Hs. destruct c as [root path e|root path s alts others|lab sens body]; cbn [conc_ok run_conc] in *.
  - apply andb_true_iff in Hok. destruct Hok as [He Hp].
    rewrite (eval_agree T [] sg ev v1 v2 Hs e He), (resolve_agree T [] sg ev v1 v2 Hs path Hp).
    destruct (eval sg v2 ev e); cbn [bind]; [|reflexivity].
    destruct (resolve sg v2 ev path); cbn [bind]; [|reflexivity].
    destruct (lookup sg root); cbn [bind]; [|reflexivity].
    destruct (apply_write _ _ _); cbn [bind]; [|reflexivity].
    split; [reflexivity|assumption].
  - apply andb_true_iff in Hok. destruct Hok as [Hok Ho].
    apply andb_true_iff in Hok. destruct Hok as [Hok Ha].
    apply andb_true_iff in Hok. destruct Hok as [Hse Hp].
    rewrite (eval_agree T [] sg ev v1 v2 Hs s Hse).
    destruct (eval sg v2 ev s) as [v|]; cbn [bind]; [|reflexivity].
    destruct (select_alt v alts others) as [e|] eqn:Esel; [|reflexivity].
    pose proof (select_alt_ok T v alts others e Ha Ho Esel) as He.
    rewrite (eval_agree T [] sg ev v1 v2 Hs e He), (resolve_agree T [] sg ev v1 v2 Hs path Hp).
    destruct (eval sg v2 ev e); cbn [bind]; [|reflexivity].
    destruct (resolve sg v2 ev path); cbn [bind]; [|reflexivity].
    destruct (lookup sg root); cbn [bind]; [|reflexivity].
    destruct (apply_write _ _ _); cbn [bind]; [|reflexivity].
    split; [reflexivity|assumption].
  - unfold def_assign in Hok. destruct (da T body []) as [D|] eqn:E; [|discriminate].
    pose proof (da_sound_stmt T body [] D sg ev v1 v2 [] E Hs) as H. unfold rel in H.
    destruct (exec sg ev body v1 []) as [[w1 p1]|], (exec sg ev body v2 []) as [[w2 p2]|]; try contradiction; cbn [bind fst snd].
    + destruct H as [-> H]. split; [reflexivity|]. eapply sim_weaken; [|exact H]. cbn. intros; discriminate.
    + assumption.
Qed.

Lemma run_all_agree T sg ev init : forall cs acc v1 v2,
  forallb (fun p => conc_ok T (snd p)) cs = true -> agree T v1 v2 ->
  rrel T (run_all sg v1 ev init cs acc) (run_all sg v2 ev init cs acc).
Proof.
  induction cs as [|[sens c] r IH]; intros acc v1 v2 Hok Hs; cbn [run_all].
  - split; [reflexivity|assumption].
  - cbn [forallb snd] in Hok. apply andb_true_iff in Hok. destruct Hok as [Hc Hr].
    destruct (triggered init ev sens); [|apply IH; assumption].
    pose proof (run_conc_agree T sg ev c v1 v2 Hc Hs) as H. unfold rrel in H.
    destruct (run_conc sg v1 ev c) as [[w1 p1]|], (run_conc sg v2 ev c) as [[w2 p2]|]; try contradiction; cbn [bind fst snd].
    + destruct H as [-> H]. apply IH; assumption.
    + assumption.
Qed.

Definition drel (T : list positive) (r1 r2 : res (store * store * PS.t)) : Prop :=
  match r1, r2 with
  | Ok (sg1, a, e1), Ok (sg2, b, e2) => sg1 = sg2 /\ e1 = e2 /\ agree T a b
  | Err e1, Err e2 => e1 = e2
  | _, _ => False
  end.

Lemma delta_agree T cs sg ev init v1 v2 :
  forallb (fun p => conc_ok T (snd p)) cs = true -> agree T v1 v2 ->
  drel T (delta cs sg v1 ev init) (delta cs sg v2 ev init).
Proof.
  intros Hok Hs. unfold delta.
  pose proof (run_all_agree T sg ev init cs [] v1 v2 Hok Hs) as H. unfold rrel in H.
  destruct (run_all sg v1 ev init cs []) as [[w1 p1]|], (run_all sg v2 ev init cs []) as [[w2 p2]|]; try contradiction; cbn [bind fst snd].
  - destruct H as [-> H]. destruct (commit sg p2); cbn [bind]; [|reflexivity]. cbn. auto.
  - assumption.
Qed.

Definition srel (T : list positive) (r1 r2 : res (store * store)) : Prop :=
  match r1, r2 with
  | Ok (sg1, a), Ok (sg2, b) => sg1 = sg2 /\ agree T a b
  | Err e1, Err e2 => e1 = e2
  | _, _ => False
  end.

Lemma settle_agree T cs : forallb (fun p => conc_ok T (snd p)) cs = true ->
  forall fuel sg ev v1 v2, agree T v1 v2 -> srel T (settle fuel cs sg v1 ev) (settle fuel cs sg v2 ev).
Proof.
  intros Hok. induction fuel as [|f IH]; intros sg ev v1 v2 Hs; cbn [settle].
  - destruct (PS.is_empty ev); cbn; auto.
  - destruct (PS.is_empty ev); [cbn; auto|].
    pose proof (delta_agree T cs sg ev false v1 v2 Hok Hs) as H. unfold drel in H.
    destruct (delta cs sg v1 ev false) as [[[sg1 a] e1]|], (delta cs sg v2 ev false) as [[[sg2 b] e2]|];
      try contradiction; cbn [bind].
    + destruct H as (-> & -> & H). apply IH. assumption.
    + assumption.
Qed.

Lemma prepare_ok T cs : forallb (conc_ok T) cs = true ->
  forallb (fun p => conc_ok T (snd p)) (prepare cs) = true.
Proof. unfold prepare. rewrite forallb_forall. intros H. apply forallb_forall. intros p Hp.
  apply in_map_iff in Hp. destruct Hp as (c & <- & Hc). cbn. exact (H c Hc). Qed.

Lemma clock_phase_agree T cs clk lvl sg v1 v2 :
  forallb (fun p => conc_ok T (snd p)) cs = true -> agree T v1 v2 ->
  srel T (clock_phase cs clk lvl (sg, v1)) (clock_phase cs clk lvl (sg, v2)).
Proof.
  intros Hok Hs. unfold clock_phase. cbn [fst snd].
  destruct (drive sg [clk] [VL lvl] PS.empty) as [[sg' ev']|]; cbn [bind fst snd]; [|reflexivity].
  apply settle_agree; assumption.
Qed.

Definition crel (T : list positive) (r1 r2 : res (store * store * (store * store))) : Prop :=
  match r1, r2 with
  | Ok ((m1, a1), (f1, b1)), Ok ((m2, a2), (f2, b2)) => m1 = m2 /\ f1 = f2 /\ agree T a1 a2 /\ agree T b1 b2
  | Err e1, Err e2 => e1 = e2
  | _, _ => False
  end.

Lemma cycle_stores_agree T d cs sg v1 v2 inp :
  forallb (fun p => conc_ok T (snd p)) cs = true -> agree T v1 v2 ->
  crel T (cycle_stores d cs (sg, v1) inp) (cycle_stores d cs (sg, v2) inp).
Proof.
  intros Hok Hs. unfold cycle_stores. cbn [fst snd].
  destruct (drive sg (d_inputs d) inp PS.empty) as [[sg0 ev0]|]; cbn [bind fst snd]; [|reflexivity].
  pose proof (settle_agree T cs Hok settle_fuel sg0 ev0 v1 v2 Hs) as H1. unfold srel in H1.
  destruct (settle settle_fuel cs sg0 v1 ev0) as [[m1 a1]|], (settle settle_fuel cs sg0 v2 ev0) as [[m2 a2]|];
    try contradiction; cbn [bind]; [|assumption].
  destruct H1 as [-> H1]. destruct (d_clk d) as [clk|]; [|cbn; auto].
  pose proof (clock_phase_agree T cs clk true m2 a1 a2 Hok H1) as H2. unfold srel in H2.
  destruct (clock_phase cs clk true (m2, a1)) as [[s1 b1]|], (clock_phase cs clk true (m2, a2)) as [[s2 b2]|];
    try contradiction; cbn [bind]; [|assumption].
  destruct H2 as [-> H2].
  pose proof (clock_phase_agree T cs clk false s2 b1 b2 Hok H2) as H3. unfold srel in H3.
  destruct (clock_phase cs clk false (s2, b1)) as [[t1 c1]|], (clock_phase cs clk false (s2, b2)) as [[t2 c2]|];
    try contradiction; cbn [bind]; [|assumption].
  destruct H3 as [-> H3]. cbn. auto.
Qed.

(** ** lists <-> stores *)

Definition vrel (T : list positive) (ids : list positive) (l1 l2 : list value) : Prop :=
  Forall2 (fun _ _ => True) l1 l2 /\
  forall k x, nth_error ids k = Some x ->
    match nth_error l1 k, nth_error l2 k with
    | Some a, Some b => shape_eqb a b = true /\ (pmem x T = false -> a = b)
    | None, None => True
    | _, _ => False
    end.

Definition fnd (x : positive) (l : list (positive * value)) : option (positive * value) :=
  List.find (fun p => Pos.eqb (fst p) x) l.

Lemma fnd_app x a b : fnd x (a ++ b) = match fnd x a with Some p => Some p | None => fnd x b end.
Proof.
  unfold fnd. induction a as [|y r IH]; cbn [app List.find]; [reflexivity|].
  destruct (Pos.eqb (fst y) x); [reflexivity|exact IH].
Qed.

Lemma fnd_cons x i v r : fnd x ((i, v) :: r) = if Pos.eqb i x then Some (i, v) else fnd x r.
Proof. reflexivity. Qed.

Lemma find_to_store_aux : forall ids vals m x,
  PM.find x (fold_left (fun m p => PM.add (fst p) (snd p) m) (combine ids vals) m) =
  match fnd x (rev (combine ids vals)) with
  | Some p => Some (snd p)
  | None => PM.find x m
  end.
Proof.
  induction ids as [|i r IH]; intros vals m x; [reflexivity|].
  destruct vals as [|v vs]; [reflexivity|]. cbn [combine fold_left rev].
  rewrite IH. rewrite fnd_app.
  destruct (fnd x (rev (combine r vs))); [reflexivity|].
  rewrite fnd_cons. cbn [fst snd]. destruct (Pos.eqb_spec i x) as [->|Hne].
  - rewrite PM.gss. reflexivity.
  - unfold fnd. cbn [List.find]. rewrite PM.gso by congruence. reflexivity.
Qed.

Lemma nodupb_NoDup l : nodupb l = true -> NoDup l.
Proof.
  induction l as [|x r IH]; cbn; intros H; [constructor|].
  apply andb_true_iff in H. destruct H as [H1 H2]. constructor; [|auto].
  intros Hin. apply pmem_In in Hin. rewrite Hin in H1. discriminate.
Qed.

(** with distinct identifiers a store built from lists is read back positionally *)
Lemma find_to_store ids : NoDup ids -> forall vals x,
  PM.find x (to_store ids vals) =
  match fnd x (combine ids vals) with
  | Some p => Some (snd p)
  | None => None
  end.
Proof.
  intros Hnd vals x. unfold to_store. rewrite find_to_store_aux, PM.gempty.
  assert (G : forall l : list (positive * value), NoDup (map fst l) -> fnd x (rev l) = fnd x l).
  { induction l as [|[i v] r IHl]; intros Hn; [reflexivity|]. cbn [rev map fst] in *.
    inversion Hn as [|? ? Hni Hnr]; subst. rewrite fnd_app, IHl by assumption. rewrite !fnd_cons.
    destruct (Pos.eqb_spec i x) as [->|Hne].
    - destruct (fnd x r) as [[j w]|] eqn:Ef; [|reflexivity].
      unfold fnd in Ef. apply find_some in Ef. destruct Ef as [Hin He]. cbn in He. apply Pos.eqb_eq in He. subst j.
      exfalso. apply Hni. apply in_map_iff. exists (x, w). auto.
    - destruct (fnd x r); reflexivity. }
  rewrite G; [reflexivity|].
  clear G. revert vals. induction Hnd as [|i r Hni Hnr IH]; intros vals; [constructor|].
  destruct vals as [|v vs]; cbn [combine map fst]; [constructor|]. constructor; [|apply IH].
  intros Hin. apply Hni. apply in_map_iff in Hin. destruct Hin as ([j w] & Hj & Hin). cbn in Hj. subst j.
  apply in_combine_l in Hin. exact Hin.
Qed.

Lemma find_combine_nth : forall ids vals x,
  match fnd x (combine ids vals) with
  | Some p => exists k, nth_error ids k = Some x /\ nth_error vals k = Some (snd p)
  | None => forall k, nth_error ids k = Some x -> nth_error vals k = None
  end.
Proof.
  induction ids as [|i r IH]; intros vals x.
  - cbn. intros [|k]; discriminate.
  - destruct vals as [|v vs].
    + cbn. intros [|k] _; reflexivity.
    + cbn [combine]. rewrite fnd_cons. destruct (Pos.eqb_spec i x) as [->|Hne].
      * exists 0%nat. auto.
      * specialize (IH vs x). destruct (fnd x (combine r vs)) as [p|].
        -- destruct IH as (k & H1 & H2). exists (S k). auto.
        -- intros [|k] Hk; cbn in *; [congruence|auto].
Qed.

Lemma NoDup_nth_inj (ids : list positive) : NoDup ids -> forall j k x,
  nth_error ids j = Some x -> nth_error ids k = Some x -> j = k.
Proof.
  intros Hnd j k x Hj Hk. eapply NoDup_nth_error; eauto.
  - apply nth_error_Some. congruence.
  - congruence.
Qed.

Lemma to_store_agree T ids l1 l2 : NoDup ids -> vrel T ids l1 l2 -> agree T (to_store ids l1) (to_store ids l2).
Proof.
  intros Hnd [Hlen Hv] x. rewrite !find_to_store by assumption.
  pose proof (find_combine_nth ids l1 x) as F1. pose proof (find_combine_nth ids l2 x) as F2.
  destruct (fnd x (combine ids l1)) as [p1|],
           (fnd x (combine ids l2)) as [p2|].
  - destruct F1 as (j & Hj & H1). destruct F2 as (k & Hk & H2).
    assert (j = k) by (eapply NoDup_nth_inj; eauto). subst k.
    specialize (Hv j x Hj). rewrite H1, H2 in Hv. destruct Hv as [Hs He]. split; [assumption|].
    unfold rd_ok. cbn [pmem existsb]. rewrite orb_false_r. intros Hr. apply He. apply negb_true_iff. exact Hr.
  - destruct F1 as (j & Hj & H1). specialize (F2 j Hj). specialize (Hv j x Hj). rewrite H1, F2 in Hv. contradiction.
  - destruct F2 as (k & Hk & H2). specialize (F1 k Hk). specialize (Hv k x Hk). rewrite F1, H2 in Hv. contradiction.
  - exact I.
Qed.

Lemma of_store_agree T ids w1 w2 : agree T w1 w2 -> vrel T ids (of_store ids w1) (of_store ids w2).
Proof.
  intros H. unfold of_store. split.
  - induction ids; cbn; constructor; auto.
  - intros k x Hk. rewrite !(map_nth_error _ _ _ Hk).
    specialize (H x). destruct (PM.find x w1) as [a|], (PM.find x w2) as [b|]; try contradiction.
    + destruct H as [Hs He]. split; [assumption|]. intros Hx. apply He. unfold rd_ok. rewrite Hx. reflexivity.
    + split; reflexivity.
Qed.

(** ** the normalised step *)
Definition norm_vars (T : list positive) (ids : list positive) (vals : list value) : list value :=
  map (fun p => if pmem (fst p) T then canon (snd p) else snd p) (combine ids vals).

Definition norm_state (T : list positive) (d : design) (s : res vstate) : res vstate :=
  match s with
  | Ok (sg, vr) => Ok (sg, if Nat.eqb (length vr) (length (var_ids d)) then norm_vars T (var_ids d) vr else vr)
  | Err e => Err e
  end.

Definition vstep_norm (d : design) (T : list positive) (mid : bool)
  : res vstate -> list value -> res vstate * res (list value) :=
  let vs := vstep d mid in
  fun s inp => let '(s', o) := vs s inp in (norm_state T d s', o).

Definition strel (T : list positive) (d : design) (s n : res vstate) : Prop :=
  match s, n with
  | Ok (sg1, v1), Ok (sg2, v2) => sg1 = sg2 /\ vrel T (var_ids d) v1 v2
  | Err e1, Err e2 => e1 = e2
  | _, _ => False
  end.

Lemma vrel_norm T ids vals : length vals = length ids -> vrel T ids vals (norm_vars T ids vals).
Proof.
  intros Hlen. unfold norm_vars. split.
  - revert vals Hlen. induction ids as [|i r IH]; intros [|v vs] Hl; cbn in *; try discriminate; constructor; auto.
  - intros k x Hk. rewrite nth_error_map.
    assert (E : nth_error (combine ids vals) k = match nth_error vals k with Some v => Some (x, v) | None => None end).
    { revert vals k Hlen Hk. induction ids as [|i r IH]; intros [|v vs] [|k] Hl Hk; cbn in *; try discriminate; try reflexivity.
      - injection Hk as ->. reflexivity.
      - apply IH; [lia|assumption]. }
    rewrite E. destruct (nth_error vals k) as [v|]; cbn; [|exact I].
    destruct (pmem x T) eqn:Hx.
    + split; [apply canon_shape|discriminate].
    + split; [apply shape_eqb_refl|reflexivity].
Qed.

Lemma vrel_refl T ids l : vrel T ids l l.
Proof.
  split; [induction l; constructor; auto|].
  intros k x _. destruct (nth_error l k); [|exact I]. split; [apply shape_eqb_refl|reflexivity].
Qed.

Lemma strel_norm T d s : strel T d s (norm_state T d s).
Proof.
  destruct s as [[sg vr]|e]; cbn; [|reflexivity]. split; [reflexivity|].
  destruct (Nat.eqb_spec (length vr) (length (var_ids d))); [apply vrel_norm; assumption|apply vrel_refl].
Qed.

Lemma vrel_trans T ids a b c : vrel T ids a b -> vrel T ids b c -> vrel T ids a c.
Proof.
  intros [L1 H1] [L2 H2]. split.
  - clear H1 H2. revert c L2. induction L1; intros c L2; inversion L2; subst; constructor; auto.
  - intros k x Hk. specialize (H1 k x Hk). specialize (H2 k x Hk).
    destruct (nth_error a k), (nth_error b k), (nth_error c k); try contradiction; try exact I.
    destruct H1 as [S1 E1], H2 as [S2 E2]. split.
    + apply shape_eqb_iff in S1. apply shape_eqb_iff in S2. apply shape_eqb_iff. congruence.
    + intros Hx. rewrite (E1 Hx). apply E2. exact Hx.
Qed.

Lemma of_store_length ids m : length (of_store ids m) = length ids.
Proof. unfold of_store. apply map_length. Qed.

(** one step from related states gives equal outputs and related states *)
Lemma vstep_rel T d mid : dead_ok T d = true -> forall s n inp, strel T d s n ->
  snd (vstep d mid s inp) = snd (vstep d mid n inp) /\
  strel T d (fst (vstep d mid s inp)) (fst (vstep d mid n inp)).
Proof.
  intros Hok s n inp Hr. unfold dead_ok in Hok. apply andb_true_iff in Hok. destruct Hok as [Hc Hn].
  apply nodupb_NoDup in Hn. pose proof (prepare_ok T _ Hc) as Hp.
  unfold vstep, vstep_with. destruct s as [[sg1 v1]|e1], n as [[sg2 v2]|e2]; cbn [strel] in Hr; try contradiction.
  2:{ subst. cbn. auto. }
  destruct Hr as [<- Hv]. unfold cycle, unpack. cbn [fst snd].
  pose proof (cycle_stores_agree T d (prepare (d_conc d)) (to_store (sig_ids d) sg1)
                (to_store (var_ids d) v1) (to_store (var_ids d) v2) inp Hp (to_store_agree T _ _ _ Hn Hv)) as H.
  unfold crel in H.
  destruct (cycle_stores d (prepare (d_conc d)) (to_store (sig_ids d) sg1, to_store (var_ids d) v1) inp)
    as [[[m1 a1] [f1 b1]]|],
    (cycle_stores d (prepare (d_conc d)) (to_store (sig_ids d) sg1, to_store (var_ids d) v2) inp)
    as [[[m2 a2] [f2 b2]]|]; try contradiction; cbn [bind].
  - destruct H as (-> & -> & Ha & Hb). cbn [fst snd]. unfold pack, outputs. cbn [fst snd]. split; [reflexivity|].
    split; [reflexivity|]. apply of_store_agree. assumption.
  - subst. cbn. auto.
Qed.

Lemma strel_trans T d a b c : strel T d a b -> strel T d b c -> strel T d a c.
Proof.
  destruct a as [[s1 v1]|], b as [[s2 v2]|], c as [[s3 v3]|]; cbn; try contradiction; try congruence.
  intros [-> H1] [-> H2]. split; [reflexivity|eapply vrel_trans; eauto].
Qed.

Theorem norm_traces T d mid : dead_ok T d = true -> forall ins s n, strel T d s n ->
  traceA (vstep d mid) s ins = traceA (vstep_norm d T mid) n ins.
Proof.
  intros Hok. induction ins as [|i r IH]; intros s n Hr; [reflexivity|].
  cbn [traceA]. unfold vstep_norm.
  destruct (vstep_rel T d mid Hok s n i Hr) as [Ho Hs].
  destruct (vstep d mid s i) as [s' o], (vstep d mid n i) as [n' o']. cbn [fst snd] in *. subst o'.
  f_equal. apply IH. eapply strel_trans; [exact Hs|apply strel_norm].
Qed.

Corollary norm_traces_init T d mid : dead_ok T d = true -> forall ins,
  traceA (vstep d mid) (power_up d) ins = traceA (vstep_norm d T mid) (norm_state T d (power_up d)) ins.
Proof. intros Hok ins. apply norm_traces; [assumption|apply strel_norm]. Qed.
