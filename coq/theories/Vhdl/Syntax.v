(** * Deep embedding of the VHDL-93 subset that CoHDL's backend prints.

    Identifiers are resolved to [positive] indices by the (fail-closed) reader;
    signals/ports and process variables live in two index spaces. *)
From Coq Require Import ZArith NArith PArith List Bool.
From Cohdl Require Import Base.Bits Vhdl.Value Vhdl.NumStd.
Import ListNotations.

Inductive expr :=
| ELit (v : value)
| ESig (x : positive)                     (* signal or port *)
| EVar (x : positive)                     (* process variable *)
| EIdx (e : expr) (i : expr)              (* e(i) : element of a vector / array, i integer *)
| ESlice (e : expr) (hi lo : N)           (* e(hi downto lo), static bounds *)
| EUn (op : unop) (e : expr)
| EBin (op : binop) (a b : expr)
| EF1 (f : fn1) (e : expr)
| EF2 (f : fn2) (a b : expr)
| EEdge (rising : bool) (x : positive).   (* rising_edge(x) / falling_edge(x) *)

Inductive sel :=
| SelIdx (i : expr)
| SelSlice (hi lo : N).

Inductive stmt :=
| SNull
| SSig (root : positive) (path : list sel) (e : expr)     (* root path <= e; *)
| SVar (root : positive) (path : list sel) (e : expr)     (* root path := e; *)
| SIf (c : expr) (a b : stmt)
| SCase (e : expr) (arms : arms)
| SSeq (a b : stmt)
| SAssert (c : expr)
with arms :=
| ANil (others : option stmt)                              (* [when others => s] or nothing *)
| ACons (choices : list value) (s : stmt) (r : arms).

Inductive conc :=
| CAssign (root : positive) (path : list sel) (e : expr)
| CSelect (root : positive) (path : list sel) (s : expr)
          (alts : list (list value * expr)) (others : option expr)
| CProc (label : positive) (sens : list positive) (body : stmt).

(** types, kept for the static rules *)
Inductive ty :=
| TLogic | TBool | TInt
| TVec (k : vkind) (w : N)
| TEnum (id : positive) (n : N)           (* enumeration type [id] with n literals *)
| TArr (id : positive) (n : N) (elem : ty).

Inductive dir := DIn | DOut | DLocal.

Record sigdecl := { sd_id : positive; sd_ty : ty; sd_dir : dir; sd_init : value; sd_hasdef : bool }.
Record vardecl := { vd_id : positive; vd_proc : positive; vd_ty : ty; vd_init : value; vd_hasdef : bool }.

Record design := {
  d_sigs : list sigdecl;
  d_vars : list vardecl;
  d_conc : list conc;
  d_clk : option positive;       (* the clock the synchronous test bench toggles *)
  d_inputs : list positive;      (* input ports driven by the test bench, in alphabet order *)
  d_outputs : list positive      (* observed signals (output ports), in trace order *)
}.

(** default ("zero") value of a type; used by the reader for objects without an initial value *)
Fixpoint zero_of (t : ty) : value :=
  match t with
  | TLogic => VL false | TBool => VB false | TInt => VI 0
  | TVec k w => VV k w 0
  | TEnum _ _ => VE 0
  | TArr _ n e => VA (repeat (zero_of e) (N.to_nat n))
  end.

(** shape check: does value v inhabit type t *)
Fixpoint has_ty (t : ty) (v : value) : bool :=
  match t, v with
  | TLogic, VL _ => true
  | TBool, VB _ => true
  | TInt, VI _ => true
  | TVec k w, VV k' w' x => vkind_eqb k k' && (w =? w')%N && (0 <=? x)%Z && (x <? pow2 w)%Z
  | TEnum _ n, VE k => (k <? n)%N
  | TArr _ n e, VA l => (N.of_nat (length l) =? n)%N && forallb (has_ty e) l
  | _, _ => false
  end.
