(** * C06 - reference tables (checked in; NOT generated): the reserved words of IEEE Std 1076-1993
    (section 13.9) and the predefined identifiers that the text printed by CoHDL's VHDL backend
    relies on (types of std.standard / ieee.std_logic_1164 / ieee.numeric_std, the conversion
    and numeric_std functions [format_cast] / [BinOp.write] / [Process] print, the helper
    function every architecture declares, the boolean literals and the library name used by
    direct entity instantiation). *)
From Coq Require Import String List.
Import ListNotations.
Local Open Scope string_scope.

Definition vhdl93_reserved : list string := [
  "abs"; "access"; "after"; "alias"; "all"; "and"; "architecture"; "array"; "assert"; "attribute";
  "begin"; "block"; "body"; "buffer"; "bus"; "case"; "component"; "configuration"; "constant";
  "disconnect"; "downto"; "else"; "elsif"; "end"; "entity"; "exit"; "file"; "for"; "function";
  "generate"; "generic"; "group"; "guarded"; "if"; "impure"; "in"; "inertial"; "inout"; "is";
  "label"; "library"; "linkage"; "literal"; "loop"; "map"; "mod"; "nand"; "new"; "next"; "nor";
  "not"; "null"; "of"; "on"; "open"; "or"; "others"; "out"; "package"; "port"; "postponed";
  "procedure"; "process"; "pure"; "range"; "record"; "register"; "reject"; "rem"; "report";
  "return"; "rol"; "ror"; "select"; "severity"; "signal"; "shared"; "sla"; "sll"; "sra"; "srl";
  "subtype"; "then"; "to"; "transport"; "type"; "unaffected"; "units"; "until"; "use"; "variable";
  "wait"; "when"; "while"; "with"; "xnor"; "xor"].

(** predefined identifiers the emitter prints *)
Definition predefined_types : list string :=
  ["std_logic"; "std_logic_vector"; "unsigned"; "signed"; "boolean"; "integer"; "natural"].

Definition predefined_functions : list string :=
  ["to_integer"; "to_unsigned"; "to_signed"; "resize"; "shift_left"; "shift_right";
   "rising_edge"; "falling_edge"; "std_logic_vector"; "unsigned"; "signed";
   "cohdl_bool_to_std_logic"].

Definition predefined_literals : list string := ["true"; "false"].

Definition predefined_libraries : list string := ["work"].

Definition predefined_used_by_emitter : list string :=
  predefined_types ++ predefined_functions ++ predefined_literals ++ predefined_libraries.

(** operator member name (ir.BinOp.Operator etc.) -> the VHDL operator the emitter must print for it;
    the fail-closed reader maps these strings to [NumStd.binop] / [NumStd.unop] constructors *)
Definition binop_string_ref : list (string * string) :=
  [("ADD", "+"); ("BIT_AND", "and"); ("BIT_OR", "or"); ("BIT_XOR", "xor"); ("CONCAT", "&");
   ("MOD", "mod"); ("MUL", "*"); ("REM", "rem"); ("SUB", "-"); ("TRUNC_DIV", "/")].

Definition compare_string_ref : list (string * string) :=
  [("EQ", "="); ("GE", ">="); ("GT", ">"); ("LE", "<="); ("LT", "<"); ("NE", "/=")].

Definition unaryop_string_ref : list (string * string) :=
  [("INV", "not "); ("NEG", "-")].

Definition pair_eqb (a b : string * string) : bool := String.eqb (fst a) (fst b) && String.eqb (snd a) (snd b).

Fixpoint pairs_eqb (a b : list (string * string)) : bool :=
  match a, b with
  | [], [] => true
  | x :: r, y :: r' => pair_eqb x y && pairs_eqb r r'
  | _, _ => false
  end.
