(** * C06 - identifiers of the emitted VHDL: legality of the declared names and a model of
    the name assignment of [VhdlScope.complete_setup] (_vhdl_repr.py l.677-781).

    VHDL is case-insensitive: every comparison goes through [lower].  Rules (boolean, evaluated
    by the harness on the names the fail-closed reader collected from the emitted text):
    [idents_ok] (VHDL-93 basic identifiers), [decl_unique] (one declaration per name and
    declarative region), [no_reserved], [no_hiding], [lib_unique].

    Second half: [uniquify] and its theorems. *)
From Coq Require Import Ascii String List Bool NArith PArith Arith Lia.
From Coq Require DecimalString DecimalN DecimalFacts.
Import ListNotations.
Local Open Scope string_scope.

(** ** case folding *)

Definition lower_ascii (c : ascii) : ascii :=
  let n := N_of_ascii c in
  if (65 <=? n)%N && (n <=? 90)%N then ascii_of_N (n + 32) else c.

Fixpoint lower (s : string) : string :=
  match s with
  | EmptyString => EmptyString
  | String c r => String (lower_ascii c) (lower r)
  end.

Definition smem (x : string) (l : list string) : bool := existsb (String.eqb x) l.

Fixpoint nodupb (l : list string) : bool :=
  match l with
  | [] => true
  | x :: r => negb (smem x r) && nodupb r
  end.

(** ** VHDL-93 basic identifier:  letter { [ underline ] letter_or_digit } *)

Definition is_letter (c : ascii) : bool :=
  let n := N_of_ascii (lower_ascii c) in (97 <=? n)%N && (n <=? 122)%N.
Definition is_digit (c : ascii) : bool :=
  let n := N_of_ascii c in (48 <=? n)%N && (n <=? 57)%N.
Definition is_us (c : ascii) : bool := (N_of_ascii c =? 95)%N.

Fixpoint ident_tail (prev_us : bool) (s : string) : bool :=
  match s with
  | EmptyString => negb prev_us
  | String c r =>
      if is_us c then negb prev_us && ident_tail true r
      else (is_letter c || is_digit c) && ident_tail false r
  end.

Definition ident_ok (s : string) : bool :=
  match s with
  | EmptyString => false
  | String c r => is_letter c && ident_tail false r
  end.

(** ** the declared names of one entity + architecture, as collected by the reader *)

Record ent_names := {
  en_entity : string;                             (* library region *)
  en_archname : string;                           (* name of the architecture body *)
  en_fixed : list string;                         (* names declared by the fixed part of the text (the helper
                                                     function); same region as [en_arch] *)
  en_arch : list string;                          (* ports, architecture declarative part (signals, constants,
                                                     types) and the labels of the statement part: the
                                                     non-overloadable names of ONE declarative region *)
  en_lits : list (list string);                   (* per enumeration type: its literals (overloadable: two types
                                                     may share a literal, one type may not repeat one) *)
  en_procs : list (list string * list string);    (* per process: its variables; identifiers its text uses *)
  en_scoped : list (string * (N * N));            (* every declared identifier with the text lines (from, to] in
                                                     which it is visible (declaration line, end of its region) *)
  en_relied : list (string * N)                   (* predefined identifiers the text uses in their predefined
                                                     role, with the line of each use *)
}.

Definition all_decls (n : ent_names) : list string :=
  n.(en_entity) :: n.(en_archname) :: n.(en_arch) ++ concat n.(en_lits) ++ flat_map fst n.(en_procs).

Definition idents_ok (n : ent_names) : bool := forallb ident_ok (all_decls n).

(** one declaration per name in the architecture region (an enumeration literal may be overloaded by
    another enumeration literal only); per process: its variables pairwise distinct, and none of them
    hides an architecture-level name that the process text uses *)
Definition decl_unique (n : ent_names) : bool :=
  let arch := map lower (n.(en_fixed) ++ n.(en_arch)) in
  let lits := map lower (concat n.(en_lits)) in
  nodupb arch
  && forallb (fun l => nodupb (map lower l)) n.(en_lits)
  && forallb (fun l => negb (smem l (map lower n.(en_arch)))) lits
  && forallb (fun p =>
       let vars := map lower (fst p) in
       let uses := map lower (snd p) in
       nodupb vars && forallb (fun v => negb (smem v (arch ++ lits) && smem v uses)) vars) n.(en_procs).

Definition no_reserved (table : list string) (n : ent_names) : bool :=
  forallb (fun d => negb (smem (lower d) table)) (all_decls n).

(** no declared identifier equals a predefined name that the same text relies on inside the scope of
    that declaration (a name is not yet visible in its own declaration: [signal integer : integer;]
    is legal as long as no later line means the type) *)
Definition no_hiding (predef : list string) (n : ent_names) : bool :=
  forallb (fun d =>
    let nm := lower (fst d) in
    negb (smem nm predef
          && existsb (fun r => String.eqb (lower (fst r)) nm
                               && (fst (snd d) <? snd r)%N && (snd r <=? snd (snd d))%N) n.(en_relied)))
    n.(en_scoped).

Definition lib_unique (entities : list string) : bool := nodupb (map lower entities).

(** ** [complete_setup]: strip underscores, lower-case collision test, counter search *)

Fixpoint strip_lead (s : string) : string :=
  match s with
  | String c r => if is_us c then strip_lead r else s
  | EmptyString => EmptyString
  end.

Fixpoint srev (s acc : string) : string :=
  match s with
  | EmptyString => acc
  | String c r => srev r (String c acc)
  end.

(** Python's [name.strip("_")] *)
Definition strip_us (s : string) : string :=
  srev (strip_lead (srev (strip_lead s) EmptyString)) EmptyString.

(** Python's [str(n)] for a natural number *)
Definition str (n : N) : string := DecimalString.NilEmpty.string_of_uint (N.to_uint n).

Definition taken (used : list string) (name : string) : bool := smem (lower name) used.

Definition pw2 (k : nat) : N := N.pow 2 (N.of_nat k).

(** [cnt = 1; while base+str(cnt) taken: cnt *= 2] - the exponent reached.  The loop ends after at
    most [length used] doublings (the tested names are pairwise different), which is the
    structural bound [fuel]; [uniquify_terminates] shows the bound is never the reason to stop. *)
Fixpoint dbl (used : list string) (base : string) (k : nat) (fuel : nat) : nat :=
  match fuel with
  | O => k
  | S f => if taken used (base ++ str (pw2 k)) then dbl used base (S k) f else k
  end.

(** [step = cnt // 2; while step: if base+str(cnt-step) free: cnt -= step; step //= 2] -
    structural on the bit length [k] of the counter ([cnt <= 2^k], [step = 2^(k-1)]) *)
Fixpoint bsearch (used : list string) (base : string) (k : nat) (cnt : N) : N :=
  match k with
  | O => cnt
  | S k' =>
      let step := pw2 k' in
      bsearch used base k' (if taken used (base ++ str (cnt - step)) then cnt else (cnt - step)%N)
  end.

Definition suffix (used : list string) (base : string) : N :=
  let k := dbl used base 0 (S (length used)) in
  bsearch used base k (pw2 k).

Definition fresh (used : list string) (name : string) : string :=
  if taken used name then name ++ str (suffix used name) else name.

(** ** the name assignment of one scope.  [norm] = what [complete_setup] does to the requested name
    before the collision test; [used] = the lower-cased names taken so far (reserved words, the
    enumeration literals of the entity, names of the enclosing scopes); requests in declaration order *)
Section Assign.
  Context {A : Type} (norm : A -> string).

  Fixpoint assign (used : list string) (reqs : list A) : list string :=
    match reqs with
    | [] => []
    | r :: rest =>
        let n := fresh used (norm r) in
        n :: assign (lower n :: used) rest
    end.

  Fixpoint assign_used (used : list string) (reqs : list A) : list string :=
    match reqs with
    | [] => used
    | r :: rest => assign_used (lower (fresh used (norm r)) :: used) rest
    end.

  (** a sub-scope starts from everything its parent has taken (l.688) *)
  Definition assign_child (used : list string) (parent child : list A) : list string * list string :=
    (assign used parent, assign (assign_used used parent) child).

  (** [lookup_name]: every reference to the [i]-th declared object prints this name *)
  Definition assigned_name (used : list string) (reqs : list A) (i : nat) : string :=
    nth i (assign used reqs) EmptyString.
End Assign.

(** the CURRENT tree (commits 3102177, 60980b9): a request is the raw name (override / name hint /
    fallback) together with the fallback of the object's kind; [name.strip("_")], runs of underscores
    collapsed, an empty result replaced by the fallback *)
Fixpoint collapse_us (prev_us : bool) (s : string) : string :=
  match s with
  | EmptyString => EmptyString
  | String c r =>
      if is_us c then (if prev_us then collapse_us true r else String c (collapse_us true r))
      else String c (collapse_us false r)
  end.

Definition normalize (rf : string * string) : string :=
  let n := collapse_us false (strip_us (fst rf)) in
  match n with EmptyString => snd rf | _ => n end.

Definition uniquify : list string -> list (string * string) -> list string := assign normalize.
Definition uniquify_used : list string -> list (string * string) -> list string := assign_used normalize.
Definition uniquify_child : list string -> list (string * string) -> list (string * string) -> list string * list string :=
  assign_child normalize.
Definition name_of : list string -> list (string * string) -> nat -> string := assigned_name normalize.

(** [ModuleScope.complete_setup] reserves the enumeration literals of all scopes of the entity before
    any name is assigned (60980b9) *)
Definition reserve_literals (used lits : list string) : list string := map lower lits ++ used.
Definition uniquify_module (used lits : list string) (reqs : list (string * string)) : list string :=
  uniquify (reserve_literals used lits) reqs.

(** the code as it was before 3102177 (strip only): kept for the regression witnesses *)
Definition uniquify_strip : list string -> list string -> list string := assign strip_us.

(** ** theorems about [uniquify] *)


(** * basic string / list facts *)

Lemma lower_app : forall a b, lower (a ++ b) = lower a ++ lower b.
Proof. induction a; simpl; intros; [reflexivity | now rewrite IHa]. Qed.

Lemma sapp_inv_head : forall a b c : string, a ++ b = a ++ c -> b = c.
Proof. induction a; simpl; intros b c H; [assumption | injection H; auto]. Qed.

Lemma smem_In : forall x l, smem x l = true <-> In x l.
Proof.
  intros x l. unfold smem. rewrite existsb_exists. split.
  - intros [y [Hy E]]. apply String.eqb_eq in E. now subst.
  - intros H. exists x. split; [assumption | apply String.eqb_refl].
Qed.

Lemma taken_In : forall used n, taken used n = true <-> In (lower n) used.
Proof. intros. unfold taken. apply smem_In. Qed.

Lemma taken_false : forall used n, taken used n = false <-> ~ In (lower n) used.
Proof.
  intros. rewrite <- taken_In. destruct (taken used n); split; intros H; try congruence.
Qed.

Lemma lower_uint : forall d,
  lower (DecimalString.NilEmpty.string_of_uint d) = DecimalString.NilEmpty.string_of_uint d.
Proof. induction d; simpl; try reflexivity; rewrite IHd; reflexivity. Qed.

Lemma lower_str : forall n, lower (str n) = str n.
Proof. intros. apply lower_uint. Qed.

Lemma string_of_uint_inj : forall d e,
  DecimalString.NilEmpty.string_of_uint d = DecimalString.NilEmpty.string_of_uint e -> d = e.
Proof.
  intros d e H.
  assert (Some d = Some e) as E.
  { rewrite <- (DecimalString.NilEmpty.usu d), <- (DecimalString.NilEmpty.usu e). now rewrite H. }
  now injection E.
Qed.

Lemma str_inj : forall n m, str n = str m -> n = m.
Proof.
  intros n m H. apply string_of_uint_inj in H.
  rewrite <- (DecimalN.Unsigned.of_to n), <- (DecimalN.Unsigned.of_to m). now rewrite H.
Qed.

Lemma pw2_inj : forall i j, pw2 i = pw2 j -> i = j.
Proof.
  intros i j H. unfold pw2 in H. apply N.pow_inj_r in H; [| reflexivity].
  now apply Nat2N.inj.
Qed.

Lemma cand_inj : forall base i j,
  lower (base ++ str (pw2 i)) = lower (base ++ str (pw2 j)) -> i = j.
Proof.
  intros base i j H. rewrite !lower_app, !lower_str in H.
  apply sapp_inv_head in H. apply str_inj in H. now apply pw2_inj.
Qed.

(** * the doubling loop *)

Lemma dbl_spec : forall used base fuel k,
  let r := dbl used base k fuel in
  k <= r <= k + fuel
  /\ (forall j, k <= j < r -> taken used (base ++ str (pw2 j)) = true)
  /\ (taken used (base ++ str (pw2 r)) = false \/ r = k + fuel).
Proof.
  intros used base. induction fuel as [| f IH]; intros k; simpl.
  - split; [lia |]. split; [intros; lia | right; lia].
  - destruct (taken used (base ++ str (pw2 k))) eqn:E.
    + specialize (IH (S k)). simpl in IH. destruct IH as [Hr [Hall Hend]].
      split; [lia |]. split.
      * intros j Hj. destruct (Nat.eq_dec j k) as [-> | Hne]; [assumption |].
        apply Hall. lia.
      * destruct Hend as [Hend | Hend]; [now left | right; lia].
    + split; [lia |]. split; [intros; lia | now left].
Qed.

Lemma NoDup_map_inj : forall (A B : Type) (f : A -> B) (l : list A),
  (forall x y, f x = f y -> x = y) -> NoDup l -> NoDup (map f l).
Proof.
  intros A B f l Hf ND. induction ND as [| a l Ha Hl IH]; simpl; constructor; [| assumption].
  intros Hin. apply in_map_iff in Hin. destruct Hin as [y [E Hy]].
  apply Hf in E. now subst.
Qed.

Lemma pigeon : forall used base,
  (forall j, j < S (length used) -> taken used (base ++ str (pw2 j)) = true) -> False.
Proof.
  intros used base H.
  set (f := fun i => lower (base ++ str (pw2 i))).
  assert (NoDup (map f (seq 0 (S (length used))))) as ND.
  { apply NoDup_map_inj; [| apply seq_NoDup].
    intros i j E. unfold f in E. now apply cand_inj in E. }
  assert (incl (map f (seq 0 (S (length used)))) used) as I.
  { intros x Hx. apply in_map_iff in Hx. destruct Hx as [i [<- Hi]].
    apply in_seq in Hi. unfold f. apply taken_In. apply H. lia. }
  pose proof (NoDup_incl_length ND I) as L.
  rewrite map_length, seq_length in L. lia.
Qed.

Theorem uniquify_terminates : forall used base, exists k,
  k <= length used /\ dbl used base 0 (S (length used)) = k /\
  taken used (base ++ str (pw2 k)) = false /\
  forall j, j < k -> taken used (base ++ str (pw2 j)) = true.
Proof.
  intros used base. exists (dbl used base 0 (S (length used))).
  pose proof (dbl_spec used base (S (length used)) 0) as H. cbv zeta in H.
  rewrite Nat.add_0_l in H.
  set (r := dbl used base 0 (S (length used))) in *.
  destruct H as [Hr [Hall Hend]].
  assert (r <> S (length used)) as Hne.
  { intros E. apply (pigeon used base). intros j Hj. apply Hall. lia. }
  split; [lia |]. split; [reflexivity |]. split.
  - destruct Hend as [Hend | Hend]; [assumption | contradiction].
  - intros j Hj. apply Hall. lia.
Qed.

Theorem dbl_free : forall used base,
  taken used (base ++ str (pw2 (dbl used base 0 (S (length used))))) = false.
Proof.
  intros used base. destruct (uniquify_terminates used base) as [k [_ [E [F _]]]].
  now rewrite E.
Qed.

(** * binary search, fresh *)

Lemma bsearch_free : forall used base k cnt,
  taken used (base ++ str cnt) = false ->
  taken used (base ++ str (bsearch used base k cnt)) = false.
Proof.
  intros used base. induction k as [| k IH]; intros cnt H; simpl; [assumption |].
  apply IH. destruct (taken used (base ++ str (cnt - pw2 k))) eqn:E; assumption.
Qed.

Lemma fresh_free : forall used name, taken used (fresh used name) = false.
Proof.
  intros used name. unfold fresh. destruct (taken used name) eqn:E; [| assumption].
  unfold suffix. apply bsearch_free. apply dbl_free.
Qed.

(** * the name assignment (any normalisation) *)

Section AssignFacts.
  Context {A : Type} (norm : A -> string).

  Theorem assign_distinct : forall used reqs,
    NoDup (map lower (assign norm used reqs)) /\
    forall n, In n (assign norm used reqs) -> ~ In (lower n) used.
  Proof.
    intros used reqs. revert used. induction reqs as [| r rest IH]; intros used; simpl.
    - split; [constructor | intros n []].
    - set (n := fresh used (norm r)).
      destruct (IH (lower n :: used)) as [ND Hnot].
      assert (~ In (lower n) used) as Hn by (apply taken_false; apply fresh_free).
      split.
      + constructor; [| assumption].
        intros Hin. apply in_map_iff in Hin. destruct Hin as [m [Em Hm]].
        apply (Hnot m Hm). left. now symmetry.
      + intros m [<- | Hm]; [assumption |].
        intros Hu. apply (Hnot m Hm). now right.
  Qed.

  Theorem assign_length : forall used reqs, length (assign norm used reqs) = length reqs.
  Proof.
    intros used reqs. revert used. induction reqs; intros; simpl; [reflexivity | now rewrite IHreqs].
  Qed.

  Theorem assigned_name_inj : forall used reqs i j,
    i < length reqs -> j < length reqs ->
    (lower (assigned_name norm used reqs i) = lower (assigned_name norm used reqs j) <-> i = j).
  Proof.
    intros used reqs i j Hi Hj. split; [| now intros ->].
    unfold assigned_name. intros E.
    destruct (assign_distinct used reqs) as [ND _].
    change EmptyString with (lower EmptyString) in E at 1.
    rewrite <- !(map_nth lower) in E. simpl in E.
    pose proof (proj1 (NoDup_nth (map lower (assign norm used reqs)) EmptyString) ND) as Hinj.
    apply Hinj; [| | assumption]; now rewrite map_length, assign_length.
  Qed.

  Lemma assign_used_In : forall reqs used x,
    In x (assign_used norm used reqs) <-> In x (map lower (assign norm used reqs)) \/ In x used.
  Proof.
    induction reqs as [| r rest IH]; intros used x; simpl.
    - tauto.
    - rewrite IH. simpl. tauto.
  Qed.

  Lemma NoDup_app_intro : forall (B : Type) (l1 l2 : list B),
    NoDup l1 -> NoDup l2 -> (forall x, In x l1 -> ~ In x l2) -> NoDup (l1 ++ l2).
  Proof.
    intros B l1 l2 H1 H2 H. induction H1 as [| a l Ha Hl IH]; simpl; [assumption |].
    constructor.
    - rewrite in_app_iff. intros [Hin | Hin]; [contradiction | apply (H a); simpl; auto].
    - apply IH. intros x Hx. apply H. now right.
  Qed.

  Theorem assign_child_distinct : forall used parent child,
    let (p, c) := assign_child norm used parent child in
    NoDup (map lower (p ++ c)) /\ forall n, In n (p ++ c) -> ~ In (lower n) used.
  Proof.
    intros used parent child. unfold assign_child.
    destruct (assign_distinct used parent) as [NDp Hp].
    destruct (assign_distinct (assign_used norm used parent) child) as [NDc Hc].
    split.
    - rewrite map_app. apply NoDup_app_intro; try assumption.
      intros x Hx Hx2. apply in_map_iff in Hx2. destruct Hx2 as [m [<- Hm]].
      apply (Hc m Hm). apply assign_used_In. now left.
    - intros n Hn. apply in_app_iff in Hn. destruct Hn as [Hn | Hn]; [now apply Hp |].
      intros Hu. apply (Hc n Hn). apply assign_used_In. now right.
  Qed.
End AssignFacts.

(** * the current tree *)

Theorem uniquify_distinct : forall used reqs,
  NoDup (map lower (uniquify used reqs)) /\
  forall n, In n (uniquify used reqs) -> ~ In (lower n) used.
Proof. exact (assign_distinct normalize). Qed.

Theorem uniquify_length : forall used reqs, length (uniquify used reqs) = length reqs.
Proof. exact (assign_length normalize). Qed.

Theorem same_object_same_name : forall used reqs i j,
  i < length reqs -> j < length reqs ->
  (lower (name_of used reqs i) = lower (name_of used reqs j) <-> i = j).
Proof. exact (assigned_name_inj normalize). Qed.

Theorem uniquify_child_distinct : forall used parent child,
  let (p, c) := uniquify_child used parent child in
  NoDup (map lower (p ++ c)) /\ forall n, In n (p ++ c) -> ~ In (lower n) used.
Proof. exact (assign_child_distinct normalize). Qed.

(** no object of the entity gets the name of one of its enumeration literals *)
Theorem uniquify_avoids_literals : forall used lits reqs n l,
  In n (uniquify_module used lits reqs) -> In l lits -> lower n <> lower l.
Proof.
  intros used lits reqs n l Hn Hl E.
  destruct (uniquify_distinct (reserve_literals used lits) reqs) as [_ H].
  apply (H n Hn). unfold reserve_literals. apply in_or_app. left. rewrite E. now apply in_map.
Qed.

(** the normalisation never leaves two adjacent underscores (3102177) *)
Fixpoint no_double_us (prev_us : bool) (s : string) : bool :=
  match s with
  | EmptyString => true
  | String c r => if is_us c then negb prev_us && no_double_us true r else no_double_us false r
  end.

Lemma collapse_no_double_us : forall s b, no_double_us b (collapse_us b s) = true.
Proof.
  induction s as [| c r IH]; intros b; simpl; [reflexivity |].
  destruct (is_us c) eqn:U.
  - destruct b; [apply IH |]. simpl. rewrite U. simpl. apply IH.
  - simpl. rewrite U. apply IH.
Qed.

(** * examples *)

Example uniquify_ex1 :
  uniquify ["signal"; "foo"; "temp"; "temp1"; "temp2"; "temp3"]
           [("_Signal_", "sig"); ("Foo", "sig"); ("foo", "sig"); ("temp", "temp"); ("temp", "temp");
            ("x__y", "sig"); ("temp", "temp"); ("__", "var"); ("_", "")]
  = ["Signal1"; "Foo1"; "foo2"; "temp4"; "temp5"; "x_y"; "temp6"; "var"; ""].
Proof. vm_compute; reflexivity. Qed.

(** regression witness: before 3102177 the same requests gave an illegal and an empty identifier *)
Example uniquify_strip_witness :
  uniquify_strip ["signal"] ["x__y"; "__"; "_Signal_"] = ["x__y"; ""; "Signal1"]
  /\ ident_ok "x__y" = false /\ ident_ok "" = false
  /\ uniquify ["signal"] [("x__y", "sig"); ("__", "sig"); ("_Signal_", "sig")] = ["x_y"; "sig"; "Signal1"]
  /\ forallb ident_ok ["x_y"; "sig"; "Signal1"] = true.
Proof. vm_compute. repeat split. Qed.

(** the binary search is NOT a least-free-suffix search: "t3" is free, the result is "t13"
    (16 free; 8, 12 taken; 14, 13 free) *)
Example uniquify_hole : uniquify ["t"; "t1"; "t2"; "t4"; "t8"; "t12"] [("t", "sig")] = ["t13"].
Proof. vm_compute; reflexivity. Qed.

Example uniquify_hole_free : taken ["t"; "t1"; "t2"; "t4"; "t8"; "t12"] "t3" = false.
Proof. vm_compute; reflexivity. Qed.

Example uniquify_child_ex :
  uniquify_child ["signal"] [("a", "sig"); ("A", "sig"); ("signal", "sig")] [("a", "var"); ("b", "var"); ("a1", "var")]
  = (["a"; "A1"; "signal1"], ["a2"; "b"; "a11"]).
Proof. vm_compute; reflexivity. Qed.

(** a port [state_0] beside a coroutine process: the literal is reserved first, the port is renamed *)
Example uniquify_literal_ex :
  uniquify_module ["signal"] ["state_0"; "state_1"; "GREEN"] [("state_0", "sig"); ("green", "sig"); ("s", "sig")]
  = ["state_01"; "green1"; "s"].
Proof. vm_compute; reflexivity. Qed.
