(** * Definite assignment of compiler temporaries in one emitted process body (property C08).

    [def_assign T body] holds when, on every path through [body], no variable of
    [T] (the process variables that are compiler temporaries) is read before it
    was assigned as a whole on that path.  Joins of [if] and [case] intersect;
    the arms of a [case] (in particular of the [case state is] of a lowered
    coroutine) are separate paths; a [case] without [when others] also has the
    fall-through path.  An assignment to a part of a variable ([v(i) := e],
    [v(h downto l) := e]) reads the rest of [v] and does not define it.

    [def_assign_sound]: such a body, executed by [Sem.exec] from two variable
    stores that differ only in the values (not the shapes) of variables of [T],
    behaves identically: same error or same signal writes, and final stores that
    again differ at most on variables of [T] not definitely assigned.  Hence no
    output depends on a temporary's value left over from an earlier activation. *)
From Coq Require Import ZArith NArith PArith List Bool FMapPositive FSetPositive Lia.
From Cohdl Require Import Base.Bits Vhdl.Value Vhdl.NumStd Vhdl.Syntax Vhdl.Sem.
Import ListNotations.

Definition pmem (x : positive) (l : list positive) : bool := existsb (Pos.eqb x) l.
Definition pinter (a b : list positive) : list positive := filter (fun x => pmem x b) a.

(** reading [x] is allowed: not a temporary, or already assigned on this path *)
Definition rd_ok (T D : list positive) (x : positive) : bool := negb (pmem x T) || pmem x D.

Fixpoint expr_ok (T D : list positive) (e : expr) : bool :=
  match e with
  | ELit _ | ESig _ | EEdge _ _ => true
  | EVar x => rd_ok T D x
  | EIdx a i => expr_ok T D a && expr_ok T D i
  | ESlice a _ _ => expr_ok T D a
  | EUn _ a => expr_ok T D a
  | EF1 _ a => expr_ok T D a
  | EBin _ a b => expr_ok T D a && expr_ok T D b
  | EF2 _ a b => expr_ok T D a && expr_ok T D b
  end.

Fixpoint path_ok (T D : list positive) (p : list sel) : bool :=
  match p with
  | [] => true
  | SelIdx i :: r => expr_ok T D i && path_ok T D r
  | SelSlice _ _ :: r => path_ok T D r
  end.

(** [da T s D] = [Some D'] : no read-before-assignment in [s] when [D] is assigned on
    entry; [D'] is assigned on every path on exit *)
Fixpoint da (T : list positive) (s : stmt) (D : list positive) {struct s} : option (list positive) :=
  match s with
  | SNull => Some D
  | SSig _ path e => if expr_ok T D e && path_ok T D path then Some D else None
  | SVar root path e =>
      if expr_ok T D e && path_ok T D path then
        match path with
        | [] => Some (root :: D)
        | _ :: _ => if rd_ok T D root then Some D else None
        end
      else None
  | SIf c a b =>
      if expr_ok T D c then
        match da T a D, da T b D with
        | Some x, Some y => Some (pinter x y)
        | _, _ => None
        end
      else None
  | SCase e arms => if expr_ok T D e then da_arms T arms D else None
  | SSeq a b => match da T a D with Some D1 => da T b D1 | None => None end
  | SAssert c => if expr_ok T D c then Some D else None
  end
with da_arms (T : list positive) (a : arms) (D : list positive) {struct a} : option (list positive) :=
  match a with
  | ANil None => Some D
  | ANil (Some s) => da T s D
  | ACons _ s r =>
      match da T s D, da_arms T r D with
      | Some x, Some y => Some (pinter x y)
      | _, _ => None
      end
  end.

Definition def_assign (T : list positive) (body : stmt) : bool :=
  match da T body [] with Some _ => true | None => false end.

(** ** Shapes *)

Inductive shp := ShL | ShB | ShI | ShE | ShV (k : vkind) (w : N) | ShA (l : list shp).

Fixpoint shape_of (v : value) : shp :=
  match v with
  | VL _ => ShL | VB _ => ShB | VI _ => ShI | VE _ => ShE
  | VV k w _ => ShV k w
  | VA l => ShA (map shape_of l)
  end.

Lemma shape_eqb_iff : forall a b, shape_eqb a b = true <-> shape_of a = shape_of b.
Proof.
  induction a as [x|k w v|x|x|x|l IH] using value_ind'; intros b; destruct b; cbn [shape_eqb shape_of];
    try (split; [discriminate|congruence]); try (split; reflexivity).
  - rewrite andb_true_iff, vkind_eqb_ok, N.eqb_eq. split; [intros [-> ->]; reflexivity|intros [= -> ->]; auto].
  - match goal with |- ?g l l0 = true <-> _ => set (go := g) end.
    assert (H : go l l0 = true <-> map shape_of l = map shape_of l0).
    { revert l0. induction IH as [|x r Hx _ IHr]; intros [|y r']; cbn; try (split; [discriminate|congruence]).
      - split; reflexivity.
      - rewrite andb_true_iff, Hx. fold go. rewrite IHr. split; [intros [-> ->]; reflexivity|intros [= -> ->]; auto]. }
    rewrite H. split; congruence.
Qed.

Lemma shape_eqb_refl a : shape_eqb a a = true.
Proof. apply shape_eqb_iff. reflexivity. Qed.

Lemma shape_eqb_congr a b x : shape_eqb a b = true -> shape_eqb a x = shape_eqb b x.
Proof.
  intros H. apply shape_eqb_iff in H.
  destruct (shape_eqb a x) eqn:E1; destruct (shape_eqb b x) eqn:E2; try reflexivity.
  - apply shape_eqb_iff in E1. assert (shape_eqb b x = true) by (apply shape_eqb_iff; congruence). congruence.
  - apply shape_eqb_iff in E2. assert (shape_eqb a x = true) by (apply shape_eqb_iff; congruence). congruence.
Qed.

(** ** The simulation relation *)

Definition sim (T D : list positive) (v1 v2 : store) : Prop :=
  forall x,
    match PM.find x v1, PM.find x v2 with
    | Some a, Some b => shape_eqb a b = true /\ (rd_ok T D x = true -> a = b)
    | None, None => True
    | _, _ => False
    end.

Definition rel (T D : list positive) (r1 r2 : res (store * list write)) : Prop :=
  match r1, r2 with
  | Ok (a, p), Ok (b, q) => p = q /\ sim T D a b
  | Err e1, Err e2 => e1 = e2
  | _, _ => False
  end.

Lemma pmem_In x l : pmem x l = true <-> In x l.
Proof.
  unfold pmem. rewrite existsb_exists. split.
  - intros [y [Hy He]]. apply Pos.eqb_eq in He. subst. assumption.
  - intros H. exists x. split; [assumption|apply Pos.eqb_refl].
Qed.

Lemma pmem_inter x a b : pmem x (pinter a b) = pmem x a && pmem x b.
Proof.
  apply Bool.eq_iff_eq_true. rewrite andb_true_iff, !pmem_In. unfold pinter.
  rewrite filter_In, pmem_In. tauto.
Qed.

Lemma sim_weaken T D D' v1 v2 :
  (forall x, pmem x D' = true -> pmem x D = true) -> sim T D v1 v2 -> sim T D' v1 v2.
Proof.
  intros Hs H x. specialize (H x).
  destruct (PM.find x v1), (PM.find x v2); auto.
  destruct H as [H1 H2]. split; [assumption|]. intros Hr. apply H2.
  unfold rd_ok in *. apply orb_true_iff in Hr. apply orb_true_iff. destruct Hr as [Hr|Hr]; [left; assumption|right; auto].
Qed.

Lemma sim_inter_l T a b v1 v2 : sim T a v1 v2 -> sim T (pinter a b) v1 v2.
Proof. apply sim_weaken. intros x. rewrite pmem_inter, andb_true_iff. tauto. Qed.

Lemma sim_inter_r T a b v1 v2 : sim T b v1 v2 -> sim T (pinter a b) v1 v2.
Proof. apply sim_weaken. intros x. rewrite pmem_inter, andb_true_iff. tauto. Qed.

Lemma sim_lookup T D v1 v2 x : sim T D v1 v2 -> rd_ok T D x = true -> lookup v1 x = lookup v2 x.
Proof.
  intros H Hr. specialize (H x). unfold lookup.
  destruct (PM.find x v1), (PM.find x v2); try contradiction; [|reflexivity].
  destruct H as [_ H]. rewrite (H Hr). reflexivity.
Qed.

Lemma eval_agree T D sg ev v1 v2 : sim T D v1 v2 ->
  forall e, expr_ok T D e = true -> eval sg v1 ev e = eval sg v2 ev e.
Proof.
  intros H. induction e; cbn [expr_ok eval]; intros Hok;
    try apply andb_true_iff in Hok; try reflexivity.
  - eapply sim_lookup; eauto.
  - destruct Hok as [Ha Hb]. rewrite IHe1, IHe2 by assumption. reflexivity.
  - rewrite IHe by assumption. reflexivity.
  - rewrite IHe by assumption. reflexivity.
  - destruct Hok as [Ha Hb]. rewrite IHe1, IHe2 by assumption. reflexivity.
  - rewrite IHe by assumption. reflexivity.
  - destruct Hok as [Ha Hb]. rewrite IHe1, IHe2 by assumption. reflexivity.
Qed.

Lemma resolve_agree T D sg ev v1 v2 : sim T D v1 v2 ->
  forall p, path_ok T D p = true -> resolve sg v1 ev p = resolve sg v2 ev p.
Proof.
  intros H. induction p as [|[i|hi lo] r IH]; cbn [path_ok resolve]; intros Hok; [reflexivity| |].
  - apply andb_true_iff in Hok. destruct Hok as [Hi Hr].
    rewrite (eval_agree T D sg ev v1 v2 H i Hi), (IH Hr). reflexivity.
  - rewrite (IH Hok). reflexivity.
Qed.

Lemma sim_add_same T D v1 v2 root nv : sim T D v1 v2 -> sim T D (PM.add root nv v1) (PM.add root nv v2).
Proof.
  intros H x. destruct (Pos.eq_dec x root) as [->|Hne].
  - rewrite !PM.gss. split; [apply shape_eqb_refl|reflexivity].
  - rewrite !PM.gso by assumption. apply H.
Qed.

Lemma sim_grow T D v1 v2 root nv :
  sim T D v1 v2 -> sim T (root :: D) (PM.add root nv v1) (PM.add root nv v2).
Proof.
  intros H x. destruct (Pos.eq_dec x root) as [->|Hne].
  - rewrite !PM.gss. split; [apply shape_eqb_refl|reflexivity].
  - rewrite !PM.gso by assumption. specialize (H x).
    destruct (PM.find x v1), (PM.find x v2); auto.
    destruct H as [H1 H2]. split; [assumption|]. intros Hr. apply H2.
    unfold rd_ok in *. cbn [pmem existsb] in Hr.
    apply Pos.eqb_neq in Hne. rewrite Hne in Hr. exact Hr.
Qed.

Lemma sim_shape T D v1 v2 x : sim T D v1 v2 ->
  match lookup v1 x, lookup v2 x with
  | Ok a, Ok b => shape_eqb a b = true
  | Err e1, Err e2 => e1 = e2
  | _, _ => False
  end.
Proof.
  intros H. specialize (H x). unfold lookup.
  destruct (PM.find x v1), (PM.find x v2); try contradiction; [tauto|reflexivity].
Qed.

Lemma apply_write_whole_agree a b x : shape_eqb a b = true -> apply_write a [] x = apply_write b [] x.
Proof.
  intros H. cbn [apply_write]. rewrite (shape_eqb_congr a b x H).
  destruct (shape_eqb b x); [reflexivity|].
  apply shape_eqb_iff in H.
  destruct a, b; cbn in H; try discriminate; reflexivity.
Qed.

Lemma apply_write_whole_val a x nv : apply_write a [] x = Ok nv -> nv = x.
Proof. cbn. destruct (shape_eqb a x); [congruence|]. destruct a, x; discriminate. Qed.

(** ** Soundness *)

Definition stmt_sound (T : list positive) (s : stmt) : Prop :=
  forall D D' sg ev v1 v2 pend, da T s D = Some D' -> sim T D v1 v2 ->
    rel T D' (exec sg ev s v1 pend) (exec sg ev s v2 pend).

Definition arms_sound (T : list positive) (a : arms) : Prop :=
  forall D D' sg ev v v1 v2 pend, da_arms T a D = Some D' -> sim T D v1 v2 ->
    rel T D' (exec_arms sg ev v a v1 pend) (exec_arms sg ev v a v2 pend).

Lemma rel_refl_err T D A (r1 r2 : res A) (k1 k2 : A -> res (store * list write)) :
  r1 = r2 -> (forall a, rel T D (k1 a) (k2 a)) -> rel T D (bind r1 k1) (bind r2 k2).
Proof. intros -> H. destruct r2; cbn; [apply H|reflexivity]. Qed.

Fixpoint da_sound_stmt (T : list positive) (s : stmt) {struct s} : stmt_sound T s
with da_sound_arms (T : list positive) (a : arms) {struct a} : arms_sound T a.
Proof.
  - destruct s as [|root path e|root path e|c a b|e ar|a b|c]; unfold stmt_sound; intros D D' sg ev v1 v2 pend Hda Hsim.
    + (* SNull *) cbn in *. injection Hda as <-. split; [reflexivity|assumption].
    + (* SSig *) cbn [da] in Hda. destruct (expr_ok T D e && path_ok T D path) eqn:E; [|discriminate].
      injection Hda as <-. apply andb_true_iff in E. destruct E as [He Hp].
      cbn [exec]. rewrite (eval_agree T D sg ev v1 v2 Hsim e He), (resolve_agree T D sg ev v1 v2 Hsim path Hp).
      destruct (eval sg v2 ev e) as [x|]; cbn [bind]; [|reflexivity].
      destruct (resolve sg v2 ev path) as [rp|]; cbn [bind]; [|reflexivity].
      destruct (lookup sg root) as [base|]; cbn [bind]; [|reflexivity].
      destruct (apply_write base rp x); cbn [bind]; [|reflexivity].
      split; [reflexivity|assumption].
    + (* SVar *) cbn [da] in Hda. destruct (expr_ok T D e && path_ok T D path) eqn:E; [|discriminate].
      apply andb_true_iff in E. destruct E as [He Hp].
      cbn [exec]. rewrite (eval_agree T D sg ev v1 v2 Hsim e He), (resolve_agree T D sg ev v1 v2 Hsim path Hp).
      destruct (eval sg v2 ev e) as [x|]; cbn [bind]; [|reflexivity].
      destruct path as [|s0 path'].
      * injection Hda as <-. cbn [resolve bind].
        pose proof (sim_shape T D v1 v2 root Hsim) as Hs.
        destruct (lookup v1 root) as [b1|e1], (lookup v2 root) as [b2|e2]; try contradiction; cbn [bind]; [|assumption].
        rewrite (apply_write_whole_agree b1 b2 x Hs).
        destruct (apply_write b2 [] x) as [nv|] eqn:Ew; cbn [bind]; [|reflexivity].
        split; [reflexivity|]. apply sim_grow. assumption.
      * destruct (rd_ok T D root) eqn:Er; [|discriminate]. injection Hda as <-.
        destruct (resolve sg v2 ev (s0 :: path')) as [rp|]; cbn [bind]; [|reflexivity].
        rewrite (sim_lookup T D v1 v2 root Hsim Er).
        destruct (lookup v2 root) as [base|]; cbn [bind]; [|reflexivity].
        destruct (apply_write base rp x) as [nv|]; cbn [bind]; [|reflexivity].
        split; [reflexivity|]. apply sim_add_same. assumption.
    + (* SIf *) cbn [da] in Hda. destruct (expr_ok T D c) eqn:Ec; [|discriminate].
      destruct (da T a D) as [Da|] eqn:Ea; [|discriminate].
      destruct (da T b D) as [Db|] eqn:Eb; [|discriminate]. injection Hda as <-.
      cbn [exec]. rewrite (eval_agree T D sg ev v1 v2 Hsim c Ec).
      destruct (eval sg v2 ev c) as [cv|]; cbn [bind]; [|reflexivity].
      destruct cv as [| | [|] | | |]; try reflexivity.
      * pose proof (da_sound_stmt T a D Da sg ev v1 v2 pend Ea Hsim) as H.
        unfold rel in *. destruct (exec sg ev a v1 pend) as [[? ?]|], (exec sg ev a v2 pend) as [[? ?]|]; try assumption.
        destruct H. split; [assumption|]. apply sim_inter_l. assumption.
      * pose proof (da_sound_stmt T b D Db sg ev v1 v2 pend Eb Hsim) as H.
        unfold rel in *. destruct (exec sg ev b v1 pend) as [[? ?]|], (exec sg ev b v2 pend) as [[? ?]|]; try assumption.
        destruct H. split; [assumption|]. apply sim_inter_r. assumption.
    + (* SCase *) cbn [da] in Hda. destruct (expr_ok T D e) eqn:Ec; [|discriminate].
      cbn [exec]. rewrite (eval_agree T D sg ev v1 v2 Hsim e Ec).
      destruct (eval sg v2 ev e) as [cv|]; cbn [bind]; [|reflexivity].
      exact (da_sound_arms T ar D D' sg ev cv v1 v2 pend Hda Hsim).
    + (* SSeq *) cbn [da] in Hda. destruct (da T a D) as [D1|] eqn:Ea; [|discriminate].
      pose proof (da_sound_stmt T a D D1 sg ev v1 v2 pend Ea Hsim) as H.
      cbn [exec]. unfold rel in H.
      destruct (exec sg ev a v1 pend) as [[w1 p1]|], (exec sg ev a v2 pend) as [[w2 p2]|]; try contradiction; cbn [bind fst snd].
      * destruct H as [-> H]. exact (da_sound_stmt T b D1 D' sg ev w1 w2 p2 Hda H).
      * assumption.
    + (* SAssert *) cbn [da] in Hda. destruct (expr_ok T D c) eqn:Ec; [|discriminate]. injection Hda as <-.
      cbn [exec]. rewrite (eval_agree T D sg ev v1 v2 Hsim c Ec).
      destruct (eval sg v2 ev c) as [cv|]; cbn [bind]; [|reflexivity].
      destruct cv; try reflexivity. split; [reflexivity|assumption].
  - destruct a as [[s|]|chs s r]; unfold arms_sound; intros D D' sg ev v v1 v2 pend Hda Hsim.
    + cbn [da_arms] in Hda. cbn [exec_arms]. exact (da_sound_stmt T s D D' sg ev v1 v2 pend Hda Hsim).
    + cbn in *. injection Hda as <-. split; [reflexivity|assumption].
    + cbn [da_arms] in Hda. destruct (da T s D) as [Da|] eqn:Ea; [|discriminate].
      destruct (da_arms T r D) as [Db|] eqn:Eb; [|discriminate]. injection Hda as <-.
      cbn [exec_arms]. destruct (existsb (choice_eqb v) chs).
      * pose proof (da_sound_stmt T s D Da sg ev v1 v2 pend Ea Hsim) as H.
        unfold rel in *. destruct (exec sg ev s v1 pend) as [[? ?]|], (exec sg ev s v2 pend) as [[? ?]|]; try assumption.
        destruct H. split; [assumption|]. apply sim_inter_l. assumption.
      * pose proof (da_sound_arms T r D Db sg ev v v1 v2 pend Eb Hsim) as H.
        unfold rel in *. destruct (exec_arms sg ev v r v1 pend) as [[? ?]|], (exec_arms sg ev v r v2 pend) as [[? ?]|]; try assumption.
        destruct H. split; [assumption|]. apply sim_inter_r. assumption.
Qed.

(** two variable stores that agree outside [T] and have equal shapes on [T] *)
Definition agree_outside (T : list positive) (v1 v2 : store) : Prop := sim T [] v1 v2.

(** the executed path's result: same error, or same signal writes and stores that agree on
    everything outside [T] and on every variable of [T] definitely assigned by the body *)
Theorem def_assign_sound : forall T body sg ev v1 v2,
  def_assign T body = true -> agree_outside T v1 v2 ->
  match exec sg ev body v1 [], exec sg ev body v2 [] with
  | Ok (w1, p1), Ok (w2, p2) =>
      p1 = p2 /\
      (forall x, pmem x T = false -> PM.find x w1 = PM.find x w2) /\
      (exists D, da T body [] = Some D /\ forall x, pmem x D = true -> PM.find x w1 = PM.find x w2)
  | Err e1, Err e2 => e1 = e2
  | _, _ => False
  end.
Proof.
  intros T body sg ev v1 v2 Hd Hs. unfold def_assign in Hd.
  destruct (da T body []) as [D|] eqn:E; [|discriminate].
  pose proof (da_sound_stmt T body [] D sg ev v1 v2 [] E Hs) as H. unfold rel in H.
  destruct (exec sg ev body v1 []) as [[w1 p1]|], (exec sg ev body v2 []) as [[w2 p2]|]; try assumption.
  destruct H as [-> H]. split; [reflexivity|].
  assert (G : forall x, rd_ok T D x = true -> PM.find x w1 = PM.find x w2).
  { intros x Hr. specialize (H x). destruct (PM.find x w1), (PM.find x w2); try contradiction; [|reflexivity].
    destruct H as [_ H]. rewrite (H Hr). reflexivity. }
  split.
  - intros x Hx. apply G. unfold rd_ok. rewrite Hx. reflexivity.
  - exists D. split; [reflexivity|]. intros x Hx. apply G. unfold rd_ok. rewrite Hx. apply orb_true_r.
Qed.

(** the hypothesis is satisfiable and the conclusion is not trivially an error *)
Example def_assign_nonvacuous :
  let body := SSeq (SVar 1 [] (ESig 1)) (SSig 2 [] (EVar 1)) in
  def_assign [1%positive] body = true /\
  def_assign [1%positive] (SSig 2 [] (EVar 1)) = false /\
  def_assign [1%positive] (SSeq (SCase (ESig 1) (ACons [VL true] (SVar 1 [] (ESig 1)) (ANil (Some SNull)))) (SSig 2 [] (EVar 1))) = false.
Proof. vm_compute. repeat split. Qed.
