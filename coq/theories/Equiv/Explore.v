(** * Explore: a verified product-reachability checker.

    [check] explores the product of two deterministic transition systems over a
    finite input alphabet (restricted by an environment assumption evaluated on
    the reference state).  [explore_sound]: if it answers [VOk] the output
    traces agree for every admissible input sequence of every length. *)
From Coq Require Import List Bool Arith Lia FMapPositive PArith NArith.
Import ListNotations.

Section Explore.
Context {SA SB I O : Type}.
Variables (stepA : SA -> I -> SA * O) (stepB : SB -> I -> SB * O).
Variables (eqA : SA -> SA -> bool) (eqB : SB -> SB -> bool) (eqO : O -> O -> bool).
Hypothesis eqA_ok : forall x y, eqA x y = true <-> x = y.
Hypothesis eqB_ok : forall x y, eqB x y = true <-> x = y.
Hypothesis eqO_ok : forall x y, eqO x y = true <-> x = y.
Variable hash : SA * SB -> positive.
Variable alphabet : list I.
Variable assume : SB -> I -> bool.

Definition pair_eqb (p q : SA * SB) := eqA (fst p) (fst q) && eqB (snd p) (snd q).
Lemma pair_eqb_ok p q : pair_eqb p q = true <-> p = q.
Proof. destruct p, q; unfold pair_eqb; cbn. rewrite andb_true_iff, eqA_ok, eqB_ok.
  split; [intros [-> ->]; reflexivity | intros [= -> ->]; auto]. Qed.

Definition vset := PositiveMap.t (list (SA * SB)).
Definition bucket (v : vset) (p : SA*SB) := match PositiveMap.find (hash p) v with Some l => l | None => [] end.
Definition vmem (v : vset) (p : SA*SB) : bool := existsb (pair_eqb p) (bucket v p).
Definition vadd (v : vset) (p : SA*SB) : vset := PositiveMap.add (hash p) (p :: bucket v p) v.
Definition VIn (v : vset) (p : SA*SB) : Prop := vmem v p = true.

Lemma vmem_add v p q : VIn (vadd v p) q <-> q = p \/ VIn v q.
Proof.
  unfold VIn, vmem, vadd, bucket.
  destruct (Pos.eq_dec (hash q) (hash p)) as [e|n].
  - rewrite e, PositiveMap.gss. cbn. rewrite orb_true_iff, pair_eqb_ok. tauto.
  - rewrite PositiveMap.gso by exact n.
    split; [auto|]. intros [->|H]; [congruence|exact H].
Qed.

Lemma vmem_empty p : ~ VIn (PositiveMap.empty _) p.
Proof. unfold VIn, vmem, bucket. rewrite PositiveMap.gempty. cbn. discriminate. Qed.

Definition admitted (p : SA*SB) : list I := filter (assume (snd p)) alphabet.

(** first admissible input on which the outputs differ *)
Fixpoint first_bad (p : SA*SB) (ins : list I) : option I :=
  match ins with
  | [] => None
  | i :: r => if eqO (snd (stepA (fst p) i)) (snd (stepB (snd p) i)) then first_bad p r else Some i
  end.

Definition succ_of (p : SA*SB) (i : I) : SA*SB := (fst (stepA (fst p) i), fst (stepB (snd p) i)).

(** every admitted input is stepped exactly once per visited pair *)
Definition step_all (p : SA*SB) (ins : list I) : list (I * (SA*O) * (SB*O)) :=
  map (fun i => (i, stepA (fst p) i, stepB (snd p) i)) ins.

Fixpoint first_bad_s (l : list (I * (SA*O) * (SB*O))) : option I :=
  match l with
  | [] => None
  | (i, ao, bo) :: r => if eqO (snd ao) (snd bo) then first_bad_s r else Some i
  end.

Definition nexts_s (path : list I) (l : list (I * (SA*O) * (SB*O))) : list ((SA*SB) * list I) :=
  map (fun t => ((fst (snd (fst t)), fst (snd t)), fst (fst t) :: path)) l.

Lemma first_bad_s_eq p ins : first_bad_s (step_all p ins) = first_bad p ins.
Proof.
  induction ins as [|i r IH]; [reflexivity|].
  cbn [step_all map first_bad_s first_bad snd]. fold (step_all p r). rewrite IH. reflexivity.
Qed.

Lemma nexts_s_eq p path ins :
  nexts_s path (step_all p ins) = map (fun i => (succ_of p i, i :: path)) ins.
Proof. unfold nexts_s, step_all. rewrite map_map. reflexivity. Qed.

Inductive verdict :=
| VOk (states transitions : N)
| VCex (path : list I)           (* a shortest-found distinguishing input sequence *)
| VFuel.

(** frontier entries carry the (reversed) input path that reached them *)
Fixpoint explore (fuel : nat) (v : vset) (front : list ((SA*SB) * list I)) (ns nt : N) : verdict :=
  match fuel with
  | 0 => VFuel
  | S f =>
    match front with
    | [] => VOk ns nt
    | (p, path) :: rest =>
      if vmem v p then explore f v rest ns nt
      else
        let l := step_all p (admitted p) in
        match first_bad_s l with
        | Some i => VCex (rev (i :: path))
        | None =>
            explore f (vadd v p) (nexts_s path l ++ rest)
                    (N.succ ns) (nt + N.of_nat (length l))%N
        end
    end
  end.

(** breadth-first variant (two-list queue); used only to print a short
    counter-example after an obligation failed - nothing is proved about it *)
Fixpoint explore_bfs (fuel : nat) (v : vset) (front back : list ((SA*SB) * list I)) (ns nt : N) : verdict :=
  match fuel with
  | 0 => VFuel
  | S f =>
    match front with
    | [] => match back with [] => VOk ns nt | _ => explore_bfs f v (rev back) [] ns nt end
    | (p, path) :: rest =>
      if vmem v p then explore_bfs f v rest back ns nt
      else
        let l := step_all p (admitted p) in
        match first_bad_s l with
        | Some i => VCex (rev (i :: path))
        | None =>
            explore_bfs f (vadd v p) rest (rev_append (nexts_s path l) back)
                    (N.succ ns) (nt + N.of_nat (length l))%N
        end
    end
  end.

(** semantic side *)
Definition good (p : SA*SB) : Prop :=
  forall i, In i alphabet -> assume (snd p) i = true ->
    snd (stepA (fst p) i) = snd (stepB (snd p) i).

Definition closed (P : SA*SB -> Prop) : Prop :=
  forall p, P p -> good p /\ forall i, In i alphabet -> assume (snd p) i = true -> P (succ_of p i).

Lemma first_bad_none p ins : first_bad p ins = None ->
  forall i, In i ins -> snd (stepA (fst p) i) = snd (stepB (snd p) i).
Proof.
  induction ins as [|j r IH]; cbn; intros H i Hi; [contradiction|].
  destruct (eqO _ _) eqn:E; [|discriminate].
  destruct Hi as [<-|Hi]; [apply eqO_ok; exact E|apply IH; assumption].
Qed.

Lemma first_bad_good p : first_bad p (admitted p) = None -> good p.
Proof.
  intros H i Hi Ha. eapply first_bad_none; [exact H|]. unfold admitted. apply filter_In; auto.
Qed.

Lemma first_bad_some p ins i : first_bad p ins = Some i ->
  In i ins /\ snd (stepA (fst p) i) <> snd (stepB (snd p) i).
Proof.
  induction ins as [|j r IH]; cbn; intros H; [discriminate|].
  destruct (eqO _ _) eqn:E.
  - destruct (IH H) as [H1 H2]. auto.
  - injection H as <-. split; [auto|]. intros Heq. apply eqO_ok in Heq. congruence.
Qed.

Definition fpairs (front : list ((SA*SB) * list I)) : list (SA*SB) := map fst front.

Definition inv (v : vset) (front : list (SA*SB)) : Prop :=
  forall p, VIn v p -> good p /\
    forall i, In i alphabet -> assume (snd p) i = true -> VIn v (succ_of p i) \/ In (succ_of p i) front.

Lemma explore_inv fuel : forall v front ns nt ns' nt',
  inv v (fpairs front) -> explore fuel v front ns nt = VOk ns' nt' ->
  exists v', closed (VIn v') /\ (forall p, VIn v p -> VIn v' p) /\ (forall p, In p (fpairs front) -> VIn v' p).
Proof.
  induction fuel as [|f IH]; intros v front ns nt ns' nt' Hinv Hex; cbn in Hex; [discriminate|].
  destruct front as [|[p path] rest].
  - exists v. split; [|split; [auto|intros ? []]].
    intros p Hp. destruct (Hinv p Hp) as [Hg Hs]. split; [exact Hg|].
    intros i Hi Ha. destruct (Hs i Hi Ha) as [H|[]]. exact H.
  - destruct (vmem v p) eqn:Hm.
    + destruct (IH v rest ns nt ns' nt') as (v' & Hc & Hsub & Hfr); [|exact Hex|].
      * intros q Hq. destruct (Hinv q Hq) as [Hg Hs]. split; [exact Hg|].
        intros i Hi Ha. destruct (Hs i Hi Ha) as [H|[H|H]]; auto. left. cbn in H. rewrite <- H. exact Hm.
      * exists v'. split; [exact Hc|split; [exact Hsub|]].
        intros q [<-|Hq]; [apply Hsub; exact Hm|apply Hfr; exact Hq].
    + cbv zeta in Hex. rewrite first_bad_s_eq, nexts_s_eq in Hex.
      destruct (first_bad p (admitted p)) eqn:Ho; [discriminate|].
      match type of Hex with explore f ?V ?F ?A ?B = _ =>
        destruct (IH V F A B ns' nt') as (v' & Hc & Hsub & Hfr); [|exact Hex|] end.
      * intros q Hq. apply vmem_add in Hq. destruct Hq as [->|Hq].
        -- split; [apply first_bad_good; exact Ho|]. intros i Hi Ha. right.
           unfold fpairs. rewrite map_app. apply in_or_app. left.
           rewrite map_map. cbn. apply in_map_iff. exists i. split; [reflexivity|].
           unfold admitted. apply filter_In; auto.
        -- destruct (Hinv q Hq) as [Hg Hs]. split; [exact Hg|]. intros i Hi Ha.
           destruct (Hs i Hi Ha) as [H|[H|H]].
           ++ left. apply vmem_add. auto.
           ++ left. apply vmem_add. left. symmetry; exact H.
           ++ right. unfold fpairs. rewrite map_app. apply in_or_app. right. exact H.
      * exists v'. split; [exact Hc|split].
        -- intros q Hq. apply Hsub, vmem_add. auto.
        -- intros q [<-|Hq]; [apply Hsub, vmem_add; auto|].
           apply Hfr. unfold fpairs. rewrite map_app. apply in_or_app. right. exact Hq.
Qed.

(** traces *)
Fixpoint traceA (s : SA) (ins : list I) : list O :=
  match ins with [] => [] | i :: r => let '(s', o) := stepA s i in o :: traceA s' r end.
Fixpoint traceB (s : SB) (ins : list I) : list O :=
  match ins with [] => [] | i :: r => let '(s', o) := stepB s i in o :: traceB s' r end.
Fixpoint admissible (s : SB) (ins : list I) : Prop :=
  match ins with [] => True | i :: r => In i alphabet /\ assume s i = true /\ admissible (fst (stepB s i)) r end.

Lemma closed_traces P : closed P -> forall ins a b, P (a, b) -> admissible b ins -> traceA a ins = traceB b ins.
Proof.
  intros Hc. induction ins as [|i r IH]; intros a b Hp Had; cbn; [reflexivity|].
  destruct Had as (Hi & Ha & Hr). destruct (Hc _ Hp) as [Hg Hs].
  specialize (Hg i Hi Ha). specialize (Hs i Hi Ha). unfold succ_of in Hs. cbn in *.
  destruct (stepA a i) as [a' oa], (stepB b i) as [b' ob]. cbn in *. subst. f_equal. apply IH; assumption.
Qed.

Definition check (fuel : nat) (inits : list (SA*SB)) : verdict :=
  explore fuel (PositiveMap.empty _) (map (fun p => (p, [])) inits) 0 0.

Definition check_bfs (fuel : nat) (inits : list (SA*SB)) : verdict :=
  explore_bfs fuel (PositiveMap.empty _) (map (fun p => (p, [])) inits) [] 0 0.

Theorem explore_sound fuel inits ns nt :
  check fuel inits = VOk ns nt ->
  forall a b, In (a, b) inits -> forall ins, admissible b ins -> traceA a ins = traceB b ins.
Proof.
  intros Hex a b Hin ins Had. unfold check in Hex.
  destruct (explore_inv _ _ _ _ _ _ _ (fun p Hp => False_ind _ (vmem_empty p Hp)) Hex) as (v' & Hc & _ & Hfr).
  eapply closed_traces; [exact Hc| |exact Had].
  apply Hfr. unfold fpairs. rewrite map_map. cbn. rewrite map_id. exact Hin.
Qed.

(** variant used in generated case files: the verdict only needs to be *some* VOk *)
Definition is_ok (v : verdict) : bool := match v with VOk _ _ => true | _ => false end.

Corollary explore_sound_b fuel inits :
  is_ok (check fuel inits) = true ->
  forall a b, In (a, b) inits -> forall ins, admissible b ins -> traceA a ins = traceB b ins.
Proof.
  destruct (check fuel inits) eqn:E; cbn; try discriminate. intros _. eapply explore_sound; exact E.
Qed.

(** ** counter-examples are genuine *)

(** the pair reached from [p] by an input path *)
Fixpoint run_pair (p : SA*SB) (ins : list I) : SA*SB :=
  match ins with [] => p | i :: r => run_pair (succ_of p i) r end.

Lemma run_pair_app p xs ys : run_pair p (xs ++ ys) = run_pair (run_pair p xs) ys.
Proof. revert p; induction xs as [|x r IH]; intros p; cbn; [reflexivity|apply IH]. Qed.

End Explore.
