(** * A parsed design against a reference transition system: the statement that
    every generated [case] file proves for the design the compiler emitted on
    this run. *)
From Coq Require Import ZArith NArith PArith List Bool.
From Cohdl Require Import Base.Bits Vhdl.Value Vhdl.NumStd Vhdl.Syntax Vhdl.Sem Equiv.Explore.
Import ListNotations.

Scheme Equality for err.

Lemma err_beq_ok a b : err_beq a b = true <-> a = b.
Proof. split; [apply internal_err_dec_bl|apply internal_err_dec_lb]. Qed.

Definition res_eqb {A} (eqb : A -> A -> bool) (x y : res A) : bool :=
  match x, y with
  | Ok a, Ok b => eqb a b
  | Err e, Err e' => err_beq e e'
  | _, _ => false
  end.

Lemma res_eqb_ok {A} (eqb : A -> A -> bool) :
  (forall a b, eqb a b = true <-> a = b) -> forall x y, res_eqb eqb x y = true <-> x = y.
Proof.
  intros H [a|e] [b|e']; cbn; try (split; [discriminate|congruence]).
  - rewrite H. split; congruence.
  - rewrite err_beq_ok. split; congruence.
Qed.

Definition vstate_eqb (a b : vstate) : bool := values_eqb (fst a) (fst b) && values_eqb (snd a) (snd b).

Lemma vstate_eqb_ok a b : vstate_eqb a b = true <-> a = b.
Proof.
  destruct a, b; unfold vstate_eqb; cbn. rewrite andb_true_iff, !values_eqb_ok.
  split; [intros [-> ->]; reflexivity|intros [= -> ->]; auto].
Qed.

Definition rvstate_eqb := res_eqb vstate_eqb.
Definition rvstate_eqb_ok := res_eqb_ok vstate_eqb vstate_eqb_ok.
Definition out_eqb := res_eqb values_eqb.
Definition out_eqb_ok := res_eqb_ok values_eqb values_eqb_ok.

Definition vhash (s : res vstate) : positive :=
  match s with
  | Ok (a, b) => values_hash (a ++ b)
  | Err _ => 1%positive
  end.

Definition in_eqb := values_eqb.

Section Case.
  Variable d : design.
  Variable mid : bool.
  Context {SB : Type}.
  Variable stepB : SB -> list value -> SB * res (list value).
  Variable eqB : SB -> SB -> bool.
  Hypothesis eqB_ok : forall x y, eqB x y = true <-> x = y.
  Variable hashB : SB -> positive.
  Variable alphabet : list (list value).
  Variable assume : SB -> list value -> bool.

  Definition phash (p : res vstate * SB) : positive :=
    Pos.add (vhash (fst p)) (Pos.mul 7919 (hashB (snd p))).

  Definition vcheck (fuel : nat) (inits : list (res vstate * SB)) : verdict (I := list value) :=
    check (vstep d mid) stepB rvstate_eqb eqB out_eqb phash alphabet assume fuel inits.

  Definition vcheck_bfs (fuel : nat) (inits : list (res vstate * SB)) : verdict (I := list value) :=
    check_bfs (vstep d mid) stepB rvstate_eqb eqB out_eqb phash alphabet assume fuel inits.

  Theorem vcheck_sound fuel inits :
    is_ok (vcheck fuel inits) = true ->
    forall a b, In (a, b) inits ->
    forall ins, admissible stepB alphabet assume b ins ->
      traceA (vstep d mid) a ins = traceB stepB b ins.
  Proof.
    intros H. eapply explore_sound_b; try exact H.
    - exact rvstate_eqb_ok.
    - exact eqB_ok.
    - exact out_eqb_ok.
  Qed.
End Case.

(** ** design against design (C12: hierarchical vs inlined compilation) *)
Definition dhash (p : res vstate * res vstate) : positive :=
  Pos.add (vhash (fst p)) (Pos.mul 7919 (vhash (snd p))).
Definition no_assume_d : res vstate -> list value -> bool := fun _ _ => true.

Definition dcheck (d1 d2 : design) (mid : bool) (alphabet : list (list value)) (fuel : nat) : verdict (I := list value) :=
  check (vstep d1 mid) (vstep d2 mid) rvstate_eqb rvstate_eqb out_eqb dhash alphabet no_assume_d fuel
        [(power_up d1, power_up d2)].
Definition dcheck_bfs (d1 d2 : design) (mid : bool) (alphabet : list (list value)) (fuel : nat) : verdict (I := list value) :=
  check_bfs (vstep d1 mid) (vstep d2 mid) rvstate_eqb rvstate_eqb out_eqb dhash alphabet no_assume_d fuel
        [(power_up d1, power_up d2)].

Lemma admissible_all_d (d2 : design) mid alphabet ins :
  Forall (fun i => In i alphabet) ins -> forall s, admissible (vstep d2 mid) alphabet no_assume_d s ins.
Proof. induction 1 as [|i r Hi _ IH]; intros s; cbn; auto. Qed.

Theorem dcheck_sound d1 d2 mid alphabet fuel :
  is_ok (dcheck d1 d2 mid alphabet fuel) = true ->
  forall ins, Forall (fun i => In i alphabet) ins ->
    traceA (vstep d1 mid) (power_up d1) ins = traceB (vstep d2 mid) (power_up d2) ins.
Proof.
  intros H ins Hin.
  eapply (explore_sound_b (vstep d1 mid) (vstep d2 mid) rvstate_eqb rvstate_eqb out_eqb
            rvstate_eqb_ok rvstate_eqb_ok out_eqb_ok); [exact H|left; reflexivity|apply admissible_all_d; exact Hin].
Qed.

(** all valuations of a list of input ports, given the candidate values of each *)
Fixpoint product (cands : list (list value)) : list (list value) :=
  match cands with
  | [] => [[]]
  | c :: r => flat_map (fun v => map (cons v) (product r)) c
  end.

Definition bit_cands : list value := [VL false; VL true].
Fixpoint vec_cands_from (k : vkind) (w : N) (n : nat) (start : Z) : list value :=
  match n with O => [] | S m => VV k w start :: vec_cands_from k w m (start + 1)%Z end.
Definition vec_cands (k : vkind) (w : N) : list value := vec_cands_from k w (Z.to_nat (pow2 w)) 0%Z.
