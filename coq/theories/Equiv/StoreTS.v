(** * StoreTS: the parsed design as a transition system whose state is the pair of
    stores itself (no conversion to lists per step), with the dead-variable
    normalisation of [Vhdl.DeadVars] built in.  This is the system the generated
    case files explore; all conclusions are about [sstep d mid], the un-normalised
    synchronous test bench semantics of the design. *)
From Coq Require Import ZArith NArith PArith List Bool FMapPositive FSetPositive.
From Cohdl Require Import Base.Bits Vhdl.Value Vhdl.NumStd Vhdl.Syntax Vhdl.Sem Vhdl.DefAssign Vhdl.DeadVars
     Equiv.Explore Equiv.VhdlTS Equiv.RefTS Equiv.Monitor.
Import ListNotations.

Definition sstate := (store * store)%type.

(** ** one clock on stores *)
Definition sstep_with (cs : prepared) (d : design) (mid : bool)
  : res sstate -> list value -> res sstate * res (list value) :=
  fun s inp =>
    match s with
    | Err e => (Err e, Err e)
    | Ok st =>
        match cycle_stores d cs st inp with
        | Ok (s1, s3) => (Ok s3, Ok ((if mid then outputs d s1 else []) ++ outputs d s3))
        | Err e => (Err e, Err e)
        end
    end.

Definition sstep (d : design) (mid : bool) := sstep_with (prepare d.(d_conc)) d mid.

Definition decl_stores (d : design) : sstate :=
  (to_store (sig_ids d) (map sd_init d.(d_sigs)), to_store (var_ids d) (map vd_init d.(d_vars))).

Definition power_up_s (d : design) : res sstate :=
  let cs := prepare d.(d_conc) in
  let st := decl_stores d in
  do o <- delta cs (fst st) (snd st) PS.empty true;
  let '(sg', vr', ev') := o in
  settle settle_fuel cs sg' vr' ev'.

(** ** structural equality and hash of stores *)
Fixpoint tree_eqb (a b : PositiveMap.tree value) : bool :=
  match a, b with
  | PositiveMap.Leaf _, PositiveMap.Leaf _ => true
  | PositiveMap.Node l o r, PositiveMap.Node l' o' r' =>
      match o, o' with
      | Some x, Some y => value_eqb x y
      | None, None => true
      | _, _ => false
      end && tree_eqb l l' && tree_eqb r r'
  | _, _ => false
  end.

Lemma tree_eqb_ok : forall a b, tree_eqb a b = true <-> a = b.
Proof.
  induction a as [|l IHl o r IHr]; intros [|l' o' r']; cbn; try (split; [discriminate|congruence]).
  - split; reflexivity.
  - rewrite !andb_true_iff, IHl, IHr.
    destruct o as [x|], o' as [y|]; try (split; [intros [[H _] _]; discriminate|congruence]).
    + rewrite value_eqb_ok. split; [intros [[-> ->] ->]; reflexivity|intros [= -> -> ->]; auto].
    + split; [intros [[_ ->] ->]; reflexivity|intros [= -> ->]; auto].
Qed.

Fixpoint tree_hash (a : PositiveMap.tree value) : Z :=
  match a with
  | PositiveMap.Leaf _ => 5
  | PositiveMap.Node l o r =>
      hmix (hmix (tree_hash l) (match o with Some v => value_hash v | None => 1 end)) (tree_hash r)
  end.

Definition sstate_eqb (a b : sstate) : bool := tree_eqb (fst a) (fst b) && tree_eqb (snd a) (snd b).
Lemma sstate_eqb_ok a b : sstate_eqb a b = true <-> a = b.
Proof.
  destruct a, b; unfold sstate_eqb; cbn. rewrite andb_true_iff, !tree_eqb_ok.
  split; [intros [-> ->]; reflexivity|intros [= -> ->]; auto].
Qed.

Definition rs_eqb := res_eqb sstate_eqb.
Definition rs_eqb_ok := res_eqb_ok sstate_eqb sstate_eqb_ok.

Definition shash (s : res sstate) : positive :=
  match s with
  | Ok (a, b) => Z.to_pos (1 + hmix (tree_hash a) (tree_hash b))
  | Err _ => 1%positive
  end.

(** ** normalisation on stores *)
Definition norm_store (T : list positive) (vr : store) : store :=
  fold_left (fun m x => match PM.find x m with Some v => PM.add x (canon v) m | None => m end) T vr.

Definition norm_s (T : list positive) (s : res sstate) : res sstate :=
  match s with Ok (sg, vr) => Ok (sg, norm_store T vr) | Err e => Err e end.

Notation agree := agree_outside.

Lemma agree_trans T a b c : agree T a b -> agree T b c -> agree T a c.
Proof.
  intros H1 H2 x. specialize (H1 x). specialize (H2 x).
  destruct (PM.find x a), (PM.find x b), (PM.find x c); try contradiction; try exact I.
  destruct H1 as [S1 E1], H2 as [S2 E2]. split.
  - apply shape_eqb_iff in S1. apply shape_eqb_iff in S2. apply shape_eqb_iff. congruence.
  - intros Hr. rewrite (E1 Hr). apply E2. exact Hr.
Qed.

Lemma agree_norm_one T x m : pmem x T = true ->
  agree T m (match PM.find x m with Some v => PM.add x (canon v) m | None => m end).
Proof.
  intros Hx y. destruct (PM.find x m) as [v|] eqn:Ex.
  - destruct (Pos.eq_dec y x) as [->|Hne].
    + rewrite Ex, PM.gss. split; [apply canon_shape|]. unfold rd_ok. rewrite Hx. cbn. discriminate.
    + rewrite PM.gso by assumption. destruct (PM.find y m); [|exact I]. split; [apply shape_eqb_refl|reflexivity].
  - destruct (PM.find y m); [|exact I]. split; [apply shape_eqb_refl|reflexivity].
Qed.

Lemma agree_norm T : forall (l : list positive) m, (forall x, In x l -> pmem x T = true) -> agree T m
  (fold_left (fun m x => match PM.find x m with Some v => PM.add x (canon v) m | None => m end) l m).
Proof.
  induction l as [|x r IH]; intros m Hl; cbn [fold_left]; [apply agree_refl|].
  eapply agree_trans; [apply (agree_norm_one T x m); apply Hl; left; reflexivity|].
  apply IH. intros y Hy. apply Hl. right. exact Hy.
Qed.

Lemma agree_norm_store T m : agree T m (norm_store T m).
Proof. apply agree_norm. intros x Hx. apply pmem_In. exact Hx. Qed.

Definition srel_s (T : list positive) (s n : res sstate) : Prop :=
  match s, n with
  | Ok (sg1, v1), Ok (sg2, v2) => sg1 = sg2 /\ agree T v1 v2
  | Err e1, Err e2 => e1 = e2
  | _, _ => False
  end.

Lemma srel_norm T s : srel_s T s (norm_s T s).
Proof. destruct s as [[sg vr]|e]; cbn; [|reflexivity]. split; [reflexivity|apply agree_norm_store]. Qed.

Lemma srel_trans T a b c : srel_s T a b -> srel_s T b c -> srel_s T a c.
Proof.
  destruct a as [[s1 v1]|], b as [[s2 v2]|], c as [[s3 v3]|]; cbn; try contradiction; try congruence.
  intros [-> H1] [-> H2]. split; [reflexivity|eapply agree_trans; eauto].
Qed.

Definition conc_all_ok (T : list positive) (d : design) : bool := forallb (conc_ok T) d.(d_conc).

Lemma sstep_rel T d mid : conc_all_ok T d = true -> forall s n inp, srel_s T s n ->
  snd (sstep d mid s inp) = snd (sstep d mid n inp) /\
  srel_s T (fst (sstep d mid s inp)) (fst (sstep d mid n inp)).
Proof.
  intros Hc s n inp Hr. pose proof (prepare_ok T _ Hc) as Hp.
  unfold sstep, sstep_with. destruct s as [[sg1 v1]|e1], n as [[sg2 v2]|e2]; cbn [srel_s] in Hr; try contradiction.
  2:{ subst. cbn. auto. }
  destruct Hr as [<- Hv].
  pose proof (cycle_stores_agree T d (prepare (d_conc d)) sg1 v1 v2 inp Hp Hv) as H. unfold crel in H.
  destruct (cycle_stores d (prepare (d_conc d)) (sg1, v1) inp) as [[[m1 a1] [f1 b1]]|],
           (cycle_stores d (prepare (d_conc d)) (sg1, v2) inp) as [[[m2 a2] [f2 b2]]|]; try contradiction.
  - destruct H as (-> & -> & Ha & Hb). cbn [fst snd]. unfold outputs. cbn [fst snd]. split; [reflexivity|]. cbn. auto.
  - subst. cbn. auto.
Qed.

Definition sstep_n (d : design) (T : list positive) (mid : bool)
  : res sstate -> list value -> res sstate * res (list value) :=
  let ss := sstep d mid in
  fun s inp => let '(s', o) := ss s inp in (norm_s T s', o).

Theorem norm_traces_s T d mid : conc_all_ok T d = true -> forall ins s n, srel_s T s n ->
  traceA (sstep d mid) s ins = traceA (sstep_n d T mid) n ins.
Proof.
  intros Hok. induction ins as [|i r IH]; intros s n Hr; [reflexivity|].
  cbn [traceA]. unfold sstep_n.
  destruct (sstep_rel T d mid Hok s n i Hr) as [Ho Hs].
  destruct (sstep d mid s i) as [s' o], (sstep d mid n i) as [n' o']. cbn [fst snd] in *. subst o'.
  f_equal. apply IH. eapply srel_trans; [exact Hs|apply srel_norm].
Qed.

(** the set of variables normalised away: every variable that is dead on its own *)
Definition auto_Ts (d : design) : list positive :=
  filter (fun x => forallb (conc_ok [x]) d.(d_conc)) (var_ids d).

Definition init_s (d : design) : res sstate := norm_s (auto_Ts d) (power_up_s d).

Lemma traceAB {S I O : Type} (st : S -> I -> S * O) s l : traceA st s l = traceB st s l.
Proof. revert s. induction l as [|i r IH]; intros s; cbn; [reflexivity|]. destruct (st s i). rewrite IH. reflexivity. Qed.

(** ** design against a reference machine with its own state type (Coro) *)
Section Case.
  Variable d : design.
  Variable mid : bool.
  Context {SB : Type}.
  Variable stepB : SB -> list value -> SB * res (list value).
  Variable eqB : SB -> SB -> bool.
  Hypothesis eqB_ok : forall x y, eqB x y = true <-> x = y.
  Variable hashB : SB -> positive.
  Variable alphabet : list (list value).
  Variable assume : SB -> list value -> bool.

  Definition sphash (p : res sstate * SB) : positive := Pos.add (shash (fst p)) (Pos.mul 7919 (hashB (snd p))).

  Definition vcheck_s (fuel : nat) (initB : SB) : verdict (I := list value) :=
    check (sstep_n d (auto_Ts d) mid) stepB rs_eqb eqB out_eqb sphash alphabet assume fuel [(init_s d, initB)].
  Definition vcheck_s_bfs (fuel : nat) (initB : SB) : verdict (I := list value) :=
    check_bfs (sstep_n d (auto_Ts d) mid) stepB rs_eqb eqB out_eqb sphash alphabet assume fuel [(init_s d, initB)].

  Theorem vcheck_s_sound fuel initB :
    conc_all_ok (auto_Ts d) d = true ->
    is_ok (vcheck_s fuel initB) = true ->
    forall ins, admissible stepB alphabet assume initB ins ->
      traceA (sstep d mid) (power_up_s d) ins = traceB stepB initB ins.
  Proof.
    intros Hd H ins Had.
    rewrite (norm_traces_s (auto_Ts d) d mid Hd ins (power_up_s d) (init_s d) (srel_norm _ _)).
    eapply (explore_sound_b (sstep_n d (auto_Ts d) mid) stepB rs_eqb eqB out_eqb rs_eqb_ok eqB_ok out_eqb_ok);
      [exact H|left; reflexivity|exact Had].
  Qed.
End Case.

(** ** reference machines over [list Z] *)
Definition rcheck_s (d : design) (mid : bool) (stepB : rstep) (alphabet : list (list value))
           (assume : list Z -> list value -> bool) (fuel : nat) (initB : list Z) :=
  vcheck_s d mid stepB zl_eqb zl_hash alphabet assume fuel initB.
Definition rcheck_s_bfs (d : design) (mid : bool) (stepB : rstep) (alphabet : list (list value))
           (assume : list Z -> list value -> bool) (fuel : nat) (initB : list Z) :=
  vcheck_s_bfs d mid stepB zl_eqb zl_hash alphabet assume fuel initB.

Theorem rcheck_s_sound d mid stepB alphabet assume fuel initB :
  conc_all_ok (auto_Ts d) d = true ->
  is_ok (rcheck_s d mid stepB alphabet assume fuel initB) = true ->
  forall ins, admissible stepB alphabet assume initB ins ->
    traceA (sstep d mid) (power_up_s d) ins = traceB stepB initB ins.
Proof. intros Hd H. exact (vcheck_s_sound d mid stepB zl_eqb zl_eqb_ok zl_hash alphabet assume fuel initB Hd H). Qed.

(** ** safety monitors *)
Definition mstep_s (d : design) (mid : bool) (mon : monitor)
  : res sstate * list Z -> list value -> (res sstate * list Z) * res (list value) :=
  let ss := sstep d mid in
  fun sm inp =>
    let '(s', o) := ss (fst sm) inp in
    match o with
    | Ok outs => let '(m', ok) := mon (snd sm) inp outs in ((s', m'), Ok [VL ok])
    | Err e => ((s', snd sm), Err e)
    end.

Definition mstep_sn (d : design) (mid : bool) (mon : monitor)
  : res sstate * list Z -> list value -> (res sstate * list Z) * res (list value) :=
  let ss := sstep_n d (auto_Ts d) mid in
  fun sm inp =>
    let '(s', o) := ss (fst sm) inp in
    match o with
    | Ok outs => let '(m', ok) := mon (snd sm) inp outs in ((s', m'), Ok [VL ok])
    | Err e => ((s', snd sm), Err e)
    end.

Definition mss_eqb (a b : res sstate * list Z) : bool := rs_eqb (fst a) (fst b) && zl_eqb (snd a) (snd b).
Lemma mss_eqb_ok a b : mss_eqb a b = true <-> a = b.
Proof.
  destruct a, b; unfold mss_eqb; cbn. rewrite andb_true_iff, rs_eqb_ok, zl_eqb_ok.
  split; [intros [-> ->]; reflexivity|intros [= -> ->]; auto].
Qed.
Definition mss_hash (p : (res sstate * list Z) * unit) : positive :=
  Pos.add (shash (fst (fst p))) (Pos.mul 7919 (zl_hash (snd (fst p)))).

Definition mcheck_s (d : design) (mid : bool) (mon : monitor) (alphabet : list (list value)) (fuel : nat) (m0 : list Z) :=
  check (mstep_sn d mid mon) unit_step mss_eqb unit_eqb out_eqb mss_hash alphabet no_assume fuel [((init_s d, m0), tt)].
Definition mcheck_s_bfs (d : design) (mid : bool) (mon : monitor) (alphabet : list (list value)) (fuel : nat) (m0 : list Z) :=
  check_bfs (mstep_sn d mid mon) unit_step mss_eqb unit_eqb out_eqb mss_hash alphabet no_assume fuel [((init_s d, m0), tt)].

Lemma mstep_s_traces d mid mon : conc_all_ok (auto_Ts d) d = true -> forall ins s n m,
  srel_s (auto_Ts d) s n ->
  traceA (mstep_s d mid mon) (s, m) ins = traceA (mstep_sn d mid mon) (n, m) ins.
Proof.
  intros Hok. induction ins as [|i r IH]; intros s n m Hr; [reflexivity|].
  cbn [traceA]. unfold mstep_s, mstep_sn, sstep_n. cbn [fst snd].
  destruct (sstep_rel (auto_Ts d) d mid Hok s n i Hr) as [Ho Hs].
  destruct (sstep d mid s i) as [s' o], (sstep d mid n i) as [n' o']. cbn [fst snd] in *. subst o'.
  destruct o as [outs|e].
  - destruct (mon m i outs) as [m' ok]. f_equal. apply IH. eapply srel_trans; [exact Hs|apply srel_norm].
  - f_equal. apply IH. eapply srel_trans; [exact Hs|apply srel_norm].
Qed.

Theorem mcheck_s_sound d mid mon alphabet fuel m0 :
  conc_all_ok (auto_Ts d) d = true ->
  is_ok (mcheck_s d mid mon alphabet fuel m0) = true ->
  forall ins, Forall (fun i => In i alphabet) ins ->
    Forall (fun o => o = okout) (traceA (mstep_s d mid mon) (power_up_s d, m0) ins).
Proof.
  intros Hd H ins Hin.
  rewrite (mstep_s_traces d mid mon Hd ins (power_up_s d) (init_s d) m0 (srel_norm _ _)).
  assert (E : traceA (mstep_sn d mid mon) (init_s d, m0) ins = traceB unit_step tt ins).
  { eapply (explore_sound_b (mstep_sn d mid mon) unit_step mss_eqb unit_eqb out_eqb mss_eqb_ok unit_eqb_ok out_eqb_ok);
      [exact H|left; reflexivity|apply admissible_all; exact Hin]. }
  rewrite E, traceB_unit. apply Forall_forall. intros o Ho. apply in_map_iff in Ho. destruct Ho as (_ & <- & _). reflexivity.
Qed.

(** ** design against design *)
Definition dshash (p : res sstate * res sstate) : positive := Pos.add (shash (fst p)) (Pos.mul 7919 (shash (snd p))).
Definition no_assume_s : res sstate -> list value -> bool := fun _ _ => true.

Definition dcheck_s (d1 d2 : design) (mid : bool) (alphabet : list (list value)) (fuel : nat) : verdict (I := list value) :=
  check (sstep_n d1 (auto_Ts d1) mid) (sstep_n d2 (auto_Ts d2) mid) rs_eqb rs_eqb out_eqb dshash alphabet no_assume_s fuel
        [(init_s d1, init_s d2)].
Definition dcheck_s_bfs (d1 d2 : design) (mid : bool) (alphabet : list (list value)) (fuel : nat) : verdict (I := list value) :=
  check_bfs (sstep_n d1 (auto_Ts d1) mid) (sstep_n d2 (auto_Ts d2) mid) rs_eqb rs_eqb out_eqb dshash alphabet no_assume_s fuel
        [(init_s d1, init_s d2)].

Lemma admissible_all_s (d2 : design) T mid alphabet ins :
  Forall (fun i => In i alphabet) ins -> forall s, admissible (sstep_n d2 T mid) alphabet no_assume_s s ins.
Proof. induction 1 as [|i r Hi _ IH]; intros s; cbn; auto. Qed.

Theorem dcheck_s_sound d1 d2 mid alphabet fuel :
  conc_all_ok (auto_Ts d1) d1 = true -> conc_all_ok (auto_Ts d2) d2 = true ->
  is_ok (dcheck_s d1 d2 mid alphabet fuel) = true ->
  forall ins, Forall (fun i => In i alphabet) ins ->
    traceA (sstep d1 mid) (power_up_s d1) ins = traceA (sstep d2 mid) (power_up_s d2) ins.
Proof.
  intros H1 H2 H ins Hin.
  rewrite (norm_traces_s (auto_Ts d1) d1 mid H1 ins (power_up_s d1) (init_s d1) (srel_norm _ _)).
  rewrite (norm_traces_s (auto_Ts d2) d2 mid H2 ins (power_up_s d2) (init_s d2) (srel_norm _ _)).
  rewrite (traceAB (sstep_n d2 (auto_Ts d2) mid)).
  eapply (explore_sound_b (sstep_n d1 (auto_Ts d1) mid) (sstep_n d2 (auto_Ts d2) mid) rs_eqb rs_eqb out_eqb
            rs_eqb_ok rs_eqb_ok out_eqb_ok); [exact H|left; reflexivity|apply admissible_all_s; exact Hin].
Qed.
