(** * The checkers of VhdlTS / RefTS / Monitor on the normalised system of [Vhdl.DeadVars]:
    same conclusions about the ORIGINAL design, far fewer product states. *)
From Coq Require Import ZArith NArith PArith List Bool.
From Cohdl Require Import Base.Bits Vhdl.Value Vhdl.NumStd Vhdl.Syntax Vhdl.Sem Vhdl.DefAssign Vhdl.DeadVars
     Equiv.Explore Equiv.VhdlTS Equiv.RefTS Equiv.Monitor.
Import ListNotations.

Section Case.
  Variable d : design.
  Variable mid : bool.
  Context {SB : Type}.
  Variable stepB : SB -> list value -> SB * res (list value).
  Variable eqB : SB -> SB -> bool.
  Hypothesis eqB_ok : forall x y, eqB x y = true <-> x = y.
  Variable hashB : SB -> positive.
  Variable alphabet : list (list value).
  Variable assume : SB -> list value -> bool.

  Definition T := auto_T d.
  Definition init_n := norm_state T d (power_up d).

  Definition vcheck_n (fuel : nat) (initB : SB) : verdict (I := list value) :=
    check (vstep_norm d T mid) stepB rvstate_eqb eqB out_eqb (phash hashB) alphabet assume fuel [(init_n, initB)].
  Definition vcheck_n_bfs (fuel : nat) (initB : SB) : verdict (I := list value) :=
    check_bfs (vstep_norm d T mid) stepB rvstate_eqb eqB out_eqb (phash hashB) alphabet assume fuel [(init_n, initB)].

  Theorem vcheck_n_sound fuel initB :
    dead_ok T d = true ->
    is_ok (vcheck_n fuel initB) = true ->
    forall ins, admissible stepB alphabet assume initB ins ->
      traceA (vstep d mid) (power_up d) ins = traceB stepB initB ins.
  Proof.
    intros Hd H ins Had. rewrite (norm_traces_init T d mid Hd).
    eapply (explore_sound_b (vstep_norm d T mid) stepB rvstate_eqb eqB out_eqb rvstate_eqb_ok eqB_ok out_eqb_ok);
      [exact H|left; reflexivity|exact Had].
  Qed.
End Case.

Definition rcheck_n (d : design) (mid : bool) (stepB : rstep) (alphabet : list (list value))
           (assume : list Z -> list value -> bool) (fuel : nat) (initB : list Z) :=
  vcheck_n d mid stepB zl_eqb zl_hash alphabet assume fuel initB.
Definition rcheck_n_bfs (d : design) (mid : bool) (stepB : rstep) (alphabet : list (list value))
           (assume : list Z -> list value -> bool) (fuel : nat) (initB : list Z) :=
  vcheck_n_bfs d mid stepB zl_eqb zl_hash alphabet assume fuel initB.

Theorem rcheck_n_sound d mid stepB alphabet assume fuel initB :
  dead_ok (auto_T d) d = true ->
  is_ok (rcheck_n d mid stepB alphabet assume fuel initB) = true ->
  forall ins, admissible stepB alphabet assume initB ins ->
    traceA (vstep d mid) (power_up d) ins = traceB stepB initB ins.
Proof. intros Hd H. exact (vcheck_n_sound d mid stepB zl_eqb zl_eqb_ok zl_hash alphabet assume fuel initB Hd H). Qed.

(** monitors *)
Definition mstep_n (d : design) (mid : bool) (mon : monitor)
  : res vstate * list Z -> list value -> (res vstate * list Z) * res (list value) :=
  let vs := vstep_norm d (auto_T d) mid in
  fun sm inp =>
    let '(s', o) := vs (fst sm) inp in
    match o with
    | Ok outs => let '(m', ok) := mon (snd sm) inp outs in ((s', m'), Ok [VL ok])
    | Err e => ((s', snd sm), Err e)
    end.

Definition mcheck_n (d : design) (mid : bool) (mon : monitor) (alphabet : list (list value)) (fuel : nat) (m0 : list Z) :=
  check (mstep_n d mid mon) unit_step ms_eqb unit_eqb out_eqb ms_hash alphabet no_assume fuel
        [((norm_state (auto_T d) d (power_up d), m0), tt)].
Definition mcheck_n_bfs (d : design) (mid : bool) (mon : monitor) (alphabet : list (list value)) (fuel : nat) (m0 : list Z) :=
  check_bfs (mstep_n d mid mon) unit_step ms_eqb unit_eqb out_eqb ms_hash alphabet no_assume fuel
        [((norm_state (auto_T d) d (power_up d), m0), tt)].

Lemma mstep_traces d mid mon : dead_ok (auto_T d) d = true -> forall ins s n m,
  strel (auto_T d) d s n ->
  traceA (mstep d mid mon) (s, m) ins = traceA (mstep_n d mid mon) (n, m) ins.
Proof.
  intros Hok. induction ins as [|i r IH]; intros s n m Hr; [reflexivity|].
  cbn [traceA]. unfold mstep, mstep_n, vstep_norm. cbn [fst snd].
  destruct (vstep_rel (auto_T d) d mid Hok s n i Hr) as [Ho Hs].
  destruct (vstep d mid s i) as [s' o], (vstep d mid n i) as [n' o']. cbn [fst snd] in *. subst o'.
  destruct o as [outs|e].
  - destruct (mon m i outs) as [m' ok]. f_equal. apply IH. eapply strel_trans; [exact Hs|apply strel_norm].
  - f_equal. apply IH. eapply strel_trans; [exact Hs|apply strel_norm].
Qed.

Theorem mcheck_n_sound d mid mon alphabet fuel m0 :
  dead_ok (auto_T d) d = true ->
  is_ok (mcheck_n d mid mon alphabet fuel m0) = true ->
  forall ins, Forall (fun i => In i alphabet) ins ->
    Forall (fun o => o = okout) (traceA (mstep d mid mon) (power_up d, m0) ins).
Proof.
  intros Hd H ins Hin.
  rewrite (mstep_traces d mid mon Hd ins (power_up d) (norm_state (auto_T d) d (power_up d)) m0 (strel_norm _ _ _)).
  assert (E : traceA (mstep_n d mid mon) (norm_state (auto_T d) d (power_up d), m0) ins = traceB unit_step tt ins).
  { eapply (explore_sound_b (mstep_n d mid mon) unit_step ms_eqb unit_eqb out_eqb ms_eqb_ok unit_eqb_ok out_eqb_ok);
      [exact H|left; reflexivity|apply admissible_all; exact Hin]. }
  rewrite E, traceB_unit. apply Forall_forall. intros o Ho. apply in_map_iff in Ho. destruct Ho as (_ & <- & _). reflexivity.
Qed.

(** design against design *)
Definition dcheck_n (d1 d2 : design) (mid : bool) (alphabet : list (list value)) (fuel : nat) : verdict (I := list value) :=
  check (vstep_norm d1 (auto_T d1) mid) (vstep_norm d2 (auto_T d2) mid) rvstate_eqb rvstate_eqb out_eqb dhash alphabet
        no_assume_d fuel [(norm_state (auto_T d1) d1 (power_up d1), norm_state (auto_T d2) d2 (power_up d2))].
Definition dcheck_n_bfs (d1 d2 : design) (mid : bool) (alphabet : list (list value)) (fuel : nat) : verdict (I := list value) :=
  check_bfs (vstep_norm d1 (auto_T d1) mid) (vstep_norm d2 (auto_T d2) mid) rvstate_eqb rvstate_eqb out_eqb dhash alphabet
        no_assume_d fuel [(norm_state (auto_T d1) d1 (power_up d1), norm_state (auto_T d2) d2 (power_up d2))].

Lemma admissible_all_n (d2 : design) T mid alphabet ins :
  Forall (fun i => In i alphabet) ins -> forall s, admissible (vstep_norm d2 T mid) alphabet no_assume_d s ins.
Proof. induction 1 as [|i r Hi _ IH]; intros s; cbn; auto. Qed.

Theorem dcheck_n_sound d1 d2 mid alphabet fuel :
  dead_ok (auto_T d1) d1 = true -> dead_ok (auto_T d2) d2 = true ->
  is_ok (dcheck_n d1 d2 mid alphabet fuel) = true ->
  forall ins, Forall (fun i => In i alphabet) ins ->
    traceA (vstep d1 mid) (power_up d1) ins = traceB (vstep d2 mid) (power_up d2) ins.
Proof.
  intros H1 H2 H ins Hin.
  rewrite (norm_traces_init (auto_T d1) d1 mid H1).
  assert (E : traceB (vstep d2 mid) (power_up d2) ins =
              traceB (vstep_norm d2 (auto_T d2) mid) (norm_state (auto_T d2) d2 (power_up d2)) ins).
  { pose proof (norm_traces_init (auto_T d2) d2 mid H2 ins) as G.
    (* traceA and traceB are the same function *)
    assert (AB : forall (S : Type) (st : S -> list value -> S * res (list value)) s l, traceA st s l = traceB st s l).
    { intros S st s l. revert s. induction l as [|i r IH]; intros s; cbn; [reflexivity|].
      destruct (st s i). rewrite IH. reflexivity. }
    rewrite <- !AB. exact G. }
  rewrite E.
  eapply (explore_sound_b (vstep_norm d1 (auto_T d1) mid) (vstep_norm d2 (auto_T d2) mid) rvstate_eqb rvstate_eqb out_eqb
            rvstate_eqb_ok rvstate_eqb_ok out_eqb_ok); [exact H|left; reflexivity|apply admissible_all_n; exact Hin].
Qed.
