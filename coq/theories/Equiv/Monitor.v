(** * Safety monitors: a parsed design composed with a monitor automaton that
    watches inputs and outputs; the obligation is that the monitor never flags,
    for every input sequence (decided by the same verified checker against the
    one-state machine that always answers "ok"). *)
From Coq Require Import ZArith NArith PArith List Bool.
From Cohdl Require Import Base.Bits Vhdl.Value Vhdl.NumStd Vhdl.Syntax Vhdl.Sem Equiv.Explore Equiv.VhdlTS Equiv.RefTS.
Import ListNotations.

(** monitor state -> inputs of this clock -> outputs after this clock -> (new state, ok) *)
Definition monitor := list Z -> list value -> list value -> list Z * bool.

Definition okout : res (list value) := Ok [VL true].

Definition mstep (d : design) (mid : bool) (mon : monitor)
  : res vstate * list Z -> list value -> (res vstate * list Z) * res (list value) :=
  let vs := vstep d mid in
  fun sm inp =>
    let '(s', o) := vs (fst sm) inp in
    match o with
    | Ok outs => let '(m', ok) := mon (snd sm) inp outs in ((s', m'), Ok [VL ok])
    | Err e => ((s', snd sm), Err e)
    end.

Definition unit_step : unit -> list value -> unit * res (list value) := fun _ _ => (tt, okout).

Definition ms_eqb (a b : res vstate * list Z) : bool := rvstate_eqb (fst a) (fst b) && zl_eqb (snd a) (snd b).
Lemma ms_eqb_ok a b : ms_eqb a b = true <-> a = b.
Proof.
  destruct a, b; unfold ms_eqb; cbn. rewrite andb_true_iff, rvstate_eqb_ok, zl_eqb_ok.
  split; [intros [-> ->]; reflexivity|intros [= -> ->]; auto].
Qed.

Definition unit_eqb (a b : unit) : bool := true.
Lemma unit_eqb_ok a b : unit_eqb a b = true <-> a = b.
Proof. destruct a, b; split; reflexivity. Qed.

Definition ms_hash (p : (res vstate * list Z) * unit) : positive :=
  Pos.add (vhash (fst (fst p))) (Pos.mul 7919 (zl_hash (snd (fst p)))).

Definition no_assume : unit -> list value -> bool := fun _ _ => true.

Definition mcheck (d : design) (mid : bool) (mon : monitor) (alphabet : list (list value)) (fuel : nat) (m0 : list Z) :=
  check (mstep d mid mon) unit_step ms_eqb unit_eqb out_eqb ms_hash alphabet no_assume fuel [((power_up d, m0), tt)].

Definition mcheck_bfs (d : design) (mid : bool) (mon : monitor) (alphabet : list (list value)) (fuel : nat) (m0 : list Z) :=
  check_bfs (mstep d mid mon) unit_step ms_eqb unit_eqb out_eqb ms_hash alphabet no_assume fuel [((power_up d, m0), tt)].

Lemma traceB_unit ins : traceB unit_step tt ins = map (fun _ => okout) ins.
Proof. induction ins as [|i r IH]; cbn; [reflexivity|]. rewrite IH. reflexivity. Qed.

Lemma admissible_all alphabet ins :
  Forall (fun i => In i alphabet) ins -> admissible unit_step alphabet no_assume tt ins.
Proof. induction 1 as [|i r Hi _ IH]; cbn; auto. Qed.

(** if the checker answers OK the monitor answers "ok" at every clock of every
    input sequence over the alphabet (and the design never raises an error) *)
Theorem mcheck_sound d mid mon alphabet fuel m0 :
  is_ok (mcheck d mid mon alphabet fuel m0) = true ->
  forall ins, Forall (fun i => In i alphabet) ins ->
    Forall (fun o => o = okout) (traceA (mstep d mid mon) (power_up d, m0) ins).
Proof.
  intros H ins Hin.
  assert (E : traceA (mstep d mid mon) (power_up d, m0) ins = traceB unit_step tt ins).
  { eapply (explore_sound_b (mstep d mid mon) unit_step ms_eqb unit_eqb out_eqb ms_eqb_ok unit_eqb_ok out_eqb_ok);
      [exact H|left; reflexivity|apply admissible_all; exact Hin]. }
  rewrite E, traceB_unit. apply Forall_forall. intros o Ho. apply in_map_iff in Ho. destruct Ho as (_ & <- & _). reflexivity.
Qed.
