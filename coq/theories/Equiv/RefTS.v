(** * Reference transition systems whose state is a vector of integers.
    One equality/hash suffices for every hand-written specification machine. *)
From Coq Require Import ZArith NArith PArith List Bool.
From Cohdl Require Import Base.Bits Vhdl.Value Vhdl.NumStd Vhdl.Syntax Vhdl.Sem Equiv.Explore Equiv.VhdlTS.
Import ListNotations.
Local Open Scope Z_scope.

Fixpoint zl_eqb (a b : list Z) : bool :=
  match a, b with
  | [], [] => true
  | x :: r, y :: r' => (x =? y) && zl_eqb r r'
  | _, _ => false
  end.

Lemma zl_eqb_ok a b : zl_eqb a b = true <-> a = b.
Proof.
  revert b; induction a as [|x r IH]; intros [|y r']; cbn; try (split; [discriminate|congruence]).
  - split; reflexivity.
  - rewrite andb_true_iff, Z.eqb_eq, IH. split; [intros [-> ->]; reflexivity|intros [= -> ->]; auto].
Qed.

Definition zl_hash (l : list Z) : positive :=
  Z.to_pos (1 + fold_left (fun h x => hmix h (Z.land x hmask)) l 11).

Definition rstep := list Z -> list value -> list Z * res (list value).

Definition rcheck (d : design) (mid : bool) (stepB : rstep) (alphabet : list (list value))
           (assume : list Z -> list value -> bool) (fuel : nat) (initB : list Z) :=
  vcheck d mid stepB zl_eqb zl_hash alphabet assume fuel [(power_up d, initB)].

Definition rcheck_bfs (d : design) (mid : bool) (stepB : rstep) (alphabet : list (list value))
           (assume : list Z -> list value -> bool) (fuel : nat) (initB : list Z) :=
  vcheck_bfs d mid stepB zl_eqb zl_hash alphabet assume fuel [(power_up d, initB)].

Theorem rcheck_sound d mid stepB alphabet assume fuel initB :
  is_ok (rcheck d mid stepB alphabet assume fuel initB) = true ->
  forall ins, admissible stepB alphabet assume initB ins ->
    traceA (vstep d mid) (power_up d) ins = traceB stepB initB ins.
Proof.
  intros H ins Had.
  eapply (vcheck_sound d mid stepB zl_eqb zl_eqb_ok zl_hash alphabet assume fuel); [exact H|left; reflexivity|exact Had].
Qed.

(** decoding inputs *)
Definition vbit (v : value) : bool := match v with VL b => b | VB b => b | _ => false end.
Definition vnum (v : value) : Z := match v with VV _ _ z => z | VI z => z | VL b => if b then 1 else 0 | _ => 0 end.
Definition obit (b : bool) : value := VL b.
Definition ouns (w : N) (z : Z) : value := VV KUns w z.
Definition oslv (w : N) (z : Z) : value := VV KSlv w z.
Definition zb (b : bool) : Z := if b then 1 else 0.
