"""C13 worker: runs sequences of first uses of parametrised types against the REAL cohdl.

stdin : {"seqs": [ {"items": [item, ...]}, ... ]}
stdout: {"results": [ per-sequence result ]}

item = ["t", texpr]            evaluate a type expression (subscript the real classes)
     | ["r", texpr, param]     subscript the already parametrised class texpr again:
                               param = ["w", n] | ["a", texpr, n] | ["q", dir|null, texpr]
     | ["v", scenario]          build a vector object, take view chains, write/read through them

texpr (JSON) = ["leaf", "bit"|"bool"|"int"] | ["vany", fam] | ["vec", fam, "down"|"up", w] | ["arrany"]
             | ["arr", texpr, n] | ["qany", q] | ["q", q, dir|null, texpr]
fam in bv/u/s, q in sig/var/tmp/port, dir in in/out/inout

The class caches of cohdl are process-global and filled lazily, so EVERY sequence runs in a
freshly forked child: the parent imports cohdl (which leaves all caches empty - asserted) and
forks before any subscript is evaluated.
"""
import json
import os
import sys
import traceback

import cohdl  # noqa: F401  (leaves the caches empty, checked below)
from cohdl import Unsigned, Signed, Bit, BitVector, Port, Signal, Variable, Temporary, Array
from cohdl._core._boolean import _Boolean
from cohdl._core._integer import Integer
from cohdl._core._bit_vector import BitOrder
from cohdl._core._type_qualifier import TypeQualifier, Slice, Offset

FAM = {"bv": BitVector, "u": Unsigned, "s": Signed}
FAM_NAME = {"BitVector": "bv", "Unsigned": "u", "Signed": "s"}
LEAF = {"bit": Bit, "bool": _Boolean, "int": Integer}
QF = {"sig": Signal, "var": Variable, "tmp": Temporary, "port": Port}
QF_NAME = {"Signal": "sig", "Variable": "var", "Temporary": "tmp", "Port": "port"}
DIR = {"in": Port.Direction.INPUT, "out": Port.Direction.OUTPUT, "inout": Port.Direction.INOUT}
DIR_NAME = {v: k for k, v in DIR.items()}
# order is the column order of the "fixed" matrices
FIXED = [Bit, _Boolean, Integer, BitVector, Unsigned, Signed, Array, Signal, Port, Variable, Temporary]
CACHE_OWNERS = [BitVector, Unsigned, Signed, Array, Signal, Port, Variable, Temporary]


# the wrapped types bool / int have two spellings (the Python builtins and cohdl's _Boolean / Integer) that must denote
# the same class: items at odd positions of a sequence spell them with the builtins
ALT = [False]


def _inner(e):
    if ALT[0] and e == ["leaf", "bool"]:
        return bool
    if ALT[0] and e == ["leaf", "int"]:
        return int
    return build(e)


def build(e):
    k = e[0]
    if k == "leaf":
        return LEAF[e[1]]
    if k == "vany":
        return FAM[e[1]]
    if k == "vec":
        f, o, w = e[1], e[2], e[3]
        return FAM[f][w] if o == "down" else FAM[f][0:w - 1]
    if k == "arrany":
        return Array
    if k == "arr":
        return Array[build(e[1]), e[2]]
    if k == "qany":
        return QF[e[1]]
    if k == "q":
        inner = _inner(e[3])
        if e[2] is None:
            return QF[e[1]][inner]
        return QF[e[1]][inner, DIR[e[2]]]
    raise ValueError(e)


def build_re(base, param):
    """subscript an already parametrised class: base[param]"""
    B = build(base)
    k = param[0]
    if k == "w":
        return B[param[1]]
    if k == "a":
        return B[build(param[1]), param[2]]
    if k == "q":
        inner = _inner(param[2])
        return B[inner] if param[1] is None else B[inner, DIR[param[1]]]
    raise ValueError(param)


def describe(c):
    """class object -> texpr, read off the attributes the class carries (None if not describable)"""
    for n, l in LEAF.items():
        if c is l:
            return ["leaf", n]
    for n, f in FAM.items():
        if c is f:
            return ["vany", n]
    if c is Array:
        return ["arrany"]
    for n, q in QF.items():
        if c is q:
            return ["qany", n]
    if not isinstance(c, type):
        return None
    d = c.__dict__
    if "_width" in d and c.__name__ in FAM_NAME:
        return ["vec", FAM_NAME[c.__name__], "down" if d["_order"] is BitOrder.DOWNTO else "up", d["_width"]]
    if "_elemtype_" in d:
        return ["arr", describe(d["_elemtype_"]), d["_count_"]]
    if "_Wrapped" in d and c.__name__ in QF_NAME:
        dr = d.get("_direction")
        return ["q", QF_NAME[c.__name__], None if dr is None else DIR_NAME[dr], describe(d["_Wrapped"])]
    return None


def dump_caches():
    out = []
    for owner in CACHE_OWNERS:
        ks = []
        for key, cl in owner._SubTypes.items():
            if owner in (BitVector, Unsigned, Signed):
                o, w = key
                kd = ["vec", FAM_NAME[owner.__name__], "down" if o is BitOrder.DOWNTO else "up", w]
            elif owner is Array:
                kd = ["arr", describe(key[0]), key[1]]
            else:
                kd = ["q", QF_NAME[owner.__name__], None if key[1] is None else DIR_NAME[key[1]], describe(key[0])]
            ks.append({"key": kd, "cls": describe(cl)})
        out.append(ks)
    return out


def bits_of(x):
    v = TypeQualifier.decay(x)
    return v._bit_str() if isinstance(v, BitVector) else str(v)


def spec_dump(v):
    out = []
    for r in v._ref_spec:
        if isinstance(r, Slice):
            out.append(["slice", r.start, r.stop, list(r.base_offset)])
        elif isinstance(r, Offset):
            out.append(["offset", r.offset, list(r.base_offset)])
        else:
            out.append(["?"])
    return out


def qual_of(v):
    t = type(v)
    d = getattr(t, "_direction", None)
    return [QF_NAME.get(t.__name__, t.__name__), None if d is None else DIR_NAME.get(d, str(d))]


def cells_of(v, root_cells):
    val = v._value
    bl = [val] if isinstance(val, Bit) else list(val._value)
    idx = []
    for b in bl:
        found = -1
        for i, rb in enumerate(root_cells):
            if rb is b:
                found = i
                break
        idx.append(found)
    return idx


def apply_step(v, s):
    k = s[0]
    if k == "u":
        return v.unsigned
    if k == "s":
        return v.signed
    if k == "bv":
        return v.bitvector
    if k == "sl":
        return v[s[1]:s[2]]
    if k == "ix":
        return v[s[1]]
    if k == "it":
        return list(v)[s[1]]
    raise ValueError(s)


def do_write(v, bits, qn):
    if qn in ("sig", "port"):
        v.next = bits
    elif qn == "var":
        v.value = bits
    else:
        v._value._assign(bits)


def run_view(sc):
    q, d, f, w, init = sc["q"], sc["dir"], sc["fam"], sc["w"], sc["init"]
    T = FAM[f][w]
    cls = QF[q][T] if d is None else QF[q][T, DIR[d]]
    root = cls(init)
    root_cells = list(root._value._value)
    views = []
    recs = []
    for ch in sc["chains"]:
        v = root
        err = None
        try:
            for s in ch:
                v = apply_step(v, s)
        except (AssertionError, AttributeError, TypeError, IndexError, RuntimeError) as e:
            err = type(e).__name__
            v = None
        views.append(v)
        if v is None:
            recs.append({"err": err})
        else:
            recs.append({
                "err": None,
                "root_is_root": v._root is root,
                "qual": qual_of(v),
                "wrapped": describe(type(v)._Wrapped),
                "type_canonical": type(v) is (QF[q][type(v)._Wrapped] if d is None else QF[q][type(v)._Wrapped, DIR[d]]),
                "value_type_ok": type(v._value) is type(v)._Wrapped,
                "cells": cells_of(v, root_cells),
                "spec": spec_dump(v),
                "read": bits_of(v),
            })
    writes = []
    for (ci, bits) in sc["writes"]:
        v = views[ci]
        if v is None:
            writes.append(None)
            continue
        try:
            do_write(v, bits, q)
            werr = None
        except Exception as e:  # noqa
            werr = type(e).__name__
        writes.append({"err": werr, "root": bits_of(root),
                       "reads": [None if x is None else bits_of(x) for x in views]})
    return {"views": recs, "writes": writes}


def run_seq(seq):
    for owner in CACHE_OWNERS:
        assert len(owner._SubTypes) == 0, "caches not empty in a fresh child"
    items = seq["items"]
    classes = []      # per "t" item: class object or None
    status = []       # ok | rej | err:<type>
    vres = []
    for pos, it in enumerate(items):
        ALT[0] = pos % 2 == 1
        if it[0] in ("t", "r"):
            try:
                c = build(it[1]) if it[0] == "t" else build_re(it[1], it[2])
                classes.append(c)
                status.append("ok")
            except AssertionError:
                classes.append(None)
                status.append("rej")
            except Exception as e:  # noqa
                classes.append(None)
                status.append("err:" + type(e).__name__)
        else:
            try:
                vres.append(run_view(it[1]))
            except Exception as e:  # noqa
                vres.append({"crash": type(e).__name__ + ": " + str(e)[:200], "tb": traceback.format_exc()[-800:]})
    n = len(classes)
    same = []
    for i in range(n):
        if classes[i] is None:
            same.append(None)
            continue
        j = 0
        while classes[j] is not classes[i]:
            j += 1
        same.append(j)
    ok = [i for i in range(n) if classes[i] is not None]
    sub = [[1 if issubclass(classes[i], classes[j]) else 0 for j in ok] for i in ok]
    subfix = [[1 if issubclass(classes[i], F) else 0 for F in FIXED] for i in ok]
    fixsub = [[1 if issubclass(F, classes[i]) else 0 for F in FIXED] for i in ok]
    nmro = [len(classes[i].__mro__) for i in ok]
    nbases = [len(classes[i].__bases__) for i in ok]
    desc = [describe(classes[i]) for i in ok]
    caches = dump_caches()
    # instances (after the cache dump: constructing them may create further classes)
    inst = []
    for i in ok:
        c = classes[i]
        d = describe(c)
        row = None
        try:
            if d is not None and ((d[0] == "vec") or (d[0] == "q" and d[3][0] in ("vec", "leaf") and d[3] != ["leaf", "int"])):
                x = c()
                row = {"type_is": type(x) is c,
                       "isinst": [1 if isinstance(x, classes[j]) else 0 for j in ok]}
        except Exception as e:  # noqa
            row = {"crash": type(e).__name__ + ": " + str(e)[:100]}
        inst.append(row)
    return {"status": status, "same": same, "ok": ok, "sub": sub, "subfix": subfix, "fixsub": fixsub,
            "nmro": nmro, "nbases": nbases, "desc": desc, "caches": caches, "inst": inst, "views": vres}


def in_child(seq):
    r, w = os.pipe()
    pid = os.fork()
    if pid == 0:
        os.close(r)
        try:
            res = run_seq(seq)
        except BaseException as e:  # noqa
            res = {"crash": type(e).__name__ + ": " + str(e)[:300], "tb": traceback.format_exc()[-1500:]}
        data = json.dumps(res).encode()
        with os.fdopen(w, "wb") as f:
            f.write(data)
        os._exit(0)
    os.close(w)
    with os.fdopen(r, "rb") as f:
        data = f.read()
    os.waitpid(pid, 0)
    return json.loads(data.decode())


def main():
    payload = json.loads(sys.stdin.read())
    for owner in CACHE_OWNERS:
        assert len(owner._SubTypes) == 0, "import cohdl populated a class cache"
    out = [in_child(s) for s in payload["seqs"]]
    sys.stdout.write(json.dumps({"results": out}) + "\n")


if __name__ == "__main__":
    main()
