"""C15 - SyncFlag and Mailbox hand over every event exactly once.

two-process and same-process wrappers around the REAL std.SyncFlag / std.Mailbox for each delay setting;
per configuration a kernel-checked theorem: for ALL input sequences (every relative timing of producer and
consumer, every payload) the hand-over monitor (Models/StdSpecs.v chan_monitor) never flags; and, for the
two-context wrappers, a second one: the emitted VHDL has the trace of the AS-CODED model of these delays
(Models/Handover.v ho_rstep: toggle registers, delay lines of tx_delay / rx_delay booleans, data register), about
which Models/HandoverProofs.v proves the hand-over properties and the monitor for ALL delays (C15_*_all_delays)."""
from __future__ import annotations
import common
import explore as X

HEAD = """import cohdl
from cohdl import Bit, Port, Unsigned, Null, Signal
from cohdl import std

class W(cohdl.Entity):
    clk = Port.input(Bit)
    send = Port.input(Bit)
    want = Port.input(Bit)
    din = Port.input(Unsigned[{w}])
    sent = Port.output(Bit, default=False)
    got = Port.output(Bit, default=False)
    dout = Port.output(Unsigned[{w}], default=Null)

    def architecture(self):
"""

MBOX_TWO = HEAD + """        mbox = std.Mailbox[Unsigned[{w}]]({args})

        @std.sequential(std.Clock(self.clk))
        def producer():
            if self.send:
                if mbox.is_clear():
                    mbox.send(self.din)
                    self.sent ^= True

        @std.sequential(std.Clock(self.clk))
        def consumer():
            if self.want:
                if mbox.is_set():
                    self.dout <<= mbox.data()
                    mbox.clear()
                    self.got ^= True
"""

MBOX_CORO = HEAD + """        mbox = std.Mailbox[Unsigned[{w}]]({args})

        @std.sequential(std.Clock(self.clk))
        def producer():
            if self.send:
                if mbox.is_clear():
                    mbox.send(self.din)
                    self.sent ^= True

        @std.sequential(std.Clock(self.clk))
        async def consumer():
            await self.want
            data = await mbox.receive()
            self.dout <<= data
            self.got ^= True
"""

MBOX_CORO2 = HEAD + """        mbox = std.Mailbox[Unsigned[{w}]]({args})

        @std.sequential(std.Clock(self.clk))
        def producer():
            if self.send:
                if mbox.is_clear():
                    mbox.send(self.din)
                    self.sent ^= True

        @std.sequential(std.Clock(self.clk))
        async def consumer():
            await self.want
            first = await mbox.receive()
            self.dout <<= first
            self.got ^= True
            {between}
            second = await mbox.receive()
            self.dout <<= second
            self.got ^= True
"""

# `async with flag:` (wait for set; clear on EVERY exit of the body, also an early return)
FLAG_ASYNC_WITH = HEAD + """        flag = std.SyncFlag({args})
        data = Signal[Unsigned[{w}]](Null)

        @std.sequential(std.Clock(self.clk))
        def producer():
            if self.send:
                if flag.is_clear():
                    data.next = self.din
                    flag.set()
                    self.sent ^= True

        async def take():
            async with flag:
                if self.want:
                    self.dout <<= data
                    self.got ^= True
                    return
                self.dout <<= data
                self.got ^= True

        @std.sequential(std.Clock(self.clk))
        async def consumer():
            await take()
"""

FLAG_TWO = HEAD + """        flag = std.SyncFlag({args})

        @std.sequential(std.Clock(self.clk))
        def producer():
            if self.send:
                if flag.is_clear():
                    flag.set()
                    self.sent ^= True

        @std.sequential(std.Clock(self.clk))
        def consumer():
            if self.want:
                if flag.is_set():
                    flag.clear()
                    self.got ^= True
"""

FLAG_UNGUARDED = HEAD + """        flag = std.SyncFlag({args})

        @std.sequential(std.Clock(self.clk))
        def producer():
            if self.send:
                # an unguarded set: it only counts as an event when the producer saw the flag clear;
                # a set while the flag is set must have no effect
                self.sent ^= flag.is_clear()
                flag.set()

        @std.sequential(std.Clock(self.clk))
        def consumer():
            if self.want:
                if flag.is_set():
                    flag.clear()
                    self.got ^= True
"""

# a defensive clear() issued while the consumer sees the flag as clear must be a no-op (it must not re-raise the flag)
MBOX_DEFENSIVE = HEAD + """        mbox = std.Mailbox[Unsigned[{w}]]({args})

        @std.sequential(std.Clock(self.clk))
        def producer():
            if self.send:
                if mbox.is_clear():
                    mbox.send(self.din)
                    self.sent ^= True

        @std.sequential(std.Clock(self.clk))
        def consumer():
            if mbox.is_set():
                if self.want:
                    self.dout <<= mbox.data()
                    mbox.clear()
                    self.got ^= True
            else:
                mbox.clear()
"""

FLAG_DEFENSIVE = HEAD + """        flag = std.SyncFlag({args})

        @std.sequential(std.Clock(self.clk))
        def producer():
            if self.send:
                if flag.is_clear():
                    flag.set()
                    self.sent ^= True

        @std.sequential(std.Clock(self.clk))
        def consumer():
            if flag.is_set():
                if self.want:
                    flag.clear()
                    self.got ^= True
            elif self.want:
                flag.clear()
"""

FLAG_SAME = HEAD + """        flag = std.SyncFlag()

        @std.sequential(std.Clock(self.clk))
        def both():
            if flag.is_clear():
                if self.send:
                    flag.set()
                    self.sent ^= True
            else:
                if self.want:
                    flag.clear()
                    self.got ^= True
"""


TIE_TAIL = """
Theorem {name} : forall ins, Forall (fun i => In i alphabet) ins ->
  Forall (fun o => o = okout)
         (traceA (mstep_s d false (chan_monitor {k}%Z true)) (power_up_s d, [0%Z; 0%Z; 0%Z; 0%Z]) ins).
Proof.
  apply (ho_traces_tie d false alphabet {tx} {rx} {g} {p} {w}%N {k}%Z true case_ok);
    [vm_compute; reflexivity|vm_compute; discriminate].
Qed.
"""


def delay_args(tx, rx):
    parts = []
    if tx:
        parts.append(f"tx_delay={tx}")
    if rx:
        parts.append(f"rx_delay={rx}")
    return ", ".join(parts)


def run(ck: common.Check, replay=None):
    ck.check_props("C15_Properties.v")
    delays = [(0, 0), (1, 0), (0, 1), (1, 1), (0, 2)] if ck.tier == "quick" else [(t, r) for t in range(4) for r in range(4)]
    designs, metas = [], []
    for tx, rx in delays:
        a = delay_args(tx, rx)
        designs.append({"name": f"mbox_two_t{tx}_r{rx}", "source": MBOX_TWO.format(w=2, args=a), "entity": "W"})
        metas.append({"component": "Mailbox", "form": "two contexts", "tx_delay": tx, "rx_delay": rx, "payload": True})
        designs.append({"name": f"flag_two_t{tx}_r{rx}", "source": FLAG_TWO.format(w=1, args=a), "entity": "W"})
        metas.append({"component": "SyncFlag", "form": "two contexts", "tx_delay": tx, "rx_delay": rx, "payload": False})
        designs.append({"name": f"flag_unguarded_t{tx}_r{rx}", "source": FLAG_UNGUARDED.format(w=1, args=a), "entity": "W"})
        metas.append({"component": "SyncFlag", "form": "two contexts, unguarded set", "tx_delay": tx, "rx_delay": rx, "payload": False})
        if rx >= 1 or ck.tier != "quick":
            for bt, bsrc in (("b2b", "pass"), ("gap", "await cohdl.true")):
                if ck.tier == "quick" and bt == "gap" and (tx, rx) != (1, 1):
                    continue
                designs.append({"name": f"mbox_coro2_{bt}_t{tx}_r{rx}", "source": MBOX_CORO2.format(w=2, args=a, between=bsrc), "entity": "W"})
                metas.append({"component": "Mailbox", "form": "coroutine consumer with two receive sites (" + bt + ")", "tx_delay": tx, "rx_delay": rx, "payload": True})
        if ck.tier != "quick" or (tx, rx) in ((0, 0), (1, 1)):
            designs.append({"name": f"mbox_coro_t{tx}_r{rx}", "source": MBOX_CORO.format(w=2, args=a), "entity": "W"})
            metas.append({"component": "Mailbox", "form": "coroutine consumer (receive)", "tx_delay": tx, "rx_delay": rx, "payload": True})
    for tx, rx in ([(0, 0), (1, 1)] if ck.tier == "quick" else delays):
        designs.append({"name": f"flag_async_with_t{tx}_r{rx}", "source": FLAG_ASYNC_WITH.format(w=2, args=delay_args(tx, rx)), "entity": "W"})
        metas.append({"component": "SyncFlag", "form": "coroutine consumer (async with, body with a conditional return)", "tx_delay": tx, "rx_delay": rx, "payload": True})
    for tx, rx in ([(0, 0), (1, 1), (0, 2)] if ck.tier == "quick" else delays):
        a = delay_args(tx, rx)
        designs.append({"name": f"mbox_defensive_t{tx}_r{rx}", "source": MBOX_DEFENSIVE.format(w=2, args=a), "entity": "W"})
        metas.append({"component": "Mailbox", "form": "defensive clear while clear (two contexts)", "tx_delay": tx, "rx_delay": rx, "payload": True})
        designs.append({"name": f"flag_defensive_t{tx}_r{rx}", "source": FLAG_DEFENSIVE.format(w=1, args=a), "entity": "W"})
        metas.append({"component": "SyncFlag", "form": "defensive clear while clear (two contexts)", "tx_delay": tx, "rx_delay": rx, "payload": False})
    designs.append({"name": "flag_same", "source": FLAG_SAME.format(w=1), "entity": "W"})
    metas.append({"component": "SyncFlag", "form": "same context", "tx_delay": 0, "rx_delay": 0, "payload": False})
    res = X.compile_designs(ck, designs)
    cases = []
    direct = {}   # tied configuration -> its direct monitor case (only explored if the tied file fails)
    for dsg, meta, r in zip(designs, metas, res):
        if not r["ok"]:
            ck.obligation(False)
            ck.violation({"config": dsg["name"]}, "wrapper around the real component no longer compiles: " + r["error"][:200],
                         {"source": dsg["source"], "error": r.get("trace", r["error"])}, no_input=True)
            continue
        tx, rx = meta["tx_delay"], meta["rx_delay"]
        k = 2 * (tx + rx) + 3
        meta = dict(meta, source=dsg["source"], response_bound=k)
        strict = "false" if "coroutine" in meta["form"] else "true"
        # without payload the monitor sees dout = data = 0 (the dout port is never driven)
        mon = f"chan_monitor {k}%Z {strict}"
        overrides = None if meta["payload"] else {"din": "[VV KUns 1%N 0%Z]"}
        mon_case = X.Case(dsg["name"], r["vhdl"], step=mon, init="[0%Z; 0%Z; 0%Z; 0%Z]", monitor=True,
                          imports="From Cohdl Require Import Models.StdSpecs.", meta=meta, alphabet_overrides=overrides)
        ck.hist("components", meta["component"] + "/" + meta["form"])
        if not meta["form"].startswith("two contexts"):
            cases.append(mon_case)
            continue
        # two-context wrappers: ONE exploration, against the as-coded model of these delays (Models/Handover.v
        # ho_rstep; reference-machine template: 'emitted VHDL trace = model trace for all input sequences'), and in
        # the same file the monitor obligation of this configuration derived from it by the all-delay theorem
        # ho_traces_tie (Models/HandoverProofs.v) - with the bound the direct monitor cases use and with the exact one
        guarded = "false" if "unguarded" in meta["form"] else "true"
        payload = "true" if meta["payload"] else "false"
        w = 2 if meta["payload"] else 1
        c = X.Case(dsg["name"] + "_model", r["vhdl"], step=f"ho_rstep {tx} {guarded} {payload} {w}%N",
                   init=f"ho_init {tx} {rx}",
                   imports="From Cohdl Require Import Equiv.Monitor Models.StdSpecs Models.Handover Models.HandoverProofs.",
                   meta=dict(meta, reference="as-coded model ho_rstep (Models/Handover.v); monitor by ho_traces_tie",
                             exact_response_bound=max(tx, rx)),
                   alphabet_overrides=overrides)
        c.tail = "".join(TIE_TAIL.format(name=n, k=kk, tx=tx, rx=rx, g=guarded, p=payload, w=w)
                         for n, kk in (("monitor_ok", k), ("monitor_exact_ok", max(tx, rx))))
        cases.append(c)
        direct[c.name] = mon_case
    # The property is decided on the monitor.  If a tied file fails, the direct monitor case of that configuration is
    # explored: a difference between the VHDL and the as-coded model while the monitor theorem holds means
    # Models/Handover.v no longer describes the code (the all-delay theorems no longer speak about it) and is reported
    # as a correspondence that no longer checks, with the distinguishing input sequence in the replay; if the monitor
    # fails too both are counterexamples like any other.
    what_cex = "hand-over monitor flags on an input sequence (lost, duplicated, modified or unsolicited event)"
    deferred, mon_failed = [], set()
    orig_violation, orig_write = ck.violation, X.write_case

    def write_case(ck_, c):
        path = orig_write(ck_, c)
        if getattr(c, "tail", None):
            with open(path, "a") as f:
                f.write(c.tail)
        return path

    def violation(key, what, replay, no_input=False):
        cfg = key.get("config", "")
        if cfg in direct:
            deferred.append((key, what, replay, no_input))
            return False
        mon_failed.add(cfg)
        return orig_violation(key, what, replay, no_input)
    ck.violation, X.write_case = violation, write_case
    try:
        results = X.run_cases(ck, cases, what_cex, key_of=lambda c: {"config": c.name})
        for c, status, _ in results:
            if c.name in direct and status == "ok":
                ck.obligation(True)   # monitor_ok
                ck.obligation(True)   # monitor_exact_ok
        if deferred:
            X.run_cases(ck, [direct[key["config"]] for key, _, _, _ in deferred], what_cex,
                        key_of=lambda c: {"config": c.name}, count_first=0)
    finally:
        ck.violation, X.write_case = orig_violation, orig_write
    for key, what, replay, no_input in deferred:
        if replay.get("status") == "cex":
            what = "emitted VHDL and the as-coded model (Models/Handover.v) differ on an input sequence"
            if key["config"][:-6] not in mon_failed:
                what += " [the monitor theorem of this configuration holds: the model is out of date]"
                no_input = True
        ck.violation(key, what, replay, no_input)
    ck.cov["as_coded_model_cases"] = len(direct)
    ck.cov["all_delays"] = ("Models/HandoverProofs.v: for every tx_delay, rx_delay >= 0, every payload and every input sequence the "
                            "as-coded model hands over exactly once, in order, unmodified; a send is visible to the consumer after "
                            "exactly tx_delay clocks, a receive to the producer after exactly rx_delay clocks; chan_monitor K never "
                            "flags for any K >= max(tx_delay, rx_delay); the '*_model' cases tie the model to the emitted VHDL per "
                            "configuration and derive its monitor theorems (bound 2(tx+rx)+3 and exact bound max(tx,rx)) by "
                            "C15_code_trace_implies_monitor_all_delays; C15_code_exactly_once_all_delays applies to each of them")
    ck.cov["rule"] = ("one case per (component, usage form, tx_delay, rx_delay); each case is a theorem over all input "
                      "sequences (all relative timings, all payloads); all are non-trivial")
    ck.trusted += ["fail-closed VHDL reader", "Vhdl.Sem (modelled VHDL-93 simulation cycle)",
                   "chan_monitor (Models/StdSpecs.v) as the rendering of 'exactly once, in order, unmodified' + bounded response"]
    ck.assumptions += ["producer and consumer contexts share one clock (relative timing = per-clock send/want choices)",
                       "the tie of the as-coded model to the emitted VHDL is enumerated over the listed delay pairs (the theorems about "
                       "the model hold for all delays); coroutine and same-context forms: delays enumerated, payload width 2"]
