"""C20, all-layouts part: tie between Models/AxiLayout.v (address computation, decode, write masking AS CODED, about which
Props/C20_Properties.v proves the C20_layout_* theorems for every layout tree) and the REAL cohdl.std.reg /
Axi4Light.connect_addr_map.

Random layout trees (depth <= 3: registers of every modelled kind, AddrRanges, arrays, nested register files at
various offsets, registers with random field sets; about a quarter deliberately malformed) are printed as Python
class definitions over the real reg32 API.  c20_layout_worker.py instantiates them with the real classes, calls the
real connect_addr_map and runs its proc_write / proc_read closures on concrete transactions (no compilation).
Inside Coq `check_case` compares, per case: accepted-or-rejected, the flattened address map (order, offsets, word
counts), the absolute offset of every leaf, the register selected by every access and every register word after
every write, the data of every read.  Independently the harness evaluates the property's specification in Python
(offset = sum along the path, one register per address, written bits = strobed bytes of the Mem-field ranges) on
the real results."""
from __future__ import annotations

import common

ALL32 = 0xFFFFFFFF
MEM = ("MemField", "MemUField", "MemSField")
FKINDS = ("Field", "UField", "SField") + MEM
WORDS = {"RWord": ("Word", "UWord", "SWord"), "RMemWord": ("MemWord", "MemUWord", "MemSWord")}

PREAMBLE = ("From Coq Require Import ZArith List Bool.\nFrom Cohdl Require Import Models.AxiLayout.\nImport ListNotations.\n"
            "Local Open Scope Z_scope.\n")


# ---------------------------------------------------------------------------------------------------------------
# trees: ("leaf", wc, kind, fields|None, pytype) | ("file", wc|None, [(off, node)...]) | ("arr", stop, step, elem)
#   kind in RWord RMemWord RRegister RRange; fields = [(fkind, off, width, as_bit)] in declaration order
# ---------------------------------------------------------------------------------------------------------------

def z(n):
    return str(n) if n >= 0 else f"({n})"


def coq_tree(t):
    if t[0] == "leaf":
        _, wc, kind, fields, _ = t
        if kind == "RRegister":
            k = "(RRegister [" + "; ".join(f"mkField K{fk} {z(o)} {z(w)}" for fk, o, w, _ in fields) + "])"
        else:
            k = kind
        return f"(Leaf {z(wc)} {k})"
    if t[0] == "file":
        _, wc, ms = t
        w = "None" if wc is None else f"(Some {z(wc)})"
        return f"(File {w} [" + "; ".join(f"({z(o)}, {coq_tree(m)})" for o, m in ms) + "])"
    _, stop, step, e = t
    return f"(Arr {z(stop)} {z(step)} {coq_tree(e)})"


class Src:
    """prints a tree as class definitions over the real API"""

    def __init__(self):
        self.defs = []
        self.n = 0

    def fresh(self, p):
        self.n += 1
        return f"{p}{self.n}"

    def type_of(self, t):
        """python expression of the (unplaced) class of a node"""
        if t[0] == "leaf":
            _, wc, kind, fields, pytype = t
            if kind in WORDS:
                return "reg32." + pytype
            if kind == "RRange":
                name = self.fresh("R")
                self.defs.append(f"class {name}(reg32.AddrRange, word_count={wc}):\n    pass\n")
                return name
            name = self.fresh("G")
            body = []
            for i, (fk, o, w, as_bit) in enumerate(fields):
                arg = f"{o}" if as_bit else f"{o + w - 1}:{o}"
                body.append(f"    f{i}: reg32.{fk}[{arg}, Null]")
            self.defs.append(f"class {name}(reg32.Register):\n" + ("\n".join(body) if body else "    pass") + "\n")
            return name
        if t[0] == "file":
            return self.file(t, root=False)
        raise ValueError("array type has no unplaced class")

    def member(self, off, m):
        if m[0] == "arr":
            _, stop, step, e = m
            return f"reg32.Array[{self.type_of(e)}, {off}:{off + stop}:{step}]"
        return f"{self.type_of(m)}[{off}]"

    def file(self, t, root):
        _, wc, ms = t
        anns = [f"    m{i}: {self.member(o, m)}" for i, (o, m) in enumerate(ms)]
        name = "Root" if root else self.fresh("F")
        base = "reg32.AddrMap" if root else "reg32.RegFile"
        kw = "" if wc is None else f", word_count={wc}"
        self.defs.append(f"class {name}({base}{kw}):\n" + ("\n".join(anns) if anns else "    pass") + "\n")
        return name


def source(tree):
    s = Src()
    s.file(tree, root=True)
    return "\n".join(s.defs)


def leaves(t, expr="root", base=0):
    """specification side: [(python expression, sum of the offsets along the path, leaf)] in traversal order"""
    if t[0] == "leaf":
        return [(expr, base, t)]
    if t[0] == "file":
        out = []
        for i, (o, m) in enumerate(t[2]):
            out += leaves(m, f"{expr}.m{i}", base + o)
        return out
    _, stop, step, e = t
    out = []
    if step != 0:
        for i, k in enumerate(range(0, stop, step)):
            out += leaves(e, f"{expr}[{i}]", base + k)
    return out


def field_masks(leaf):
    """(software-writable bits, bits of any field) from the field kinds - the property's reading of the declaration"""
    _, wc, kind, fields, _ = leaf
    if kind == "RMemWord":
        return ALL32, ALL32
    if kind == "RRegister":
        wm = rm = 0
        for fk, o, w, _ in fields:
            m = ((1 << w) - 1) << o
            rm |= m
            if fk in MEM:
                wm |= m
        return wm, rm
    return 0, (ALL32 if kind == "RWord" else 0)


def byte_mask(strb):
    return sum(0xFF << (8 * b) for b in range(4) if (strb >> b) & 1)


# ---------------------------------------------------------------------------------------------------------------
# generator
# ---------------------------------------------------------------------------------------------------------------

def gen_fields(rng):
    n = rng.randint(1, 5)
    cuts = sorted(rng.sample(range(0, 33), min(2 * n, 32)))
    fs = []
    for i in range(0, len(cuts) - 1, 2):
        lo, hi = cuts[i], cuts[i + 1]
        w = hi - lo
        if rng.random() < 0.3:
            w = 1
        fs.append((rng.choice(FKINDS), lo, w, w == 1 and rng.random() < 0.5))
    rng.shuffle(fs)
    return fs


def gen_leaf(rng, allow_range=True):
    r = rng.random()
    if r < 0.2:
        return ("leaf", 1, "RWord", None, rng.choice(WORDS["RWord"]))
    if r < 0.5:
        return ("leaf", 1, "RMemWord", None, rng.choice(WORDS["RMemWord"]))
    if r < 0.85 or not allow_range:
        return ("leaf", 1, "RRegister", gen_fields(rng), None)
    return ("leaf", rng.randint(1, 5), "RRange", None, None)


def ucount(t):
    if t[0] == "leaf":
        return 4 * t[1]
    if t[0] == "file":
        return 4 * t[1]
    return (t[1] // 4) * 4


def gen_arr(rng):
    e = gen_leaf(rng)
    step = ucount(e) + 4 * rng.choice([0, 0, 1, 2])
    count = rng.randint(1, 3)
    return ("arr", step * count, step, e)


def gen_file(rng, depth, root=False):
    ms = []
    pos = 0
    for _ in range(rng.randint(1, 4 if depth else 3)):
        r = rng.random()
        if depth > 0 and r < 0.3:
            m = gen_file(rng, depth - 1)
        elif r < 0.5:
            m = gen_arr(rng)
        else:
            m = gen_leaf(rng)
        off = pos + 4 * rng.choice([0, 0, 0, 1, 2, 5])
        ms.append((off, m))
        pos = off + ucount(m)
    wc = pos // 4 + rng.choice([0, 0, 1, 3])
    if root and rng.random() < 0.3:
        wc = None
    return ("file", wc, ms)


def files_in(t, acc=None):
    acc = [] if acc is None else acc
    if t[0] == "file":
        acc.append(t)
        for _, m in t[2]:
            files_in(m, acc)
    return acc


def mutate(rng, tree):
    """one deliberate defect (or harmless oddity); returns (tree, name).  Trees are rebuilt, never shared."""
    import copy
    tree = copy.deepcopy(tree)
    tree = ("file", tree[1], [list(x) for x in tree[2]])

    def unfreeze(t):
        if t[0] == "file":
            return ["file", t[1], [[o, unfreeze(m)] for o, m in t[2]]]
        if t[0] == "arr":
            return ["arr", t[1], t[2], unfreeze(t[3])]
        return list(t)

    def freeze(t):
        if t[0] == "file":
            return ("file", t[1], [(o, freeze(m)) for o, m in t[2]])
        if t[0] == "arr":
            return ("arr", t[1], t[2], freeze(t[3]))
        return tuple(t)

    T = unfreeze(tree)
    fl = files_in(T)
    f = rng.choice(fl)
    arrs = [m for ff in fl for _, m in ff[2] if m[0] == "arr"]
    regs = [m for ff in fl for _, m in ff[2] if m[0] == "leaf" and m[2] == "RRegister"] + \
           [a[3] for a in arrs if a[3][0] == "leaf" and a[3][2] == "RRegister"]
    kind = rng.choice(["unaligned", "overlap", "swap", "shrink", "arr_step", "arr_stop", "arr_of_file", "step0", "neg_off",
                       "field_overlap", "field_big", "same_start", "arr_neg"])
    if kind == "unaligned":
        m = rng.choice(f[2])
        m[0] += rng.choice([1, 2, 3])
    elif kind == "overlap" and len(f[2]) >= 2:
        i = rng.randrange(len(f[2]) - 1)
        f[2][i + 1][0] = f[2][i][0] + rng.choice([0, 0, 4])
    elif kind == "swap" and len(f[2]) >= 2:
        i = rng.randrange(len(f[2]) - 1)
        f[2][i], f[2][i + 1] = f[2][i + 1], f[2][i]
    elif kind == "shrink" and f[1] is not None:
        f[1] = max(0, f[1] - rng.choice([1, 1, 2]))
    elif kind == "arr_step" and arrs:
        a = rng.choice(arrs)
        a[2] = rng.choice([a[2] - 4, a[2] + 2, 2, -a[2]])
    elif kind == "arr_stop" and arrs:
        a = rng.choice(arrs)
        a[1] += rng.choice([1, 2, 4, -2, -4, 6])
    elif kind == "arr_of_file" and arrs:
        a = rng.choice(arrs)
        a[3] = ["file", 2, [[0, ["leaf", 1, "RMemWord", None, "MemWord"]], [4, ["leaf", 1, "RMemWord", None, "MemWord"]]]]
        a[2] = 8
        a[1] = 16
    elif kind == "step0" and arrs:
        rng.choice(arrs)[2] = 0
    elif kind == "arr_neg" and arrs:
        a = rng.choice(arrs)
        a[1], a[2] = -a[1], rng.choice([a[2], -a[2]])
    elif kind == "neg_off":
        f[2][0][0] = -4
    elif kind == "field_overlap" and regs:
        r = rng.choice(regs)
        fk, o, w, b = r[3][0]
        r[3].append((rng.choice(FKINDS), o + w - 1, 1, True))
    elif kind == "field_big" and regs:
        r = rng.choice(regs)
        r[3].append((rng.choice(FKINDS), rng.choice([31, 30, 32]), rng.choice([2, 3]), False))
    elif kind == "same_start" and len(f[2]) >= 1:
        f[2].insert(0, [f[2][0][0], ["leaf", 0, "RRange", None, None]])
    else:
        kind = "none"
    return freeze(T), kind


CORPUS = [
    # (name, tree)   fixed regression cases: every defect class of the generator once, by hand
    ("nested2", ("file", 4, [(8, ("file", 2, [(4, ("file", 1, [(0, ("leaf", 1, "RMemWord", None, "MemWord"))]))]))])),
    ("array_in_file", ("file", 4, [(8, ("file", 2, [(0, ("arr", 8, 4, ("leaf", 1, "RMemWord", None, "MemWord")))]))])),
    ("fields", ("file", 2, [(4, ("leaf", 1, "RRegister", [("MemField", 0, 8, False), ("MemUField", 8, 4, False), ("UField", 16, 2, False),
                                                        ("Field", 24, 1, True)], None))])),
    ("fields_unordered", ("file", None, [(0, ("leaf", 1, "RRegister", [("MemSField", 30, 2, False), ("SField", 0, 3, False), ("MemField", 7, 1, True)], None))])),
    ("range3", ("file", 8, [(4, ("leaf", 3, "RRange", None, None)), (16, ("leaf", 2, "RRange", None, None))])),
    ("out_of_order", ("file", 4, [(4, ("leaf", 1, "RMemWord", None, "MemWord")), (0, ("leaf", 1, "RMemWord", None, "MemWord"))])),
    ("overlap", ("file", 4, [(4, ("leaf", 1, "RMemWord", None, "MemWord")), (4, ("leaf", 1, "RWord", None, "Word"))])),
    ("unaligned", ("file", 4, [(2, ("leaf", 1, "RMemWord", None, "MemWord"))])),
    ("outside", ("file", 1, [(4, ("leaf", 1, "RMemWord", None, "MemWord"))])),
    ("arr_stop_collides", ("file", 8, [(0, ("arr", 10, 4, ("leaf", 1, "RMemWord", None, "MemWord"))), (8, ("leaf", 1, "RMemWord", None, "MemWord"))])),
    ("arr_stop_spills", ("file", 8, [(0, ("arr", 10, 4, ("leaf", 1, "RMemWord", None, "MemWord"))), (12, ("leaf", 1, "RMemWord", None, "MemWord"))])),
    ("arr_spills_parent", ("file", 8, [(0, ("file", 2, [(0, ("arr", 9, 4, ("leaf", 1, "RMemWord", None, "MemWord")))])), (12, ("leaf", 1, "RWord", None, "UWord"))])),
    ("arr_neg", ("file", 8, [(8, ("arr", -8, 4, ("leaf", 1, "RMemWord", None, "MemWord"))), (12, ("leaf", 1, "RMemWord", None, "MemWord"))])),
    ("arr_of_file", ("file", 8, [(0, ("arr", 16, 8, ("file", 2, [(0, ("leaf", 1, "RMemWord", None, "MemWord")), (4, ("leaf", 1, "RMemWord", None, "MemWord"))])))])),
    ("step0", ("file", 8, [(0, ("arr", 8, 0, ("leaf", 1, "RMemWord", None, "MemWord")))])),
    ("step_small", ("file", 8, [(0, ("arr", 8, 2, ("leaf", 1, "RMemWord", None, "MemWord")))])),
    ("neg_off", ("file", 8, [(-4, ("leaf", 1, "RMemWord", None, "MemWord")), (4, ("leaf", 1, "RMemWord", None, "MemWord"))])),
    ("field_overlap", ("file", 2, [(0, ("leaf", 1, "RRegister", [("MemField", 0, 8, False), ("Field", 7, 1, True)], None))])),
    ("field_big", ("file", 2, [(0, ("leaf", 1, "RRegister", [("MemField", 30, 3, False)], None))])),
    ("empty_file", ("file", 4, [(0, ("file", 0, [])), (0, ("leaf", 1, "RMemWord", None, "MemWord"))])),
    ("range_elems", ("file", None, [(8, ("arr", 40, 20, ("leaf", 3, "RRange", None, None)))])),
]


def accesses(rng, tree, n_extra):
    """addresses from the specification side of the tree: every leaf's first and last byte, gaps, one past the end"""
    lv = leaves(tree)
    hi = max([b + 4 * t[1] for _, b, t in lv] + [4])
    W = max(3, (hi + 4).bit_length())
    addrs = []
    for _, b, t in lv:
        for a in (b + rng.randrange(4), b + 4 * t[1] - 1 - rng.randrange(4), b - 1, b + 4 * t[1]):
            if 0 <= a < (1 << W):
                addrs.append(a)
    addrs += [rng.randrange(1 << W) for _ in range(n_extra)]
    if len(addrs) > 16:
        addrs = rng.sample(addrs, 16)
    pats = [ALL32, 0, 0xA5A5A5A5, 0x3C3CC3C3]
    writes = [[a, rng.choice(pats) if rng.random() < 0.5 else rng.getrandbits(32), rng.choice([15, 15, 0, 1, 2, 4, 8, 5, 10, 3, 12, rng.randrange(16)])]
              for a in addrs]
    init = []
    for _, _, t in lv:
        _, rm = field_masks(t)
        init.append(rng.getrandbits(32) & rm)
    return W, init, writes, list(addrs)


def coq_case(tree, res):
    t = coq_tree(tree)
    if not res["ok"]:
        return f"mkCase {t} false [] [] [] [] [] [] []"
    zl = lambda xs: "[" + "; ".join(z(x) for x in xs) + "]"
    on = lambda h: "None" if h is None else f"(Some {h}%nat)"
    ws = "[" + "; ".join(f"({a}, {d}, {s}, {on(w['hit'])}, {zl(w['state'])})" for (a, d, s), w in zip(res["_writes"], res["writes"])) + "]"
    final = res["writes"][-1]["state"] if res["writes"] else res["state0"]
    rs = "[" + "; ".join(f"({a}, {on(r['hit'])}, {r['data']})" for a, r in zip(res["_reads"], res["reads"])) + "]"
    return (f"mkCase {t} true {zl([o for o, _ in res['flat']])} {zl([w for _, w in res['flat']])} {zl(res['leaf_off'])} "
            f"{zl(res['state0'])} {ws} {zl(final)} {rs}")


def spec_check(tree, case, res):
    """the property's specification, evaluated on the real results only.  returns a list of findings (strings)"""
    bad = []
    if not res["ok"]:
        return bad
    lv = leaves(tree)
    if res["leaf_off"] != [b for _, b, _ in lv]:
        bad.append(f"absolute offsets {res['leaf_off']} differ from the sums along the paths {[b for _, b, _ in lv]}")
        return bad
    if sorted(res["leaf_pos"]) != list(range(len(res["flat"]))):
        bad.append(f"the flattened map {res['flat']} is not exactly the set of leaves (positions {res['leaf_pos']})")
        return bad
    by_pos = {p: t for p, (_, _, t) in zip(res["leaf_pos"], lv)}
    ext = [(o, o + 4 * wc) for o, wc in res["flat"]]
    for i in range(len(ext)):
        for j in range(i + 1, len(ext)):
            if ext[i][0] < ext[j][1] and ext[j][0] < ext[i][1]:
                bad.append(f"registers {i} and {j} of an accepted map overlap: {res['flat'][i]} {res['flat'][j]}")
    if [o for o, _ in res["flat"]] != sorted(o for o, _ in res["flat"]):
        bad.append("flattened map not in address order")
    init_by_pos = {p: w for p, w in zip(res["leaf_pos"], case["init"])}
    if res["state0"] != [init_by_pos[i] for i in range(len(res["flat"]))]:
        bad.append(f"harness: poked initial words not read back: {res['state0']}")
        return bad

    def sel(a):
        hits = [i for i, (lo, hi) in enumerate(ext) if lo <= a < hi]
        return hits[0] if len(hits) == 1 else (None if not hits else "many")

    st = list(res["state0"])
    for (a, d, s), w in zip(case["writes"], res["writes"]):
        k = sel(a)
        if w["hit"] != k:
            bad.append(f"write to address {a} selected register {w['hit']}, the address lies in register {k}")
        exp = list(st)
        if isinstance(k, int):
            wm, rm = field_masks(by_pos[k])
            m = byte_mask(s) & wm
            exp[k] = (st[k] & ~m & ALL32) | (d & m)
        if w["state"] != exp:
            bad.append(f"write addr={a} data={d:#x} strb={s:#x}: registers {w['state']}, expected {exp} (from {st})")
        st = list(w["state"])
    for a, r in zip(case["reads"], res["reads"]):
        k = sel(a)
        if r["hit"] != k:
            bad.append(f"read of address {a} selected register {r['hit']}, the address lies in register {k}")
        want = st[k] if isinstance(k, int) else 0
        if r["data"] != want:
            bad.append(f"read of address {a} returned {r['data']:#x}, register holds {want:#x}")
    return bad


def run_extra(ck: common.Check, c20_layouts=None):
    q = ck.tier == "quick"
    rng = ck.rng
    named = list(CORPUS)
    for name, L in (c20_layouts or {}).items():
        if "pytree" in L:
            named.append(("c20_" + name, L["pytree"]))
    trees = [(n, t, "corpus") for n, t in named]
    n_rand = 300 if q else 3000
    for i in range(n_rand):
        t = gen_file(rng, rng.choice([0, 1, 1, 2, 2]), root=True)
        mk = "valid"
        if rng.random() < 0.3:
            t, mk = mutate(rng, t)
        trees.append((f"rand{i}", t, mk))
    cases = []
    for name, t, mk in trees:
        W, init, writes, reads = accesses(rng, t, 3)
        lv = leaves(t)
        cases.append({"name": name, "mut": mk, "src": source(t), "leaves": [e for e, _, _ in lv], "init": init, "W": W,
                      "writes": writes, "reads": reads})
    # the sources of the layouts explored by c20.py themselves (offsets only: their _config_/hardware processes are not run)
    extra_src = []
    for name, L in (c20_layouts or {}).items():
        if "pytree" in L:
            lv = leaves(L["pytree"])
            extra_src.append({"name": "c20src_" + name, "mut": "corpus", "src": L["regmap"], "leaves": [], "init": [], "W": 4, "writes": [], "reads": []})
    res = common.run_worker("c20_layout_worker.py", {"cases": cases + extra_src}, timeout=600)["results"]
    res_extra = res[len(cases):]
    res = res[:len(cases)]
    terms = []
    for c, r, (name, t, mk) in zip(cases, res, trees):
        r["_writes"], r["_reads"] = c["writes"], c["reads"]
        terms.append(coq_case(t, r))
        ck.evaluations += 1
        ck.hist("layout_cases", mk)
        ck.hist("layout_real", "accepted" if r["ok"] else f"rejected:{r['error']}")
        if r["ok"]:
            ck.nontrivial(("layout", tuple(map(tuple, r["flat"])), c["src"]))
            ck.count("layout_writes", len(c["writes"]))
            ck.count("layout_reads", len(c["reads"]))
    for c in cases[:3]:
        ck.sample({"layout_source": c["src"], "writes": c["writes"][:3]})
    # c20.py's own sources: the real flatten against the tree the monitor parameters are checked against
    for e, r, (name, L) in zip(extra_src, res_extra, [(n, L) for n, L in (c20_layouts or {}).items() if "pytree" in L]):
        t = L["pytree"]
        if r["ok"]:
            terms.append(f"mkCase {coq_tree(t)} true [{'; '.join(z(o) for o, _ in r['flat'])}] [{'; '.join(z(w) for _, w in r['flat'])}] "
                         f"[{'; '.join(z(b) for _, b, _ in leaves(t))}] [] [] [] []")
        else:
            terms.append(f"mkCase {coq_tree(t)} false [] [] [] [] [] [] []")
        trees.append((e["name"], t, "corpus"))
        cases.append(e)
        r["_writes"], r["_reads"] = [], []
        res.append(r)
        ck.evaluations += 1
    bad = set(common.coq_bad_indices(ck, "c20_layout", PREAMBLE, "tcase", terms, "check_case", shard=60))
    for i, (c, r, (name, t, mk)) in enumerate(zip(cases, res, trees)):
        findings = spec_check(t, c, r) if c["leaves"] or not r["ok"] else []
        ok = i not in bad and not findings
        ck.obligation(ok)
        if ok:
            continue
        replay = {"layout": name, "mutation": mk, "source": c["src"], "tree": coq_tree(t), "address_width": c["W"], "init": c["init"],
                  "writes": c["writes"], "reads": c["reads"], "real": {k: v for k, v in r.items() if not k.startswith("_")},
                  "how": "PYTHONPATH=$COHDL_SRC /venv/bin/python harness/c20_layout_worker.py  <<< '{\"cases\": [this case]}'"}
        if findings:
            ck.violation({"layout_tie": "spec", "mutation": mk, "what": findings[0].split(":")[0][:60]},
                         "register map built by the real code violates the specification: " + findings[0], dict(replay, findings=findings))
        else:
            what = ("accepted by the real code" if r["ok"] else f"rejected by the real code ({r.get('error')}: {r.get('msg', '')[:80]})")
            ck.violation({"layout_tie": "model", "mutation": mk, "real": "accepted" if r["ok"] else "rejected"},
                         f"Models/AxiLayout.v no longer mirrors std.reg / connect_addr_map on this layout ({what}; offsets, decode and "
                         "masks of the real code still satisfy the specification here): the C20_layout_* theorems do not speak about this code",
                         replay, no_input=True)
    ck.cov["layout_rule"] = ("distinct = (flattened address map, source text) of an accepted layout; every case = one random or corpus layout "
                             "tree with up to 16 writes and 16 reads run through the real connect_addr_map closures")
    ck.cov["layout_cases"] = len(cases)
    ck.trusted += ["c20_layout_worker.py: eager execution of the real proc_write/proc_read closures of connect_addr_map (recorder in place of "
                   "SequentialContext, immediate cohdl.Variable) - the compiled behaviour of the same closures is what c20.py explores"]
    ck.assumptions += ["Models/AxiLayout.v does not model FlagField/FlagOnNotify, Input/Output, Memory internals, readonly/writeonly filters, "
                       "user _on_write_/_on_read_ overrides; (ii)/(iii) are proved for maps the code accepts (its neighbour check included)"]


def params_check(ck: common.Check, layouts):
    """the offsets / wmasks c20.py hands to axi_monitor_x must be the model's offsets_of / wmasks_of of the layout tree"""
    terms, names = [], []
    for name, L in layouts.items():
        if "pytree" not in L:
            continue
        offs = [o for _, _, o, _ in L["regs"]]
        wms = L.get("wmasks") or [ALL32] * len(offs)
        terms.append(f"({coq_tree(L['pytree'])}, [{'; '.join(map(z, offs))}], [{'; '.join(map(z, wms))}])")
        names.append(name)
    if not terms:
        return
    bad = common.coq_bad_indices(ck, "c20_params", PREAMBLE, "node * list Z * list Z", terms,
                                 "fun c => check_params (fst (fst c)) (snd (fst c)) (snd c)")
    for i, name in enumerate(names):
        ck.obligation(i not in bad)
        if i in bad:
            ck.violation({"layout": name, "harness": "monitor parameters"},
                         "offsets / write masks given to axi_monitor_x differ from offsets_of / wmasks_of of the layout tree (Models/AxiLayout.v)",
                         {"layout": name, "tree": terms[i]}, no_input=True)
