"""C02 - operators and expressions compute their documented value at run time.

typed expression trees over input ports of every operand type (Bit, bool, BitVector, Unsigned, Signed, int, enum,
cohdl.Array element reads) -> CoHDL source `self.o_k <<= <expr>` (concurrent context, and a clocked variant) AND a
Gallina term of the documented semantics (Models/ExprRef.v: tyof / xeval) -> real compiler -> emitted VHDL -> parsed
design; per design a kernel-checked theorem: for ALL input sequences over the stated alphabet (every operand valuation
at the quick widths) the design's outputs equal the documented values.  Several expressions over the same ports share
one design (one output port each); a design that is rejected or whose theorem fails is split into its expressions, a
failing tree is reduced to its smallest failing sub-expression, and that one is reported.
"""
from __future__ import annotations
import json
import os
import re

import common
import c02_emit
import explore as X
import vhdl_reader as R

KN = {"bit": "KBit", "bool": "KBool", "bv": "KBV", "u": "KU", "s": "KS", "int": "KInt", "enum": "KEnum"}
ENUM_N = 3
HEADER = """import cohdl
from cohdl import Bit, BitVector, Port, Unsigned, Signed, Signal, Array, enum, Null, Full
from cohdl import std, op


class En(enum.Enum):
    e0 = enum.auto()
    e1 = enum.auto()
    e2 = enum.auto()

"""


def cty(t):
    return f"(Ty {KN[t[0]]} {t[1]}%N)"


def pyty(t):
    k, w = t
    return {"bit": "Bit", "bool": "bool", "int": "int", "bv": f"BitVector[{w}]", "u": f"Unsigned[{w}]",
            "s": f"Signed[{w}]", "enum": "En"}[k]


def tname(t):
    return t[0] + (str(t[1]) if t[0] in ("bv", "u", "s") else "")


def cz(z):
    return f"({z})%Z"


class Node:
    __slots__ = ("ty", "py", "cq", "ports", "tag", "key", "kids", "risk", "nat", "cons", "pre", "depth", "dims")

    def __init__(self, ty, py, cq, kids=(), tag="leaf", key=None, ports=None, risk=False, nat=False, cons=None, pre=(),
                 dims=()):
        self.ty = ty
        self.py = py
        self.cq = cq
        self.kids = list(kids)
        self.tag = tag
        self.key = key or tag
        self.ports = dict(ports or {})
        self.risk = risk
        self.nat = nat
        self.cons = dict(cons or {})
        self.pre = list(pre)
        self.dims = set(dims)
        for k in self.kids:
            self.ports.update(k.ports)
            self.risk = self.risk or k.risk
            for p, (lo, hi) in k.cons.items():
                self.restrict(p, lo, hi)
            self.pre += [x for x in k.pre if x not in self.pre]
            self.dims |= k.dims
        self.depth = 1 + max([k.depth for k in self.kids], default=0) if self.kids else 0

    def restrict(self, port, lo, hi):
        a, b = self.cons.get(port, (-10 ** 9, 10 ** 9))
        self.cons[port] = (max(a, lo), min(b, hi))

    def all_tags(self):
        out = [self.tag] if self.kids or self.tag != "leaf" else []
        for k in self.kids:
            out += k.all_tags()
        return out


# ----------------------------------------------------------------------------
# ports
# ----------------------------------------------------------------------------
PORT_NAMES = {"bit": ["x", "y"], "bool": ["p", "q"], "u": ["a", "b"], "s": ["s", "t"], "bv": ["v", "w"]}
INT_PORTS = {"n": (0, 3), "m": (-2, 2)}


def port_node(name, t):
    return Node(t, f"self.{name}", f"(XIn @{name}@ {cty(t)})", ports={name: t}, nat=(name == "n"), tag="leaf",
                dims={"in:" + t[0]})


def int_lit(z):
    return Node(("int", 0), str(z) if z >= 0 else f"({z})", f"(XConst KInt 0%N {cz(z)})", nat=z >= 0, tag="leaf",
                dims={"pyint"})


def const_node(t, z):
    k, w = t
    if k == "u":
        py = f"Unsigned[{w}]({z})"
    elif k == "s":
        py = f"Signed[{w}]({z})"
    elif k == "bv":
        py = f'BitVector[{w}]("{z:0{w}b}")'
    elif k == "bit":
        py = f"Bit({bool(z)})"
    elif k == "enum":
        py = f"En.e{z}"
    else:
        raise AssertionError(t)
    return Node(t, py, f"(XConst {KN[k]} {w}%N {cz(z)})", tag="leaf", dims={"const:" + k})


def srange(w):
    return -(1 << (w - 1)), (1 << (w - 1)) - 1


class Gen:
    """typed random generator of well-typed expression trees (the typing rules of ExprRef.tyof)"""

    def __init__(self, rng, widths, max_bits=11, wide=()):
        self.r = rng
        self.W = list(widths)
        self.max_bits = max_bits
        self.wide = set(wide)
        self.used = {}
        self.arr_n = 0
        self.universe = None

    # ---- bookkeeping -----------------------------------------------------
    def reset(self):
        self.used = {}

    def bits(self):
        b = 0.0
        for n, t in self.used.items():
            if t[0] == "int":
                b += 2.4
            elif t[0] in ("bit", "bool"):
                b += 1
            else:
                b += min(t[1], 3.2) if t[1] in self.wide else t[1]
        return b

    def take_port(self, t):
        k, w = t
        if self.universe is not None:
            names = [n for n, tt in self.universe.items() if tt == t]
            if not names:
                return None
            n = self.r.choice(names)
            self.used[n] = t
            return n
        if k == "int":
            names = list(INT_PORTS)
        else:
            names = [n + (str(w) if k in ("u", "s", "bv") else "") for n in PORT_NAMES[k]]
        have = [n for n in names if n in self.used]
        cost = 2.4 if k == "int" else (1 if k in ("bit", "bool") else w)
        fresh = [n for n in names if n not in self.used]
        if fresh and (not have or self.r.random() < 0.5) and self.bits() + cost <= self.max_bits:
            n = self.r.choice(fresh)
            self.used[n] = t
            return n
        if have:
            return self.r.choice(have)
        return None

    def derived_leaf(self, t):
        """no port of this type in the universe: derive one from a vector port (slice / view / resize / index / compare)"""
        k, w = t
        vecs = [(n, tt) for n, tt in (self.universe or {}).items() if tt[0] in ("u", "s", "bv")]
        self.r.shuffle(vecs)
        if k in ("u", "s", "bv"):
            for n, tt in vecs:
                if tt[1] == w:
                    a = port_node(n, tt)
                    attr, V = {"u": ("unsigned", "VwU"), "s": ("signed", "VwS"), "bv": ("bitvector", "VwBV")}[k]
                    return Node(t, f"{a.py}.{attr}", f"(XView {V} {a.cq})", [a], tag=f"view:{tname(tt)}->{k}", key=f"view:{tt[0]}->{k}")
            for n, tt in vecs:
                if tt[1] > w:
                    a = port_node(n, tt)
                    lo = self.r.randint(0, tt[1] - w)
                    sl = Node(("bv", w), f"{a.py}[{lo + w - 1}:{lo}]", f"(XSlice {a.cq} {lo + w - 1}%N {lo}%N)", [a], tag=f"slice:{tname(tt)}[{lo + w - 1}:{lo}]", key=f"slice:{tt[0]}")
                    if k == "bv":
                        return sl
                    attr, V = {"u": ("unsigned", "VwU"), "s": ("signed", "VwS")}[k]
                    return Node(t, f"{sl.py}.{attr}", f"(XView {V} {sl.cq})", [sl], tag=f"view:bv{w}->{k}", key=f"view:bv->{k}")
            for n, tt in vecs:
                if tt[1] < w and tt[0] == k and k in ("u", "s"):
                    a = port_node(n, tt)
                    return Node(t, f"{a.py}.resize({w})", f"(XResize {a.cq} {w}%N 0%N)", [a], tag=f"resize:{tname(tt)}->{w}z0", key=f"resize:{k}")
            return None
        if k == "bit" and vecs:
            n, tt = vecs[0]
            a = port_node(n, tt)
            i = self.r.randrange(tt[1])
            return Node(t, f"{a.py}[{i}]", f"(XIdxC {a.cq} {i}%N)", [a], tag=f"index:{tname(tt)}[{i}]", key=f"index_const:{tt[0]}")
        if k == "bool":
            for n, tt in list((self.universe or {}).items()):
                if tt[0] in ("u", "s"):
                    a = port_node(n, tt)
                    z = self.r.randint(0, 1)
                    return Node(t, f"({a.py} == {z})", f"(XCmp CEq {a.cq} (XConst KInt 0%N {cz(z)}))", [a, int_lit(z)], tag=f"eq:{tname(tt)},int", key=f"cmp:{tt[0]},int")
                if tt[0] == "bit":
                    a = port_node(n, tt)
                    return Node(t, f"(not {a.py})", f"(XUn NNot {a.cq})", [a], tag="not:bit", key="not:bit")
        return None

    def leaf(self, t, const_ok=True):
        k, w = t
        if k == "enum":
            return self.enum_leaf()
        if const_ok and k in ("u", "s", "bv") and self.r.random() < 0.04:
            return self.const(t)
        n = self.take_port(t)
        if n is None:
            if self.universe is not None:
                dl = self.derived_leaf(t)
                if dl is not None:
                    return dl
            if k == "int":
                return int_lit(self.r.randint(0, 3))
            if k == "bool":
                a = self.leaf(("u", self.W[0]))
                return Node(("bool", 1), f"({a.py} == 1)", f"(XCmp CEq {a.cq} (XConst KInt 0%N 1%Z))", [a], tag="eq:u,int",
                            key="cmp:u,int")
            return self.const(t)
        return port_node(n, t)

    def const(self, t):
        k, w = t
        if k == "s":
            lo, hi = srange(w)
            return const_node(t, self.r.randint(lo, hi))
        if k in ("u", "bv"):
            return const_node(t, self.r.randrange(1 << w))
        if k == "bit":
            return const_node(t, self.r.randrange(2))
        if k == "int":
            return int_lit(self.r.randint(0, 3))
        raise AssertionError(t)

    def enum_leaf(self):
        w = self.r.choice([x for x in self.W if x <= 3])
        s = self.leaf(("u", w), const_ok=False)
        keys = list(range(min(2, 1 << w)))
        br = ", ".join(f"{k}: En.e{k}" for k in keys)
        cb = "; ".join(f"({cz(k)}, XConst KEnum {ENUM_N}%N {cz(k)})" for k in keys)
        return Node(("enum", ENUM_N), f"cohdl.select_with({s.py}, {{{br}}}, default=En.e2)",
                    f"(XSel {s.cq} [{cb}] (Some (XConst KEnum {ENUM_N}%N 2%Z)))", [s], tag="select_with:u->enum",
                    key="select_with:enum", dims={"enum"})

    # ---- dispatcher --------------------------------------------------------
    def gen(self, t, d):
        k = t[0]
        if d <= 0 or self.r.random() < 0.12:
            return self.leaf(t)
        for _ in range(8):
            n = getattr(self, "g_" + k)(t, d)
            if n is not None:
                return n
        return self.leaf(t)

    def vec_any(self, w, d, kinds=("u", "s", "bv")):
        return self.gen((self.r.choice(kinds), w), d)

    def widths_le(self, w):
        return [x for x in self.W if x <= w]

    def cond(self, d):
        k = self.r.choice(["bool"] * 4 + ["bit"] * 2 + ["u", "s", "bv"])
        if k in ("bool", "bit"):
            return self.gen((k, 1), d)
        return self.gen((k, self.r.choice(self.W)), d)

    def int_for(self, k, w, d, nonzero=False, port_ok=True):
        """an int operand usable next to a vector of kind k / width w: literal in range or an int port with its alphabet cut"""
        lo, hi = (0, (1 << w) - 1) if k == "u" else srange(w)
        if port_ok and self.r.random() < 0.3:
            name = "n" if k == "u" else self.r.choice(["n", "m"])
            plo, phi = INT_PORTS[name]
            if max(lo, plo) < min(hi, phi) or (max(lo, plo) == min(hi, phi) and not nonzero):
                t = ("int", 0)
                if name in self.used or self.bits() + 2.4 <= self.max_bits:
                    self.used[name] = t
                    nd = port_node(name, t)
                    nd.restrict(name, max(lo, plo), min(hi, phi))
                    return nd
        z = self.r.randint(lo, hi)
        if nonzero and z == 0:
            z = hi if hi != 0 else lo
        return int_lit(z)

    # ---- Unsigned / Signed ---------------------------------------------------
    def g_u(self, t, d):
        return self.g_num(t, d)

    def g_s(self, t, d):
        return self.g_num(t, d)

    def g_num(self, t, d):
        k, w = t
        K = KN[k]
        r = self.r
        prods = ["add", "sub", "mul", "div", "mod", "rem", "logic", "inv", "shl", "shr", "view", "resize", "ite", "sel", "arr"]
        if k == "s":
            prods += ["neg", "abs"]
        p = r.choice(prods)
        if p in ("add", "sub"):
            sym, B = ("+", "BAdd") if p == "add" else ("-", "BSub")
            mode = r.random()
            if mode < 0.6:
                w2 = r.choice(self.widths_le(w))
                wa, wb = (w, w2) if r.random() < 0.5 else (w2, w)
                a, b = self.gen((k, wa), d - 1), self.gen((k, wb), d - 1)
                return Node(t, f"({a.py} {sym} {b.py})", f"(XBin {B} {a.cq} {b.cq})", [a, b], tag=f"{p}:{k}{wa},{k}{wb}",
                            key=f"{p}:{k},{k}")
            a = self.nonconst(self.gen(t, d - 1))
            if not a.ports:
                return None
            i = self.int_for(k, w, d)
            if mode < 0.8:
                return Node(t, f"({a.py} {sym} {i.py})", f"(XBin {B} {a.cq} {i.cq})", [a, i], tag=f"{p}:{k}{w},int", key=f"{p}:{k},int")
            return Node(t, f"({i.py} {sym} {a.py})", f"(XBin {B} {i.cq} {a.cq})", [i, a], tag=f"{p}:int,{k}{w}", key=f"{p}:int,{k}")
        if p == "mul":
            opts = [(x, w - x) for x in self.W if (w - x) in self.W]
            if opts and r.random() < 0.7:
                wa, wb = r.choice(opts)
                a, b = self.gen((k, wa), d - 1), self.gen((k, wb), d - 1)
                return Node(t, f"({a.py} * {b.py})", f"(XBin BMul {a.cq} {b.cq})", [a, b], tag=f"mul:{k}{wa},{k}{wb}", key=f"mul:{k},{k}")
            if w % 2 == 0 and (w // 2) in self.W:
                h = w // 2
                a = self.gen((k, h), d - 1)
                i = self.int_for(k, h, d)
                if r.random() < 0.5:
                    return Node(t, f"({a.py} * {i.py})", f"(XBin BMul {a.cq} {i.cq})", [a, i], tag=f"mul:{k}{h},int", key=f"mul:{k},int")
                return Node(t, f"({i.py} * {a.py})", f"(XBin BMul {i.cq} {a.cq})", [i, a], tag=f"mul:int,{k}{h}", key=f"mul:int,{k}")
            return None
        if p in ("div", "mod", "rem"):
            B = {"div": "BTruncDiv", "mod": "BMod", "rem": "BRem"}[p]

            def src(a, b, both_u):
                if p == "div":
                    return f"({a.py} // {b.py})" if (both_u and r.random() < 0.5) else f"op.truncdiv({a.py}, {b.py})"
                if p == "mod":
                    return f"({a.py} % {b.py})"
                return f"op.rem({a.py}, {b.py})"
            mode = r.random()
            if mode < 0.6:
                w2 = r.choice(self.W)
                wa, wb = (w, w2) if p == "div" else (w2, w)
                a = self.gen((k, wa), d - 1)
                b = self.divisor((k, wb), d - 1)
                return Node(t, src(a, b, k == "u"), f"(XBin {B} {a.cq} {b.cq})", [a, b], tag=f"{p}:{k}{wa},{k}{wb}", key=f"{p}:{k},{k}")
            if mode < 0.8:
                a = self.gen(t, d - 1)
                i = self.int_for(k, w, d, nonzero=True, port_ok=False)
                return Node(t, src(a, i, False), f"(XBin {B} {a.cq} {i.cq})", [a, i], tag=f"{p}:{k}{w},int", key=f"{p}:{k},int")
            i = self.int_for(k, w, d, port_ok=False)
            b = self.divisor(t, d - 1)
            return Node(t, src(i, b, False), f"(XBin {B} {i.cq} {b.cq})", [i, b], tag=f"{p}:int,{k}{w}", key=f"{p}:int,{k}")
        if p == "logic":
            sym, B = r.choice([("&", "BAnd"), ("|", "BOr"), ("^", "BXor")])
            a, b = self.gen(t, d - 1), self.gen(t, d - 1)
            return Node(t, f"({a.py} {sym} {b.py})", f"(XBin {B} {a.cq} {b.cq})", [a, b], tag=f"{B[1:].lower()}:{k}{w}", key=f"bitwise:{k}")
        if p == "inv":
            a = self.gen(t, d - 1)
            return Node(t, f"(~{a.py})", f"(XUn NInv {a.cq})", [a], tag=f"invert:{k}{w}", key=f"invert:{k}")
        if p == "neg":
            a = self.gen(t, d - 1)
            return Node(t, f"(-{a.py})", f"(XUn NNeg {a.cq})", [a], tag=f"neg:{k}{w}", key=f"neg:{k}")
        if p == "abs":
            a = self.gen(t, d - 1)
            return Node(t, f"abs({a.py})", f"(XUn NAbs {a.cq})", [a], tag=f"abs:{k}{w}", key=f"abs:{k}")
        if p in ("shl", "shr"):
            sym, B = ("<<", "BShl") if p == "shl" else (">>", "BShr")
            a = self.gen(t, d - 1)
            if r.random() < 0.5:
                wc = r.choice([x for x in self.W if x <= 3])
                c = self.gen(("u", wc), d - 1)
                return Node(t, f"({a.py} {sym} {c.py})", f"(XBin {B} {a.cq} {c.cq})", [a, c], tag=f"{p}:{k}{w},u{wc}", key=f"{p}:{k},u")
            if r.random() < 0.6:
                c = int_lit(r.randint(0, w + 1))
            else:
                c = self.leaf(("int", 0))
                if c.ports:
                    c.restrict("n", 0, 3)
                    if "m" in c.ports:
                        c.restrict("m", 0, 2)
            return Node(t, f"({a.py} {sym} {c.py})", f"(XBin {B} {a.cq} {c.cq})", [a, c], tag=f"{p}:{k}{w},int", key=f"{p}:{k},int")
        if p == "view":
            k2 = r.choice([x for x in ("u", "s", "bv") if x != k])
            a = self.gen((k2, w), d - 1)
            attr, V = ("unsigned", "VwU") if k == "u" else ("signed", "VwS")
            return Node(t, f"{a.py}.{attr}", f"(XView {V} {a.cq})", [a], tag=f"view:{k2}{w}->{k}", key=f"view:{k2}->{k}")
        if p == "resize":
            ws = [x for x in self.W if x < w]
            if not ws:
                return None
            w0 = r.choice(ws)
            z = r.choice([0, 0, 1]) if w0 + 1 <= w else 0
            a = self.gen((k, w0), d - 1)
            args = f"{w}" + (f", zeros={z}" if z else "")
            return Node(t, f"{a.py}.resize({args})", f"(XResize {a.cq} {w}%N {z}%N)", [a], tag=f"resize:{k}{w0}->{w}z{z}", key=f"resize:{k}")
        if p == "ite":
            return self.ite(t, d)
        if p == "sel":
            return self.select(t, d)
        if p == "arr":
            return self.arr_read(t, d)
        return None

    def divisor(self, t, d):
        """a run-time divisor is zero at power-up (all signals zero) and may glitch to zero while a concurrent design
        settles; the VHDL semantics (like a simulator's assertion) makes that an error, so such trees are 'risk':
        they are checked in a clocked context only.  A constant divisor is safe everywhere."""
        r = self.r
        if r.random() < 0.3:
            lo, hi = (1, (1 << t[1]) - 1) if t[0] == "u" else srange(t[1])
            z = r.randint(lo, hi) or (hi if hi else lo)
            return const_node(t, z)
        a = self.gen(t, d)
        if not a.ports:
            a = self.leaf(t, const_ok=False)
        a.risk = True
        return a

    def ref_leaf(self, t, bound):
        """an index operand that is a reference to a declared object (port, view or slice of a port)"""
        for _ in range(6):
            m = self.leaf(t, const_ok=False)
            if m.ports and not m.tag.startswith("resize"):
                return m
        return int_lit(self.r.randrange(bound))

    def nonconst(self, n):
        """selectors / indices / conditions are run-time objects"""
        if n.ports:
            return n
        for _ in range(4):
            m = self.leaf(n.ty, const_ok=False)
            if m.ports:
                return m
        return n

    def ite(self, t, d):
        k, w = t
        c = self.nonconst(self.cond(d - 1))
        a = self.gen(t, d - 1)
        b = self.gen(t, d - 1)
        return Node(t, f"({a.py} if {c.py} else {b.py})", f"(XIte {c.cq} {a.cq} {b.cq})", [c, a, b],
                    tag=f"ite:{tname(c.ty)}?{tname(a.ty)}:{tname(b.ty)}", key=f"ite:{k}")

    def select(self, t, d):
        r = self.r
        k, w = t
        sk = r.choice(["u", "u", "bv", "s", "bit", "bool", "enum"])
        if sk in ("bit", "bool"):
            st = (sk, 1)
            vals = [0, 1]
        elif sk == "enum":
            st = ("enum", ENUM_N)
            vals = [0, 1, 2]
        else:
            sw = r.choice([x for x in self.W if x <= 2] or [self.W[0]])
            st = (sk, sw)
            vals = list(range(*((srange(sw)[0], srange(sw)[1] + 1) if sk == "s" else (0, 1 << sw))))
        s = self.nonconst(self.gen(st, d - 1)) if sk != "enum" else self.enum_leaf()
        if not s.ports:
            return None
        nkeys = r.randint(1, len(vals))
        keys = r.sample(vals, nkeys)
        has_default = nkeys < len(vals) or r.random() < 0.3
        brs = []
        for i, key in enumerate(keys):
            brs.append((key, self.gen(t, d - 1)))
        dflt = self.gen(t, d - 1) if has_default else None

        def pykey(z):
            if sk == "bv":
                return f'"{z:0{st[1]}b}"'
            if sk == "bit":
                return f"Bit({bool(z)})"
            if sk == "bool":
                return str(bool(z))
            if sk == "enum":
                return f"En.e{z}"
            return str(z)
        py = f"cohdl.select_with({s.py}, {{{', '.join(pykey(z) + ': ' + n.py for z, n in brs)}}}" + (f", default={dflt.py})" if dflt else ")")
        cq = (f"(XSel {s.cq} [{'; '.join('(' + cz(z) + ', ' + n.cq + ')' for z, n in brs)}] "
              + (f"(Some {dflt.cq}))" if dflt else "None)"))
        return Node(t, py, cq, [s] + [n for _, n in brs] + ([dflt] if dflt else []), tag=f"select_with:{tname(st)}->{tname(t)}",
                    key=f"select_with:{sk}", dims={"select_default" if dflt else "select_exhaustive"})

    def arr_read(self, t, d):
        r = self.r
        n = r.choice([2, 3, 4])
        elems = [self.gen(t, min(d - 1, 1)) for _ in range(n)]
        elems = [e if not e.risk else self.leaf(t) for e in elems]      # the array is driven by a concurrent context
        if r.random() < 0.7:
            idx = self.ref_leaf(("u", 2 if 2 in self.W else self.W[0]), n)
        else:
            idx = self.leaf(("int", 0))
            for p_ in idx.ports:
                idx.restrict(p_, 0, n - 1)
            if not idx.ports:
                idx = int_lit(r.randrange(n))
        self.arr_n += 1
        name = f"arr{self.arr_n}"
        pre = (name, pyty(t), n, tuple(e.py for e in elems))
        nd = Node(t, f"{name}[{idx.py}]", f"(XIdx (XArr [{'; '.join(e.cq for e in elems)}]) {idx.cq})", elems + [idx],
                  tag=f"array_read:{tname(t)}x{n}[{tname(idx.ty)}]", key=f"array_read:{t[0]}", pre=[pre], dims={"array"})
        if idx.kids and idx.ty[0] == "u" and (1 << idx.ty[1]) > n:
            nd.risk = True      # a computed index may glitch out of range while a concurrent design settles
        return nd

    # ---- BitVector -------------------------------------------------------------
    def g_bv(self, t, d):
        k, w = t
        r = self.r
        p = r.choice(["logic", "inv", "concat", "concat", "slice", "slice", "view", "ite", "sel", "arr"])
        if p == "logic":
            sym, B = r.choice([("&", "BAnd"), ("|", "BOr"), ("^", "BXor")])
            a, b = self.gen(t, d - 1), self.gen(t, d - 1)
            return Node(t, f"({a.py} {sym} {b.py})", f"(XBin {B} {a.cq} {b.cq})", [a, b], tag=f"{B[1:].lower()}:bv{w}", key="bitwise:bv")
        if p == "inv":
            a = self.gen(t, d - 1)
            return Node(t, f"(~{a.py})", f"(XUn NInv {a.cq})", [a], tag=f"invert:bv{w}", key="invert:bv")
        if p == "concat":
            opts = [(x, w - x) for x in range(1, w) if (x in self.W or x == 1) and ((w - x) in self.W or w - x == 1)]
            if not opts:
                return None
            wa, wb = r.choice(opts)

            def part(wp):
                kk = r.choice(["bit", "bv", "u", "s"] if wp == 1 else ["bv", "u", "s"])
                if wp not in self.W and kk != "bit":
                    kk = "bit"
                return self.gen((kk, wp), d - 1)
            a, b = part(wa), part(wb)
            return Node(t, f"({a.py} @ {b.py})", f"(XBin BConcat {a.cq} {b.cq})", [a, b], tag=f"concat:{tname(a.ty)},{tname(b.ty)}",
                        key=f"concat:{a.ty[0]},{b.ty[0]}")
        if p == "slice":
            ws = [x for x in self.W if x >= w]
            if not ws:
                return None
            w0 = r.choice(ws)
            lo = r.randint(0, w0 - w)
            a = self.vec_any(w0, d - 1)
            return Node(t, f"{a.py}[{lo + w - 1}:{lo}]", f"(XSlice {a.cq} {lo + w - 1}%N {lo}%N)", [a], tag=f"slice:{tname(a.ty)}[{lo + w - 1}:{lo}]",
                        key=f"slice:{a.ty[0]}")
        if p == "view":
            a = self.gen((r.choice(["u", "s"]), w), d - 1)
            return Node(t, f"{a.py}.bitvector", f"(XView VwBV {a.cq})", [a], tag=f"view:{tname(a.ty)}->bv", key=f"view:{a.ty[0]}->bv")
        if p == "ite":
            return self.ite(t, d)
        if p == "sel":
            return self.select(t, d)
        if p == "arr":
            return self.arr_read(t, d)
        return None

    # ---- Bit --------------------------------------------------------------------
    def g_bit(self, t, d):
        r = self.r
        p = r.choice(["logic", "logic", "inv", "idxc", "idxc", "idx", "idx", "ite", "sel"])
        if p == "logic":
            sym, B = r.choice([("&", "BAnd"), ("|", "BOr"), ("^", "BXor")])
            a = self.gen(t, d - 1)
            b = self.gen(t, d - 1) if r.random() < 0.85 else const_node(t, r.randrange(2))
            if not a.ports:
                a, b = b, a         # a constant Bit on the left of & | ^ is not implemented upstream (Bit.__and__ reads other._val)
            if not a.ports:
                return None
            return Node(t, f"({a.py} {sym} {b.py})", f"(XBin {B} {a.cq} {b.cq})", [a, b], tag=f"{B[1:].lower()}:bit", key="bitwise:bit")
        if p == "inv":
            a = self.gen(t, d - 1)
            return Node(t, f"(~{a.py})", f"(XUn NInv {a.cq})", [a], tag="invert:bit", key="invert:bit")
        if p == "idxc":
            w0 = r.choice(self.W)
            a = self.vec_any(w0, d - 1)
            i = r.randrange(w0)
            return Node(t, f"{a.py}[{i}]", f"(XIdxC {a.cq} {i}%N)", [a], tag=f"index:{tname(a.ty)}[{i}]", key=f"index_const:{a.ty[0]}")
        if p == "idx":
            w0 = r.choice(self.W)
            a = self.vec_any(w0, d - 1)
            a = self.nonconst(a)
            if not a.ports:
                return None
            if r.random() < 0.75:
                i = self.ref_leaf(("u", r.choice([x for x in self.W if x <= 2] or [self.W[0]])), w0)
            else:
                i = self.leaf(("int", 0))
                for p_ in i.ports:
                    i.restrict(p_, 0, w0 - 1)
                if not i.ports:
                    i = int_lit(r.randrange(w0))
            nd = Node(t, f"{a.py}[{i.py}]", f"(XIdx {a.cq} {i.cq})", [a, i], tag=f"index:{tname(a.ty)}[{tname(i.ty)}]",
                      key=f"index_runtime:{a.ty[0]},{i.ty[0]}", dims={"runtime_index"})
            if i.kids and i.ty[0] == "u" and (1 << i.ty[1]) > w0:
                nd.risk = True      # a computed index may glitch out of range while a concurrent design settles
            return nd
        if p == "ite":
            return self.ite(t, d)
        if p == "sel":
            return self.select(t, d)
        return None

    # ---- bool ---------------------------------------------------------------------
    CMPS = [("==", "CEq"), ("!=", "CNe"), ("<", "CLt"), ("<=", "CLe"), (">", "CGt"), (">=", "CGe")]

    def cmp_operands(self, d, eq_only_ok=True):
        """two operands that may be compared; returns (a, b, eq_only)"""
        r = self.r
        x = r.random()
        if x < 0.55:
            k = r.choice(["u", "s"])
            wa, wb = r.choice(self.W), r.choice(self.W)
            mode = r.random()
            if mode < 0.6:
                return self.gen((k, wa), d), self.gen((k, wb), d), False
            a = self.gen((k, wa), d)
            i = self.int_for(k, wa, d) if r.random() < 0.7 else (int_lit(r.randint(0, 9)) if k == "u" else int_lit(r.randint(-9, 9)))
            return (a, i, False) if mode < 0.8 else (i, a, False)
        if x < 0.65:
            return self.gen(("int", 0), d), self.gen(("int", 0), d), False
        if not eq_only_ok:
            return self.cmp_operands(d, False)
        if x < 0.8:
            w = r.choice(self.W)
            return self.gen(("bv", w), d), self.gen(("bv", w), d), True
        if x < 0.88:
            return self.gen(("bit", 1), d), self.gen(("bit", 1), d), True
        if x < 0.93:
            return self.gen(("bool", 1), d), self.gen(("bool", 1), d), True
        a = self.enum_leaf()
        b = const_node(("enum", ENUM_N), r.randrange(3)) if r.random() < 0.6 else self.enum_leaf()
        return (a, b, True) if r.random() < 0.7 else (b, a, True)

    def g_bool(self, t, d):
        r = self.r
        p = r.choice(["cmp"] * 5 + ["chain", "chain", "and", "or", "not", "any", "all", "ite"])
        if p == "cmp":
            a, b, eq_only = self.cmp_operands(d - 1)
            sym, C = r.choice(self.CMPS[:2] if eq_only else self.CMPS)
            return Node(t, f"({a.py} {sym} {b.py})", f"(XCmp {C} {a.cq} {b.cq})", [a, b], tag=f"{C[1:].lower()}:{tname(a.ty)},{tname(b.ty)}",
                        key=f"cmp:{a.ty[0]},{b.ty[0]}")
        if p == "chain":
            k = r.choice(["u", "s"])
            n = r.choice([3, 3, 4])
            ops = []
            for j in range(n):
                if r.random() < 0.25 and j > 0:
                    ops.append(self.int_for(k, r.choice(self.W), d))
                else:
                    ops.append(self.gen((k, r.choice(self.W)), d - 1))
            cs = [r.choice(self.CMPS) for _ in range(n - 1)]
            py = ops[0].py + "".join(f" {c[0]} {o.py}" for c, o in zip(cs, ops[1:]))
            cq = f"(XChain {ops[0].cq} [{'; '.join('(' + c[1] + ', ' + o.cq + ')' for c, o in zip(cs, ops[1:]))}])"
            return Node(t, f"({py})", cq, ops, tag=f"chain{n}:{k}", key=f"chain:{k}", dims={"chained_compare"})
        if p in ("and", "or"):
            B = "BAndL" if p == "and" else "BOrL"
            a, b = self.cond(d - 1), self.cond(d - 1)
            return Node(t, f"({a.py} {p} {b.py})", f"(XBin {B} {a.cq} {b.cq})", [a, b], tag=f"{p}:{tname(a.ty)},{tname(b.ty)}", key=f"bool_{p}")
        if p == "not":
            a = self.cond(d - 1)
            return Node(t, f"(not {a.py})", f"(XUn NNot {a.cq})", [a], tag=f"not:{tname(a.ty)}", key=f"not:{a.ty[0]}")
        if p in ("any", "all"):
            xs = [self.cond(d - 1) for _ in range(r.choice([2, 3]))]
            C = "XAny" if p == "any" else "XAll"
            br = r.choice(["[{}]", "({},)"])
            return Node(t, f"{p}(" + br.format(", ".join(x.py for x in xs)) + ")", f"({C} [{'; '.join(x.cq for x in xs)}])", xs,
                        tag=f"{p}{len(xs)}:" + ",".join(x.ty[0] for x in xs), key=p, dims={p})
        if p == "ite":
            return self.ite(t, d)
        return None

    # ---- int -------------------------------------------------------------------------
    def g_int(self, t, d):
        r = self.r
        p = r.choice(["add", "sub", "mul", "neg", "ite"])
        if p in ("add", "sub", "mul"):
            sym, B = {"add": ("+", "BAdd"), "sub": ("-", "BSub"), "mul": ("*", "BMul")}[p]
            a = self.gen(t, d - 1)
            b = self.gen(t, d - 1) if r.random() < 0.6 else int_lit(r.randint(0, 3))
            if not a.ports:
                a = self.leaf(t)
            if not a.ports:
                return None
            nd = Node(t, f"({a.py} {sym} {b.py})", f"(XBin {B} {a.cq} {b.cq})", [a, b], tag=f"{p}:int,int", key=f"{p}:int,int")
            nd.nat = a.nat and b.nat and p != "sub"
            return nd
        if p == "neg":
            a = self.leaf(t)
            if not a.ports:
                return None
            return Node(t, f"(-{a.py})", f"(XUn NNeg {a.cq})", [a], tag="neg:int", key="neg:int")
        if p == "ite":
            nd = self.ite(t, d)
            if not nd.kids[1].ports:
                return None     # alternatives that are both Python ints never become a run-time object (outside the property)
            nd.nat = nd.kids[1].nat and nd.kids[2].nat
            return nd
        return None

    def g_enum(self, t, d):
        c = self.cond(d - 1)
        a = self.enum_leaf()
        b = const_node(t, self.r.randrange(3)) if self.r.random() < 0.5 else self.enum_leaf()
        return Node(t, f"({a.py} if {c.py} else {b.py})", f"(XIte {c.cq} {a.cq} {b.cq})", [c, a, b], tag="ite:enum", key="ite:enum")


# ----------------------------------------------------------------------------
# the systematic part: every operator x operand-type pair (leaf operands)
# ----------------------------------------------------------------------------
def P(name, t):
    return port_node(name, t)


def systematic(W, rng, thorough):
    """yields (group, node): expressions of one group share their ports, so they can share a design"""
    out = []
    pairs = [(a, b) for a in W for b in W]
    if not thorough:
        pairs = [(a, b) for a, b in pairs if a >= b or (a, b) in ((1, 2), (2, 3))]
    AR = [("add", "+", "BAdd"), ("sub", "-", "BSub"), ("mul", "*", "BMul")]
    for k, (n1, n2) in (("u", ("a", "b")), ("s", ("s", "t"))):
        for wa, wb in pairs:
            A, Bn = (k, wa), (k, wb)
            a = lambda: P(f"{n1}{wa}", A)
            b = lambda: P(f"{n2}{wb}", Bn)
            g = f"arith:{k}{wa},{k}{wb}"
            for nm, sym, B in AR:
                w = max(wa, wb) if nm != "mul" else wa + wb
                x, y = a(), b()
                out.append((g, Node((k, w), f"({x.py} {sym} {y.py})", f"(XBin {B} {x.cq} {y.cq})", [x, y], tag=f"{nm}:{k}{wa},{k}{wb}", key=f"{nm}:{k},{k}")))
            for sym, C in Gen.CMPS:
                x, y = a(), b()
                out.append((g, Node(("bool", 1), f"({x.py} {sym} {y.py})", f"(XCmp {C} {x.cq} {y.cq})", [x, y], tag=f"{C[1:].lower()}:{k}{wa},{k}{wb}", key=f"cmp:{k},{k}")))
            # division family: run-time divisor -> clocked design
            for nm, B in (("div", "BTruncDiv"), ("mod", "BMod"), ("rem", "BRem")):
                w = wa if nm == "div" else wb
                x, y = a(), b()
                forms = {"div": [f"op.truncdiv({x.py}, {y.py})"] + ([f"({x.py} // {y.py})"] if k == "u" else []),
                         "mod": [f"({x.py} % {y.py})"], "rem": [f"op.rem({x.py}, {y.py})"]}[nm]
                for f in forms:
                    nd = Node((k, w), f, f"(XBin {B} {x.cq} {y.cq})", [x, y], tag=f"{nm}:{k}{wa},{k}{wb}" + ("/floordiv" if "//" in f else ""), key=f"{nm}:{k},{k}")
                    nd.risk = True
                    out.append((g + ":divc", nd))
        for w in W:
            T = (k, w)
            a = lambda: P(f"{n1}{w}", T)
            lo, hi = (0, (1 << w) - 1) if k == "u" else srange(w)
            ints = sorted({lo, hi, 0, 1 if hi >= 1 else hi, -1 if lo <= -1 else lo}) if thorough else sorted({lo, hi, 1 if hi >= 1 else 0})
            g = f"arith_int:{k}{w}"
            for z in ints:
                for nm, sym, B in AR:
                    rw = w if nm != "mul" else 2 * w
                    for left in (False, True):
                        x, i = a(), int_lit(z)
                        l, r_ = (i, x) if left else (x, i)
                        out.append((g, Node((k, rw), f"({l.py} {sym} {r_.py})", f"(XBin {B} {l.cq} {r_.cq})", [l, r_],
                                            tag=f"{nm}:" + (f"int,{k}{w}" if left else f"{k}{w},int"), key=f"{nm}:" + (f"int,{k}" if left else f"{k},int"))))
                for sym, C in Gen.CMPS:
                    for left in (False, True):
                        x, i = a(), int_lit(z)
                        l, r_ = (i, x) if left else (x, i)
                        out.append((g, Node(("bool", 1), f"({l.py} {sym} {r_.py})", f"(XCmp {C} {l.cq} {r_.cq})", [l, r_],
                                            tag=f"{C[1:].lower()}:" + (f"int,{k}{w}" if left else f"{k}{w},int"), key="cmp:" + (f"int,{k}" if left else f"{k},int"))))
                if z != 0:
                    for nm, B in (("div", "BTruncDiv"), ("mod", "BMod"), ("rem", "BRem")):
                        x, i = a(), int_lit(z)
                        f = {"div": f"op.truncdiv({x.py}, {i.py})", "mod": f"({x.py} % {i.py})", "rem": f"op.rem({x.py}, {i.py})"}[nm]
                        out.append((g, Node(T, f, f"(XBin {B} {x.cq} {i.cq})", [x, i], tag=f"{nm}:{k}{w},int", key=f"{nm}:{k},int")))
                for nm, B in (("div", "BTruncDiv"), ("mod", "BMod"), ("rem", "BRem")):
                    y, i = a(), int_lit(z)
                    f = {"div": f"op.truncdiv({i.py}, {y.py})", "mod": f"({i.py} % {y.py})", "rem": f"op.rem({i.py}, {y.py})"}[nm]
                    nd = Node(T, f, f"(XBin {B} {i.cq} {y.cq})", [i, y], tag=f"{nm}:int,{k}{w}", key=f"{nm}:int,{k}")
                    nd.risk = True
                    out.append((g + ":divc", nd))
            # run-time int operand (an int input port)
            pn = "n" if k == "u" else "m"
            plo, phi = INT_PORTS[pn]
            if max(lo, plo) < min(hi, phi):
                g = f"arith_intport:{k}{w}"
                for nm, sym, B in AR:
                    rw = w if nm != "mul" else 2 * w
                    for left in (False, True):
                        x, i = a(), P(pn, ("int", 0))
                        l, r_ = (i, x) if left else (x, i)
                        nd = Node((k, rw), f"({l.py} {sym} {r_.py})", f"(XBin {B} {l.cq} {r_.cq})", [l, r_],
                                  tag=f"{nm}:" + (f"intport,{k}{w}" if left else f"{k}{w},intport"), key=f"{nm}:" + (f"int,{k}" if left else f"{k},int"))
                        nd.restrict(pn, max(lo, plo), min(hi, phi))
                        out.append((g, nd))
                for sym, C in Gen.CMPS:
                    x, i = a(), P(pn, ("int", 0))
                    nd = Node(("bool", 1), f"({x.py} {sym} {i.py})", f"(XCmp {C} {x.cq} {i.cq})", [x, i], tag=f"{C[1:].lower()}:{k}{w},intport", key=f"cmp:{k},int")
                    nd.restrict(pn, max(lo, plo), min(hi, phi))
                    out.append((g, nd))
            # unary, shifts, views, resize, bitwise
            g = f"unary:{k}{w}"
            x = a()
            out.append((g, Node(T, f"(~{x.py})", f"(XUn NInv {x.cq})", [x], tag=f"invert:{k}{w}", key=f"invert:{k}")))
            if k == "s":
                x = a()
                out.append((g, Node(T, f"(-{x.py})", f"(XUn NNeg {x.cq})", [x], tag=f"neg:s{w}", key="neg:s")))
                x = a()
                out.append((g, Node(T, f"abs({x.py})", f"(XUn NAbs {x.cq})", [x], tag=f"abs:s{w}", key="abs:s")))
            x = a()
            out.append((g, Node(("bool", 1), f"(not {x.py})", f"(XUn NNot {x.cq})", [x], tag=f"not:{k}{w}", key=f"not:{k}")))
            for attr, V, k2 in (("unsigned", "VwU", "u"), ("signed", "VwS", "s"), ("bitvector", "VwBV", "bv")):
                x = a()
                out.append((g, Node((k2, w), f"{x.py}.{attr}", f"(XView {V} {x.cq})", [x], tag=f"view:{k}{w}->{k2}", key=f"view:{k}->{k2}")))
            for n_ in sorted({w, w + 1, w + 3}):
                for z in (0, 1, 2):
                    if w + z <= n_:
                        x = a()
                        args = f"{n_}" + (f", zeros={z}" if z else "")
                        out.append((g, Node((k, n_), f"{x.py}.resize({args})", f"(XResize {x.cq} {n_}%N {z}%N)", [x], tag=f"resize:{k}{w}->{n_}z{z}", key=f"resize:{k}")))
            for i_ in range(w):
                x = a()
                out.append((g, Node(("bit", 1), f"{x.py}[{i_}]", f"(XIdxC {x.cq} {i_}%N)", [x], tag=f"index:{k}{w}[{i_}]", key=f"index_const:{k}")))
            for hi_ in range(w):
                for lo_ in range(hi_ + 1):
                    if thorough or (hi_ - lo_) in (0, w - 1) or rng.random() < 0.4:
                        x = a()
                        out.append((g, Node(("bv", hi_ - lo_ + 1), f"{x.py}[{hi_}:{lo_}]", f"(XSlice {x.cq} {hi_}%N {lo_}%N)", [x], tag=f"slice:{k}{w}[{hi_}:{lo_}]", key=f"slice:{k}")))
            for sym, B in (("&", "BAnd"), ("|", "BOr"), ("^", "BXor")):
                x, y = a(), P(f"{n2}{w}", T)
                out.append((f"bitwise:{k}{w}", Node(T, f"({x.py} {sym} {y.py})", f"(XBin {B} {x.cq} {y.cq})", [x, y], tag=f"{B[1:].lower()}:{k}{w}", key=f"bitwise:{k}")))
            for wc in [c for c in W if c <= 3]:
                g = f"shift:{k}{w},u{wc}"
                for sym, B, nm in (("<<", "BShl", "shl"), (">>", "BShr", "shr")):
                    x, c = a(), P(f"b{wc}" if k == "s" or wc != w else f"b{wc}", ("u", wc))
                    out.append((g, Node(T, f"({x.py} {sym} {c.py})", f"(XBin {B} {x.cq} {c.cq})", [x, c], tag=f"{nm}:{k}{w},u{wc}", key=f"{nm}:{k},u")))
            g = f"shift_int:{k}{w}"
            for sym, B, nm in (("<<", "BShl", "shl"), (">>", "BShr", "shr")):
                for c_ in sorted({0, 1, w - 1, w, w + 1}):
                    x = a()
                    c = int_lit(c_)
                    out.append((g, Node(T, f"({x.py} {sym} {c.py})", f"(XBin {B} {x.cq} {c.cq})", [x, c], tag=f"{nm}:{k}{w},int", key=f"{nm}:{k},int")))
                x, c = a(), P("n", ("int", 0))
                out.append((g, Node(T, f"({x.py} {sym} {c.py})", f"(XBin {B} {x.cq} {c.cq})", [x, c], tag=f"{nm}:{k}{w},intport", key=f"{nm}:{k},int")))
    # BitVector / Bit / bool / enum
    for w in W:
        T = ("bv", w)
        g = f"bv:{w}"
        for sym, B in (("&", "BAnd"), ("|", "BOr"), ("^", "BXor")):
            x, y = P(f"v{w}", T), P(f"w{w}", T)
            out.append((g, Node(T, f"({x.py} {sym} {y.py})", f"(XBin {B} {x.cq} {y.cq})", [x, y], tag=f"{B[1:].lower()}:bv{w}", key="bitwise:bv")))
        for sym, C in Gen.CMPS[:2]:
            x, y = P(f"v{w}", T), P(f"w{w}", T)
            out.append((g, Node(("bool", 1), f"({x.py} {sym} {y.py})", f"(XCmp {C} {x.cq} {y.cq})", [x, y], tag=f"{C[1:].lower()}:bv{w},bv{w}", key="cmp:bv,bv")))
            x, c = P(f"v{w}", T), const_node(T, rng.randrange(1 << w))
            out.append((g, Node(("bool", 1), f"({x.py} {sym} {c.py})", f"(XCmp {C} {x.cq} {c.cq})", [x, c], tag=f"{C[1:].lower()}:bv{w},const", key="cmp:bv,bv")))
        x = P(f"v{w}", T)
        out.append((g, Node(T, f"(~{x.py})", f"(XUn NInv {x.cq})", [x], tag=f"invert:bv{w}", key="invert:bv")))
        x = P(f"v{w}", T)
        out.append((g, Node(("bool", 1), f"(not {x.py})", f"(XUn NNot {x.cq})", [x], tag=f"not:bv{w}", key="not:bv")))
        for attr, V, k2 in (("unsigned", "VwU", "u"), ("signed", "VwS", "s"), ("bitvector", "VwBV", "bv")):
            x = P(f"v{w}", T)
            out.append((g, Node((k2, w), f"{x.py}.{attr}", f"(XView {V} {x.cq})", [x], tag=f"view:bv{w}->{k2}", key=f"view:bv->{k2}")))
        for i_ in range(w):
            x = P(f"v{w}", T)
            out.append((g, Node(("bit", 1), f"{x.py}[{i_}]", f"(XIdxC {x.cq} {i_}%N)", [x], tag=f"index:bv{w}[{i_}]", key="index_const:bv")))
        for hi_ in range(w):
            for lo_ in range(hi_ + 1):
                x = P(f"v{w}", T)
                out.append((g, Node(("bv", hi_ - lo_ + 1), f"{x.py}[{hi_}:{lo_}]", f"(XSlice {x.cq} {hi_}%N {lo_}%N)", [x], tag=f"slice:bv{w}[{hi_}:{lo_}]", key="slice:bv")))
        # run-time index, index type unsigned of each width <= 3 and an int port
        for k, nm in (("bv", "v"), ("u", "a"), ("s", "s")):
            for wi in [c for c in W if c <= 3]:
                x, i = P(f"{nm}{w}", (k, w)), P(f"b{wi}", ("u", wi))
                out.append((f"rtindex:{k}{w},u{wi}", Node(("bit", 1), f"{x.py}[{i.py}]", f"(XIdx {x.cq} {i.cq})", [x, i], tag=f"index:{k}{w}[u{wi}]",
                                                           key=f"index_runtime:{k},u", dims={"runtime_index"})))
            x, i = P(f"{nm}{w}", (k, w)), P("n", ("int", 0))
            nd = Node(("bit", 1), f"{x.py}[{i.py}]", f"(XIdx {x.cq} {i.cq})", [x, i], tag=f"index:{k}{w}[intport]", key=f"index_runtime:{k},int", dims={"runtime_index"})
            nd.restrict("n", 0, w - 1)
            out.append((f"rtindex:{k}{w},int", nd))
    # concatenation: every kind pair (incl. Bit), all width pairs
    KP = {"bit": "x", "bv": "v", "u": "a", "s": "s"}
    KQ = {"bit": "y", "bv": "w", "u": "b", "s": "t"}
    for ka in KP:
        for kb in KP:
            for wa in ([1] if ka == "bit" else W):
                for wb in ([1] if kb == "bit" else W):
                    if not thorough and ka != "bit" and kb != "bit" and (wa, wb) not in ((1, 1), (2, 3), (3, 1), (3, 3), (1, 2)):
                        continue
                    x = P(KP[ka] + (str(wa) if ka != "bit" else ""), (ka, wa))
                    y = P(KQ[kb] + (str(wb) if kb != "bit" else ""), (kb, wb))
                    out.append((f"concat:{ka}{wa},{kb}{wb}", Node(("bv", wa + wb), f"({x.py} @ {y.py})", f"(XBin BConcat {x.cq} {y.cq})", [x, y],
                                                                tag=f"concat:{tname(x.ty)},{tname(y.ty)}", key=f"concat:{ka},{kb}")))
    B1 = ("bit", 1)
    g = "bit"
    for sym, B in (("&", "BAnd"), ("|", "BOr"), ("^", "BXor")):
        x, y = P("x", B1), P("y", B1)
        out.append((g, Node(B1, f"({x.py} {sym} {y.py})", f"(XBin {B} {x.cq} {y.cq})", [x, y], tag=f"{B[1:].lower()}:bit", key="bitwise:bit")))
        x, c = P("x", B1), const_node(B1, 1)
        out.append((g, Node(B1, f"({x.py} {sym} {c.py})", f"(XBin {B} {x.cq} {c.cq})", [x, c], tag=f"{B[1:].lower()}:bit,const", key="bitwise:bit")))
    x = P("x", B1)
    out.append((g, Node(B1, f"(~{x.py})", f"(XUn NInv {x.cq})", [x], tag="invert:bit", key="invert:bit")))
    for sym, C in Gen.CMPS[:2]:
        x, y = P("x", B1), P("y", B1)
        out.append((g, Node(("bool", 1), f"({x.py} {sym} {y.py})", f"(XCmp {C} {x.cq} {y.cq})", [x, y], tag=f"{C[1:].lower()}:bit,bit", key="cmp:bit,bit")))
    BO = ("bool", 1)
    I0 = ("int", 0)
    conds = [lambda: P("x", B1), lambda: P("p", BO), lambda: P("a2", ("u", 2)), lambda: P("s2", ("s", 2)), lambda: P("v2", ("bv", 2)), lambda: P("n", I0)]
    g = "boolops"
    for i_, ca in enumerate(conds):
        x = ca()
        out.append((g, Node(BO, f"(not {x.py})", f"(XUn NNot {x.cq})", [x], tag=f"not:{tname(x.ty)}", key=f"not:{x.ty[0]}")))
        for cb in conds[i_:] if not thorough else conds:
            for nm, B in (("and", "BAndL"), ("or", "BOrL")):
                x, y = ca(), cb()
                if x.py == y.py and x.ty[0] in ("bit", "bool"):
                    y = P("y", B1) if x.ty[0] == "bit" else P("q", BO)
                out.append((g, Node(BO, f"({x.py} {nm} {y.py})", f"(XBin {B} {x.cq} {y.cq})", [x, y], tag=f"{nm}:{tname(x.ty)},{tname(y.ty)}", key=f"bool_{nm}")))
    for nm, C in (("any", "XAny"), ("all", "XAll")):
        xs = [c() for c in conds]
        out.append((g, Node(BO, f"{nm}([{', '.join(x.py for x in xs)}])", f"({C} [{'; '.join(x.cq for x in xs)}])", xs, tag=f"{nm}6", key=nm, dims={nm})))
        xs = [P("p", BO), P("q", BO)]
        out.append((g, Node(BO, f"{nm}(({', '.join(x.py for x in xs)}))", f"({C} [{'; '.join(x.cq for x in xs)}])", xs, tag=f"{nm}2", key=nm, dims={nm})))
    for sym, C in Gen.CMPS[:2]:
        x, y = P("p", BO), P("q", BO)
        out.append((g, Node(BO, f"({x.py} {sym} {y.py})", f"(XCmp {C} {x.cq} {y.cq})", [x, y], tag=f"{C[1:].lower()}:bool,bool", key="cmp:bool,bool")))
    g = "int"
    for nm, sym, B in AR:
        x, y = P("n", I0), P("m", I0)
        out.append((g, Node(I0, f"({x.py} {sym} {y.py})", f"(XBin {B} {x.cq} {y.cq})", [x, y], tag=f"{nm}:int,int", key=f"{nm}:int,int")))
        x, y = P("m", I0), int_lit(3)
        out.append((g, Node(I0, f"({x.py} {sym} {y.py})", f"(XBin {B} {x.cq} {y.cq})", [x, y], tag=f"{nm}:int,pyint", key=f"{nm}:int,int")))
    for sym, C in Gen.CMPS:
        x, y = P("n", I0), P("m", I0)
        out.append((g, Node(BO, f"({x.py} {sym} {y.py})", f"(XCmp {C} {x.cq} {y.cq})", [x, y], tag=f"{C[1:].lower()}:int,int", key="cmp:int,int")))
    x = P("m", I0)
    out.append((g, Node(I0, f"(-{x.py})", f"(XUn NNeg {x.cq})", [x], tag="neg:int", key="neg:int")))
    # if-expressions, select_with (default / exhaustive), chained comparisons over leaf operands
    g = "select"
    for k, (n1, n2) in (("u", ("a", "b")), ("s", ("s", "t")), ("bv", ("v", "w"))):
        T = (k, 2)
        for cnd in (lambda: P("x", B1), lambda: P("p", BO), lambda: P("a2", ("u", 2))):
            c, x, y = cnd(), P(f"{n1}2", T), P(f"{n2}2", T)
            out.append((g, Node(T, f"({x.py} if {c.py} else {y.py})", f"(XIte {c.cq} {x.cq} {y.cq})", [c, x, y], tag=f"ite:{tname(c.ty)}?{k}2:{k}2", key=f"ite:{k}")))
        sel, x, y = P("b2", ("u", 2)), P(f"{n1}2", T), P(f"{n2}2", T)
        z0 = const_node(T, 1)
        out.append((g, Node(T, f"cohdl.select_with({sel.py}, {{1: {x.py}, 2: {y.py}}}, default={z0.py})",
                            f"(XSel {sel.cq} [(1%Z, {x.cq}); (2%Z, {y.cq})] (Some {z0.cq}))", [sel, x, y, z0], tag=f"select_with:u2->{k}2", key="select_with:u",
                            dims={"select_default"})))
        sel, x, y = P("x", B1), P(f"{n1}2", T), P(f"{n2}2", T)
        out.append((g, Node(T, f"cohdl.select_with({sel.py}, {{Bit(False): {x.py}, Bit(True): {y.py}}})",
                            f"(XSel {sel.cq} [(0%Z, {x.cq}); (1%Z, {y.cq})] None)", [sel, x, y], tag=f"select_with:bit->{k}2", key="select_with:bit",
                            dims={"select_exhaustive"})))
        sel, x, y = P("w2", ("bv", 2)), P(f"{n1}2", T), P(f"{n2}2", T)
        out.append((g, Node(T, f'cohdl.select_with({sel.py}, {{"10": {x.py}, "01": {y.py}}}, default={y.py})',
                            f"(XSel {sel.cq} [(2%Z, {x.cq}); (1%Z, {y.cq})] (Some {y.cq}))", [sel, x, y], tag=f"select_with:bv2->{k}2", key="select_with:bv",
                            dims={"select_default"})))
    for k, (n1, n2) in (("u", ("a", "b")), ("s", ("s", "t"))):
        for (s1, c1), (s2, c2) in ((Gen.CMPS[2], Gen.CMPS[3]), (Gen.CMPS[5], Gen.CMPS[1]), (Gen.CMPS[0], Gen.CMPS[4])):
            x, y, z = P(f"{n1}2", (k, 2)), P(f"{n2}3", (k, 3)), P(f"{n1}2", (k, 2))
            one = int_lit(1)
            out.append((g, Node(BO, f"({x.py} {s1} {y.py} {s2} {one.py})", f"(XChain {x.cq} [({c1}, {y.cq}); ({c2}, {one.cq})])", [x, y, one],
                                tag=f"chain3:{k}", key=f"chain:{k}", dims={"chained_compare"})))
            out.append((g, Node(BO, f"({one.py} {s1} {x.py} {s2} {y.py})", f"(XChain {one.cq} [({c1}, {x.cq}); ({c2}, {y.cq})])", [one, x, y],
                                tag=f"chain3:{k}", key=f"chain:{k}", dims={"chained_compare"})))
    return out


# ----------------------------------------------------------------------------
# candidates: forms the compiler accepts whose emitted operation is not the documented one (isolated so that they do not
# mask anything else); each is one design
# ----------------------------------------------------------------------------
def regression(W):
    """fixed regression corpus (runs first): the forms whose defects were found by this check and repaired in /repo -
    unary minus on Unsigned (825f8bb), a negative int next to an Unsigned in + - and comparisons (3a94e11), a run-time index
    that is itself computed, for vectors and arrays, concurrent and clocked (6279104)"""
    out = []
    for w in (1, 3):
        U = ("u", w)
        a = lambda: P(f"a{w}", U)
        x = a()
        out.append(("reg", Node(U, f"(-{x.py})", f"(XUn NNeg {x.cq})", [x], tag=f"neg:u{w}", key="neg:u")))
        x, y = a(), P(f"b{w}", U)
        ng = Node(U, f"(-{x.py})", f"(XUn NNeg {x.cq})", [x], tag=f"neg:u{w}", key="neg:u")
        out.append(("reg", Node(U, f"({ng.py} + {y.py})", f"(XBin BAdd {ng.cq} {y.cq})", [ng, y], tag=f"add:u{w},u{w}", key="add:u,u")))
        for z in (-1, -2, -(1 << w)):
            for nm, sym, B in (("add", "+", "BAdd"), ("sub", "-", "BSub")):
                for left in (False, True):
                    x, i = a(), int_lit(z)
                    l, r_ = (i, x) if left else (x, i)
                    out.append(("reg", Node(U, f"({l.py} {sym} {r_.py})", f"(XBin {B} {l.cq} {r_.cq})", [l, r_],
                                            tag=f"{nm}:" + (f"negint,u{w}" if left else f"u{w},negint"), key=f"{nm}:u,negative_int")))
            for sym, C in Gen.CMPS:
                for left in (False, True):
                    x, i = a(), int_lit(z)
                    l, r_ = (i, x) if left else (x, i)
                    out.append(("reg", Node(("bool", 1), f"({l.py} {sym} {r_.py})", f"(XCmp {C} {l.cq} {r_.cq})", [l, r_],
                                            tag=f"{C[1:].lower()}:" + (f"negint,u{w}" if left else f"u{w},negint"), key="cmp:u,negative_int")))
    # computed run-time index: vectors of every kind, an array; the index stays in range (>> 1) or may leave it (+ 1: clocked)
    for k, nm in (("u", "a"), ("s", "s"), ("bv", "v")):
        for form, cqf, risky in (("({} >> 1)", "(XBin BShr {} (XConst KInt 0%N 1%Z))", False), ("({} + 1)", "(XBin BAdd {} (XConst KInt 0%N 1%Z))", True)):
            v, b = P(f"{nm}3", (k, 3)), P("b2", ("u", 2))
            idx = Node(("u", 2), form.format(b.py), cqf.format(b.cq), [b, int_lit(1)], tag="index_expr", key="index_expr")
            nd = Node(("bit", 1), f"{v.py}[{idx.py}]", f"(XIdx {v.cq} {idx.cq})", [v, idx], tag=f"index:{k}3[computed u2]", key="index_runtime:computed_index",
                      dims={"runtime_index"})
            nd.risk = risky
            out.append(("reg", nd))
            if not risky:
                v, b = P(f"{nm}3", (k, 3)), P("b2", ("u", 2))
                idx = Node(("u", 2), form.format(b.py), cqf.format(b.cq), [b, int_lit(1)], tag="index_expr", key="index_expr")
                nd = Node(("bit", 1), f"{v.py}[{idx.py}]", f"(XIdx {v.cq} {idx.cq})", [v, idx], tag=f"index:{k}3[computed u2]/clocked", key="index_runtime:computed_index",
                          dims={"runtime_index", "force_clocked"})
                out.append(("reg", nd))
    # nested constant slices: two and three levels with non-zero lower bounds (every level adds its offset), index at the end
    for k, nm in (("bv", "v"), ("u", "a"), ("s", "s")):
        for chain in ([(7, 2), (4, 1)], [(7, 2), (4, 1), (2, 1)], [(6, 1), (5, 2), (3, 2)], [(7, 3), (4, 2), (1, 1)], [(7, 1), (6, 1), (5, 1), (3, 2)]):
            x = P(f"{nm}8", (k, 8))
            nd, py, cq = x, x.py, x.cq
            for hi_, lo_ in chain:
                py, cq = f"{py}[{hi_}:{lo_}]", f"(XSlice {cq} {hi_}%N {lo_}%N)"
            w_ = chain[-1][0] - chain[-1][1] + 1
            out.append(("reg", Node(("bv", w_), py, cq, [x], tag=f"slice:{k}8" + "".join(f"[{h}:{l}]" for h, l in chain), key=f"slice_nested{len(chain)}:{k}")))
            out.append(("reg", Node(("bit", 1), f"{py}[{w_ - 1}]", f"(XIdxC {cq} {w_ - 1}%N)", [x], tag=f"index:{k}8" + "".join(f"[{h}:{l}]" for h, l in chain) + f"[{w_ - 1}]",
                                    key=f"index_nested{len(chain)}:{k}")))
    U = ("u", 3)
    for clocked in (False, True):
        b = P("b2", ("u", 2))
        idx = Node(("u", 2), f"({b.py} >> 1)", f"(XBin BShr {b.cq} (XConst KInt 0%N 1%Z))", [b, int_lit(1)], tag="index_expr", key="index_expr")
        e0, e1 = P("a3", U), P("a3", U)
        e1 = Node(U, f"(~{e1.py})", f"(XUn NInv {e1.cq})", [e1], tag="invert:u3", key="invert:u")
        name = "arrk" if clocked else "arrc"
        out.append(("reg", Node(U, f"{name}[{idx.py}]", f"(XIdx (XArr [{e0.cq}; {e1.cq}]) {idx.cq})", [e0, e1, idx], tag="array_read:computed_index", key="array_read:computed_index",
                                pre=[(name, pyty(U), 2, (e0.py, e1.py))], dims={"array"} | ({"force_clocked"} if clocked else set()))))
    return out


def candidates(W):
    """forms the compiler accepts (or rejects) against the documented semantics; each carries the CLASS under which a violation
    is reported (operand details are in the replay)"""
    out = []
    w = 3 if 3 in W else W[-1]
    U, S = ("u", w), ("s", w)
    a = lambda: P(f"a{w}", U)
    s = lambda: P(f"s{w}", S)
    big = (1 << w) + 1
    for left in (False, True):
        x, i = a(), int_lit(big)
        l, r_ = (i, x) if left else (x, i)
        out.append(Node(("u", 2 * w), f"({l.py} * {r_.py})", f"(XBin BMul {l.cq} {r_.cq})", [l, r_], tag=f"mul:u{w},bigint", key="mul:u,int_out_of_range", dims={"class:mul_int_factor_out_of_vector_range"}))
        x, i = s(), int_lit(big)
        l, r_ = (i, x) if left else (x, i)
        out.append(Node(("s", 2 * w), f"({l.py} * {r_.py})", f"(XBin BMul {l.cq} {r_.cq})", [l, r_], tag=f"mul:s{w},bigint", key="mul:s,int_out_of_range", dims={"class:mul_int_factor_out_of_vector_range"}))
    x, i = a(), int_lit(big)
    out.append(Node(U, f"({x.py} + {i.py})", f"(XBin BAdd {x.cq} {i.cq})", [x, i], tag=f"add:u{w},bigint", key="add:u,int_out_of_range"))
    x, i = s(), int_lit(big)
    out.append(Node(S, f"({x.py} - {i.py})", f"(XBin BSub {x.cq} {i.cq})", [x, i], tag=f"sub:s{w},bigint", key="sub:s,int_out_of_range"))
    for nm, B, f in (("mod", "BMod", "({} % {})"), ("rem", "BRem", "op.rem({}, {})"), ("div", "BTruncDiv", "op.truncdiv({}, {})")):
        x, i = s(), int_lit(big)
        out.append(Node(S, f.format(x.py, i.py), f"(XBin {B} {x.cq} {i.cq})", [x, i], tag=f"{nm}:s{w},bigint", key=f"{nm}:s,int_out_of_range"))
        x, i = a(), int_lit(big)
        out.append(Node(U, f.format(x.py, i.py), f"(XBin {B} {x.cq} {i.cq})", [x, i], tag=f"{nm}:u{w},bigint", key=f"{nm}:u,int_out_of_range"))
    # if-expression / select_with whose alternatives have different widths: at the root and as an operand
    wn = W[0]
    for first_narrow in (True, False):
        c, x, y = P("x", ("bit", 1)), P(f"b{wn}", ("u", wn)), a()
        l, r_ = (x, y) if first_narrow else (y, x)
        out.append(Node(U, f"({l.py} if {c.py} else {r_.py})", f"(XIte {c.cq} {l.cq} {r_.cq})", [c, l, r_], tag=f"ite:bit?{tname(l.ty)}:{tname(r_.ty)}",
                        key="ite:u(mixed_width)"))
        c, x, y = P("x", ("bit", 1)), P(f"b{wn}", ("u", wn)), a()
        l, r_ = (x, y) if first_narrow else (y, x)
        ite2 = Node(U, f"({l.py} if {c.py} else {r_.py})", f"(XIte {c.cq} {l.cq} {r_.cq})", [c, l, r_], tag=f"ite:bit?{tname(l.ty)}:{tname(r_.ty)}", key="ite:u(mixed_width)")
        one = int_lit(1)
        out.append(Node(U, f"({ite2.py} + {one.py})", f"(XBin BAdd {ite2.cq} {one.cq})", [ite2, one], tag="add:ite(mixed_width),int", key="operand:ite(mixed_width)", dims={"promised", "class:mixed_width_merge_as_operand"}))
    c, x, y = P("x", ("bit", 1)), P(f"b{wn}", ("u", wn)), a()
    sel = Node(U, f"cohdl.select_with({c.py}, {{Bit(False): {y.py}, Bit(True): {x.py}}})", f"(XSel {c.cq} [(0%Z, {y.cq}); (1%Z, {x.cq})] None)", [c, y, x],
               tag="select_with:bit->u(mixed_width)", key="select_with:u(mixed_width)")
    out.append(sel)
    c, x, y = P("x", ("bit", 1)), P(f"b{wn}", ("u", wn)), a()
    sel2 = Node(U, f"cohdl.select_with({c.py}, {{Bit(False): {y.py}, Bit(True): {x.py}}})", f"(XSel {c.cq} [(0%Z, {y.cq}); (1%Z, {x.cq})] None)", [c, y, x],
                tag="select_with:bit->u(mixed_width)", key="select_with:u(mixed_width)")
    out.append(Node(("bv", w), f"(~{sel2.py}).bitvector", f"(XView VwBV (XUn NInv {sel2.cq}))", [sel2], tag="invert:select(mixed_width)", key="operand:select_with(mixed_width)", dims={"promised", "class:mixed_width_merge_as_operand"}))
    return out


# ----------------------------------------------------------------------------
# designs
# ----------------------------------------------------------------------------
CORNER_SAMPLE = 3


def port_order(ports):
    return sorted(ports)


ALPHA_LIMIT = 144     # the explorer visits |alphabet|^2 transitions (the settled state of the design stores the inputs)


def cand_values(name, t, cons, reduced, rng):
    """candidate values of one input port: all values, or (reduced) corner values + a sample"""
    k, w = t
    if k in ("bit", "bool"):
        return [0, 1]
    if k == "int":
        lo, hi = INT_PORTS[name]
        if name in cons:
            lo, hi = max(lo, cons[name][0]), min(hi, cons[name][1])
        vals = list(range(lo, hi + 1))
        return vals if not reduced or len(vals) <= 2 else sorted({lo, hi})
    if not reduced:
        return list(range(1 << w))
    vals = {0, (1 << w) - 1}
    if w >= 4:
        vals |= {1, (1 << (w - 1)) - 1, 1 << (w - 1), (1 << w) - 2}
        while len(vals) < 6 + CORNER_SAMPLE:
            vals.add(rng.randrange(1 << w))
    elif w >= 2:
        vals.add(rng.randrange(1, (1 << w) - 1))
    return sorted(vals)


def coq_cands(t, vals):
    k, w = t
    if k == "bit":
        return "[" + "; ".join(f"VL {R.coq_bool(bool(v))}" for v in vals) + "]"
    if k == "bool":
        return "[" + "; ".join(f"VB {R.coq_bool(bool(v))}" for v in vals) + "]"
    if k == "int":
        return "[" + "; ".join(f"VI {cz(z)}" for z in vals) + "]"
    K = {"u": "KUns", "s": "KSgn", "bv": "KSlv"}[k]
    if len(vals) == 1 << w:
        return f"(vec_cands {K} {w}%N)"
    return "[" + "; ".join(f"VV {K} {w}%N {z}%Z" for z in vals) + "]"


class Design:
    def __init__(self, name, nodes, clocked):
        self.name = name
        self.nodes = nodes
        self.clocked = clocked
        self.ports = {}
        self.cons = {}
        for n in nodes:
            self.ports.update(n.ports)
            for p, (lo, hi) in n.cons.items():
                a, b = self.cons.get(p, (-10 ** 9, 10 ** 9))
                self.cons[p] = (max(a, lo), min(b, hi))
        self.order = port_order(self.ports)

    def source(self):
        src = [HEADER, "class E(cohdl.Entity):"]
        if self.clocked:
            src.append("    clk = Port.input(Bit)")
        for p in self.order:
            src.append(f"    {p} = Port.input({pyty(self.ports[p])})")
        for i, n in enumerate(self.nodes):
            src.append(f"    o{i} = Port.output({pyty(n.ty)})")
        src += ["", "    def architecture(self):"]
        pres = []
        for n in self.nodes:
            pres += [x for x in n.pre if x not in pres]
        for name, ety, cnt, elems in pres:
            src.append(f"        {name} = Signal[Array[{ety}, {cnt}]]()")
        if pres:
            src += ["        @std.concurrent", "        def drive_arrays():"]
            for name, ety, cnt, elems in pres:
                for j, e in enumerate(elems):
                    src.append(f"            {name}[{j}] <<= {e}")
        if self.clocked:
            src += ["        @std.sequential(std.Clock(self.clk))", "        def proc():"]
        else:
            src += ["        @std.concurrent", "        def proc():"]
        for i, n in enumerate(self.nodes):
            src.append(f"            self.o{i} <<= {n.py}")
        return "\n".join(src) + "\n"

    def coq_defs(self):
        ix = {p: i for i, p in enumerate(self.order)}
        its = "[" + "; ".join(cty(self.ports[p]) for p in self.order) + "]"
        es = []
        for n in self.nodes:
            es.append(re.sub(r"@(\w+)@", lambda m: str(ix[m.group(1)]), n.cq))
        return f"Definition its : list ty := {its}.\nDefinition es : list texp := [\n  " + ";\n  ".join(es) + "]."

    def alphabet(self, wide, rng):
        reduced = {p for p in self.order if self.ports[p][0] in ("u", "s", "bv") and self.ports[p][1] in wide}
        while True:
            vals = {p: cand_values(p, self.ports[p], self.cons, p in reduced, rng) for p in self.order}
            size = 1
            for p in self.order:
                size *= len(vals[p])
            rest = [p for p in self.order if p not in reduced and len(vals[p]) > 2]
            if size <= ALPHA_LIMIT or not rest:
                break
            reduced.add(max(rest, key=lambda p: len(vals[p])))
        self.sampled = sorted(reduced)
        return "product [" + "; ".join(coq_cands(self.ports[p], vals[p]) for p in self.order) + "]", size

    def meta(self):
        return {"clocked": self.clocked, "sampled_ports": getattr(self, "sampled", []), "exprs": [n.py for n in self.nodes], "types": [tname(n.ty) for n in self.nodes],
                "tags": [n.tag for n in self.nodes], "source": self.source()}


def bundle(items, rng, wide=()):
    """items: [(group, node)] -> lists of nodes sharing a design: same port set, same context kind; a division (whose undefined
    valuations are excluded for the whole design) only shares a design with divisions by the same divisor"""
    groups = {}
    for g, n in items:
        divs = tuple(sorted({k.kids[1].py for k in walk(n) if k.tag.split(":")[0] in ("div", "mod", "rem") and len(k.kids) == 2
                             and k.kids[1].ports}))
        key = (tuple(sorted(n.ports.items())), n.risk, divs)
        groups.setdefault(key, []).append(n)
    # merge the division-free groups into port universes of at most MERGE_BITS input bits (first fit, widest first)
    merged = []
    for key, ns in sorted(groups.items(), key=lambda kv: -alpha_bits(dict(kv[0][0]), wide)):
        for m in merged:
            if (m[0][1], m[0][2]) != (key[1], key[2]):
                continue
            ports = dict(m[1])
            ports.update(dict(key[0]))
            if alpha_bits(ports, wide) <= MERGE_BITS and len(m[2]) + len(ns) <= 60:
                m[1] = ports
                m[2] += ns
                break
        else:
            merged.append([key, dict(key[0]), list(ns)])
    out = []
    for key, ports, ns in merged:
        bits = alpha_bits(ports, wide)
        per = 64
        for i in range(0, len(ns), per):
            out.append((key, ns[i:i + per]))
    return out


MERGE_BITS = 7.0


def walk(n):
    yield n
    for k in n.kids:
        yield from walk(k)


# ----------------------------------------------------------------------------
# running
# ----------------------------------------------------------------------------
def make_case(ck, d: Design, vhdl, wide):
    alpha, size = d.alphabet(wide, ck.rng)
    c = X.Case(d.name, vhdl, step="exprs_step its es", init="[]", defs=d.coq_defs(), assume="exprs_defined its es",
               imports="From Cohdl Require Import Models.ExprRef.", clk="clk" if d.clocked else None, alphabet=alpha,
               meta=d.meta(), fuel=200000)
    c.alpha_size = size
    c.design_obj = d
    return c


def prove(ck, cases, count_first=2):
    """write + prove; returns [(case, status, info)] with status ok | unparsed | failed (no reporting).  The case file of a
    single-expression design also prints the verdict of a breadth-first search and both traces on its counter-example, so a
    failure needs no second Coq run."""
    ready, res = [], []
    for i, c in enumerate(cases):
        ck.evaluations += len(c.design_obj.nodes)      # one evaluation per expression (a design bundles several)
        single = len(c.design_obj.nodes) == 1
        c.count = i < count_first and not single
        try:
            X.write_case(ck, c)
            src = open(c.path).read()
            k = src.index("Theorem case_ok")
            extra = X.DIAG_TMPL.format(mid="false", fuel=c.fuel) if single else bad_positions_cmd()
            with open(c.path, "w") as f:
                f.write(src[:k] + extra + src[k:])
            ready.append(c)
        except R.Unparsed as e:
            res.append((c, "unparsed", {"log": str(e)}))
        except KeyError as e:
            res.append((c, "unparsed", {"log": "unresolved identifier " + str(e)}))
    outs = common.coqc_many([c.path for c in ready], timeout=2400)
    for c, (rc, out, err) in zip(ready, outs):
        os_ = common.coq_outputs(out)
        verdicts = [(i, o) for i, o in enumerate(os_) if o.startswith(("VOk", "VCex", "VFuel"))]
        info = {}
        if rc == 0:
            st = "ok"
            nums = [0, 0]
            for _, o in verdicts:
                if o.startswith("VOk"):
                    nums = [int(x) for x in o.replace("%N", "").split()[1:3]]
            info = {"states": nums[0], "transitions": nums[1]}
        else:
            st = "failed"
            info = {"log": (out + err)[-1500:]}
            for o in os_:
                if o.startswith("BadPos"):
                    info["bad_pos"] = [int(x) for x in re.findall(r"\d+", o.replace("%nat", ""))]
            for i, o in verdicts:
                if o.startswith("VCex"):
                    info = {"diag": "cex", "path": o, "traces": os_[i + 1] if i + 1 < len(os_) else ""}
                    break
                if o.startswith("VFuel"):
                    info = {"diag": "fuel"}
        res.append((c, st, info))
    return res


ERR_RE = re.compile(r"Err (E\w+)")


def bad_positions_cmd():
    """for a design with several outputs: the output positions that differ from the documented value on some admitted
    valuation applied to the powered-up design (one step; a diagnosis aid only - the theorem is what is proved)"""
    m = re.search(r"traceA \((\w+) d \{mid\}\) \((\w+) d\)", X.DIAG_TMPL)
    step, pup = (m.group(1), m.group(2)) if m else ("sstep", "power_up_s")
    return f"""Inductive badpos := BadPos (l : list nat).
Fixpoint mismatch (k : nat) (a b : list value) : list nat :=
  match a, b with
  | x :: r, y :: r' => (if value_eqb x y then [] else [k]) ++ mismatch (S k) r r'
  | [], [] => []
  | _, _ => [999]
  end.
Eval vm_compute in (BadPos (nodup Nat.eq_dec (flat_map (fun i =>
  match snd ({step} d false ({pup} d) i), snd (stepB initB i) with
  | Ok a, Ok b => mismatch 0 a b
  | Err _, Err _ => []
  | _, _ => [999]
  end) (filter (assume initB) alphabet)))).
"""



def run(ck: common.Check, replay=None):
    ck.check_props("C02_Properties.v")
    thorough = ck.tier != "quick"
    W = [1, 2, 3] if not thorough else [1, 2, 3, 4, 7, 8]
    wide = {7, 8} if thorough else set()
    rng = ck.rng
    max_depth = 3 if not thorough else 4
    designs = []
    if replay is not None:
        m = replay["meta"]
        nd = Node(tuple(m["ty"]), m["py"], m["cq"], ports={k: tuple(v) for k, v in m["ports"].items()}, cons={k: tuple(v) for k, v in m.get("cons", {}).items()},
                  pre=[tuple(x[:3]) + (tuple(x[3]),) for x in m.get("pre", [])], tag=m["tag"], key=m["key"])
        designs.append(Design("replay", [nd], m["clocked"]))
        singles_only = True
    else:
        singles_only = False
        # the fixed regression corpus runs first, on its own
        regs = []
        for j, (g, ns) in enumerate(bundle(regression(W), rng, wide)):
            conc = [n for n in ns if "force_clocked" not in n.dims and not n.risk]
            clk = [n for n in ns if "force_clocked" in n.dims or n.risk]
            if conc:
                regs.append(Design(f"reg{j:03d}", conc, False))
            if clk:
                regs.append(Design(f"reg{j:03d}c", clk, True))
        if not os.environ.get("C02_PHASES") or "reg" in os.environ.get("C02_PHASES", ""):
            run_designs(ck, regs, wide)
        ck.cov["regression_designs"] = len(regs)
        ck.cov["regression_expressions"] = sum(len(d.nodes) for d in regs)
        sysW = W if not thorough else [1, 2, 3, 4]
        k = 0
        for g, ns in bundle(systematic(sysW, rng, thorough), rng, wide):
            clocked = any(n.risk for n in ns)
            designs.append(Design(f"sys{k:04d}", ns, clocked))
            k += 1
            # a clocked twin for a sample of the concurrent groups
            if not clocked and rng.random() < (0.1 if not thorough else 0.3) and not any("enum" in n_.dims for n_ in ns):
                designs.append(Design(f"sys{k:04d}c", ns, True))
                k += 1
        if thorough:
            # wide operands (7, 8 bits): restricted alphabets (corner values + a sample)
            for g, ns in bundle([(g, n) for g, n in systematic([7, 8], rng, False)
                                 if not any(t in g for t in ("arith_int:", "unary:", "bv:"))], rng, wide):
                designs.append(Design(f"wide{k:04d}", ns, any(n.risk for n in ns)))
                k += 1
        for j, (g, ns) in enumerate(bundle([("cand", nd) for nd in candidates(W if not thorough else [1, 2, 3])], rng, wide)):
            designs.append(Design(f"cand{j:03d}", ns, False))
        # random trees: a port universe (<= ~7 input bits) per pack, several trees per design
        npacks = 14 if not thorough else 150
        per_pack = 9 if not thorough else 10
        G = Gen(rng, W, max_bits=7.2, wide=wide)
        roots = [("bool", 1), ("bit", 1), ("int", 0)] + [(kk, w) for kk in ("u", "s", "bv") for w in sorted(set(W) | {4, 5, 6} if not thorough else set(W) | {5, 6})]
        for j in range(npacks):
            uni = random_universe(rng, W, wide)
            G.universe = uni
            safe, risky = [], []
            for _ in range(per_pack):
                t = rng.choice(roots)
                d = rng.choice([2, 3, 3] if not thorough else [2, 3, 4, 4])
                nd = None
                for _try in range(20):
                    G.reset()
                    nd = G.gen(t, d)
                    if nd.kids and nd.ports and all(lo <= hi for lo, hi in nd.cons.values()):
                        break
                    nd = None
                if nd is None or (nd.risk and "enum" in nd.dims):
                    continue
                (risky if nd.risk else safe).append(nd)
            if safe:
                designs.append(Design(f"tree{j:04d}", safe, rng.random() < 0.25 and not any("enum" in n_.dims for n_ in safe)))
            for i in range(0, len(risky), 3):
                designs.append(Design(f"tree{j:04d}r{i}", risky[i:i + 3], True))
    ph = os.environ.get("C02_PHASES")
    if ph and replay is None:
        designs = [d for d in designs if any(d.name.startswith(x) for x in ph.split(","))]
    tg = os.environ.get("C02_TAG")
    if tg and replay is None:
        # debugging aid: only the expressions whose operator tag matches
        keep = []
        for d in designs:
            ns = [n for n in d.nodes if any(re.search(tg, t_) for t_ in n.all_tags())]
            if ns:
                keep.append(Design(d.name, ns, d.clocked))
        designs = keep
    lim = int(os.environ.get("C02_LIMIT", "0") or 0)
    if lim and replay is None:
        designs = designs[::max(1, len(designs) // lim)][:lim]
    run_designs(ck, designs, wide, singles_only)
    ck.cov["widths"] = W
    ck.cov["max_depth"] = max_depth
    ck.cov["rule"] = ("expressions = systematic operator x operand-type x width pairs (leaf operands, int operands either side) + isolated "
                      "candidate forms + seeded random well-typed trees; several expressions over the same ports share a design; each accepted "
                      "design is one theorem over ALL input sequences of its alphabet (all operand valuations; for 7/8-bit ports corner values "
                      "+ 3 sampled values); distinct by design name; rejected expressions are counted, see 'rejected'")
    ck.cov["exhaustive"] = False
    ck.trusted += ["fail-closed VHDL reader", "Vhdl.Sem / Vhdl.NumStd (two-valued numeric_std)",
                   "Models/ExprRef.v as the rendering of the documented semantics", "generator -> source / term printer (harness/c02.py)"]
    ck.assumptions += ["expression trees sampled (systematic pairs + random trees); operand VALUES exhaustive at widths <= 4, corner+sample at 7/8",
                       "valuations where a sub-expression is undefined (division by zero, index out of range) are excluded (exprs_defined)",
                       "int operands next to a vector are representable at the vector's width (out-of-range ints are the isolated candidates)",
                       "concurrent designs with a division use a divisor that is non-zero at power-up (all inputs zero); plain divisors are checked in clocked designs"]


def random_universe(rng, W, wide):
    """a few input ports of mixed types whose valuations can be enumerated (|alphabet|^2 transitions are explored)"""
    uni = {}
    pool = [("x", ("bit", 1)), ("y", ("bit", 1)), ("p", ("bool", 1)), ("q", ("bool", 1)), ("n", ("int", 0)), ("m", ("int", 0))]
    for k, names in (("u", "ab"), ("s", "st"), ("bv", "vw")):
        for w in W:
            for nm in names:
                pool.append((f"{nm}{w}", (k, w)))
    rng.shuffle(pool)
    # at least one numeric vector
    first = next(x for x in pool if x[1][0] in ("u", "s"))
    uni[first[0]] = first[1]
    for nm, t in pool:
        if nm in uni:
            continue
        trial = dict(uni)
        trial[nm] = t
        if alpha_bits(trial, wide) <= 7.2:
            uni = trial
        if len(uni) >= 4:
            break
    return uni


def alpha_bits(ports, wide):
    b = 0.0
    for n, t in ports.items():
        if t[0] == "int":
            b += 2.4
        elif t[0] in ("bit", "bool"):
            b += 1
        else:
            b += 3.2 if t[1] in wide else t[1]
    return b


def vkey(n, outcome):
    """violation key: ONE class per defect (a known-finding entry {"class": ...} covers exactly it)"""
    for dm in sorted(n.dims):
        if dm.startswith("class:"):
            return {"class": dm[6:]}
    return {"class": f"{n.key}/{outcome}"}


def node_meta(n, clocked):
    return {"ty": list(n.ty), "py": n.py, "cq": n.cq, "ports": {k: list(v) for k, v in n.ports.items()}, "cons": {k: list(v) for k, v in n.cons.items()},
            "pre": [list(x) for x in n.pre], "tag": n.tag, "key": n.key, "clocked": clocked}


PROMISED_REJECT = re.compile(r"^(add|sub|mul|div|mod|rem|bitwise|invert|neg|abs|shl|shr|concat|cmp|chain|index|slice|view|resize|ite|select_with|any|all|bool_|not|array_read|operand)")


def run_designs(ck, designs, wide, singles_only=False):
    level = 0
    pending = designs
    seen_fail = set()
    while pending and level < 7:
        res = X.compile_designs(ck, [{"name": d.name, "source": d.source(), "entity": "E"} for d in pending])
        cases, nxt = [], []
        for d, r in zip(pending, res):
            if not r["ok"]:
                if len(d.nodes) > 1:
                    nxt += [Design(f"{d.name}_{i}", [n], d.clocked) for i, n in enumerate(d.nodes)]
                    continue
                n = d.nodes[0]
                ck.evaluations += 1
                ck.hist("rejected", f"{n.key} | {r.get('error_type')}: {r['error'][:60]}")
                bad_kids = [k for k in n.kids if k.kids and k.ty[0] != "enum"]
                if bad_kids and level < 6:
                    # reduce: is a sub-expression rejected on its own?
                    nxt += [Design(f"{d.name}k{i}", [k], d.clocked) for i, k in enumerate(bad_kids)]
                    d.nodes[0].dims.add("reject_reduced")
                ex = ck.cov.setdefault("rejected_examples", [])
                if len(ex) < 40 and not any(e_["op"] == n.key and e_["error"][:40] == r["error"][:40] for e_ in ex):
                    ex.append({"op": n.key, "expr": n.py, "type": tname(n.ty), "error": (r.get("error_type") or "") + ": " + r["error"][:160]})
                # not part of the promise (a compile error, no logic is emitted): a tree without any run-time operand
                # (constant folding is property C09's), and a CONSTANT vector object next to a run-time Integer
                # (`Signed[8](-80) >= self.n`: uniformly not implemented for comparisons and arithmetic alike, while
                # `self.s >= self.n` and `-80 >= self.n` are; recorded under coverage.over_rejected_outside_promise)
                leaves = [x for x in walk(n) if not x.kids]
                no_runtime = not any("XIn" in x.cq for x in leaves)
                const_vec_with_rt_int = (any(x.cq.startswith("(XConst") and x.ty[0] in ("u", "s", "bv") for x in n.kids)
                                         and any("XIn" in x.cq and x.ty[0] == "int" for x in n.kids))
                if not n.kids:      # a replayed node carries its term only
                    no_runtime = "(XIn" not in n.cq
                    const_vec_with_rt_int = (re.search(r"\(XConst K(S|U|BV) ", n.cq) is not None and "(Ty KInt" in n.cq
                                             and re.search(r"\(XIn @\w+@ \(Ty K(U|S|BV)", n.cq) is None)
                if no_runtime or const_vec_with_rt_int:
                    ck.hist("over_rejected_outside_promise", ("constant-only tree: " if no_runtime else "constant vector with run-time Integer: ") + n.key)
                    continue
                if (n.key, "rej") not in seen_fail and PROMISED_REJECT.match(n.key) and (not any(k.kids for k in n.kids) or "promised" in n.dims):
                    seen_fail.add((n.key, "rej"))
                    ck.obligation(False)
                    ck.violation(vkey(n, "rejected"),
                                 "a well-typed expression over supported operators / operand types is rejected at compile time: "
                                 + f"{n.py} : {tname(n.ty)} ({r.get('error_type')}: {r['error'][:120]})",
                                 {"meta": node_meta(n, d.clocked), "source": d.source(), "expr": n.py, "type": tname(n.ty), "op": n.key, "outcome": "rejected",
                                  "error": r["error"], "trace": r.get("trace")})
                continue
            cases.append(make_case(ck, d, r["vhdl"], wide))
        results = prove(ck, cases)
        # the printed expression of every in-grammar tree = Models/ExprEmit.emit of the tree (syntactic tie)
        c02_emit.run_extra(ck, [(c.design_obj, c.vhdl, st) for c, st, info in results])
        for c, st, info in results:
            d = c.design_obj
            if st == "ok":
                ck.obligation(True)
                ck.nontrivial(c.name)
                ck.count("programs")
                ck.count("expressions", len(d.nodes))
                ck.count("states", info.get("states", 0))
                ck.count("transitions", info.get("transitions", 0))
                ck.count("valuations", c.alpha_size)
                if d.sampled:
                    ck.count("designs_with_sampled_alphabet")
                ck.hist("context", "clocked" if d.clocked else "concurrent")
                for n in d.nodes:
                    for tg in n.all_tags():
                        ck.hist("ops", tg.split(":")[0])
                    ck.hist("root_type", tname(n.ty))
                    ck.hist("depth", n.depth)
                    for dm in n.dims:
                        ck.hist("dims", dm)
                    ck.distinct.add("pair:" + n.tag)
                ck.sample({"case": c.name, "exprs": [n.py for n in d.nodes][:4], "alphabet": c.alpha_size, "transitions": info.get("transitions")}, limit=5)
                common._cleanup_v(c.path)
                continue
            if len(d.nodes) > 1:
                bp = info.get("bad_pos")
                if bp and all(i < len(d.nodes) for i in bp) and not getattr(d, "refined", False):
                    # only the outputs that differ become single-expression designs; the others stay together
                    nxt += [Design(f"{d.name}_{i}", [d.nodes[i]], d.clocked) for i in bp]
                    rest = Design(f"{d.name}_rest", [n for i, n in enumerate(d.nodes) if i not in bp], d.clocked)
                    rest.refined = True
                    if rest.nodes:
                        nxt.append(rest)
                else:
                    nxt += [Design(f"{d.name}_{i}", [n], d.clocked) for i, n in enumerate(d.nodes)]
                continue
            n = d.nodes[0]
            d.failed = True
            d.kid_designs = []
            kids = [k for k in n.kids if k.kids and k.ty[0] != "enum"]
            if kids and level < 6 and ("red", n.py) not in seen_fail:
                # reduce: do the sub-expressions fail on their own?
                seen_fail.add(("red", n.py))
                d.kid_designs = [Design(f"{d.name}k{i}", [k], d.clocked or k.risk) for i, k in enumerate(kids)]
                nxt += d.kid_designs
            deferred.append((d, c, st, info))
        pending = nxt
        level += 1
    # a failing expression none of whose sub-expressions fails on its own is minimal: report it
    for d, c, st, info in deferred:
        if not any(getattr(kd, "failed", False) for kd in d.kid_designs):
            report(ck, c, st, info)
    del deferred[:]


deferred = []


def report(ck, c, st, info):
    d = c.design_obj
    n = d.nodes[0]
    ck.obligation(False)
    rep = {"case": c.name, "meta": node_meta(n, d.clocked), "source": d.source(), "vhdl": c.vhdl, "case_file": c.path, "expr": n.py, "type": tname(n.ty), "op": n.key}
    if st == "unparsed":
        ck.violation(vkey(n, "unparsed"), "emitted VHDL left the parsed subset: " + info.get("log", ""), rep, no_input=True)
        return
    st2 = info.get("diag", "error")
    info2 = {k: v for k, v in info.items() if k != "diag"}
    rep.update(info2)
    rep["status"] = st2
    emitted = [l.strip() for l in c.vhdl.split("\n") if "<=" in l or ":=" in l]
    rep["emitted"] = emitted[-8:]
    if st2 == "cex":
        m = ERR_RE.search(info2.get("traces", ""))
        if m:
            kind = m.group(1)
            what = {"ETypeError": "the emitted text is ill-typed VHDL (operator / function not defined for these operand types)",
                    "EWidth": "the emitted text assigns vectors of different length",
                    "ERange": "the emitted operation violates a range constraint of numeric_std (natural / index) for a value the documented semantics defines",
                    "EDivZero": "division by zero outside the excluded valuations"}.get(kind, "the emitted design fails at run time: " + kind)
            ck.violation(vkey(n, kind), f"{n.py} : {tname(n.ty)} - {what}", rep)
        else:
            ck.violation(vkey(n, "wrong_value"),
                         f"{n.py} : {tname(n.ty)} - emitted logic and documented value differ on an operand valuation", rep)
    else:
        ck.violation(vkey(n, st2), "case obligation not discharged (%s)" % st2, rep, no_input=True)
